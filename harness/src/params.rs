//! Handler parameters chosen at run time. Each `DynParam` wraps one *typed* evenio `HandlerParam`
//! (`Fetcher<Q>`, `Single<Q>`, `Receiver<E, Q>`, `Sender<E>`, …) and drives it through the public
//! `HandlerParam::{init, get, refresh_archetype, remove_archetype}` interface, exactly like
//! `FunctionHandler` does for a parameter tuple.
use core::marker::PhantomData;
use std::mem::transmute;

use evenio::archetype::Archetype;
use evenio::component::{AddComponent, RemoveComponent};
use evenio::entity::{Entities, EntityLocation};
use evenio::event::{
    AddGlobalEvent, AddTargetedEvent, Event, EventMut, EventPtr, GlobalEvent, ReceiverMut, RemoveGlobalEvent,
    RemoveTargetedEvent, TargetedEvent,
};
use evenio::fetch::{GetError, GetManyMutError, Single, TrySingle};
use evenio::handler::{AddHandler, HandlerConfig, HandlerInfo, HandlerParam, InitError, RemoveHandler};
use evenio::mutability::Mutable;
use evenio::prelude::*;
use evenio::query::{Has, Not, Or, Query, With, Xor};
use evenio::world::UnsafeWorldCell;

use crate::types::*;

// ---- rendering of query items -----------------------------------------------------------------

pub trait Describe: Query {
    fn describe(item: Self::This<'_>) -> String;
    /// add one to everything reachable through a mutable reference
    fn bump(item: Self::This<'_>);
}

macro_rules! describe_comp {
    ($($K:ident),*) => {$(
        impl Describe for &'static $K {
            fn describe(i: &$K) -> String {
                check_aligned(i);
                format!("r{}={}", <$K as Comp>::TY, i.val())
            }
            fn bump(_: &$K) {}
        }
        impl Describe for &'static mut $K {
            fn describe(i: &mut $K) -> String {
                check_aligned(i);
                format!("m{}={}", <$K as Comp>::TY, i.val())
            }
            fn bump(i: &mut $K) { Comp::bump(i) }
        }
    )*};
}
describe_comp!(K0, K1, K2, K3, K4, K5);

fn check_aligned<T>(r: &T) {
    if (r as *const T as usize) % core::mem::align_of::<T>() != 0 {
        trace(" MISALIGNED-REFERENCE".into());
    }
}

impl Describe for EntityId {
    fn describe(i: EntityId) -> String { ord_of(i) }
    fn bump(_: EntityId) {}
}
impl Describe for PhantomData<()> {
    fn describe(_: PhantomData<()>) -> String { "_".into() }
    fn bump(_: PhantomData<()>) {}
}
impl<Q: Describe> Describe for Option<Q> {
    fn describe(i: Option<Q::This<'_>>) -> String {
        match i { Some(x) => format!("S({})", Q::describe(x)), None => "N".into() }
    }
    fn bump(i: Option<Q::This<'_>>) { if let Some(x) = i { Q::bump(x) } }
}
impl<L: Describe, R: Describe> Describe for Or<L, R> {
    fn describe(i: Or<L::This<'_>, R::This<'_>>) -> String {
        match i {
            Or::Left(l) => format!("L({})", L::describe(l)),
            Or::Right(r) => format!("R({})", R::describe(r)),
            Or::Both(l, r) => format!("B({}|{})", L::describe(l), R::describe(r)),
        }
    }
    fn bump(i: Or<L::This<'_>, R::This<'_>>) {
        match i { Or::Left(l) => L::bump(l), Or::Right(r) => R::bump(r), Or::Both(l, r) => { L::bump(l); R::bump(r) } }
    }
}
impl<L: Describe, R: Describe> Describe for Xor<L, R> {
    fn describe(i: Xor<L::This<'_>, R::This<'_>>) -> String {
        match i { Xor::Left(l) => format!("L({})", L::describe(l)), Xor::Right(r) => format!("R({})", R::describe(r)) }
    }
    fn bump(i: Xor<L::This<'_>, R::This<'_>>) {
        match i { Xor::Left(l) => L::bump(l), Xor::Right(r) => R::bump(r) }
    }
}
impl<Q: Query> Describe for Not<Q> {
    fn describe(_: Not<Q>) -> String { "_".into() }
    fn bump(_: Not<Q>) {}
}
impl<Q: Query> Describe for With<Q> {
    fn describe(_: With<Q>) -> String { "_".into() }
    fn bump(_: With<Q>) {}
}
impl<Q: Query> Describe for Has<Q> {
    fn describe(i: Has<Q>) -> String { if i.get() { "H1".into() } else { "H0".into() } }
    fn bump(_: Has<Q>) {}
}
impl Describe for () {
    fn describe(_: ()) -> String { "_".into() }
    fn bump(_: ()) {}
}
macro_rules! describe_tuple {
    ($(($Q:ident, $q:ident)),+) => {
        impl<$($Q: Describe),+> Describe for ($($Q,)+) {
            fn describe(($($q,)+): ($($Q::This<'_>,)+)) -> String {
                let mut s = String::from("(");
                $( s.push_str(&$Q::describe($q)); s.push(','); )+
                s.push(')');
                s
            }
            fn bump(($($q,)+): ($($Q::This<'_>,)+)) { $( $Q::bump($q); )+ }
        }
    };
}
describe_tuple!((Q0, q0));
describe_tuple!((Q0, q0), (Q1, q1));
describe_tuple!((Q0, q0), (Q1, q1), (Q2, q2));
describe_tuple!((Q0, q0), (Q1, q1), (Q2, q2), (Q3, q3));

// ---- events -----------------------------------------------------------------------------------

pub struct EvView {
    pub render: String,
    pub ent: EntityId,
    pub arena: Option<(&'static [u8], u64)>,
}

pub trait EvDesc: Event {
    const NAME: &'static str;
    fn view(ev: &Self::This<'_>, target: EntityId) -> EvView;
}

macro_rules! evdesc_user_g {
    ($($G:ident),*) => {$(
        impl EvDesc for $G {
            const NAME: &'static str = stringify!($G);
            fn view(ev: &$G, _t: EntityId) -> EvView {
                EvView { render: format!("{}(s{})", stringify!($G), ev.0.serial), ent: ev.0.ent, arena: None }
            }
        }
    )*};
}
evdesc_user_g!(G0, G1, G2);
impl EvDesc for G3<'static> {
    const NAME: &'static str = "G3";
    fn view(ev: &G3<'_>, _t: EntityId) -> EvView {
        let data: &'static [u8] = unsafe { transmute(ev.data) };
        EvView {
            render: format!("G3(s{})", ev.pay.serial),
            ent: ev.pay.ent,
            arena: if ev.has_data { Some((data, ev.alloc_no)) } else { None },
        }
    }
}
macro_rules! evdesc_user_t {
    ($($T:ident),*) => {$(
        impl EvDesc for $T {
            const NAME: &'static str = stringify!($T);
            fn view(ev: &$T, t: EntityId) -> EvView {
                EvView { render: format!("{}(s{})@{}", stringify!($T), ev.0.serial, ord_of(t)), ent: ev.0.ent, arena: None }
            }
        }
    )*};
}
evdesc_user_t!(T0, T1, T2);
impl EvDesc for Spawn {
    const NAME: &'static str = "Spawn";
    fn view(ev: &Spawn, _t: EntityId) -> EvView {
        EvView { render: format!("Spawn({})", ord_of(ev.0)), ent: ev.0, arena: None }
    }
}
impl EvDesc for Despawn {
    const NAME: &'static str = "Despawn";
    fn view(_: &Despawn, t: EntityId) -> EvView {
        EvView { render: format!("Despawn@{}", ord_of(t)), ent: EntityId::NULL, arena: None }
    }
}
pub fn render_cell<K: Comp>(c: &K) -> String {
    match K::TY {
        1 => format!("{}/s{}", c.val(), unsafe { &*(c as *const K as *const K1) }.ser),
        4 => format!("{}/s{}", c.val(), unsafe { &*(c as *const K as *const K4) }.ser),
        _ => format!("{}", c.val()),
    }
}
impl<K: Comp> EvDesc for Insert<K> {
    const NAME: &'static str = "Ins";
    fn view(ev: &Insert<K>, t: EntityId) -> EvView {
        EvView { render: format!("InsK{}({})@{}", K::TY, render_cell(&ev.0), ord_of(t)), ent: EntityId::NULL, arena: None }
    }
}
impl<K: Comp> EvDesc for Remove<K> {
    const NAME: &'static str = "Rem";
    fn view(_: &Remove<K>, t: EntityId) -> EvView {
        EvView { render: format!("RemK{}@{}", K::TY, ord_of(t)), ent: EntityId::NULL, arena: None }
    }
}
macro_rules! evdesc_id {
    ($(($E:ident, $name:expr)),*) => {$(
        impl EvDesc for $E {
            const NAME: &'static str = $name;
            fn view(ev: &$E, _t: EntityId) -> EvView {
                EvView { render: format!("{}({}v{})", $name, ev.0.index().0, ev.0.generation()), ent: EntityId::NULL, arena: None }
            }
        }
    )*};
}
evdesc_id!((AddComponent, "AddC"), (RemoveComponent, "RemC"), (AddHandler, "AddH"), (RemoveHandler, "RemH"),
    (AddGlobalEvent, "AddG"), (AddTargetedEvent, "AddT"), (RemoveGlobalEvent, "RemG"), (RemoveTargetedEvent, "RemT"));

// ---- requests a script can make of a sender ------------------------------------------------------

#[derive(Clone, Debug)]
pub enum Req {
    G { n: usize, ent: EntityId },
    T { n: usize, tgt: EntityId, ent: EntityId },
    Spawn,
    Despawn { tgt: EntityId },
    Ins { k: usize, tgt: EntityId, v: u64 },
    Rem { k: usize, tgt: EntityId },
    Alloc { len: usize, ent: EntityId },
    Fwd { data: &'static [u8], alloc_no: u64, ent: EntityId },
}

impl Req {
    /// the name of the event type this request sends
    pub fn ev_name(&self) -> String {
        match self {
            Req::G { n, .. } => format!("G{n}"),
            Req::T { n, .. } => format!("T{n}"),
            Req::Spawn => "Spawn".into(),
            Req::Despawn { .. } => "Despawn".into(),
            Req::Ins { k, .. } => format!("InsK{k}"),
            Req::Rem { k, .. } => format!("RemK{k}"),
            Req::Alloc { .. } | Req::Fwd { .. } => "G3".into(),
        }
    }
}

/// a byte with a destructor that poisons it
#[repr(transparent)]
pub struct ByteTok(u8);
impl Drop for ByteTok {
    fn drop(&mut self) {
        unsafe { std::ptr::write_volatile(&mut self.0, !self.0) }
    }
}

fn pay(ent: EntityId) -> Pay {
    Pay::new(fresh_e(), ent)
}

/// perform `req` through `s`; when the event is not in `ES` this is the library's documented panic
pub fn do_send<ES: evenio::event::EventSet>(s: &Sender<'static, ES>, req: &Req) {
    match *req {
        Req::G { n, ent } => match n {
            0 => s.send(G0(pay(ent))),
            1 => s.send(G1(pay(ent))),
            2 => s.send(G2(pay(ent))),
            _ => s.send(G3 { pay: pay(ent), data: &[], alloc_no: 0, has_data: false }),
        },
        Req::T { n, tgt, ent } => match n {
            0 => s.send_to(tgt, T0(pay(ent))),
            1 => s.send_to(tgt, T1(pay(ent))),
            _ => s.send_to(tgt, T2(pay(ent))),
        },
        Req::Spawn => {
            let id = s.spawn();
            ORDS.with(|o| o.borrow_mut().push(id));
            trace(format!(" spawned {}", ord_of(id)));
        }
        Req::Despawn { tgt } => s.despawn(tgt),
        Req::Ins { k, tgt, v } => {
            let ser = fresh_c();
            match k {
                0 => s.insert(tgt, K0::make(v, ser)),
                1 => s.insert(tgt, K1::make(v, ser)),
                2 => s.insert(tgt, K2::make(v, ser)),
                3 => s.insert(tgt, K3::make(v, ser)),
                4 => s.insert(tgt, K4::make(v, ser)),
                _ => s.insert(tgt, K5::make(v, ser)),
            }
        }
        Req::Rem { k, tgt } => match k {
            0 => s.remove::<K0>(tgt),
            1 => s.remove::<K1>(tgt),
            2 => s.remove::<K2>(tgt),
            3 => s.remove::<K3>(tgt),
            4 => s.remove::<K4>(tgt),
            _ => s.remove::<K5>(tgt),
        },
        Req::Alloc { len, ent } => {
            let p = pay(ent);
            let no = ARENA_NO.with(|a| {
                let v = a.get();
                a.set(v + 1);
                v
            });
            // odd lengths go through `alloc_str` (every other one with multi-byte characters), even ones through `alloc_slice`
            let data: &'static [u8] = if len % 2 == 1 {
                let text: String = arena_text(no, len);
                let st: &'static mut str = s.alloc_str(&text);
                unsafe { &*(st.as_bytes() as *const [u8]) }
            } else if len % 4 == 0 && len > 0 && len <= 65536 {
                // elements with a destructor: the arena never runs it, so a byte that was dropped (poisoned by `ByteTok::drop`)
                // before delivery shows as a corrupted payload (round-8 change C20_X_1: a drop guard in `alloc_slice` that
                // destroys all but the last element on the normal path)
                let sl: &'static mut [ByteTok] = s.alloc_slice(len, |i| ByteTok(arena_byte(no, i)));
                unsafe { &*(sl as *const [ByteTok] as *const [u8]) }
            } else {
                let sl: &'static mut [u8] = s.alloc_slice(len, |i| arena_byte(no, i));
                sl
            };
            s.send(G3 { pay: p, data, alloc_no: no, has_data: true });
        }
        Req::Fwd { data, alloc_no, ent } => s.send(G3 { pay: pay(ent), data, alloc_no, has_data: true }),
    }
}

// ---- the dynamic parameter interface ---------------------------------------------------------------

pub struct RunCx<'a> {
    pub info: &'a HandlerInfo,
    pub ev: EventPtr<'a>,
    pub loc: EntityLocation,
    pub world: UnsafeWorldCell<'a>,
    pub target: EntityId,
}

#[allow(unused_variables)]
pub trait DynParam {
    fn init(&mut self, world: &mut World, config: &mut HandlerConfig) -> Result<(), InitError>;
    /// `HandlerParam::get`
    unsafe fn prepare(&mut self, cx: &RunCx<'_>);
    fn release(&mut self);
    fn refresh(&mut self, arch: &Archetype);
    fn remove(&mut self, arch: &Archetype);

    fn is_fetch(&self) -> bool { false }
    fn is_single(&self) -> bool { false }
    fn iter_log(&mut self) -> String { String::new() }
    fn bump(&mut self) {}
    fn get_log(&mut self, id: EntityId) -> String { String::new() }
    fn getmany_log(&mut self, ids: &[EntityId]) -> String { String::new() }
    fn single_log(&mut self) -> String { String::new() }
    fn recv_log(&mut self) -> Option<String> { None }
    fn ev_view(&self, target: EntityId) -> Option<EvView> { None }
    fn is_mut_receiver(&self) -> bool { false }
    /// `EventMut::take`, then let the value go
    fn take(&mut self) {}
    /// `Some(name)` if this is a sender; the name of the single event it can send ("" for `Sender<()>`)
    fn sender_of(&self) -> Option<&'static str> { None }
    fn send(&mut self, req: &Req) {}
    fn ents_len(&self) -> Option<u32> { None }
}

unsafe fn ext<'a, T: ?Sized>(r: &'a T) -> &'static T { transmute(r) }
unsafe fn ext_mut<'a, T: ?Sized>(r: &'a mut T) -> &'static mut T { transmute(r) }
unsafe fn ext_ev(e: EventPtr<'_>) -> EventPtr<'static> { transmute(e) }
unsafe fn ext_world(w: UnsafeWorldCell<'_>) -> UnsafeWorldCell<'static> { transmute(w) }

fn items_line<I: Iterator<Item = String> + ExactSizeIterator>(mut it: I) -> String {
    // `len()` must equal the number of items still to come at every position
    let total = it.len();
    let mut items = vec![];
    let mut bad = None;
    loop {
        let remaining = it.len();
        match it.next() {
            Some(s) => {
                if remaining != total - items.len() && bad.is_none() {
                    bad = Some(items.len());
                }
                items.push(s)
            }
            None => {
                if remaining != 0 && bad.is_none() {
                    bad = Some(items.len());
                }
                break;
            }
        }
    }
    if total != items.len() && bad.is_none() {
        bad = Some(0);
    }
    items.sort();
    let mut s = format!("[{}] len={}", items.join(";"), total);
    if let Some(p) = bad {
        s.push_str(&format!(" !lenbad@{p}"));
    }
    s
}

// ---- Fetcher<Q> --------------------------------------------------------------------------------

pub struct FetchP<Q: Query + 'static> {
    state: Option<<Fetcher<'static, Q> as HandlerParam>::State>,
    live: Option<Fetcher<'static, Q>>,
}
impl<Q: Query + 'static> FetchP<Q> {
    pub fn new() -> Self { Self { state: None, live: None } }
}
impl<Q: Describe + 'static> DynParam for FetchP<Q> {
    fn init(&mut self, world: &mut World, config: &mut HandlerConfig) -> Result<(), InitError> {
        self.state = Some(<Fetcher<'static, Q> as HandlerParam>::init(world, config)?);
        Ok(())
    }
    unsafe fn prepare(&mut self, cx: &RunCx<'_>) {
        let st = ext_mut(self.state.as_mut().unwrap());
        self.live = Some(<Fetcher<'static, Q> as HandlerParam>::get(st, ext(cx.info), ext_ev(cx.ev), cx.loc, ext_world(cx.world)));
    }
    fn release(&mut self) { self.live = None; }
    fn refresh(&mut self, arch: &Archetype) {
        <Fetcher<'static, Q> as HandlerParam>::refresh_archetype(self.state.as_mut().unwrap(), arch)
    }
    fn remove(&mut self, arch: &Archetype) {
        <Fetcher<'static, Q> as HandlerParam>::remove_archetype(self.state.as_mut().unwrap(), arch)
    }
    fn is_fetch(&self) -> bool { true }
    fn iter_log(&mut self) -> String {
        let f = self.live.as_mut().unwrap();
        let line = items_line(f.iter_mut().map(|i| Q::describe(i)));
        // internal iteration (`fold`, which `for_each` / `count` / `sum` are built on) of an iterator that was advanced by
        // `next()` first must yield exactly the remaining items (round-8 change C06_X_1: a `fold` override restarting the
        // current archetype at row 0)
        let mut plain = vec![];
        let mut it = f.iter_mut();
        while let Some(i) = it.next() { plain.push(Q::describe(i)); }
        let mut seen = vec![];
        let mut it = f.iter_mut();
        let k = plain.len() / 2;
        for _ in 0..k {
            if let Some(i) = it.next() { seen.push(Q::describe(i)); }
        }
        let rest = it.fold(vec![], |mut acc, i| { acc.push(Q::describe(i)); acc });
        seen.extend(rest);
        let counted = { let mut it = f.iter_mut(); if !plain.is_empty() { it.next(); } it.count() + usize::from(!plain.is_empty()) };
        if seen != plain || counted != plain.len() {
            return format!("{line} !lenbad@fold");
        }
        line
    }
    fn bump(&mut self) {
        let f = self.live.as_mut().unwrap();
        for i in f.iter_mut() { Q::bump(i) }
    }
    fn get_log(&mut self, id: EntityId) -> String {
        let f = self.live.as_mut().unwrap();
        match f.get_mut(id) {
            Ok(i) => format!("Ok({})", Q::describe(i)),
            Err(GetError::NoSuchEntity) => "Err(NoSuchEntity)".into(),
            Err(GetError::QueryDoesNotMatch) => "Err(QueryDoesNotMatch)".into(),
        }
    }
    fn getmany_log(&mut self, ids: &[EntityId]) -> String {
        let f = self.live.as_mut().unwrap();
        fn fmt<Q: Describe, const N: usize>(r: Result<[Q::This<'_>; N], GetManyMutError>) -> String {
            match r {
                Ok(a) => format!("Ok({})", a.into_iter().map(|i| Q::describe(i)).collect::<Vec<_>>().join(";")),
                Err(GetManyMutError::AliasedMutability) => "Err(AliasedMutability)".into(),
                Err(GetManyMutError::NoSuchEntity) => "Err(NoSuchEntity)".into(),
                Err(GetManyMutError::QueryDoesNotMatch) => "Err(QueryDoesNotMatch)".into(),
            }
        }
        match ids.len() {
            1 => fmt::<Q, 1>(f.get_many_mut([ids[0]])),
            2 => fmt::<Q, 2>(f.get_many_mut([ids[0], ids[1]])),
            3 => fmt::<Q, 3>(f.get_many_mut([ids[0], ids[1], ids[2]])),
            4 => fmt::<Q, 4>(f.get_many_mut([ids[0], ids[1], ids[2], ids[3]])),
            _ => fmt::<Q, 0>(f.get_many_mut([])),
        }
    }
}

// ---- Single<Q> / TrySingle<Q> ------------------------------------------------------------------

pub struct SingleP<Q: Query + 'static> {
    state: Option<<Single<Q> as HandlerParam>::State>,
    live: Option<Single<Q::This<'static>>>,
}
impl<Q: Query + 'static> SingleP<Q> {
    pub fn new() -> Self { Self { state: None, live: None } }
}
impl<Q: Describe + 'static> DynParam for SingleP<Q> {
    fn init(&mut self, world: &mut World, config: &mut HandlerConfig) -> Result<(), InitError> {
        self.state = Some(<Single<Q> as HandlerParam>::init(world, config)?);
        Ok(())
    }
    unsafe fn prepare(&mut self, cx: &RunCx<'_>) {
        let st = ext_mut(self.state.as_mut().unwrap());
        self.live = Some(<Single<Q> as HandlerParam>::get(st, ext(cx.info), ext_ev(cx.ev), cx.loc, ext_world(cx.world)));
    }
    fn release(&mut self) { self.live = None; }
    fn refresh(&mut self, arch: &Archetype) { <Single<Q> as HandlerParam>::refresh_archetype(self.state.as_mut().unwrap(), arch) }
    fn remove(&mut self, arch: &Archetype) { <Single<Q> as HandlerParam>::remove_archetype(self.state.as_mut().unwrap(), arch) }
    fn is_single(&self) -> bool { true }
    fn single_log(&mut self) -> String {
        match self.live.take() {
            Some(s) => format!("Ok({})", Q::describe(Single::into_inner(s))),
            None => "gone".into(),
        }
    }
}

pub struct TrySingleP<Q: Query + 'static> {
    state: Option<<TrySingle<Q> as HandlerParam>::State>,
    live: Option<Result<Q::This<'static>, evenio::fetch::SingleError>>,
}
impl<Q: Query + 'static> TrySingleP<Q> {
    pub fn new() -> Self { Self { state: None, live: None } }
}
impl<Q: Describe + 'static> DynParam for TrySingleP<Q> {
    fn init(&mut self, world: &mut World, config: &mut HandlerConfig) -> Result<(), InitError> {
        self.state = Some(<TrySingle<Q> as HandlerParam>::init(world, config)?);
        Ok(())
    }
    unsafe fn prepare(&mut self, cx: &RunCx<'_>) {
        let st = ext_mut(self.state.as_mut().unwrap());
        self.live = Some(<TrySingle<Q> as HandlerParam>::get(st, ext(cx.info), ext_ev(cx.ev), cx.loc, ext_world(cx.world)));
    }
    fn release(&mut self) { self.live = None; }
    fn refresh(&mut self, arch: &Archetype) { <TrySingle<Q> as HandlerParam>::refresh_archetype(self.state.as_mut().unwrap(), arch) }
    fn remove(&mut self, arch: &Archetype) { <TrySingle<Q> as HandlerParam>::remove_archetype(self.state.as_mut().unwrap(), arch) }
    fn is_single(&self) -> bool { true }
    fn single_log(&mut self) -> String {
        match self.live.take() {
            Some(Ok(i)) => format!("Ok({})", Q::describe(i)),
            Some(Err(evenio::fetch::SingleError::QueryDoesNotMatch)) => "Err(NoMatch)".into(),
            Some(Err(evenio::fetch::SingleError::MoreThanOneMatch)) => "Err(Many)".into(),
            None => "gone".into(),
        }
    }
}

// ---- receivers -----------------------------------------------------------------------------------

pub struct RecvG<E: GlobalEvent + EvDesc + 'static> {
    live: Option<Receiver<'static, E>>,
}
impl<E: GlobalEvent + EvDesc + 'static> RecvG<E> {
    pub fn new() -> Self { Self { live: None } }
}
impl<E: GlobalEvent + EvDesc + 'static> DynParam for RecvG<E> {
    fn init(&mut self, world: &mut World, config: &mut HandlerConfig) -> Result<(), InitError> {
        <Receiver<'static, E> as HandlerParam>::init(world, config)
    }
    unsafe fn prepare(&mut self, cx: &RunCx<'_>) {
        static mut UNIT: () = ();
        #[allow(static_mut_refs)]
        let st: &'static mut () = &mut UNIT;
        self.live = Some(<Receiver<'static, E> as HandlerParam>::get(st, ext(cx.info), ext_ev(cx.ev), cx.loc, ext_world(cx.world)));
    }
    fn release(&mut self) { self.live = None; }
    fn refresh(&mut self, _: &Archetype) {}
    fn remove(&mut self, _: &Archetype) {}
    fn ev_view(&self, target: EntityId) -> Option<EvView> {
        self.live.as_ref().map(|r| E::view(r.event, target))
    }
    fn recv_log(&mut self) -> Option<String> { Some("-".into()) }
}

pub struct RecvGM<E: GlobalEvent + Event<Mutability = Mutable> + EvDesc + 'static> {
    live: Option<ReceiverMut<'static, E>>,
}
impl<E: GlobalEvent + Event<Mutability = Mutable> + EvDesc + 'static> RecvGM<E> {
    pub fn new() -> Self { Self { live: None } }
}
impl<E: GlobalEvent + Event<Mutability = Mutable> + EvDesc + 'static> DynParam for RecvGM<E> {
    fn init(&mut self, world: &mut World, config: &mut HandlerConfig) -> Result<(), InitError> {
        <ReceiverMut<'static, E> as HandlerParam>::init(world, config)
    }
    unsafe fn prepare(&mut self, cx: &RunCx<'_>) {
        static mut UNIT: () = ();
        #[allow(static_mut_refs)]
        let st: &'static mut () = &mut UNIT;
        self.live = Some(<ReceiverMut<'static, E> as HandlerParam>::get(st, ext(cx.info), ext_ev(cx.ev), cx.loc, ext_world(cx.world)));
    }
    fn release(&mut self) { self.live = None; }
    fn refresh(&mut self, _: &Archetype) {}
    fn remove(&mut self, _: &Archetype) {}
    fn ev_view(&self, target: EntityId) -> Option<EvView> {
        self.live.as_ref().map(|r| E::view(&*r.event, target))
    }
    fn recv_log(&mut self) -> Option<String> { Some("-".into()) }
    fn is_mut_receiver(&self) -> bool { true }
    fn take(&mut self) {
        if let Some(r) = self.live.take() {
            let owned: E = EventMut::take(r.event);
            trace(" took".into());
            drop(owned);
        }
    }
}

pub struct RecvT<E: TargetedEvent + EvDesc + 'static, Q: Query + 'static> {
    state: Option<<Receiver<'static, E, Q> as HandlerParam>::State>,
    live: Option<Receiver<'static, E, Q>>,
}
impl<E: TargetedEvent + EvDesc + 'static, Q: Query + 'static> RecvT<E, Q> {
    pub fn new() -> Self { Self { state: None, live: None } }
}
impl<E: TargetedEvent + EvDesc + 'static, Q: Describe + 'static> DynParam for RecvT<E, Q> {
    fn init(&mut self, world: &mut World, config: &mut HandlerConfig) -> Result<(), InitError> {
        self.state = Some(<Receiver<'static, E, Q> as HandlerParam>::init(world, config)?);
        Ok(())
    }
    unsafe fn prepare(&mut self, cx: &RunCx<'_>) {
        let st = ext_mut(self.state.as_mut().unwrap());
        self.live = Some(<Receiver<'static, E, Q> as HandlerParam>::get(st, ext(cx.info), ext_ev(cx.ev), cx.loc, ext_world(cx.world)));
    }
    fn release(&mut self) { self.live = None; }
    fn refresh(&mut self, arch: &Archetype) { <Receiver<'static, E, Q> as HandlerParam>::refresh_archetype(self.state.as_mut().unwrap(), arch) }
    fn remove(&mut self, arch: &Archetype) { <Receiver<'static, E, Q> as HandlerParam>::remove_archetype(self.state.as_mut().unwrap(), arch) }
    fn ev_view(&self, target: EntityId) -> Option<EvView> {
        self.live.as_ref().map(|r| E::view(r.event, target))
    }
    fn recv_log(&mut self) -> Option<String> {
        self.live.take().map(|r| Q::describe(r.query))
    }
}

pub struct RecvTM<E: TargetedEvent + Event<Mutability = Mutable> + EvDesc + 'static, Q: Query + 'static> {
    state: Option<<ReceiverMut<'static, E, Q> as HandlerParam>::State>,
    live_ev: Option<EventMut<'static, E>>,
    live_q: Option<Q::This<'static>>,
}
impl<E: TargetedEvent + Event<Mutability = Mutable> + EvDesc + 'static, Q: Query + 'static> RecvTM<E, Q> {
    pub fn new() -> Self { Self { state: None, live_ev: None, live_q: None } }
}
impl<E: TargetedEvent + Event<Mutability = Mutable> + EvDesc + 'static, Q: Describe + 'static> DynParam for RecvTM<E, Q> {
    fn init(&mut self, world: &mut World, config: &mut HandlerConfig) -> Result<(), InitError> {
        self.state = Some(<ReceiverMut<'static, E, Q> as HandlerParam>::init(world, config)?);
        Ok(())
    }
    unsafe fn prepare(&mut self, cx: &RunCx<'_>) {
        let st = ext_mut(self.state.as_mut().unwrap());
        let r = <ReceiverMut<'static, E, Q> as HandlerParam>::get(st, ext(cx.info), ext_ev(cx.ev), cx.loc, ext_world(cx.world));
        self.live_ev = Some(r.event);
        self.live_q = Some(r.query);
    }
    fn release(&mut self) { self.live_ev = None; self.live_q = None; }
    fn refresh(&mut self, arch: &Archetype) { <ReceiverMut<'static, E, Q> as HandlerParam>::refresh_archetype(self.state.as_mut().unwrap(), arch) }
    fn remove(&mut self, arch: &Archetype) { <ReceiverMut<'static, E, Q> as HandlerParam>::remove_archetype(self.state.as_mut().unwrap(), arch) }
    fn ev_view(&self, target: EntityId) -> Option<EvView> {
        self.live_ev.as_ref().map(|e| E::view(&**e, target))
    }
    fn recv_log(&mut self) -> Option<String> {
        self.live_q.take().map(|q| Q::describe(q))
    }
    fn is_mut_receiver(&self) -> bool { true }
    fn take(&mut self) {
        if let Some(e) = self.live_ev.take() {
            let owned: E = EventMut::take(e);
            trace(" took".into());
            drop(owned);
        }
    }
}

// ---- senders -------------------------------------------------------------------------------------

pub struct SndOne<E: Event + 'static> {
    name: &'static str,
    state: Option<<Sender<'static, E> as HandlerParam>::State>,
    live: Option<Sender<'static, E>>,
}
impl<E: Event + 'static> SndOne<E> {
    pub fn new(name: &'static str) -> Self { Self { name, state: None, live: None } }
}
impl<E: Event + 'static> DynParam for SndOne<E> {
    fn init(&mut self, world: &mut World, config: &mut HandlerConfig) -> Result<(), InitError> {
        self.state = Some(<Sender<'static, E> as HandlerParam>::init(world, config)?);
        Ok(())
    }
    unsafe fn prepare(&mut self, cx: &RunCx<'_>) {
        let st = ext_mut(self.state.as_mut().unwrap());
        self.live = Some(<Sender<'static, E> as HandlerParam>::get(st, ext(cx.info), ext_ev(cx.ev), cx.loc, ext_world(cx.world)));
    }
    fn release(&mut self) { self.live = None; }
    fn refresh(&mut self, _: &Archetype) {}
    fn remove(&mut self, _: &Archetype) {}
    fn sender_of(&self) -> Option<&'static str> { Some(self.name) }
    fn send(&mut self, req: &Req) { do_send(self.live.as_ref().unwrap(), req) }
}

/// `Sender<()>`
pub struct SndNone {
    live: Option<Sender<'static, ()>>,
}
impl SndNone {
    pub fn new() -> Self { Self { live: None } }
}
impl DynParam for SndNone {
    fn init(&mut self, world: &mut World, config: &mut HandlerConfig) -> Result<(), InitError> {
        <Sender<'static, ()> as HandlerParam>::init(world, config)
    }
    unsafe fn prepare(&mut self, cx: &RunCx<'_>) {
        static mut UNIT: () = ();
        #[allow(static_mut_refs)]
        let st: &'static mut () = &mut UNIT;
        self.live = Some(<Sender<'static, ()> as HandlerParam>::get(st, ext(cx.info), ext_ev(cx.ev), cx.loc, ext_world(cx.world)));
    }
    fn release(&mut self) { self.live = None; }
    fn refresh(&mut self, _: &Archetype) {}
    fn remove(&mut self, _: &Archetype) {}
    fn sender_of(&self) -> Option<&'static str> { Some("") }
    fn send(&mut self, req: &Req) { do_send(self.live.as_ref().unwrap(), req) }
}

pub fn make_sender(ev: &str) -> Option<Box<dyn DynParam>> {
    Some(match ev {
        "G0" => Box::new(SndOne::<G0>::new("G0")),
        "G1" => Box::new(SndOne::<G1>::new("G1")),
        "G2" => Box::new(SndOne::<G2>::new("G2")),
        "G3" => Box::new(SndOne::<G3<'static>>::new("G3")),
        "T0" => Box::new(SndOne::<T0>::new("T0")),
        "T1" => Box::new(SndOne::<T1>::new("T1")),
        "T2" => Box::new(SndOne::<T2>::new("T2")),
        "Spawn" => Box::new(SndOne::<Spawn>::new("Spawn")),
        "Despawn" => Box::new(SndOne::<Despawn>::new("Despawn")),
        "InsK0" => Box::new(SndOne::<Insert<K0>>::new("InsK0")),
        "InsK1" => Box::new(SndOne::<Insert<K1>>::new("InsK1")),
        "InsK2" => Box::new(SndOne::<Insert<K2>>::new("InsK2")),
        "InsK3" => Box::new(SndOne::<Insert<K3>>::new("InsK3")),
        "InsK4" => Box::new(SndOne::<Insert<K4>>::new("InsK4")),
        "InsK5" => Box::new(SndOne::<Insert<K5>>::new("InsK5")),
        "RemK0" => Box::new(SndOne::<Remove<K0>>::new("RemK0")),
        "RemK1" => Box::new(SndOne::<Remove<K1>>::new("RemK1")),
        "RemK2" => Box::new(SndOne::<Remove<K2>>::new("RemK2")),
        "RemK3" => Box::new(SndOne::<Remove<K3>>::new("RemK3")),
        "RemK4" => Box::new(SndOne::<Remove<K4>>::new("RemK4")),
        "RemK5" => Box::new(SndOne::<Remove<K5>>::new("RemK5")),
        _ => return None,
    })
}

pub fn make_recv_g(ev: &str, mutable: bool) -> Option<Box<dyn DynParam>> {
    Some(match (ev, mutable) {
        ("G0", false) => Box::new(RecvG::<G0>::new()),
        ("G1", false) => Box::new(RecvG::<G1>::new()),
        ("G2", false) => Box::new(RecvG::<G2>::new()),
        ("G3", false) => Box::new(RecvG::<G3<'static>>::new()),
        ("G0", true) => Box::new(RecvGM::<G0>::new()),
        ("G1", true) => Box::new(RecvGM::<G1>::new()),
        ("G2", true) => Box::new(RecvGM::<G2>::new()),
        ("G3", true) => Box::new(RecvGM::<G3<'static>>::new()),
        ("Spawn", false) => Box::new(RecvG::<Spawn>::new()),
        ("AddC", false) => Box::new(RecvG::<AddComponent>::new()),
        ("RemC", false) => Box::new(RecvG::<RemoveComponent>::new()),
        ("AddH", false) => Box::new(RecvG::<AddHandler>::new()),
        ("RemH", false) => Box::new(RecvG::<RemoveHandler>::new()),
        ("AddG", false) => Box::new(RecvG::<AddGlobalEvent>::new()),
        ("AddT", false) => Box::new(RecvG::<AddTargetedEvent>::new()),
        ("RemG", false) => Box::new(RecvG::<RemoveGlobalEvent>::new()),
        ("RemT", false) => Box::new(RecvG::<RemoveTargetedEvent>::new()),
        _ => return None,
    })
}

// ---- &Entities ---------------------------------------------------------------------------------------

pub struct EntP {
    live: Option<&'static Entities>,
}
impl EntP {
    pub fn new() -> Self { Self { live: None } }
}
impl DynParam for EntP {
    fn init(&mut self, world: &mut World, config: &mut HandlerConfig) -> Result<(), InitError> {
        <&'static Entities as HandlerParam>::init(world, config)
    }
    unsafe fn prepare(&mut self, cx: &RunCx<'_>) {
        static mut UNIT: () = ();
        #[allow(static_mut_refs)]
        let st: &'static mut () = &mut UNIT;
        self.live = Some(<&'static Entities as HandlerParam>::get(st, ext(cx.info), ext_ev(cx.ev), cx.loc, ext_world(cx.world)));
    }
    fn release(&mut self) { self.live = None; }
    fn refresh(&mut self, _: &Archetype) {}
    fn remove(&mut self, _: &Archetype) {}
    fn ents_len(&self) -> Option<u32> { self.live.map(|e| e.len()) }
}
