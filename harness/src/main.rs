//! `hx`: executes histories (one operation per line, see DESIGN.md §3.1) on the real `evenio::World`
//! in-process and prints every operation followed by the observations it measured (`> …` lines).
//! The same operation lines are fed to the Lean driver; the two outputs are compared per channel.
mod family;
mod params;
mod types;
#[cfg(feature = "rayon")]
mod par;

use std::any::TypeId;
use std::borrow::Cow;
use std::collections::HashMap;
use std::io::{BufRead, Write};
use std::panic::{catch_unwind, AssertUnwindSafe};

use evenio::archetype::Archetype;
use evenio::component::ComponentId;
use evenio::entity::EntityLocation;
use evenio::event::{EventPtr, GlobalEventId, TargetedEventId};
use evenio::handler::{Handler, HandlerConfig, HandlerId, HandlerInfo, HandlerPriority, InitError};
use evenio::prelude::*;
use evenio::world::UnsafeWorldCell;

use params::*;
use types::*;

const BUDGET_PER_OP: u32 = 24;

// ---- scripts -------------------------------------------------------------------------------------

#[derive(Clone, Debug)]
enum Tgt {
    SelfT,
    Ev,
    Ord(usize),
    Last,
    Null,
}

#[derive(Clone, Debug)]
enum Act {
    Send(usize),
    SendTo(usize, Tgt),
    Spawn,
    Despawn(Tgt),
    Ins(Tgt, usize, u64),
    Rem(Tgt, usize),
    Take,
    Panic,
    Iter(usize),
    Bump(usize),
    Get(usize, Tgt),
    GetMany(usize, Vec<Tgt>),
    Single(usize),
    Recv,
    Ents,
    Alloc(usize),
    Fwd,
}

fn parse_tgt(s: &str) -> Option<Tgt> {
    Some(match s {
        "self" => Tgt::SelfT,
        "ev" => Tgt::Ev,
        "last" => Tgt::Last,
        "null" => Tgt::Null,
        _ => Tgt::Ord(s.strip_prefix('#')?.parse().ok()?),
    })
}

fn parse_k(s: &str) -> Option<usize> {
    s.strip_prefix('K')?.parse().ok()
}

fn parse_act(s: &str) -> Option<Act> {
    let p: Vec<&str> = s.split(':').collect();
    Some(match p.as_slice() {
        ["send", g] => Act::Send(g.strip_prefix('G')?.parse().ok()?),
        ["sendto", t, tg] => Act::SendTo(t.strip_prefix('T')?.parse().ok()?, parse_tgt(tg)?),
        ["spawn"] => Act::Spawn,
        ["despawn", tg] => Act::Despawn(parse_tgt(tg)?),
        ["ins", tg, k, v] => Act::Ins(parse_tgt(tg)?, parse_k(k)?, v.parse().ok()?),
        ["rem", tg, k] => Act::Rem(parse_tgt(tg)?, parse_k(k)?),
        ["take"] => Act::Take,
        ["panic"] => Act::Panic,
        ["iter", p] => Act::Iter(p.parse().ok()?),
        ["bump", p] => Act::Bump(p.parse().ok()?),
        ["get", p, tg] => Act::Get(p.parse().ok()?, parse_tgt(tg)?),
        ["getmany", p, tgs] => Act::GetMany(p.parse().ok()?, tgs.split('+').map(parse_tgt).collect::<Option<Vec<_>>>()?),
        ["single", p] => Act::Single(p.parse().ok()?),
        ["recv"] => Act::Recv,
        ["ents"] => Act::Ents,
        ["alloc", n] => Act::Alloc(n.parse().ok()?),
        ["fwd"] => Act::Fwd,
        _ => return None,
    })
}

// ---- the run-time composed handler -----------------------------------------------------------------

struct Tid<const N: usize>;
fn tid(n: usize) -> TypeId {
    match n {
        0 => TypeId::of::<Tid<0>>(),
        1 => TypeId::of::<Tid<1>>(),
        2 => TypeId::of::<Tid<2>>(),
        3 => TypeId::of::<Tid<3>>(),
        _ => TypeId::of::<Tid<4>>(),
    }
}

struct DynHandler {
    name: String,
    tid: Option<usize>,
    prio: HandlerPriority,
    params: Vec<Box<dyn DynParam>>,
    /// where each declared parameter starts in `params` (`Snd:a,b` expands to several senders)
    starts: Vec<usize>,
    body: Vec<Act>,
}

struct ReleaseGuard<'a>(&'a mut Vec<Box<dyn DynParam>>);
impl Drop for ReleaseGuard<'_> {
    fn drop(&mut self) {
        for p in self.0.iter_mut() {
            p.release();
        }
    }
}

impl Handler for DynHandler {
    fn type_id(&self) -> Option<TypeId> {
        self.tid.map(tid)
    }

    fn name(&self) -> Cow<'static, str> {
        self.name.clone().into()
    }

    fn init(&mut self, world: &mut World, config: &mut HandlerConfig) -> Result<(), InitError> {
        for p in &mut self.params {
            p.init(world, config)?;
        }
        config.set_priority(self.prio);
        Ok(())
    }

    unsafe fn run(&mut self, info: &HandlerInfo, ev: EventPtr, loc: EntityLocation, world: UnsafeWorldCell) {
        let target = if loc.archetype == evenio::archetype::ArchetypeIdx::NULL {
            EntityId::NULL
        } else {
            world.archetypes().get(loc.archetype).map(|a| a.entity_ids()[loc.row.0 as usize]).unwrap_or(EntityId::NULL)
        };
        let cx = RunCx { info, ev, loc, world, target };
        let name = self.name.clone();
        let body = self.body.clone();
        let starts = self.starts.clone();
        let at = |p: usize| starts.get(p).copied().unwrap_or(usize::MAX);
        let guard = ReleaseGuard(&mut self.params);
        let params: &mut Vec<Box<dyn DynParam>> = &mut *guard.0;
        // the receiver is always the first parameter: materialise it first to render the event, then the rest in order
        let mut entered = false;
        for i in 0..params.len() {
            params[i].prepare(&cx);
            if i == 0 {
                let view = params[0].ev_view(target);
                trace(format!("h {} {}", name, view.as_ref().map(|v| v.render.as_str()).unwrap_or("?")));
                if let Some(EvView { arena: Some((data, no)), .. }) = view {
                    trace(format!(" arena a{} len={} {}", no, data.len(), if arena_ok(no, data) { "ok" } else { "BAD" }));
                }
                entered = true;
            }
        }
        if !entered {
            trace(format!("h {} ?", name));
        }
        let (ev_ent, arena) = match params.first().and_then(|p| p.ev_view(target)) {
            Some(v) => (v.ent, v.arena),
            None => (EntityId::NULL, None),
        };
        let resolve = |t: &Tgt| -> EntityId {
            match t {
                Tgt::SelfT => target,
                Tgt::Ev => ev_ent,
                Tgt::Ord(n) => ord_key(*n),
                Tgt::Last => last_ord(),
                Tgt::Null => EntityId::NULL,
            }
        };
        let has_sender = params.iter().any(|p| p.sender_of().is_some());
        let send = |params: &mut Vec<Box<dyn DynParam>>, req: Req| {
            if !has_sender {
                return;
            }
            if !take_budget() {
                return;
            }
            let want = req.ev_name();
            let idx = params
                .iter()
                .position(|p| p.sender_of() == Some(want.as_str()))
                .or_else(|| params.iter().position(|p| p.sender_of().is_some()))
                .unwrap();
            params[idx].send(&req);
        };
        for act in &body {
            match act {
                Act::Send(g) => send(params, Req::G { n: *g, ent: ev_ent }),
                Act::SendTo(t, tg) => send(params, Req::T { n: *t, tgt: resolve(tg), ent: ev_ent }),
                Act::Spawn => send(params, Req::Spawn),
                Act::Despawn(tg) => send(params, Req::Despawn { tgt: resolve(tg) }),
                Act::Ins(tg, k, v) => send(params, Req::Ins { k: *k, tgt: resolve(tg), v: *v }),
                Act::Rem(tg, k) => send(params, Req::Rem { k: *k, tgt: resolve(tg) }),
                Act::Alloc(n) => send(params, Req::Alloc { len: *n, ent: ev_ent }),
                Act::Fwd => {
                    if let Some((data, no)) = arena {
                        send(params, Req::Fwd { data, alloc_no: no, ent: ev_ent })
                    } else {
                        send(params, Req::G { n: 3, ent: ev_ent })
                    }
                }
                Act::Take => {
                    // the body keeps running after `take`: the handler owns the event and may still send or panic
                    if params[0].is_mut_receiver() {
                        params[0].take();
                    }
                }
                Act::Panic => panic!("user"),
                Act::Iter(p) => {
                    if let Some(pm) = params.get_mut(at(*p)) {
                        if pm.is_fetch() {
                            let s = pm.iter_log();
                            trace(format!(" it{p} {s}"));
                        }
                    } else {
                        panic!("script:bad-param")
                    }
                }
                Act::Bump(p) => {
                    if let Some(pm) = params.get_mut(at(*p)) {
                        if pm.is_fetch() {
                            pm.bump();
                        }
                    } else {
                        panic!("script:bad-param")
                    }
                }
                Act::Get(p, tg) => {
                    let id = resolve(tg);
                    if let Some(pm) = params.get_mut(at(*p)) {
                        if pm.is_fetch() {
                            let s = pm.get_log(id);
                            trace(format!(" get{p} {} {s}", ord_of(id)));
                        }
                    } else {
                        panic!("script:bad-param")
                    }
                }
                Act::GetMany(p, tgs) => {
                    let ids: Vec<EntityId> = tgs.iter().map(|t| resolve(t)).collect();
                    if let Some(pm) = params.get_mut(at(*p)) {
                        if pm.is_fetch() {
                            let s = pm.getmany_log(&ids);
                            let names: Vec<String> = ids.iter().map(|&i| ord_of(i)).collect();
                            trace(format!(" getmany{p} {} {s}", names.join(" ")));
                        }
                    } else {
                        panic!("script:bad-param")
                    }
                }
                Act::Single(p) => {
                    if let Some(pm) = params.get_mut(at(*p)) {
                        if pm.is_single() {
                            let s = pm.single_log();
                            trace(format!(" single{p} {s}"));
                        }
                    } else {
                        panic!("script:bad-param")
                    }
                }
                Act::Recv => {
                    if let Some(s) = params[0].recv_log() {
                        trace(format!(" recv {s}"));
                    }
                }
                Act::Ents => {
                    if let Some(n) = params.iter().find_map(|p| p.ents_len()) {
                        trace(format!(" ents {n}"));
                    }
                }
            }
        }
        drop(guard);
    }

    fn refresh_archetype(&mut self, arch: &Archetype) {
        for p in &mut self.params {
            p.refresh(arch)
        }
    }

    fn remove_archetype(&mut self, arch: &Archetype) {
        for p in &mut self.params {
            p.remove(arch)
        }
    }
}

fn parse_param(s: &str) -> Option<Vec<Box<dyn DynParam>>> {
    let p: Vec<&str> = s.split(':').collect();
    Some(match p.as_slice() {
        ["R", ev, m] => {
            let mutable = *m == "m";
            if is_targeted(ev) {
                vec![family::make_recv_t(ev, mutable, "()")?]
            } else {
                vec![make_recv_g(ev, mutable)?]
            }
        }
        ["R", ev, m, q] => vec![family::make_recv_t(ev, *m == "m", q)?],
        ["F", q] => vec![family::make_fetch(q)?],
        ["S", q] => vec![family::make_single(q, false)?],
        ["TS", q] => vec![family::make_single(q, true)?],
        ["Snd"] => vec![Box::new(SndNone::new())],
        ["Snd", evs] => {
            let names: Vec<&str> = evs.split(',').filter(|x| !x.is_empty()).collect();
            if names.is_empty() {
                vec![Box::new(SndNone::new())]
            } else {
                names.into_iter().map(make_sender).collect::<Option<Vec<_>>>()?
            }
        }
        ["Ent"] => vec![Box::new(EntP::new())],
        _ => return None,
    })
}

fn is_targeted(ev: &str) -> bool {
    ev.starts_with('T') || ev == "Despawn" || ev.starts_with("InsK") || ev.starts_with("RemK")
}

/// A `Snd:a,b,c` parameter expands to several single-event senders; script parameter indices refer to the
/// *declared* parameters, so remember where each declared parameter starts.
struct Built {
    handler: DynHandler,
}

fn build_handler(toks: &[&str]) -> Option<Built> {
    let field = |name: &str| toks.iter().find_map(|t| t.strip_prefix(&format!("{name}=")));
    let name = field("name")?.to_string();
    let prio = match field("prio").unwrap_or("m") {
        "h" => HandlerPriority::High,
        "m" => HandlerPriority::Medium,
        "l" => HandlerPriority::Low,
        _ => return None,
    };
    let tid = field("tid").and_then(|t| t.parse::<usize>().ok());
    let mut params: Vec<Box<dyn DynParam>> = vec![];
    let mut starts = vec![];
    for ps in field("params").unwrap_or("").split(';').filter(|x| !x.is_empty()) {
        // protocol rule (also enforced by the model's parser; `Op.SValid` in the C01 theorem): the receiver is listed first,
        // a handler specification never starts with a fetcher-like parameter (the scripts read the event through parameter 0)
        if params.is_empty() && (ps.starts_with("F:") || ps.starts_with("S:") || ps.starts_with("TS:")) {
            return None;
        }
        starts.push(params.len());
        params.extend(parse_param(ps)?);
    }
    let mut body = vec![];
    for a in field("body").unwrap_or("").split(',').filter(|x| !x.is_empty()) {
        let act = parse_act(a)?;
        body.push(act);
    }
    Some(Built { handler: DynHandler { name, tid, prio, params, starts, body } })
}

// ---- ordinary function handlers (FunctionHandler, tuple parameter glue, .high() / .low() / .no_type_id()) ---------

fn fn0(r: Receiver<G0>) {
    trace(format!("h fn0 G0(s{})", r.event.0.serial));
}

fn fn1(r: Receiver<G0>, mut f: Fetcher<(EntityId, &'static K0)>) {
    trace(format!("h fn1 G0(s{})", r.event.0.serial));
    let mut items: Vec<String> = f.iter_mut().map(|(e, k)| format!("({},r0={},)", ord_of(e), k.0)).collect();
    items.sort();
    trace(format!(" it1 [{}] len={}", items.join(";"), items.len()));
}

fn fn2(r: Receiver<T0, EntityId>) {
    trace(format!("h fn2 T0(s{})@{}", r.event.0.serial, ord_of(r.query)));
}

fn fn3(r: evenio::event::ReceiverMut<G1>, s: Sender<(G0, Spawn)>) {
    trace(format!("h fn3 G1(s{})", r.event.0.serial));
    let ent = r.event.0.ent;
    if take_budget() {
        s.send(G0(Pay::new(fresh_e(), ent)));
    }
    let owned: G1 = evenio::event::EventMut::take(r.event);
    trace(" took".into());
    drop(owned);
}

/// a `#[derive(HandlerParam)]` struct: init / get / refresh_archetype / remove_archetype are forwarded to each field by the macro
#[derive(evenio::handler::HandlerParam)]
struct DerivedParam<'a> {
    a: Fetcher<'a, (EntityId, &'static K0)>,
    b: Fetcher<'a, (EntityId, &'static K1)>,
}

fn render_two(
    it1: impl Iterator<Item = (EntityId, u64)>,
    it2: impl Iterator<Item = (EntityId, u64)>,
    c1: &str,
    c2: &str,
) {
    let mut items: Vec<String> = it1.map(|(e, v)| format!("({},{c1}={v},)", ord_of(e))).collect();
    items.sort();
    trace(format!(" it1 [{}] len={}", items.join(";"), items.len()));
    let mut items: Vec<String> = it2.map(|(e, v)| format!("({},{c2}={v},)", ord_of(e))).collect();
    items.sort();
    trace(format!(" it2 [{}] len={}", items.join(";"), items.len()));
}

fn fn4(r: Receiver<G0>, mut p: DerivedParam) {
    trace(format!("h fn4 G0(s{})", r.event.0.serial));
    render_two(p.a.iter_mut().map(|(e, k)| (e, k.0)), p.b.iter_mut().map(|(e, k)| (e, k.v)), "r0", "r1");
}

/// a `#[derive(Query)]` struct, used through the tuple `HandlerParam` impl (parameters nested in a tuple)
#[derive(evenio::query::Query)]
struct DerivedQuery<'a> {
    e: EntityId,
    k: &'a K0,
}

fn fn5(r: Receiver<G0>, (mut a, mut b): (Fetcher<DerivedQuery>, Fetcher<(EntityId, &'static K1)>)) {
    trace(format!("h fn5 G0(s{})", r.event.0.serial));
    render_two(a.iter_mut().map(|q| (q.e, q.k.0)), b.iter_mut().map(|(e, k)| (e, k.v)), "r0", "r1");
}

fn short_name(n: &str) -> &str {
    n.rsplit("::").next().unwrap_or(n)
}

// ---- executor ------------------------------------------------------------------------------------

struct Exec {
    world: Option<World>,
    handlers: Vec<(String, HandlerId)>,
    removed_c: Vec<ComponentId>,
    removed_g: Vec<GlobalEventId>,
    removed_t: Vec<TargetedEventId>,
    removed_h: Vec<HandlerId>,
    /// display index of parameters: declared index (scripts print declared indices)
    decl_index: HashMap<String, Vec<usize>>,
    /// run-time registered items without a Rust type (`add_*_with_descriptor`, no type id): `K<n>` for n >= 6,
    /// `G<n>` for n >= 4, `T<n>` for n >= 3.  They only occupy registry slots, so that the typed items get large indices.
    anon_c: HashMap<usize, ComponentId>,
    anon_g: HashMap<usize, GlobalEventId>,
    anon_t: HashMap<usize, TargetedEventId>,
}

const TYPED_K: usize = 6;
const TYPED_G: usize = 4;
const TYPED_T: usize = 3;

fn anon_ev(ev: &str) -> Option<(bool, usize)> {
    if let Some(n) = ev.strip_prefix('G').and_then(|d| d.parse::<usize>().ok()) {
        if n >= TYPED_G { return Some((false, n)); }
    }
    if let Some(n) = ev.strip_prefix('T').and_then(|d| d.parse::<usize>().ok()) {
        if n >= TYPED_T { return Some((true, n)); }
    }
    None
}

fn reset_thread_state() {
    ORDS.with(|o| o.borrow_mut().clear());
    TRACE.with(|t| t.borrow_mut().clear());
    EDROPS.with(|e| e.borrow_mut().clear());
    CDROPS.with(|c| c.borrow_mut().clear());
    ESERIAL.with(|c| c.set(1));
    CSERIAL.with(|c| c.set(1));
    ARENA_NO.with(|c| c.set(0));
    LIVE_E.with(|c| c.set(0));
    LIVE_C.with(|c| *c.borrow_mut() = [0; 6]);
}

fn classify_panic(p: &(dyn std::any::Any + Send)) -> String {
    let msg = if let Some(s) = p.downcast_ref::<&str>() {
        s.to_string()
    } else if let Some(s) = p.downcast_ref::<String>() {
        s.clone()
    } else {
        "?".to_string()
    };
    if msg == "user" {
        "user".into()
    } else if msg.starts_with("failed to fetch exactly one entity") {
        "single".into()
    } else if msg.contains("is not in the `EventSet`") {
        "noteventset".into()
    } else if msg.starts_with("script:") {
        msg
    } else if msg.contains("did not specify an event to receive") {
        "cfg:noevent".into()
    } else if msg.contains("attempted to listen for more than one event type") {
        "cfg:multievent".into()
    } else if msg.contains("conflicting access to the received event") {
        "cfg:evaccess".into()
    } else if msg.contains("conflicting component access") {
        let mut ks: Vec<String> = vec![];
        let tail = msg.split("conflicting components are...").nth(1).unwrap_or("");
        for part in tail.split("- ").skip(1) {
            // "hx::types::K3" possibly followed by the next entry
            if let Some(pos) = part.rfind("K") {
                let d: String = part[pos + 1..].chars().take_while(|c| c.is_ascii_digit()).collect();
                ks.push(format!("K{d}"));
            } else {
                ks.push(format!("?{part}"));
            }
        }
        ks.sort();
        format!("cfg:conflict:{}", ks.join(","))
    } else {
        let short: String = msg.chars().take(80).collect();
        format!("internal:{}", short.replace('\n', " "))
    }
}

macro_rules! with_k {
    ($k:expr, $K:ident => $body:expr) => {
        match $k {
            0 => { type $K = K0; $body }
            1 => { type $K = K1; $body }
            2 => { type $K = K2; $body }
            3 => { type $K = K3; $body }
            4 => { type $K = K4; $body }
            _ => { type $K = K5; $body }
        }
    };
}

const EV_ORDER: &[&str] = &[
    "G0", "G1", "G2", "G3", "Spawn", "AddC", "RemC", "AddH", "RemH", "AddG", "AddT", "RemG", "RemT", "T0", "T1", "T2",
    "Despawn", "InsK0", "InsK1", "InsK2", "InsK3", "InsK4", "InsK5", "RemK0", "RemK1", "RemK2", "RemK3", "RemK4", "RemK5",
];

fn gev_id(w: &World, name: &str) -> Option<GlobalEventId> {
    use evenio::component::{AddComponent, RemoveComponent};
    use evenio::event::{AddGlobalEvent, AddTargetedEvent, RemoveGlobalEvent, RemoveTargetedEvent};
    use evenio::handler::{AddHandler, RemoveHandler};
    let t = match name {
        "G0" => TypeId::of::<G0>(),
        "G1" => TypeId::of::<G1>(),
        "G2" => TypeId::of::<G2>(),
        "G3" => TypeId::of::<G3<'static>>(),
        "Spawn" => TypeId::of::<Spawn>(),
        "AddC" => TypeId::of::<AddComponent>(),
        "RemC" => TypeId::of::<RemoveComponent>(),
        "AddH" => TypeId::of::<AddHandler>(),
        "RemH" => TypeId::of::<RemoveHandler>(),
        "AddG" => TypeId::of::<AddGlobalEvent>(),
        "AddT" => TypeId::of::<AddTargetedEvent>(),
        "RemG" => TypeId::of::<RemoveGlobalEvent>(),
        "RemT" => TypeId::of::<RemoveTargetedEvent>(),
        _ => return None,
    };
    w.global_events().get_by_type_id(t).map(|i| i.id())
}

fn tev_id(w: &World, name: &str) -> Option<TargetedEventId> {
    let t = match name {
        "T0" => TypeId::of::<T0>(),
        "T1" => TypeId::of::<T1>(),
        "T2" => TypeId::of::<T2>(),
        "Despawn" => TypeId::of::<Despawn>(),
        _ => {
            if let Some(k) = name.strip_prefix("InsK").and_then(|d| d.parse::<usize>().ok()) {
                with_k!(k, K => TypeId::of::<Insert<K>>())
            } else if let Some(k) = name.strip_prefix("RemK").and_then(|d| d.parse::<usize>().ok()) {
                with_k!(k, K => TypeId::of::<Remove<K>>())
            } else {
                return None;
            }
        }
    };
    w.targeted_events().get_by_type_id(t).map(|i| i.id())
}

fn comp_id(w: &World, k: usize) -> Option<ComponentId> {
    let t = with_k!(k, K => TypeId::of::<K>());
    w.components().get_by_type_id(t).map(|i| i.id())
}

impl Exec {
    fn new() -> Self {
        Exec {
            world: Some(World::new()),
            handlers: vec![],
            removed_c: vec![],
            removed_g: vec![],
            removed_t: vec![],
            removed_h: vec![],
            decl_index: HashMap::new(),
            anon_c: HashMap::new(),
            anon_g: HashMap::new(),
            anon_t: HashMap::new(),
        }
    }

    fn exec_op(&mut self, line: &str) -> Result<Vec<String>, String> {
        let toks: Vec<&str> = line.split(' ').collect();
        let w = self.world.as_mut().ok_or("no world")?;
        let ord = |s: &str| -> Option<EntityId> { Some(ord_key(s.strip_prefix('#')?.parse().ok()?)) };
        let bad = || "bad-op".to_string();
        match toks.as_slice() {
            ["spawn"] => {
                let id = w.spawn();
                // an id that was handed out before - returned by an earlier spawn or announced to a handler (Sender::spawn,
                // the Spawn event) - must never be returned again, whatever happened in between
                let dup = ORDS.with(|o| o.borrow().iter().position(|&x| x == id));
                ORDS.with(|o| o.borrow_mut().push(id));
                let dup = dup.map(|k| format!(" DUP#{k}")).unwrap_or_default();
                Ok(vec![format!("ret {}", ord_of(id)), format!("id e {}v{}{dup}", id.index().0, id.generation())])
            }
            ["despawn", e] => {
                w.despawn(ord(e).ok_or_else(bad)?);
                Ok(vec![])
            }
            ["insert", e, k, v] => {
                let id = ord(e).ok_or_else(bad)?;
                let k = parse_k(k).ok_or_else(bad)?;
                let v: u64 = v.parse().map_err(|_| bad())?;
                let ser = fresh_c();
                with_k!(k, K => w.insert(id, <K as Comp>::make(v, ser)));
                Ok(vec![])
            }
            ["remove", e, k] => {
                let id = ord(e).ok_or_else(bad)?;
                let k = parse_k(k).ok_or_else(bad)?;
                with_k!(k, K => w.remove::<K>(id));
                Ok(vec![])
            }
            ["send", g] => {
                let n: usize = g.strip_prefix('G').and_then(|d| d.parse().ok()).ok_or_else(bad)?;
                let p = Pay::new(fresh_e(), EntityId::NULL);
                match n {
                    0 => w.send(G0(p)),
                    1 => w.send(G1(p)),
                    2 => w.send(G2(p)),
                    _ => w.send(G3 { pay: p, data: &[], alloc_no: 0, has_data: false }),
                }
                Ok(vec![])
            }
            ["sendto", t, e] => {
                let n: usize = t.strip_prefix('T').and_then(|d| d.parse().ok()).ok_or_else(bad)?;
                let id = ord(e).ok_or_else(bad)?;
                let p = Pay::new(fresh_e(), EntityId::NULL);
                match n {
                    0 => w.send_to(id, T0(p)),
                    1 => w.send_to(id, T1(p)),
                    _ => w.send_to(id, T2(p)),
                }
                Ok(vec![])
            }
            ["addh", rest @ ..] => {
                let built = build_handler(rest).ok_or_else(bad)?;
                let name = built.handler.name.clone();
                let before = w.handlers().iter().count();
                let id = w.add_handler(built.handler);
                let after = w.handlers().iter().count();
                if after == before {
                    Ok(vec!["ret dup".into(), format!("id h {}v{}", id.index().0, id.generation())])
                } else {
                    self.handlers.push((name, id));
                    Ok(vec!["ret ok".into(), format!("id h {}v{}", id.index().0, id.generation())])
                }
            }
            ["addfn", f, wrap] => {
                let before = w.handlers().iter().count();
                macro_rules! add {
                    ($f:ident) => {
                        match *wrap {
                            "plain" => w.add_handler($f),
                            "high" => w.add_handler($f.high()),
                            "low" => w.add_handler($f.low()),
                            "notid" => w.add_handler($f.no_type_id()),
                            _ => return Err(bad()),
                        }
                    };
                }
                let id = match *f {
                    "fn0" => add!(fn0),
                    "fn1" => add!(fn1),
                    "fn2" => add!(fn2),
                    "fn3" => add!(fn3),
                    "fn4" => add!(fn4),
                    "fn5" => add!(fn5),
                    _ => return Err(bad()),
                };
                let after = w.handlers().iter().count();
                let tag = if after == before { "ret dup" } else { "ret ok" };
                Ok(vec![tag.into(), format!("id h {}v{}", id.index().0, id.generation())])
            }
            ["rmh", name] => {
                let found = w.handlers().iter().find(|h| short_name(h.name()) == *name).map(|h| h.id());
                match found {
                    Some(id) => {
                        let r = w.remove_handler(id);
                        Ok(vec![if r.is_some() { "ret some".into() } else { "ret none".into() }])
                    }
                    None => Ok(vec!["ret none".into()]),
                }
            }
            ["addc", k] => {
                let k = parse_k(k).ok_or_else(bad)?;
                if k >= TYPED_K {
                    // registering the same name twice returns the live id, like a type-identified component
                    let id = match self.anon_c.get(&k) {
                        Some(id) if w.components().contains(*id) => *id,
                        _ => {
                            let desc = evenio::component::ComponentDescriptor {
                                name: format!("K{k}").into(),
                                type_id: None,
                                layout: std::alloc::Layout::new::<u64>(),
                                drop: None,
                                mutability: evenio::mutability::Mutability::Mutable,
                            };
                            let id = unsafe { w.add_component_with_descriptor(desc) };
                            self.anon_c.insert(k, id);
                            id
                        }
                    };
                    return Ok(vec![format!("id c {}v{}", id.index().0, id.generation())]);
                }
                let id = with_k!(k, K => w.add_component::<K>());
                Ok(vec![format!("id c {}v{}", id.index().0, id.generation())])
            }
            ["rmc", k] => {
                let k = parse_k(k).ok_or_else(bad)?;
                let found = if k >= TYPED_K { self.anon_c.get(&k).copied().filter(|id| w.components().contains(*id)) } else { comp_id(w, k) };
                match found {
                    Some(id) => {
                        let r = w.remove_component(id);
                        Ok(vec![if r.is_some() { "ret some".into() } else { "ret none".into() }])
                    }
                    None => Ok(vec!["ret none".into()]),
                }
            }
            ["addev", ev] => {
                if let Some((targeted, n)) = anon_ev(ev) {
                    let desc = evenio::event::EventDescriptor {
                        name: ev.to_string().into(),
                        type_id: None,
                        kind: evenio::event::EventKind::Normal,
                        layout: std::alloc::Layout::new::<()>(),
                        drop: None,
                        mutability: evenio::mutability::Mutability::Mutable,
                    };
                    if targeted {
                        let id = match self.anon_t.get(&n) {
                            Some(id) if w.targeted_events().contains(*id) => *id,
                            _ => {
                                let id = unsafe { w.add_targeted_event_with_descriptor(desc) };
                                self.anon_t.insert(n, id);
                                id
                            }
                        };
                        return Ok(vec![format!("id t {}v{}", id.index().0, id.generation())]);
                    }
                    let id = match self.anon_g.get(&n) {
                        Some(id) if w.global_events().contains(*id) => *id,
                        _ => {
                            let id = unsafe { w.add_global_event_with_descriptor(desc) };
                            self.anon_g.insert(n, id);
                            id
                        }
                    };
                    return Ok(vec![format!("id g {}v{}", id.index().0, id.generation())]);
                }
                if is_targeted(ev) {
                    let id = match *ev {
                        "T0" => w.add_targeted_event::<T0>(),
                        "T1" => w.add_targeted_event::<T1>(),
                        "T2" => w.add_targeted_event::<T2>(),
                        "Despawn" => w.add_targeted_event::<Despawn>(),
                        _ => {
                            if let Some(k) = ev.strip_prefix("InsK").and_then(|d| d.parse::<usize>().ok()) {
                                with_k!(k, K => w.add_targeted_event::<Insert<K>>())
                            } else if let Some(k) = ev.strip_prefix("RemK").and_then(|d| d.parse::<usize>().ok()) {
                                with_k!(k, K => w.add_targeted_event::<Remove<K>>())
                            } else {
                                return Err(bad());
                            }
                        }
                    };
                    Ok(vec![format!("id t {}v{}", id.index().0, id.generation())])
                } else {
                    let id = match *ev {
                        "G0" => w.add_global_event::<G0>(),
                        "G1" => w.add_global_event::<G1>(),
                        "G2" => w.add_global_event::<G2>(),
                        "G3" => w.add_global_event::<G3<'static>>(),
                        "Spawn" => w.add_global_event::<Spawn>(),
                        _ => return Err(bad()),
                    };
                    Ok(vec![format!("id g {}v{}", id.index().0, id.generation())])
                }
            }
            ["rmev", ev] => {
                if let Some((targeted, n)) = anon_ev(ev) {
                    let r = if targeted {
                        match self.anon_t.get(&n).copied().filter(|id| w.targeted_events().contains(*id)) {
                            Some(id) => w.remove_targeted_event(id).is_some(),
                            None => false,
                        }
                    } else {
                        match self.anon_g.get(&n).copied().filter(|id| w.global_events().contains(*id)) {
                            Some(id) => w.remove_global_event(id).is_some(),
                            None => false,
                        }
                    };
                    return Ok(vec![if r { "ret some".into() } else { "ret none".into() }]);
                }
                if is_targeted(ev) {
                    match tev_id(w, ev) {
                        Some(id) => {
                            let r = w.remove_targeted_event(id);
                            Ok(vec![if r.is_some() { "ret some".into() } else { "ret none".into() }])
                        }
                        None => Ok(vec!["ret none".into()]),
                    }
                } else {
                    match gev_id(w, ev) {
                        Some(id) => {
                            let r = w.remove_global_event(id);
                            Ok(vec![if r.is_some() { "ret some".into() } else { "ret none".into() }])
                        }
                        None => Ok(vec!["ret none".into()]),
                    }
                }
            }
            ["setgen", e, g] => {
                let id = ord(e).ok_or_else(bad)?;
                let g: u32 = g.parse().map_err(|_| bad())?;
                match w.verif_set_entity_generation(id, g) {
                    Some(new_id) => {
                        ORDS.with(|o| {
                            for x in o.borrow_mut().iter_mut() {
                                if *x == id {
                                    *x = new_id;
                                }
                            }
                        });
                        Ok(vec!["ret some".into()])
                    }
                    None => Ok(vec!["ret none".into()]),
                }
            }
            ["drop"] => {
                let w = self.world.take().unwrap();
                drop(w);
                Ok(vec![])
            }
            _ => Err(bad()),
        }
    }

    /// hand-made ids next to every id ever returned by a spawn: how many of them are (wrongly) valid
    fn probe_count(&self) -> usize {
        let w = self.world.as_ref().unwrap();
        let known: Vec<EntityId> = ORDS.with(|o| o.borrow().clone());
        let mut cands: Vec<(u32, u64)> = vec![];
        for k in &known {
            let g = k.generation() as u64;
            let mut gs = vec![g + 1, g + 2];
            if g >= 1 { gs.push(g - 1); }
            if g >= 2 { gs.push(g - 2); }
            for x in gs {
                if !cands.contains(&(k.index().0, x)) {
                    cands.push((k.index().0, x));
                }
            }
        }
        cands
            .into_iter()
            .filter(|&(i, g)| {
                if g > u32::MAX as u64 {
                    return false;
                }
                match EntityId::new(i, g as u32) {
                    Some(id) => !known.contains(&id) && w.entities().contains(id),
                    None => false,
                }
            })
            .count()
    }

    fn render_store(&mut self) -> String {
        let w = self.world.as_mut().unwrap();
        let n = ORDS.with(|o| o.borrow().len());
        let mut parts = vec![];
        for i in 0..n {
            let id = ord_key(i);
            // `World::get_mut` has a lookup of its own (round-8 change C02_X_1 dropped the generation comparison there only):
            // it must answer exactly like `World::get`, for live and for dead ids
            let mut_differs = w.get_mut::<K0>(id).is_some() != w.get::<K0>(id).is_some()
                || w.get_mut::<K1>(id).is_some() != w.get::<K1>(id).is_some()
                || w.get_mut::<K2>(id).is_some() != w.get::<K2>(id).is_some()
                || w.get_mut::<K3>(id).is_some() != w.get::<K3>(id).is_some()
                || w.get_mut::<K4>(id).is_some() != w.get::<K4>(id).is_some()
                || w.get_mut::<K5>(id).is_some() != w.get::<K5>(id).is_some();
            if mut_differs {
                parts.push(format!("#{i}=GHOST"));
                continue;
            }
            if !w.entities().contains(id) {
                // a dead id must be dead through every lookup
                let ghost = w.entities().get(id).is_some()
                    || w.entities().get_by_index(id.index()).is_some_and(|_| false)
                    || w.get::<K0>(id).is_some() || w.get::<K1>(id).is_some() || w.get::<K2>(id).is_some()
                    || w.get::<K3>(id).is_some() || w.get::<K4>(id).is_some() || w.get::<K5>(id).is_some();
                parts.push(if ghost { format!("#{i}=GHOST") } else { format!("#{i}=x") });
                continue;
            }
            let mut cells = vec![];
            if let Some(c) = w.get::<K0>(id) { cells.push(format!("K0:{}", c.0)); }
            if let Some(c) = w.get::<K1>(id) { cells.push(format!("K1:{}", c.v)); }
            if w.get::<K2>(id).is_some() { cells.push("K2".into()); }
            if w.get::<K3>(id).is_some() { cells.push("K3".into()); }
            if let Some(c) = w.get::<K4>(id) {
                if (c as *const K4 as usize) % 64 != 0 { cells.push("K4:MISALIGNED".into()); }
                cells.push(format!("K4:{}", c.v));
            }
            if let Some(c) = w.get::<K5>(id) {
                if (c as *const K5 as usize) % 64 != 0 { cells.push("K5:MISALIGNED".into()); }
                cells.push("K5".into());
            }
            parts.push(format!("#{i}={{{}}}", cells.join(",")));
        }
        format!("st n={} {}", w.entities().len(), parts.join(" "))
    }

    fn note_removed(&mut self, before: &Reg) {
        let w = self.world.as_ref().unwrap();
        for (_, id) in &before.c {
            if !w.components().contains(*id) && !self.removed_c.contains(id) { self.removed_c.push(*id); }
        }
        for (_, id) in &before.g {
            if !w.global_events().contains(*id) && !self.removed_g.contains(id) { self.removed_g.push(*id); }
        }
        for (_, id) in &before.t {
            if !w.targeted_events().contains(*id) && !self.removed_t.contains(id) { self.removed_t.push(*id); }
        }
        for (_, id) in &before.h {
            if !w.handlers().contains(*id) && !self.removed_h.contains(id) { self.removed_h.push(*id); }
        }
    }

    fn reg(&self) -> Reg {
        let w = self.world.as_ref().unwrap();
        let mut r = Reg::default();
        for k in 0..6 {
            if let Some(id) = comp_id(w, k) { r.c.push((format!("K{k}"), id)); }
        }
        for name in EV_ORDER {
            if is_targeted(name) {
                if let Some(id) = tev_id(w, name) { r.t.push((name.to_string(), id)); }
            } else if let Some(id) = gev_id(w, name) {
                r.g.push((name.to_string(), id));
            }
        }
        for h in w.handlers().iter() {
            r.h.push((short_name(h.name()).to_string(), h.id()));
        }
        r
    }

    fn render_reg(&self) -> String {
        let w = self.world.as_ref().unwrap();
        let r = self.reg();
        let cs: Vec<String> = r.c.iter().map(|(n, id)| format!("{n}={}v{}", id.index().0, id.generation())).collect();
        let mut es: Vec<String> = vec![];
        for name in EV_ORDER {
            if let Some((n, id)) = r.g.iter().find(|(n, _)| n == name) { es.push(format!("{n}={}v{}", id.index().0, id.generation())); }
            if let Some((n, id)) = r.t.iter().find(|(n, _)| n == name) { es.push(format!("{n}={}v{}", id.index().0, id.generation())); }
        }
        let hs: Vec<String> = r.h.iter().map(|(n, id)| format!("{n}={}v{}", id.index().0, id.generation())).collect();
        // a removed id must be invalid through EVERY lookup: `contains`, `get`, `get_by_index` (which must not hand out an
        // entry carrying the removed id) and the panicking `Index` impls (documented panic on an invalid id)
        use std::panic::{catch_unwind, AssertUnwindSafe};
        let stale = self.removed_c.iter().filter(|id| {
                w.components().contains(**id) || w.components().get(**id).is_some()
                    || w.components().get_by_index(id.index()).map(|i| i.id()) == Some(**id)
                    || catch_unwind(AssertUnwindSafe(|| { let _ = &w.components()[**id]; })).is_ok()
            }).count()
            + self.removed_g.iter().filter(|id| {
                w.global_events().contains(**id) || w.global_events().get(**id).is_some()
                    || w.global_events().get_by_index(id.index()).map(|i| i.id()) == Some(**id)
                    || catch_unwind(AssertUnwindSafe(|| { let _ = &w.global_events()[**id]; })).is_ok()
            }).count()
            + self.removed_t.iter().filter(|id| {
                w.targeted_events().contains(**id) || w.targeted_events().get(**id).is_some()
                    || w.targeted_events().get_by_index(id.index()).map(|i| i.id()) == Some(**id)
                    || catch_unwind(AssertUnwindSafe(|| { let _ = &w.targeted_events()[**id]; })).is_ok()
            }).count()
            + self.removed_h.iter().filter(|id| {
                w.handlers().contains(**id) || w.handlers().get(**id).is_some()
                    || w.handlers().get_by_index(id.index()).map(|i| i.id()) == Some(**id)
                    || catch_unwind(AssertUnwindSafe(|| { let _ = &w.handlers()[**id]; })).is_ok()
            }).count();
        format!("reg c:{} e:{} h:{} stale={}", cs.join(","), es.join(","), hs.join(","), stale)
    }
}

#[derive(Default)]
struct Reg {
    c: Vec<(String, ComponentId)>,
    g: Vec<(String, GlobalEventId)>,
    t: Vec<(String, TargetedEventId)>,
    h: Vec<(String, HandlerId)>,
}

fn main() {
    std::panic::set_hook(Box::new(|_| {}));
    let args: Vec<String> = std::env::args().collect();
    let snap = args.iter().any(|a| a == "--snap");
    #[cfg(feature = "rayon")]
    if args.iter().any(|a| a == "--par") {
        par::main();
        return;
    }
    if args.iter().any(|a| a == "--bitset") {
        // scripts for the crate's internal bit set (hook `World::verif_bitset_script`): `=== name` starts a script,
        // one output line per operation line
        use std::io::Read;
        let mut text = String::new();
        std::io::stdin().read_to_string(&mut text).unwrap();
        let mut cur = String::new();
        let mut outp = String::new();
        let flush = |cur: &mut String, outp: &mut String| {
            if !cur.is_empty() {
                outp.push_str(&World::verif_bitset_script(cur.trim_end_matches('\n')));
                cur.clear();
            }
        };
        for line in text.lines() {
            if line.starts_with("===") {
                flush(&mut cur, &mut outp);
                outp.push_str(line);
                outp.push('\n');
            } else if !line.trim().is_empty() {
                cur.push_str(line);
                cur.push('\n');
            }
        }
        flush(&mut cur, &mut outp);
        print!("{outp}");
        return;
    }
    let stdin = std::io::stdin();
    let stdout = std::io::stdout();
    let mut out = std::io::BufWriter::new(stdout.lock());
    let mut ex: Option<Exec> = None;
    for line in stdin.lock().lines() {
        let line = line.unwrap();
        let line = line.trim();
        if line.is_empty() || line.starts_with('>') || line.starts_with('#') {
            continue;
        }
        if line.starts_with("===") {
            // finish the previous world quietly
            ex = None;
            reset_thread_state();
            ex = Some(Exec::new());
            writeln!(out, "{line}").unwrap();
            out.flush().unwrap();
            continue;
        }
        let Some(e) = ex.as_mut() else { continue };
        if e.world.is_none() {
            continue;
        }
        writeln!(out, "{line}").unwrap();
        out.flush().unwrap();
        TRACE.with(|t| t.borrow_mut().clear());
        EDROPS.with(|t| t.borrow_mut().clear());
        CDROPS.with(|t| t.borrow_mut().clear());
        BUDGET.with(|b| b.set(BUDGET_PER_OP));
        let before = e.reg();
        let res = catch_unwind(AssertUnwindSafe(|| e.exec_op(line)));
        let mut lines: Vec<String> = vec![];
        if let Ok(Err(msg)) = &res {
            // a line outside the protocol: nothing was executed; the model's driver prints the same single line
            writeln!(out, "> {msg}").unwrap();
            out.flush().unwrap();
            continue;
        }
        match res {
            Ok(Ok(l)) => lines.extend(l),
            Ok(Err(msg)) => lines.push(msg),
            Err(p) => {
                let cls = classify_panic(&*p);
                if line.starts_with("addh ") && cls.starts_with("cfg:") {
                    lines.push(format!("ret err:{}", &cls[4..]));
                } else {
                    lines.push(format!("panic {cls}"));
                }
            }
        }
        TRACE.with(|t| {
            for s in t.borrow().iter() {
                lines.push(format!("t {s}"));
            }
        });
        let mut ed = EDROPS.with(|t| t.borrow().clone());
        ed.sort();
        lines.push(format!("ed {}", ed.iter().map(|s| s.to_string()).collect::<Vec<_>>().join(" ")).trim_end().to_string());
        let mut cd = CDROPS.with(|t| t.borrow().clone());
        cd.sort();
        lines.push(format!("cd {}", cd.join(" ")).trim_end().to_string());
        // values alive after the operation returned (harness-side ledger; judged directly, not compared with the model)
        let lc = LIVE_C.with(|l| *l.borrow());
        lines.push(format!("live E={} K1={} K3={} K4={}", LIVE_E.with(|l| l.get()), lc[1], lc[3], lc[4]));
        if e.world.is_some() {
            e.note_removed(&before);
            lines.push(e.render_store());
            lines.push(e.render_reg());
            let (_, c, q) = e.world.as_ref().unwrap().verif_pending();
            lines.push(format!("pend res={c} queue={q}"));
            lines.push(format!("pr {}", e.probe_count()));
            if snap {
                let w = e.world.as_ref().unwrap();
                for l in w.verif_snapshot().lines() {
                    lines.push(format!("snap {l}"));
                }
                // handler metadata through the public API, for the listener-table audit
                for h in w.handlers().iter() {
                    let recv = match h.received_event() {
                        evenio::event::EventId::Global(g) => format!("g{}", g.index().0),
                        evenio::event::EventId::Targeted(t) => format!("t{}", t.index().0),
                    };
                    let prio = match h.priority() {
                        HandlerPriority::High => "h",
                        HandlerPriority::Medium => "m",
                        HandlerPriority::Low => "l",
                    };
                    lines.push(format!(
                        "hinfo {}v{} recv={} prio={} filter={:?} archfilter={:?}",
                        h.id().index().0,
                        h.id().generation(),
                        recv,
                        prio,
                        h.targeted_event_component_access(),
                        h.archetype_filter()
                    ));
                }
            }
        }
        for l in lines {
            writeln!(out, "> {l}").unwrap();
        }
        out.flush().unwrap();
    }
    drop(ex);
}
