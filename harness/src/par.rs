//! C19: parallel iteration vs sequential iteration on the real `Fetcher`, for several pool sizes.
//! Input lines: `par <seed> <pool> <r0> .. <r7>` (rows of the archetype with component mask i over K0,K1,K2).
use std::cell::RefCell;
use std::collections::HashMap;
use std::io::BufRead;
use std::rc::Rc;

use evenio::prelude::*;
use evenio::query::{Not, Or, With};
use rayon::prelude::*;

use crate::types::*;

#[derive(Default)]
struct Out {
    lines: Vec<String>,
}

fn multiset(v: &[EntityId]) -> HashMap<EntityId, usize> {
    let mut m = HashMap::new();
    for &e in v {
        *m.entry(e).or_insert(0) += 1;
    }
    m
}

fn report(out: &Rc<RefCell<Out>>, q: &str, seq: Vec<EntityId>, par: Vec<EntityId>) {
    let ms = multiset(&seq);
    let mp = multiset(&par);
    let dup = mp.values().filter(|&&c| c > 1).count();
    let missing = ms.keys().filter(|k| !mp.contains_key(k)).count();
    let extra = mp.keys().filter(|k| !ms.contains_key(k)).count();
    out.borrow_mut().lines.push(format!(
        "q={q} seq={} par={} dup={dup} missing={missing} extra={extra}",
        seq.len(),
        par.len()
    ));
}

pub fn main() {
    let stdin = std::io::stdin();
    for line in stdin.lock().lines() {
        let line = line.unwrap();
        let toks: Vec<&str> = line.split_whitespace().collect();
        if toks.len() != 11 || toks[0] != "par" {
            continue;
        }
        let seed: u64 = toks[1].parse().unwrap();
        let pool: usize = toks[2].parse().unwrap();
        let rows: Vec<usize> = toks[3..].iter().map(|t| t.parse().unwrap()).collect();
        let out = Rc::new(RefCell::new(Out::default()));
        let mut world = World::new();
        // handlers are added before, between and after the population so that caches are filled both ways
        let o = out.clone();
        world.add_handler(move |_: Receiver<G0>, f: Fetcher<(EntityId, &K0)>| {
            let seq: Vec<EntityId> = f.iter().map(|(e, _)| e).collect();
            let par: Vec<EntityId> = (&f).into_par_iter().map(|(e, _)| e).collect();
            report(&o, "(E,r0)", seq, par);
        });
        let o = out.clone();
        world.add_handler(move |_: Receiver<G0>, f: Fetcher<(EntityId, With<&K1>)>| {
            let seq: Vec<EntityId> = f.iter().map(|(e, _)| e).collect();
            let par: Vec<EntityId> = (&f).into_par_iter().map(|(e, _)| e).collect();
            report(&o, "(E,Wr1)", seq, par);
        });
        let mut ids = vec![];
        let mut x = seed;
        for (mask, &n) in rows.iter().enumerate() {
            for _ in 0..n {
                let e = world.spawn();
                x = x.wrapping_mul(6364136223846793005).wrapping_add(1442695040888963407);
                if mask & 1 != 0 { world.insert(e, K0(0)); }
                if mask & 2 != 0 { world.insert(e, K1 { v: 0, ser: 0 }); }
                if mask & 4 != 0 { world.insert(e, K2); }
                ids.push(e);
                // some churn: removals in the middle of rows
                if x >> 60 == 0 && ids.len() > 3 {
                    let victim = ids.swap_remove((x >> 20) as usize % ids.len());
                    world.despawn(victim);
                }
            }
        }
        let o = out.clone();
        world.add_handler(move |_: Receiver<G0>, f: Fetcher<(EntityId, Or<&K0, &K1>, Not<&K2>)>| {
            let seq: Vec<EntityId> = f.iter().map(|(e, _, _)| e).collect();
            let par: Vec<EntityId> = (&f).into_par_iter().map(|(e, _, _)| e).collect();
            report(&o, "(E,O<r0|r1>,!r2)", seq, par);
        });
        let o = out.clone();
        world.add_handler(move |_: Receiver<G0>, f: Fetcher<EntityId>| {
            let seq: Vec<EntityId> = f.iter().collect();
            let par: Vec<EntityId> = (&f).into_par_iter().collect();
            report(&o, "E", seq, par);
        });
        // mutable parallel iteration: every matching entity must be written exactly once
        let o = out.clone();
        world.add_handler(move |_: Receiver<G1>, mut f: Fetcher<(EntityId, &mut K0)>| {
            let before: HashMap<EntityId, u64> = f.iter_mut().map(|(e, k)| (e, k.0)).collect();
            (&mut f).into_par_iter().for_each(|(_, k)| k.0 += 1);
            let after: HashMap<EntityId, u64> = f.iter_mut().map(|(e, k)| (e, k.0)).collect();
            let bad = before.iter().filter(|(e, v)| after.get(*e) != Some(&(**v + 1))).count();
            o.borrow_mut().lines.push(format!("q=mut(E,m0) n={} writes_bad={bad}", before.len()));
        });
        let o = out.clone();
        world.add_handler(move |_: Receiver<G1>, f: Fetcher<(EntityId, &mut K1)>| {
            // consuming `into_par_iter` on the fetcher itself
            let v: Vec<EntityId> = f.into_par_iter().map(|(e, k)| { k.v += 1; e }).collect();
            let dup = multiset(&v).values().filter(|&&c| c > 1).count();
            o.borrow_mut().lines.push(format!("q=own(E,m1) n={} dup={dup}", v.len()));
        });
        let tp = rayon::ThreadPoolBuilder::new().num_threads(pool).build().unwrap();
        // `World` is not `Send`: install needs a `Send` closure, so smuggle the pointer (the handler runs on a pool
        // thread while this thread blocks; nothing else touches the world)
        struct P(*mut World);
        unsafe impl Send for P {}
        let p = P(&mut world as *mut World);
        tp.install(move || {
            let p = p;
            let w = unsafe { &mut *p.0 };
            w.send(G0(Pay::new(0, EntityId::NULL)));
            w.send(G1(Pay::new(0, EntityId::NULL)));
        });
        let k1_ok = ids.iter().all(|&e| world.get::<K1>(e).map(|k| k.v == 1).unwrap_or(true));
        let live = world.entities().len();
        println!("{line}");
        for l in &out.borrow().lines {
            println!("> {l}");
        }
        println!("> live={live} k1_written_once={k1_ok}");
    }
}
