//! The fixed universe: six component types covering the layout classes, user events with ledgered
//! payloads, and the thread-local ledgers / tables shared between handlers and the executor.
use std::cell::{Cell, RefCell};

use evenio::prelude::*;

thread_local! {
    /// ids returned by spawns, in order (`#n`)
    pub static ORDS: RefCell<Vec<EntityId>> = RefCell::new(vec![]);
    pub static TRACE: RefCell<Vec<String>> = RefCell::new(vec![]);
    pub static EDROPS: RefCell<Vec<u64>> = RefCell::new(vec![]);
    pub static CDROPS: RefCell<Vec<String>> = RefCell::new(vec![]);
    pub static ESERIAL: Cell<u64> = Cell::new(1);
    pub static CSERIAL: Cell<u64> = Cell::new(1);
    pub static BUDGET: Cell<u32> = Cell::new(0);
    pub static ARENA_NO: Cell<u64> = Cell::new(0);
    /// values currently alive: event payloads, and components of the three types with destructors (K1, K3, K4)
    pub static LIVE_E: Cell<i64> = Cell::new(0);
    pub static LIVE_C: RefCell<[i64; 6]> = RefCell::new([0; 6]);
}

pub fn live_c(k: usize, d: i64) {
    LIVE_C.with(|l| l.borrow_mut()[k] += d);
}

pub fn trace(s: String) {
    TRACE.with(|t| t.borrow_mut().push(s));
}

pub fn fresh_e() -> u64 {
    ESERIAL.with(|c| {
        let v = c.get();
        c.set(v + 1);
        v
    })
}

pub fn fresh_c() -> u64 {
    CSERIAL.with(|c| {
        let v = c.get();
        c.set(v + 1);
        v
    })
}

pub fn take_budget() -> bool {
    BUDGET.with(|b| {
        if b.get() == 0 {
            false
        } else {
            b.set(b.get() - 1);
            true
        }
    })
}

pub fn ord_of(id: EntityId) -> String {
    if id == EntityId::NULL {
        return "null".into();
    }
    ORDS.with(|o| match o.borrow().iter().position(|&x| x == id) {
        Some(n) => format!("#{n}"),
        None => format!("?{}v{}", id.index().0, id.generation()),
    })
}

pub fn ord_key(n: usize) -> EntityId {
    ORDS.with(|o| o.borrow().get(n).copied().unwrap_or(EntityId::NULL))
}

pub fn last_ord() -> EntityId {
    ORDS.with(|o| o.borrow().last().copied().unwrap_or(EntityId::NULL))
}

// ---- components -------------------------------------------------------------------------------

/// sized, plain
#[derive(Component, Debug)]
pub struct K0(pub u64);

/// sized, with destructor
#[derive(Component, Debug)]
pub struct K1 {
    pub v: u64,
    pub ser: u64,
}
impl Drop for K1 {
    fn drop(&mut self) {
        live_c(1, -1);
        CDROPS.with(|c| c.borrow_mut().push(format!("K1:s{}", self.ser)));
    }
}

/// zero-sized, plain
#[derive(Component, Debug)]
pub struct K2;

/// zero-sized, with destructor
#[derive(Component, Debug)]
pub struct K3;
impl Drop for K3 {
    fn drop(&mut self) {
        live_c(3, -1);
        CDROPS.with(|c| c.borrow_mut().push("K3".to_string()));
    }
}

/// over-aligned, sized, with destructor
#[derive(Component, Debug)]
#[repr(align(64))]
pub struct K4 {
    pub v: u64,
    pub ser: u64,
}
impl Drop for K4 {
    fn drop(&mut self) {
        live_c(4, -1);
        // the address must be aligned wherever the value lives
        if (self as *const K4 as usize) % 64 != 0 {
            CDROPS.with(|c| c.borrow_mut().push("K4:MISALIGNED".to_string()));
        }
        CDROPS.with(|c| c.borrow_mut().push(format!("K4:s{}", self.ser)));
    }
}

/// over-aligned, zero-sized
#[derive(Component, Debug)]
#[repr(align(64))]
pub struct K5;

pub trait Comp: Component<Mutability = evenio::mutability::Mutable> + 'static {
    const TY: usize;
    fn make(v: u64, ser: u64) -> Self;
    fn val(&self) -> u64;
    fn bump(&mut self);
}
impl Comp for K0 {
    const TY: usize = 0;
    fn make(v: u64, _: u64) -> Self { K0(v) }
    fn val(&self) -> u64 { self.0 }
    fn bump(&mut self) { self.0 += 1 }
}
impl Comp for K1 {
    const TY: usize = 1;
    fn make(v: u64, ser: u64) -> Self { live_c(1, 1); K1 { v, ser } }
    fn val(&self) -> u64 { self.v }
    fn bump(&mut self) { self.v += 1 }
}
impl Comp for K2 {
    const TY: usize = 2;
    fn make(_: u64, _: u64) -> Self { K2 }
    fn val(&self) -> u64 { 0 }
    fn bump(&mut self) {}
}
impl Comp for K3 {
    const TY: usize = 3;
    fn make(_: u64, _: u64) -> Self { live_c(3, 1); K3 }
    fn val(&self) -> u64 { 0 }
    fn bump(&mut self) {}
}
impl Comp for K4 {
    const TY: usize = 4;
    fn make(v: u64, ser: u64) -> Self { live_c(4, 1); K4 { v, ser } }
    fn val(&self) -> u64 { self.v }
    fn bump(&mut self) { self.v += 1 }
}
impl Comp for K5 {
    const TY: usize = 5;
    fn make(_: u64, _: u64) -> Self { K5 }
    fn val(&self) -> u64 { 0 }
    fn bump(&mut self) {}
}

// ---- events -----------------------------------------------------------------------------------

/// ledgered payload of every user event
#[derive(Debug)]
pub struct Pay {
    pub serial: u64,
    pub ent: EntityId,
}
impl Pay {
    pub fn new(serial: u64, ent: EntityId) -> Pay {
        LIVE_E.with(|l| l.set(l.get() + 1));
        Pay { serial, ent }
    }
}
impl Drop for Pay {
    fn drop(&mut self) {
        LIVE_E.with(|l| l.set(l.get() - 1));
        EDROPS.with(|e| e.borrow_mut().push(self.serial));
    }
}

#[derive(GlobalEvent, Debug)]
pub struct G0(pub Pay);
#[derive(GlobalEvent, Debug)]
pub struct G1(pub Pay);
#[derive(GlobalEvent, Debug)]
pub struct G2(pub Pay);
/// carries data borrowed from the world's arena (C20)
#[derive(GlobalEvent, Debug)]
pub struct G3<'a> {
    pub pay: Pay,
    pub data: &'a [u8],
    pub alloc_no: u64,
    pub has_data: bool,
}
#[derive(TargetedEvent, Debug)]
pub struct T0(pub Pay);
#[derive(TargetedEvent, Debug)]
pub struct T1(pub Pay);
#[derive(TargetedEvent, Debug)]
pub struct T2(pub Pay);

/// printable ASCII, so that the same pattern works for `alloc_slice` and `alloc_str`
pub fn arena_byte(alloc_no: u64, i: usize) -> u8 {
    33 + (((alloc_no as usize).wrapping_mul(131).wrapping_add(i.wrapping_mul(7)).wrapping_add(i >> 8)) % 90) as u8
}

/// the text allocated through `alloc_str` for allocation `alloc_no` with a byte length of `len`: every other allocation
/// mixes two- and three-byte characters in (the number of chars differs from the number of bytes), padded with ASCII
pub fn arena_text(alloc_no: u64, len: usize) -> String {
    if alloc_no % 2 == 0 {
        return (0..len).map(|i| arena_byte(alloc_no, i) as char).collect();
    }
    let mut s = String::with_capacity(len);
    let mut i = 0usize;
    while s.len() < len {
        let left = len - s.len();
        let c = match (alloc_no as usize + i) % 3 {
            0 if left >= 2 => '\u{e9}',
            1 if left >= 3 => '\u{20ac}',
            _ => arena_byte(alloc_no, i) as char,
        };
        s.push(c);
        i += 1;
    }
    s
}

/// the bytes an arena payload of allocation `alloc_no` must hold (odd lengths went through `alloc_str`)
pub fn arena_ok(alloc_no: u64, data: &[u8]) -> bool {
    if data.len() % 2 == 1 {
        return data == arena_text(alloc_no, data.len()).as_bytes();
    }
    data.iter().enumerate().all(|(i, &b)| b == arena_byte(alloc_no, i))
}
