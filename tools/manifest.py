#!/usr/bin/env python3
"""Writes MANIFEST.json from the table below (one place to keep claims, level texts and the not_applicable list in sync)."""
import json, os

ROOT = os.path.abspath(os.path.join(os.path.dirname(os.path.abspath(__file__)), ".."))
PROPS = [json.loads(l) for l in open(os.path.join(ROOT, "properties.jsonl"))]
OBL = json.load(open(os.path.join(ROOT, "lean", "obligations.json")))

TECH = "machine-checked proof in Lean 4 (theorems about an executable model) + differential correspondence check of the model against the Rust code on generated histories"
NOTE = ("Trusted: Lean 4.33 kernel; axioms propext / Classical.choice / Quot.sound only (audited per theorem with #print axioms; no sorry, native_decide, bv_decide); "
        "tools/extract.py (table translator); the Rust harness hx and the Lean driver; the history generators bound what the correspondence sees. "
        "Modelled, not verified: rustc, std/alloc, slab, hashbrown/indexmap, bumpalo, rayon, raw-pointer provenance. ")

LEVEL = {
    "C01": ("partial", "Proof, partial. The model is total with explicit UB/assertion/panic markers. Proved: the inventory of unchecked sites and debug assertions regenerated from /repo/src equals the committed inventory in which every bookkeeping-dependent site names its model marker (translator tie), and the initial world satisfies the executable invariant. Validated on every run, not proved: no reachable model state raises a marker (the same histories run on debug and release builds of the real code, crashes/undocumented panics/misaligned references are direct violations). Known finding F8.",
            "Allocator, provenance, alignment of real addresses and bumpalo are exercised (debug UB checks, release build), not modelled."),
    "C02": ("full-core", "Proof of the storage core: move_entity's column merge, swap-remove fix-ups and remove_entity refine a finite map (entity, component) -> value with non-interference, for any number of archetypes/columns/rows, on pure counterparts built from the same building blocks (moveCols, swapRemove, assignCol) as the executable world model; the `store` channel (World::get of every component of every entity ever spawned, after every operation) ties the world model to the code.",
            "The monadic world operations call the proved building blocks; their glue (event loop, archetype graph) is covered by the correspondence run, not by the storage theorems."),
    "C03": ("full-core", "Proof for every history of the generational slot map (no bound; generations modulo 2^32 with retirement): issued keys pairwise distinct, valid exactly until removed, removed keys never valid or reissued, len = issued - removed, NextKeyIter predicts exactly the keys the next inserts return (the ReservedEntities contract, spawn_all). World level (reservations materialised before a despawn frees a slot, cursor refresh) is tied by exact comparison of concrete ids, store and hook state incl. near-wrap generations set through the hook. Known finding F8.",
            "That the world never removes or inserts between reserve and spawn_all is validated by the `arch`/`pend` channels and the executable invariant, not proved."),
    "C04": ("full-core", "Proof about the executed event loop `flushWith deliver` for EVERY per-event step `deliver` (any handler graph): a successful flush is a depth-first, send-order propagation of the stack in pop order, returns with an empty queue and resets the arena once at the end. The driver runs `flushWith deliverOne`; the `trace` channel compares delivery order with the real World on dense random handler graphs.",
            "deliverOne's own reversal of the pushed segment is part of the model and covered by the correspondence, the generic theorem takes the segment as given."),
    "C05": ("full", "Proof, full strength: accept_exact — the (repaired) acceptance check rejects a parameter list iff some archetype exists on which the parameters that match it hand out a mutable reference alongside another reference to the same component, for every query built from the combinators and every parameter list; the received-event access is invalid iff shared+exclusive. Consumes the combine/negate/clear tables regenerated from access.rs. Counterexample theorem for the pre-fix check (F1). Correspondence: accept/reject verdicts and conflict sets for generated parameter lists, plus an independent aliasing oracle over all archetypes.",
            "Query::init / new_arch_state are hand-modelled from query.rs and compared through the public accept/iterate behaviour of ~140 typed queries."),
    "C06": ("full-core", "Proof: the structural matcher, the access expression and the documented Boolean meaning agree on every archetype for every query (archState_isSome_eq_sem, matches_init_eq_sem), item variants (Or/Xor/Option/Has/Not/With) are exactly as documented, items read only their own row; the fetcher cache (sparse map) keeps keys and values aligned and its unchecked accesses in range. Correspondence: iteration multisets, len countdown at every position, get/get_many_mut classification for the typed family over all 8 archetypes with churn, plus an independent oracle evaluating the documented meaning on the store. F9 fixed.",
            "Iter's pointer arithmetic is modelled as list traversal; that Iter visits exactly the cached archetypes is tied by the `trace` channel (this is where F9 was found)."),
    "C07": ("full-core", "Proof for every history of inserts (increasing serials) and removes of the three-segment handler list: entries are always ordered by priority class then insertion serial, a new handler goes to the end of its class, removal moves nothing else. World level (new archetypes register handlers in insertion order; global and per-archetype lists) is tied by the `trace` channel and, in C17 runs, by exact comparison of every list with the hook snapshot and the executable invariant.",
            "That the world's insert counter is strictly increasing and that new archetypes iterate by_insert_order is modelled and validated, not proved."),
    "C08": ("full-core", "Proof about the executed model: (i) the listener filter registered for a handler is the CONJUNCTION of the access expressions of all its targeted receivers (fold of setFilter; Hoare triple over the monadic addHandler), and by C06 its matching set is exactly the documented meaning of every receiver query; (ii) the monadic Arch.registerHandler inserts the handler into the listener list of its event iff that filter matches the archetype's component set, at the end of its priority class, and changes nothing else; (iii) under the listener-table conjunct of the invariant the table of a live archetype and event is exactly the list of live handlers whose filter matches, in C07 order; (iv) deliverOne looks the target's location and that archetype's table up in the state at pop time, discards the event when the target is missing, invokes exactly the members of that list, and a receiver's cached arch state is defined for every listed handler (the F7 unchecked lookup cannot fail). Correspondence: receiver queries x target archetypes x structural changes between send and delivery, with an independent oracle evaluating the receiver queries on the target's components.",
            "That every operation re-establishes the listener-table conjunct (world-level preservation of the invariant) is validated — executable Inv on every C17 run, listener-table audit on the implementation's own snapshot — not proved."),
    "C15": ("full-core", "Proof about the executed model: removeHandler equals the RemoveHandler announcement (during which, in every delivery of its depth-first log, the handler is still registered) followed by a pure update after which — under the no-duplicates/locality facts derived from the invariant — the handler is in no global list, no refresh set, no listener list, not in by_insert_order and its id is invalid, while every other handler keeps its position relative to the others in every list; deliverOne invokes only members of the looked-up list, so the removed handler is not invoked in that world; removeEvent announces, selects exactly the handlers that receive the event or have it in their sent set (in the post-announcement world), removes them in insertion order and then the registry entry. Correspondence: removals in every order followed by deliveries to every archetype (trace, reg channels).",
            "`never invoked afterwards` beyond the post-removal world needs preservation of `k is in no list` by later operations (C17-sized); it is validated by the trace channel and the invariant audit."),
    "C09": ("full-core", "Proof about the model's own per-event step `deliverOne` (decomposed, by rfl, into lookup / handler loop / built-in effect): the lookup changes nothing, so every handler starts from the state at pop time; the built-in effect is applied exactly once, after the handler loop, to the state the handlers left, and (by the depth-first theorem) before anything they queued is delivered; it runs iff the target is alive (or the event global) and no handler took the event; a dead target leaves the world unchanged up to the two destruction ledgers and a value that was to be inserted is destroyed; the effects are pinned by unfolding to spawnAll / removeEntity / traverse+moveEntity, inserting an existing component is an in-place assign that drops the old value, removing an absent one changes nothing. Correspondence: store, trace and destruction channels on dense handler graphs with takers, dead targets and reactions to the same entity.",
            "`a spawned entity exists once its Spawn event has been delivered` is pinned to spawnAll by unfolding and to the slot-map prediction theorem (C03 spawn_all); the loop invariant joining the two inside the monadic world is validated (store channel), not proved."),
    "C11": ("full-core", "Proof about the executed event loop for EVERY per-event step: the events delivered by a flush are exactly (as a multiset, no duplicates) the initially queued events plus everything any delivery left queued — none delivered twice, none lost — and nothing is queued on return; for the model's own `deliverOne`, the per-delivery disposition of the event ledger is proved (dead target / taken / normal completion each destroy the in-flight user event exactly once, built-in events add nothing), hence `flush_destroys_each_user_event_once`. Correspondence: multiset of destroyed event serials and component values per operation, incl. values of unapplied Inserts and events dropped when registration unwinds.",
            "The storage half of the disposition (an applied Insert's value is stored, not dropped) rests on the C02/C12 theorems about moveCols and on the `cdrops` channel; it is not restated for the monadic deliverOne."),
    "C12": ("full-core", "Proof (pure counterparts of move_entity / remove_entity built from the same moveCols, swapRemove, assignCol as the world model, any number of archetypes/columns/rows): conservation — stored + newly supplied cells = stored afterwards + dropped, as multisets; the dropped cells of a despawn are exactly the entity's; a dropped serial is not reachable through get afterwards and no reachable cell is dropped. Layout classes (sized/zero-sized x plain/over-aligned x destructor) are covered on the implementation side by six component types whose destructors log; the `cdrops` channel compares per-operation multisets incl. world drop and component-type removal. F5 fixed.",
            "Archetype::drop and the layout-dependent parts (zero-sized columns never allocate) are modelled as `drop every stored cell`; the real destructor calls are observed, not proved."),
    "C13": ("full-core", "Proof about the executed event loop for EVERY per-event step and EVERY position of the panicking delivery: the loop rethrows the panic, and the state it leaves is the one the delivery left with the rest of the stack and the segment pushed so far handed to `dropQueued` exactly once, the queue empty afterwards; `dropQueued` destroys exactly the queued events whose registry entry has a destructor (spec proved); registries cannot change during a flush, so registration is checked in the starting world; the pending events at the panic are exactly the undelivered ones (multiset accounting). Correspondence: panics injected by scripts at arbitrary handler positions in dense graphs; per-operation multisets of destroyed events/components; world drop afterwards.",
            "The in-flight event's own disposition on unwinding (dropped unless taken) is part of the model's deliverOne and is tied by the `evdrops` channel."),
    "C20": ("partial", "Proof, partial: for every per-event step that leaves the arena epoch alone — proved for the model's `deliverOne` through a frame lemma for each of the 34 functions it reaches — every delivery of a flush sees the epoch of its start, and the epoch advances exactly once, after the last delivery, when the queue is empty; on unwinding it does not advance. Hence an allocation stamped during a flush is valid in every delivery of that flush. Correspondence: checksummed arena slices/strings of 0..64 KiB forwarded through several handlers with unrelated allocations and deliveries in between.",
            "bumpalo's chunk management and the layouts passed to it are exercised by checksums, not proved."),
    "C16": ("full-core", "Proof: add-if-absent over the slot-map registries is idempotent (same id, map unchanged), ids of removed items are never valid and never reissued, index reuse strictly increases the generation, at most one live entry per type — for every registry history. Correspondence: concrete ids of every component/event/handler after every operation, notification traces, stale-id counter.",
            "Notification order (Add* sent after insertion) is part of the world model and tied by the `trace` channel."),
    "C18": ("partial", "Proof, partial: the ReadOnlyQuery gate table is regenerated from the marker impls and bounds in the source; readOnly_sound proves that a query admitted by the gate never hands out a mutable reference on any archetype, and the other gates (Mutability bounds, conditional Send/Sync impls, World's marker) are checked present. Correspondence with rustc as the implementation: ~100 small programs, each forbidden program must be rejected and its permitted twin accepted; the model's gate verdict is compared with rustc's.",
            "rustc's trait solver is not modelled."),
    "C19": ("partial", "Proof, partial: for every pair of split trees over the modelled producer (zip of the fetcher cache's keys and values, flat-mapped to row ranges) the tasks' items concatenate to exactly the sequential items, are pairwise disjoint when the cache keys are distinct (proved from SparseMap.WF) and cover every row. Correspondence: the real ParIter on rayon pools of every size vs sequential iteration, incl. mutable iteration (every entity written exactly once).",
            "That rayon realises some split tree and runs each leaf once is trusted; run-time schedules are exercised, not proved."),
}

ALL_PENDING_REASON = "not claimed yet: the correspondence check for this property exists and is green, its theorems are still being proved in this session"


def main():
    claimed = [p["id"] for p in PROPS if p["id"] in LEVEL and p["id"] in OBL and OBL[p["id"]].get("theorems")]
    checks = []
    for p in PROPS:
        pid = p["id"]
        if pid not in claimed:
            continue
        kind, text, extra = LEVEL[pid]
        n = len(OBL[pid]["theorems"])
        checks.append({
            "property_id": pid,
            "quick_cmd": f"./check {pid} --tier quick",
            "thorough_cmd": f"./check {pid} --tier thorough",
            "evidence_file": f"evidence/{pid}.json",
            "replay_cmd_template": f"./check {pid} --replay {{path}}",
            "engine": "lean-proof+correspondence",
            "technique": TECH,
            "level_claimed": {"category": "proof", "text": text + f" ({n} audited theorems, listed in lean/obligations.json.)",
                              "design_ref": f"DESIGN.md §6 {pid}, §0, §9"},
            "level_note": NOTE + extra,
        })
    m = {
        "version": 1,
        "setup_cmd": "./check --setup",
        "hooks": {
            "guard": "cargo feature verif-hooks (off by default)",
            "enable": "harness/Cargo.toml: evenio = { path = \"/repo\", features = [\"verif-hooks\"] }",
            "baseline_off_cmd": "cd /repo && cargo nextest run --workspace --no-fail-fast --offline",
            "source_commits": ["1a24be9", "afae1a0", "fd4aeea"],
            "add_only": True,
        },
        "engines": [{
            "name": "lean-proof+correspondence", "path": "check", "serves_properties": claimed,
            "kind_free_text": "Lean 4 model + theorems (lean/), table translator (tools/extract.py), Rust harness executing histories on the real World (harness/), python orchestrator, generators and judges (check, vt/)",
        }],
        "checks": checks,
        "notes": "Every check: regenerate tables from /repo, build + audit the property's theorems, build the harness against /repo's working tree, run corpus + generated histories on implementation and model, judge. See DESIGN.md §0 and §5.",
        "not_applicable": [{"property_id": p["id"], "reason": ALL_PENDING_REASON} for p in PROPS if p["id"] not in claimed],
    }
    json.dump(m, open(os.path.join(ROOT, "MANIFEST.json"), "w"), indent=1)
    print("claimed:", claimed)


if __name__ == "__main__":
    main()
