#!/usr/bin/env python3
"""Copies a directory of candidate changes (one sub-directory each: patch.diff, demo.rs, meta.json) into seeded/, adding
`detected_by` from a try_mutants.py result log.  usage: import_round.py <dir> <log> [<log> ...]"""
import ast, json, os, shutil, sys

ROOT = os.path.abspath(os.path.join(os.path.dirname(os.path.abspath(__file__)), ".."))
src, logs = sys.argv[1], sys.argv[2:]
res = {}
for l in logs:
    for line in open(l, errors="replace"):
        line = line.strip()
        if line.startswith("("):
            try:
                t = ast.literal_eval(line)
            except Exception:
                continue
            res[t[0]] = t  # later logs win
for name in sorted(os.listdir(src)):
    d = os.path.join(src, name)
    if name.startswith("_") or not os.path.exists(os.path.join(d, "patch.diff")):
        continue
    meta = json.load(open(os.path.join(d, "meta.json")))
    out = os.path.join(ROOT, "seeded", name)
    os.makedirs(out, exist_ok=True)
    for f in os.listdir(d):
        if f in ("patch.diff", "demo.rs") or f.endswith(".rs"):
            shutil.copy(os.path.join(d, f), os.path.join(out, f))
    r = res.get(name)
    if r:
        prop, verdict, how = r[1], r[2], r[3]
        secs, _, what = how.partition(" ")
        meta["detected_by"] = {
            "check": f"./check {prop} --tier quick",
            "verdict": {"rc=1 VIOL": "VIOLATION with replay", "rc=1 NFI": "VIOLATION no-failing-input-found",
                        "rc=0 quiet": "missed"}.get(verdict, verdict),
            "how": what[:300],
            "seconds": secs.rstrip("s"),
        }
    json.dump(meta, open(os.path.join(out, "meta.json"), "w"), indent=1)
    print(name, (r or ["", "", "no result"])[2])
