#!/usr/bin/env python3
"""Regenerates the table of DESIGN.md §11a from seeded/*/meta.json and verified.json (between the two markers)."""
import json, os, re
ROOT = os.path.abspath(os.path.join(os.path.dirname(os.path.abspath(__file__)), ".."))
rows = []
for i in sorted(os.listdir(os.path.join(ROOT, "seeded"))):
    d = os.path.join(ROOT, "seeded", i)
    if not os.path.exists(os.path.join(d, "meta.json")):
        continue
    m = json.load(open(os.path.join(d, "meta.json")))
    v = json.load(open(os.path.join(d, "verified.json"))) if os.path.exists(os.path.join(d, "verified.json")) else {}
    det = m.get("detected_by", {})
    how = det.get("how", "")
    verdict = det.get("verdict", "VIOLATION with replay")
    summ = re.sub(r"\s+", " ", m.get("summary", "")).replace("|", "\\|")
    how = re.sub(r"\s+", " ", how).replace("|", "\\|")
    rows.append(f"| {i} | {summ[:150]}{'...' if len(summ) > 150 else ''} | {'yes' if v.get('confirmed') else 'NO'} | "
                f"{verdict if verdict != 'VIOLATION with replay' else 'replay'}: {how[:170]}{'...' if len(how) > 170 else ''} |")
table = "| id | change | confirmed | caught by |\n|---|---|---|---|\n" + "\n".join(rows) + "\n"
p = os.path.join(ROOT, "DESIGN.md")
s = open(p).read()
b, e = "<!-- seeded-table-begin -->\n", "<!-- seeded-table-end -->\n"
assert b in s and e in s
s = s[:s.index(b) + len(b)] + table + s[s.index(e):]
open(p, "w").write(s)
print(len(rows), "rows")
