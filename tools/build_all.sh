#!/bin/bash
# builds the driver and every proof module registered in lean/obligations.json
cd "$(dirname "$0")/../lean"
mods=$(python3 -c "import json;o=json.load(open('obligations.json'));print(' '.join(sorted({m for v in o.values() for m in v['modules']})))")
lake build driver Evenio $mods
