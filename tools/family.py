#!/usr/bin/env python3
"""Single source of truth for the typed query family.

Writes  harness/src/family.rs  (code -> monomorphised parameter constructors)
and     family.json            (the same codes, by role; read by the generators).

Query codes (also parsed by the Lean driver, Evenio/Driver/Parse.lean):
  r<k> = &K<k>   m<k> = &mut K<k>   E = EntityId   P = PhantomData<()>   () (a,b,..) tuples
  ?q = Option<q>   !q = Not<q>   Wq = With<q>   Hq = Has<q>   O<a|b> = Or<a,b>   X<a|b> = Xor<a,b>
"""
import json, os, sys

HERE = os.path.dirname(os.path.abspath(__file__))


def rust_ty(code):
    ty, rest = _parse(code)
    assert rest == "", (code, rest)
    return ty


def _parse(s):
    c = s[0]
    if c == "r":
        return f"&'static K{s[1]}", s[2:]
    if c == "m":
        return f"&'static mut K{s[1]}", s[2:]
    if c == "E":
        return "EntityId", s[1:]
    if c == "P":
        return "PhantomData<()>", s[1:]
    if c in "?!WH":
        inner, rest = _parse(s[1:])
        name = {"?": "Option", "!": "Not", "W": "With", "H": "Has"}[c]
        return f"{name}<{inner}>", rest
    if c in "OX":
        assert s[1] == "<"
        l, rest = _parse(s[2:])
        assert rest[0] == "|", s
        r, rest = _parse(rest[1:])
        assert rest[0] == ">", s
        return f"{'Or' if c == 'O' else 'Xor'}<{l}, {r}>", rest[1:]
    if c == "(":
        if s[1] == ")":
            return "()", s[2:]
        items = []
        rest = s[1:]
        while True:
            t, rest = _parse(rest)
            items.append(t)
            if rest[0] == ",":
                rest = rest[1:]
                continue
            assert rest[0] == ")", s
            rest = rest[1:]
            break
        return "(" + ", ".join(items) + ",)", rest
    raise ValueError(s)


def build():
    base = ["r0", "m0", "r1", "m1"]
    atoms = base + ["r2", "m2", "E", "P", "()"]
    fam = list(atoms)
    for a in base:
        fam += [f"?{a}", f"!{a}", f"W{a}", f"H{a}"]
    for a in base:
        for b in base:
            fam += [f"O<{a}|{b}>", f"X<{a}|{b}>", f"({a},{b})"]
    deep = [
        "(E,?m0,r1)", "!O<r0|r1>", "?X<m0|r1>", "W(m0,r1)", "O<(r0,r1)|m2>", "X<(r0,r1)|(r1,r2)>", "(m0,!r1)",
        "(m0,Wr1)", "(r0,!Wr1)", "?(m0,m1)", "O<?r0|r1>", "H!r0", "(E,Hr0,Hr1)", "(O<r0|r1>,m2)", "O<m0|!r1>",
        "X<!r0|!r1>", "!!r0", "W!r0", "!(r0,r1)", "(?r0,?m1)", "(E,r0)", "(E,m0)", "(E,r1)", "(E,?r0,?r1,?r2)",
        "(m0,m1,m2)", "(r0,r1,r2)", "O<m0|O<m1|m2>>", "X<m0|X<m1|m2>>", "(O<m0|m1>,!r2)", "(X<m0|m1>,Wr2)",
        "!X<r0|r1>", "?!r0", "?Wm0", "(Hr0,m0)", "O<Wr0|m1>", "(m0,O<r1|r2>)", "X<(m0,r1)|(m0,!r1)>",
        "O<(m0,Wr1)|(m0,!r1)>", "(m0,?m0)", "(?m0,?m0)", "O<m0|(m0,r1)>", "X<m0|(m0,r1)>", "(Wm0,m0)", "(!r1,m0,r2)",
        "(E,r3)", "(E,m3)", "(E,r4)", "(E,m4)", "(E,r5)", "(E,m5)", "(E,r3,?m4)", "O<r4|r5>", "(E,?r3,?r4,?r5)",
        "r3", "m4", "r5", "(E,O<m0|m1>)", "(E,X<m0|m1>)", "(E,!r0)", "(E,Wr0,?m1)", "(P,r0)", "(E,Hr2,?m2)",
        "(m0,m0)", "(r0,m0)", "O<m0|m0>", "X<m0|m0>", "(r0,r0)", "(?r0,m0)", "(O<r0|r1>,m0)", "(X<r0|r1>,m0)",
        "(X<r0|r1>,m2)", "(!r0,m0)", "X<(r0,r1)|(r1,m2)>", "(X<(r0,r1)|(r1,r2)>,m1)",
        "(!r0,!r0)", "(!r0,X<r1|r0>)", "!O<r0|r0>", "O<!r0|(r1,!r0)>", "(E,!r0,!O<r0|r1>)", "X<!r0|(r1,!r0)>", "(!r1,!(r0,r1))",
        "(!r0,(m0,r0))", "((m0,r0),!r0)", "(W!r0,!r0)", "?(!r0,!r0)",
        # the Boolean constants at every operator: queries that can never match, and their negations (always match)
        "!()", "!!()", "(r0,!r0)", "!(r0,!r0)", "X<r0|r0>", "!X<r0|r0>", "O<r0|!r0>", "!O<r0|!r0>", "X<()|()>", "!X<()|()>",
        "?(r0,!r0)", "W(r0,!r0)", "H(r0,!r0)", "(E,!(r0,!r0))", "O<!()|r1>", "(E,!!(),?m1)", "!(m0,!r0)", "X<!()|r1>",
        # Or / Xor whose sides are themselves disjunctions (several access cases per side): the `both sides match` case must
        # be formed from EVERY pair of cases (round-8 change C05_X_1 paired them position by position)
        "O<m0|?m0>", "O<?m0|m0>", "O<m0|O<r1|r0>>", "O<O<r1|m0>|m0>", "O<m0|X<r1|m0>>", "O<?r1|?m0>", "O<O<r0|r1>|O<r1|m0>>",
        "O<?m0|?m0>", "X<m0|?m0>", "O<m1|O<r0|O<r2|r1>>>",
    ]
    for d in deep:
        if d not in fam:
            fam.append(d)
    single = ["r0", "m0", "(E,r1)", "?r0", "O<r0|r1>", "!r0", "E", "(m0,r1)", "(E,m2)", "r3"]
    recv_t0 = ["()", "E", "r0", "m0", "(E,r0)", "(E,?m1)", "!r0", "O<r0|r1>", "X<r0|r1>", "Wr0", "Hr0", "(m0,r1)",
               "(r0,!r1)", "?r0", "(E,m0,m1)", "r2", "r3", "m4", "r5", "(E,Hr0,Hr1)", "r1", "m1", "(E,r1)", "(E,!r1)",
               "O<m0|m1>", "(E,?r0,?r1,?r2)", "(!r0,X<r1|r0>)", "!O<r0|r1>", "(!r0,!r0)", "(E,!r0,!O<r0|r1>)", "W!r0", "X<r0|(r0,r1)>",
               "!()", "!(r0,!r0)", "!X<r0|r0>", "(r0,!r0)", "O<r0|!r0>", "(E,!!())"]
    recv_other = ["()", "E", "r0", "m0", "(E,?m1)", "!r0", "r1", "(E,?r0,?r1,?r2)"]
    return {"fetch": fam, "single": single, "recv_t0": recv_t0, "recv_other": recv_other}


def main():
    f = build()
    with open(os.path.join(HERE, "..", "family.json"), "w") as fh:
        json.dump(f, fh, indent=0)
    L = ["// GENERATED by tools/family.py — do not edit.", "use crate::params::*;", "use crate::types::*;",
         "use core::marker::PhantomData;", "use evenio::prelude::*;", "use evenio::query::{Has, Not, Or, With, Xor};", ""]
    L.append("pub fn make_fetch(code: &str) -> Option<Box<dyn DynParam>> {\n    Some(match code {")
    for c in f["fetch"]:
        L.append(f'        "{c}" => Box::new(FetchP::<{rust_ty(c)}>::new()),')
    L.append("        _ => return None,\n    })\n}\n")
    L.append("pub fn make_single(code: &str, try_: bool) -> Option<Box<dyn DynParam>> {\n    Some(match (code, try_) {")
    for c in f["single"]:
        L.append(f'        ("{c}", false) => Box::new(SingleP::<{rust_ty(c)}>::new()),')
        L.append(f'        ("{c}", true) => Box::new(TrySingleP::<{rust_ty(c)}>::new()),')
    L.append("        _ => return None,\n    })\n}\n")
    L.append("pub fn make_recv_t(ev: &str, mutable: bool, code: &str) -> Option<Box<dyn DynParam>> {\n    Some(match (ev, mutable, code) {")
    others = ["T1", "T2", "Despawn"] + [f"InsK{k}" for k in range(6)] + [f"RemK{k}" for k in range(6)]
    ev_ty = {"T0": "T0", "T1": "T1", "T2": "T2", "Despawn": "Despawn"}
    for k in range(6):
        ev_ty[f"InsK{k}"] = f"Insert<K{k}>"
        ev_ty[f"RemK{k}"] = f"Remove<K{k}>"
    for c in f["recv_t0"]:
        L.append(f'        ("T0", false, "{c}") => Box::new(RecvT::<T0, {rust_ty(c)}>::new()),')
        L.append(f'        ("T0", true, "{c}") => Box::new(RecvTM::<T0, {rust_ty(c)}>::new()),')
    for ev in others:
        for c in f["recv_other"]:
            L.append(f'        ("{ev}", false, "{c}") => Box::new(RecvT::<{ev_ty[ev]}, {rust_ty(c)}>::new()),')
            L.append(f'        ("{ev}", true, "{c}") => Box::new(RecvTM::<{ev_ty[ev]}, {rust_ty(c)}>::new()),')
    L.append("        _ => return None,\n    })\n}\n")
    with open(os.path.join(HERE, "..", "harness", "src", "family.rs"), "w") as fh:
        fh.write("\n".join(L))
    print(f"family: fetch={len(f['fetch'])} single={len(f['single'])} recv_t0={len(f['recv_t0'])} recv_other={len(f['recv_other'])}")


if __name__ == "__main__":
    main()
