#!/bin/bash
# runs every claimed check once (tier from $1, default quick) on /repo's current tree; prints one line per check
cd "$(dirname "$0")/.."
tier=${1:-quick}
for p in $(python3 -c "import json;print(' '.join(c['property_id'] for c in json.load(open('MANIFEST.json'))['checks']))"); do
  out=$(./check $p --tier $tier 2>&1)
  echo "$out" | grep -E "^VIOLATION|^$p " | tail -3
done
