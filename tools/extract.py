#!/usr/bin/env python3
"""Translator: regenerates the table-shaped parts of the Lean model from /repo's current source.

  access.rs   -> Evenio/Generated/AccessTables.lean  (combine 5x5, negate, clear, positive, var, join 3x3)
  query.rs &c -> Evenio/Generated/Gates.lean         (ReadOnlyQuery / Mutability / Send-Sync gate table)
  src/*.rs    -> Evenio/Generated/Sites.lean         (inventory of unchecked sites and debug assertions)
  handler.rs  -> Evenio/Generated/HandlerListGen.lean (the FUNCTIONS `HandlerList::{insert, remove}`, translated statement by
                                                      statement by the Rust -> Lean function translator `tools/rs2lean`;
                                                      `Evenio/Proofs/HandlerListGen.lean` proves them equal to the hand model)
  slot_map.rs -> Evenio/Generated/SlotMapGen.lean     (`SlotMap::{insert_with, remove, get, get_by_index, next_key_iter}`,
                                                      `NextKeyIter::next`, `Slot::is_vacant`, `Key::new`, same translator;
                                                      `Evenio/Proofs/SlotMapGen.lean`)
  sparse_map.rs -> Evenio/Generated/SparseMapGen.lean (`SparseMap::{get, insert, remove}`, same translator;
                                                      `Evenio/Proofs/SparseMapGen.lean`)
  access.rs   -> Evenio/Generated/AccessGen.lean      (`Access::{join, is_compatible}`, `ComponentAccess::{new_true, new_false, var,
                                                      or, matches_archetype, clear_access, collect_conflicts}`, same translator;
                                                      `Evenio/Proofs/AccessGen.lean`)
  archetype.rs -> Evenio/Generated/ArchHandlersGen.lean (`Archetype::register_handler`, `Archetypes::{register_handler, remove_handler}`,
                                                      same translator; `Evenio/Proofs/ArchHandlersGen.lean`)
  bit_set.rs  -> Evenio/Generated/BitSetGen.lean      (`BitSet::{new, clear, grow_to_block, is_disjoint, len, is_empty, insert, remove,
                                                      contains}`, `|=`, `^=`, `div_rem`, same translator; `Evenio/Proofs/BitSetGen.lean`)
  handler.rs  -> Evenio/Generated/HandlersGen.lean    (`Handlers::{remove, register_event, get_global_list, get, get_by_index, contains}`,
                                                      same translator; `Evenio/Proofs/HandlersGen.lean`)
  handler.rs  -> Evenio/Generated/HandlerConfigGen.lean (the nine setters of `HandlerConfig`, same translator;
                                                      `Evenio/Proofs/HandlerConfigGen.lean`)
  entity.rs   -> Evenio/Generated/EntityGen.lean      (`ReservedEntities::{reserve, spawn_all, refresh}`, `Entities::add_with`,
                                                      same translator, calling the functions of SlotMapGen;
                                                      `Evenio/Proofs/EntityGen.lean`)

Each extraction either succeeds (file rewritten, status "extracted") or fails (the committed fallback copy
`*.lean.fallback` is installed, status "failed: <why>").  Status is written as JSON to stdout / --status.
The output is plain Lean that a human can diff against the source.
"""
import json, os, re, sys, hashlib, shutil, subprocess

REPO = os.environ.get("EVENIO_REPO", "/repo")
OUT = os.path.join(os.path.dirname(os.path.abspath(__file__)), "..", "lean", "Evenio", "Generated")

CA = ["With", "Read", "ReadWrite", "Not", "Conflict"]
CA_LEAN = {"With": ".wth", "Read": ".rd", "ReadWrite": ".rw", "Not": ".nt", "Conflict": ".cf"}
AC = ["None", "Read", "ReadWrite"]
AC_LEAN = {"None": ".none", "Read": ".read", "ReadWrite": ".readWrite"}


class ExtractError(Exception):
    pass


def strip_comments(s):
    s = re.sub(r"//[^\n]*", "", s)
    s = re.sub(r"/\*.*?\*/", "", s, flags=re.S)
    return s


def find_block(src, start_pat):
    """Return the text between the braces that follow the first match of start_pat."""
    m = re.search(start_pat, src)
    if not m:
        raise ExtractError(f"pattern not found: {start_pat}")
    i = src.index("{", m.end() - 1)
    depth = 0
    for j in range(i, len(src)):
        if src[j] == "{":
            depth += 1
        elif src[j] == "}":
            depth -= 1
            if depth == 0:
                return src[i + 1 : j]
    raise ExtractError("unbalanced braces")


def split_arms(block):
    """Split a match body into (pattern, result) pairs; results may be `{...}` blocks."""
    arms = []
    i = 0
    n = len(block)
    while i < n:
        j = block.find("=>", i)
        if j < 0:
            break
        pat = block[i:j].strip()
        k = j + 2
        while k < n and block[k].isspace():
            k += 1
        if k < n and block[k] == "{":
            depth = 0
            e = k
            while e < n:
                if block[e] == "{":
                    depth += 1
                elif block[e] == "}":
                    depth -= 1
                    if depth == 0:
                        break
                e += 1
            res = block[k : e + 1]
            i = e + 1
            while i < n and block[i] in ", \n\t":
                i += 1
        else:
            # up to the next top-level comma
            depth = 0
            e = k
            while e < n:
                c = block[e]
                if c in "([{":
                    depth += 1
                elif c in ")]}":
                    depth -= 1
                elif c == "," and depth == 0:
                    break
                e += 1
            res = block[k:e].strip()
            i = e + 1
        arms.append((pat, res))
    return arms


def split_top(s, sep):
    out, depth, cur = [], 0, ""
    for c in s:
        if c in "([{":
            depth += 1
        elif c in ")]}":
            depth -= 1
        if c == sep and depth == 0:
            out.append(cur)
            cur = ""
        else:
            cur += c
    out.append(cur)
    return [x.strip() for x in out if x.strip()]


def alts(s, universe, prefix):
    s = s.strip()
    if s == "_":
        return list(universe)
    res = []
    for a in split_top(s, "|"):
        a = a.strip()
        a = re.sub(r"^(" + prefix + r")::", "", a)
        if a == "_":
            return list(universe)
        if a not in universe:
            raise ExtractError(f"unknown variant {a!r}")
        res.append(a)
    return res


def table2(block, universe, prefix, result_fn, bind=None):
    """First-match expansion of a two-scrutinee match into a full table."""
    table = {}
    for pat, res in split_arms(block):
        for tup in split_top(pat, "|"):
            tup = tup.strip()
            if not (tup.startswith("(") and tup.endswith(")")):
                raise ExtractError(f"unexpected pattern {tup!r}")
            parts = split_top(tup[1:-1], ",")
            if len(parts) != 2:
                raise ExtractError(f"unexpected tuple {tup!r}")
            for a in alts(parts[0], universe, prefix):
                for b in alts(parts[1], universe, prefix):
                    if (a, b) not in table:
                        table[(a, b)] = result_fn(res, a, b)
    for a in universe:
        for b in universe:
            if (a, b) not in table:
                raise ExtractError(f"table not total at {(a, b)}")
    return table


def table1(block, universe, prefix, result_fn):
    table = {}
    for pat, res in split_arms(block):
        for a in alts(pat, universe, prefix):
            if a not in table:
                table[a] = result_fn(res, a)
    for a in universe:
        if a not in table:
            raise ExtractError(f"table not total at {a}")
    return table


def extract_access():
    src = strip_comments(open(os.path.join(REPO, "src/access.rs")).read())

    # --- combine (inside `and`)
    blk = find_block(src, r"let\s+combined_access\s*=\s*match\s*\(\s*left_access\s*,\s*right_access\s*\)\s*\{")

    def comb_res(res, a, b):
        r = res.strip()
        if r.startswith("{"):
            if "continue" in r and "next_case" in r:
                return None
            raise ExtractError(f"unexpected block result {r!r}")
        r = re.sub(r"^CaseAccess::", "", r)
        if r not in CA:
            raise ExtractError(f"unexpected result {r!r}")
        return r

    combine = table2(blk, CA, "CaseAccess", comb_res)

    # sanity on the surrounding merge loop: the three Ordering arms and the two tail extensions must be there
    and_body = find_block(src, r"pub\s+fn\s+and\s*\(\s*&self\s*,\s*rhs\s*:\s*&Self\s*\)\s*->\s*Self\s*\{")
    need = [r"for\s+right\s+in\s+&rhs\.cases", r"for\s+left\s+in\s+&self\.cases", r"Ordering::Less", r"Ordering::Equal",
            r"Ordering::Greater", r"case\.extend\(right\[ir\.\.\]", r"case\.extend\(left\[il\.\.\]", r"cases\.push\(case\)"]
    for pat in need:
        if not re.search(pat, and_body):
            raise ExtractError(f"`and` no longer has the modelled shape (missing {pat})")

    # --- not
    not_body = find_block(src, r"pub\s+fn\s+not\s*\(\s*&self\s*\)\s*->\s*Self\s*\{")
    blk = find_block(not_body, r"let\s+new_access\s*=\s*match\s+access\s*\{")
    strip = lambda res, a: _variant(res)
    negate = table1(blk, CA, "CaseAccess", strip)
    if not re.search(r"\.fold\(\s*Self::new_true\(\)\s*,\s*\|acc,\s*item\|\s*acc\.and\(&item\)\s*\)", not_body):
        raise ExtractError("`not` no longer folds with `and` from `new_true`")

    # --- clear_access
    clr_body = find_block(src, r"pub\s+fn\s+clear_access\s*\(\s*&mut\s+self\s*\)\s*\{")
    blk = find_block(clr_body, r"\*access\s*=\s*match\s+\*access\s*\{")
    clear = table1(blk, CA, "CaseAccess", strip)

    # --- matches_archetype
    m_body = find_block(src, r"pub\(crate\)\s+fn\s+matches_archetype")
    blk = find_block(m_body, r"match\s+access\s*\{")

    def pos_res(res, a):
        r = res.strip().replace(" ", "")
        if r == "f(idx)":
            return True
        if r == "!f(idx)":
            return False
        raise ExtractError(f"unexpected matches_archetype arm {res!r}")

    positive = table1(blk, CA, "CaseAccess", pos_res)
    if not re.search(r"\.any\(", m_body) or not re.search(r"\.all\(", m_body):
        raise ExtractError("matches_archetype is no longer any/all")

    # --- collect_conflicts compares with Conflict
    c_body = find_block(src, r"pub\(crate\)\s+fn\s+collect_conflicts")
    if not re.search(r"access\s*==\s*CaseAccess::Conflict", c_body):
        raise ExtractError("collect_conflicts no longer tests `== CaseAccess::Conflict`")

    # --- var
    v_body = find_block(src, r"pub\s+fn\s+var\s*\(")
    blk = find_block(v_body, r"match\s+access\s*\{")
    var = table1(blk, AC, "Access", lambda res, a: _variant(res))

    # --- join
    j_body = find_block(src, r"pub\s+const\s+fn\s+join\s*\(")
    blk = find_block(j_body, r"match\s*\(\s*self\s*,\s*other\s*\)\s*\{")

    def join_res(res, a, b):
        r = res.strip()
        if r == "None":
            return None
        m = re.fullmatch(r"Some\((.*)\)", r)
        if not m:
            raise ExtractError(f"unexpected join result {r!r}")
        x = m.group(1).strip()
        if x == "self":
            return a
        if x == "other":
            return b
        x = re.sub(r"^Access::", "", x)
        if x not in AC:
            raise ExtractError(f"unexpected join result {r!r}")
        return x

    join = table2(blk, AC, "Access", join_res)

    # or = concatenation self ++ rhs
    o_body = find_block(src, r"pub\s+fn\s+or\s*\(\s*&self\s*,\s*rhs\s*:\s*&Self\s*\)\s*->\s*Self\s*\{")
    if not re.search(r"self\.cases\.iter\(\)\.chain\(rhs\.cases\.iter\(\)\)", o_body):
        raise ExtractError("`or` is no longer `self.cases ++ rhs.cases`")
    t_body = find_block(src, r"pub\s+fn\s+new_true\s*\(\s*\)\s*->\s*Self\s*\{")
    if "vec![vec![]]" not in t_body.replace(" ", ""):
        raise ExtractError("new_true changed")
    f_body = find_block(src, r"pub\s+fn\s+new_false\s*\(\s*\)\s*->\s*Self\s*\{")
    if "vec![]" not in f_body.replace(" ", ""):
        raise ExtractError("new_false changed")

    L = []
    L.append("import Evenio.Model.Types")
    L.append("/-! GENERATED by tools/extract.py from /repo/src/access.rs — do not edit. -/")
    L.append("namespace Evenio")
    L.append("")
    L.append("/-- the 5×5 table inside `ComponentAccess::and`; `none` = `continue 'next_case` -/")
    L.append("def combine : CaseAccess → CaseAccess → Option CaseAccess")
    for a in CA:
        for b in CA:
            r = combine[(a, b)]
            L.append(f"  | {CA_LEAN[a]}, {CA_LEAN[b]} => " + ("Option.none" if r is None else f"Option.some {CA_LEAN[r]}"))
    L.append("")
    L.append("/-- the arm table of `ComponentAccess::not` -/")
    L.append("def negate : CaseAccess → CaseAccess")
    for a in CA:
        L.append(f"  | {CA_LEAN[a]} => {CA_LEAN[negate[a]]}")
    L.append("")
    L.append("/-- the arm table of `ComponentAccess::clear_access` -/")
    L.append("def clearLit : CaseAccess → CaseAccess")
    for a in CA:
        L.append(f"  | {CA_LEAN[a]} => {CA_LEAN[clear[a]]}")
    L.append("")
    L.append("/-- `matches_archetype`: `true` = the arm is `f(idx)`, `false` = `!f(idx)` -/")
    L.append("def positive : CaseAccess → Bool")
    for a in CA:
        L.append(f"  | {CA_LEAN[a]} => {'true' if positive[a] else 'false'}")
    L.append("")
    L.append("/-- `ComponentAccess::var` -/")
    L.append("def varLit : Access → CaseAccess")
    for a in AC:
        L.append(f"  | {AC_LEAN[a]} => {CA_LEAN[var[a]]}")
    L.append("")
    L.append("/-- `Access::join` -/")
    L.append("def Access.join : Access → Access → Option Access")
    for a in AC:
        for b in AC:
            r = join[(a, b)]
            L.append(f"  | {AC_LEAN[a]}, {AC_LEAN[b]} => " + ("Option.none" if r is None else f"Option.some {AC_LEAN[r]}"))
    L.append("")
    L.append("end Evenio")
    return "\n".join(L) + "\n"


def _variant(res):
    r = res.strip()
    r = re.sub(r"^CaseAccess::", "", r)
    if r not in CA:
        raise ExtractError(f"unexpected variant {r!r}")
    return r


# ------------------------------------------------------------------------------------------------
# Gates (C18): which query combinators are ReadOnlyQuery, and under which bound.

GATE_KEYS = ["ref", "mut", "tup", "opt", "or", "xor", "not", "wth", "has", "eid", "phantom"]


def extract_gates():
    q = strip_comments(open(os.path.join(REPO, "src/query.rs")).read())
    # every `unsafe impl<...> ReadOnlyQuery for T` with its where-clause / bounds
    impls = re.findall(r"unsafe\s+impl\s*(<[^{;]*?>)?\s*ReadOnlyQuery\s+for\s+([^{]*?)\s*(where[^{]*)?\{\s*\}", q, flags=re.S)
    ro = {k: "never" for k in GATE_KEYS}

    def bound_kind(generics, target, where, names):
        """'always' if the named params are bounded only by Query (or unbounded), 'inner' if by ReadOnlyQuery."""
        text = (generics or "") + " " + (where or "")
        kinds = []
        for n in names:
            m = re.search(r"\b" + n + r"\s*:\s*([A-Za-z_:<>?' ]+?)(?:[,>+]|$|\s+where)", text)
            b = m.group(1).strip() if m else ""
            if "ReadOnlyQuery" in b:
                kinds.append("inner")
            else:
                kinds.append("always")
        if all(k == "inner" for k in kinds):
            return "inner"
        if all(k == "always" for k in kinds):
            return "always"
        return "mixed"

    for generics, target, where in impls:
        t = re.sub(r"\s+", " ", target.strip())
        if re.fullmatch(r"&'_ C", t):
            ro["ref"] = "always"
        elif re.fullmatch(r"&'_ mut C", t):
            ro["mut"] = "always"
        elif t.startswith("Option<"):
            ro["opt"] = bound_kind(generics, t, where, ["Q"])
        elif t.startswith("Or<"):
            ro["or"] = bound_kind(generics, t, where, ["L", "R"])
        elif t.startswith("Xor<"):
            ro["xor"] = bound_kind(generics, t, where, ["L", "R"])
        elif t.startswith("Not<"):
            ro["not"] = bound_kind(generics, t, where, ["Q"])
        elif t.startswith("With<"):
            ro["wth"] = bound_kind(generics, t, where, ["Q"])
        elif t.startswith("Has<"):
            ro["has"] = bound_kind(generics, t, where, ["Q"])
        elif t == "EntityId":
            ro["eid"] = "always"
        elif t.startswith("PhantomData<"):
            ro["phantom"] = "always"
    # tuple impl lives in a macro: `unsafe impl<$($Q: ReadOnlyQuery),*> ReadOnlyQuery for ($($Q,)*) {}`
    m = re.search(r"unsafe\s+impl<\$\(\$Q:\s*(\w+)\),\*>\s*ReadOnlyQuery\s+for\s+\(\$\(\$Q,\)\*\)", q)
    if m:
        ro["tup"] = "inner" if m.group(1) == "ReadOnlyQuery" else "always"
    if "mixed" in ro.values():
        raise ExtractError(f"mixed ReadOnlyQuery bounds: {ro}")

    # &mut C needs Mutability = Mutable
    mut_gate = bool(re.search(r"unsafe\s+impl<C:\s*Component<Mutability\s*=\s*Mutable>>\s*Query\s+for\s+&'_\s+mut\s+C", q))
    # derive(Query) emits ReadOnlyQuery with every field bounded by ReadOnlyQuery
    mq = strip_comments(open(os.path.join(REPO, "evenio_macros/src/query.rs")).read())
    derive_inner = bool(re.search(r"parse_quote!\(\s*#ty\s*:\s*for<'__a>\s*::evenio::query::ReadOnlyQuery", mq)) and \
        bool(re.search(r"unsafe\s+impl\s+#ro_impl_generics\s+::evenio::query::ReadOnlyQuery\s+for\s+#name\s+#ro_ty_generics\s+#ro_where_clause", mq))

    f = strip_comments(open(os.path.join(REPO, "src/fetch.rs")).read())
    # shared-borrow APIs gated on ReadOnlyQuery
    def gated(fn_pat, text):
        m = re.search(fn_pat + r"[^{;]*?where\s+Q:\s*ReadOnlyQuery", text, flags=re.S)
        return bool(m)
    get_gated = gated(r"pub\s+fn\s+get\s*\(\s*&self", f)
    iter_gated = gated(r"pub\s+fn\s+iter\s*\(\s*&self", f)
    clone_gated = bool(re.search(r"impl<'a,\s*Q:\s*ReadOnlyQuery>\s*Clone\s+for\s+Iter<'a,\s*Q>", f))
    into_iter_ref_gated = bool(re.search(r"impl<'a,\s*Q:\s*ReadOnlyQuery>\s*IntoIterator\s+for\s+&'a\s+Fetcher<'_,\s*Q>", f))
    par_iter_gated = gated(r"pub\(crate\)\s+unsafe\s+fn\s+par_iter<'a>\s*\(\s*&'a\s+self", f)
    par_clone_gated = bool(re.search(r"impl<Q:\s*ReadOnlyQuery>\s*Clone\s+for\s+ParIter<'_,\s*Q>", f))
    fetcher_send = bool(re.search(r"unsafe\s+impl<'a,\s*Q>\s*Send\s+for\s+Fetcher<'a,\s*Q>\s*where\s*Q:\s*Query,\s*Q::This<'a>:\s*Send", f))
    fetcher_sync = bool(re.search(r"unsafe\s+impl<'a,\s*Q>\s*Sync\s+for\s+Fetcher<'a,\s*Q>\s*where\s*Q:\s*Query,\s*Q::This<'a>:\s*Sync", f))
    iter_send = bool(re.search(r"unsafe\s+impl<'a,\s*Q>\s*Send\s+for\s+Iter<'_,\s*Q>\s*where\s*Q:\s*Query,\s*Q::This<'a>:\s*Send", f))
    iter_sync = bool(re.search(r"unsafe\s+impl<'a,\s*Q>\s*Sync\s+for\s+Iter<'a,\s*Q>\s*where\s*Q:\s*Query,\s*Q::This<'a>:\s*Sync", f))
    par_send = bool(re.search(r"Q::This<'a>:\s*Send,\s*\{\s*type\s+Item", f))

    w = strip_comments(open(os.path.join(REPO, "src/world.rs")).read())
    world_marker = bool(re.search(r"_marker:\s*PhantomData<\*const\s*\(\)>", w))
    world_unsafe_send = bool(re.search(r"unsafe\s+impl\s+(Send|Sync)\s+for\s+World", w))
    get_mut_gate = bool(re.search(r"pub\s+fn\s+get_mut<C:\s*Component<Mutability\s*=\s*Mutable>>", w))

    e = strip_comments(open(os.path.join(REPO, "src/event.rs")).read())
    recvmut_global_gate = bool(re.search(r"unsafe\s+impl<E>\s*HandlerParam\s+for\s+ReceiverMut<'_,\s*E>\s*where\s*E:\s*GlobalEvent\s*\+\s*Event<Mutability\s*=\s*Mutable>", e))
    recvmut_targeted_gate = bool(re.search(r"unsafe\s+impl<E,\s*Q>\s*HandlerParam\s+for\s+ReceiverMut<'_,\s*E,\s*Q>\s*where\s*E:\s*TargetedEvent\s*\+\s*Event<Mutability\s*=\s*Mutable>", e))
    # EventMut is only constructed by ReceiverMut (private constructor)
    eventmut_private = bool(re.search(r"impl<'a,\s*E:\s*Event>\s*EventMut<'a,\s*E>\s*\{\s*fn\s+new\(", e))
    take_on_eventmut = bool(re.search(r"pub\s+fn\s+take\(this:\s*Self\)\s*->\s*E", e))
    eventmut_send = bool(re.search(r"unsafe\s+impl<'a,\s*E>\s*Send\s+for\s+EventMut<'a,\s*E>\s*where\s*E:\s*Event,\s*E::This<'a>:\s*Send", e))

    L = []
    L.append("/-! GENERATED by tools/extract.py from /repo/src/{query,fetch,world,event}.rs and evenio_macros — do not edit. -/")
    L.append("namespace Evenio.Gates")
    L.append("")
    L.append("/-- how a combinator gets its `ReadOnlyQuery` impl: never, unconditionally, or iff all its arguments are -/")
    L.append("inductive RO | never | always | inner")
    L.append("deriving DecidableEq, Repr")
    L.append("")
    for k in GATE_KEYS:
        L.append(f"def ro_{k} : RO := .{ro[k]}")
    L.append("")
    b = lambda x: "true" if x else "false"
    flags = dict(
        derive_inner=derive_inner, mut_needs_mutable=mut_gate, get_gated=get_gated, iter_gated=iter_gated,
        iter_clone_gated=clone_gated, into_iter_ref_gated=into_iter_ref_gated, par_iter_gated=par_iter_gated,
        par_clone_gated=par_clone_gated, fetcher_send_iff_item=fetcher_send, fetcher_sync_iff_item=fetcher_sync,
        iter_send_iff_item=iter_send, iter_sync_iff_item=iter_sync, par_item_send=par_send,
        world_not_send_marker=world_marker, world_no_unsafe_send=not world_unsafe_send,
        world_get_mut_needs_mutable=get_mut_gate, recvmut_global_needs_mutable=recvmut_global_gate,
        recvmut_targeted_needs_mutable=recvmut_targeted_gate, eventmut_ctor_private=eventmut_private,
        take_only_on_eventmut=take_on_eventmut, eventmut_send_iff_event=eventmut_send,
    )
    for k, v in flags.items():
        L.append(f"def {k} : Bool := {b(v)}")
    L.append("")
    L.append("end Evenio.Gates")
    return "\n".join(L) + "\n"


# ------------------------------------------------------------------------------------------------
# Sites (C01): inventory of unchecked operations and debug assertions.

SITE_RE = re.compile(r"\b(unwrap_unchecked|get_unchecked_mut|get_unchecked|assume_unchecked|new_unchecked|unreachable_unchecked|"
                     r"from_size_align_unchecked|from_utf8_unchecked_mut|debug_assert_eq!|debug_assert_ne!|debug_assert!|"
                     r"assume_init_drop|transmute_copy|copy_nonoverlapping|ManuallyDrop::take|from_raw_parts_mut|from_raw_parts|Box::from_raw|dealloc|realloc)\b")
FN_RE = re.compile(r"\bfn\s+([A-Za-z_0-9]+)")


def extract_sites():
    files = []
    for root, _, fs in os.walk(os.path.join(REPO, "src")):
        for fn in sorted(fs):
            if fn.endswith(".rs"):
                files.append(os.path.join(root, fn))
    files.sort()
    rows = []
    for path in files:
        rel = os.path.relpath(path, REPO)
        text = open(path).read()
        # cut the test module
        cut = text.find("#[cfg(test)]\nmod tests")
        if cut >= 0:
            text = text[:cut]
        cur_fn = "-"
        for line in text.split("\n"):
            code = re.sub(r"//.*", "", line)
            if code.strip().startswith("use "):
                continue
            m = FN_RE.search(code)
            if m and ("fn " in code) and not code.strip().startswith("//"):
                cur_fn = m.group(1)
            if code.strip().startswith("unsafe fn") or re.search(r"\bfn\s+(unwrap_unchecked|assume_unchecked)\b", code):
                pass
            for m in SITE_RE.finditer(code):
                # skip definitions
                if re.search(r"fn\s+" + re.escape(m.group(1)), code):
                    continue
                rows.append((rel, cur_fn, m.group(1).rstrip("!")))
    # count per (file, fn, kind)
    counts = {}
    for r in rows:
        counts[r] = counts.get(r, 0) + 1
    L = []
    L.append("/-! GENERATED by tools/extract.py from /repo/src/**/*.rs — do not edit.")
    L.append("    Inventory of unchecked operations and debug assertions: (file, enclosing fn, kind, count). -/")
    L.append("namespace Evenio.Sites")
    L.append("")
    L.append("def sites : List (String × String × String × Nat) := [")
    items = sorted(counts.items())
    for i, ((f, fn, kind), n) in enumerate(items):
        sep = "," if i + 1 < len(items) else ""
        L.append(f'  ("{f}", "{fn}", "{kind}", {n}){sep}')
    L.append("]")
    L.append("")
    L.append("end Evenio.Sites")
    return "\n".join(L) + "\n"


# ---- function translator (tools/rs2lean: a Rust binary that parses the source with `syn`) ----

RS2LEAN = os.path.join(os.path.dirname(os.path.abspath(__file__)), "rs2lean")
# `target-dir` of tools/rs2lean/.cargo/config.toml (git-ignored build cache)
RS2LEAN_BIN = os.path.join(os.path.dirname(os.path.abspath(__file__)), "..", ".cache", "target_rs2lean", "release", "rs2lean")


def rs2lean_binary():
    """Path of the translator's binary; (re)built offline when it is missing or older than one of its sources."""
    srcs = [os.path.join(RS2LEAN, "Cargo.toml"), os.path.join(RS2LEAN, ".cargo", "config.toml")]
    for root, _, fs in os.walk(os.path.join(RS2LEAN, "src")):
        srcs += [os.path.join(root, f) for f in fs if f.endswith(".rs")]
    newest = max(os.path.getmtime(f) for f in srcs)
    if os.path.exists(RS2LEAN_BIN) and os.path.getmtime(RS2LEAN_BIN) >= newest:
        return RS2LEAN_BIN
    lock = os.path.join(RS2LEAN, "Cargo.lock")
    if not os.path.exists(lock):
        # the versions /repo pins are the ones in the offline registry cache (syn 2.0.119 via evenio_macros)
        for cand in (os.path.join(REPO, "Cargo.lock"), "/repo/Cargo.lock"):
            if os.path.exists(cand):
                shutil.copy(cand, lock)
                break
    try:
        r = subprocess.run(["cargo", "build", "--offline", "--release"], cwd=RS2LEAN, capture_output=True, text=True, timeout=900)
    except subprocess.TimeoutExpired:
        raise ExtractError("tools/rs2lean: cargo build timed out")
    if r.returncode != 0 or not os.path.exists(RS2LEAN_BIN):
        raise ExtractError("tools/rs2lean does not build: " + " ".join((r.stderr or r.stdout).split())[-300:])
    os.utime(RS2LEAN_BIN)  # cargo leaves an up-to-date binary untouched
    return RS2LEAN_BIN


def run_rs2lean(rel, args, must_define):
    """run the function translator on REPO/<rel>; -> the generated Lean text"""
    src = os.path.join(REPO, rel)
    if not os.path.exists(src):
        raise ExtractError(f"{src} not found")
    cmd = [rs2lean_binary(), src] + args + ["--label", rel]
    try:
        r = subprocess.run(cmd, capture_output=True, text=True, timeout=120)
    except subprocess.TimeoutExpired:
        raise ExtractError("rs2lean timed out")
    if r.returncode != 0:
        raise ExtractError(" ".join(r.stderr.split())[-400:] or f"rs2lean: exit code {r.returncode}")
    missing = [d for d in must_define if f"def {d} " not in r.stdout]
    if missing:
        raise ExtractError("rs2lean: output without " + "/".join(f"`{d}`" for d in missing))
    return r.stdout


def extract_funcs():
    """`HandlerList::{insert, remove}` of handler.rs as Lean functions over the hand model's `HandlerList ρ` / `Priority`."""
    return run_rs2lean("src/handler.rs",
                       ["HandlerList", "insert", "remove",
                        "--namespace", "Evenio.Gen.HandlerList",
                        "--self-type", "Evenio.HandlerList ρ", "--tyvar", "ρ",
                        "--type", "HandlerInfoPtr=ρ", "--type", "HandlerPriority=Evenio.Priority"],
                       ["insert", "remove"])


def extract_slot_map():
    """slot_map.rs: `SlotMap::{insert_with, remove, get, get_by_index, next_key_iter}`, `NextKeyIter::next`, `Slot::is_vacant`,
    `Key::new` over the hand model's records `SlotMap α` / `Slot α` / `Key` (`Evenio/Proofs/SlotMapGen.lean` proves them equal
    to the hand model).  Not translated, taken as given (listed in the generated header): the bit packing of `Key`
    (`Key::new_unchecked` is the pair, `index()` / `generation()` its projections)."""
    return run_rs2lean("src/slot_map.rs",
                       ["SlotMap", "Slot::is_vacant", "Key::new", "insert_with", "remove", "get", "get_by_index",
                        "next_key_iter", "NextKeyIter::next",
                        "--namespace", "Evenio.Gen.SlotMap", "--tyvar", "α",
                        "--import", "Evenio.Generated.Rs2LeanPrelude", "--import", "Evenio.Model.SlotMap",
                        "--open", "Evenio.Rs2Lean",
                        "--type", "SlotMap=Evenio.SlotMap α", "--type", "Slot=Evenio.Slot α", "--type", "Key=Evenio.Key",
                        "--type", "T=α", "--struct", "NextKeyIter",
                        "--field", "SlotMap.next_free=nextFree", "--field", "Slot.generation=gen",
                        "--field", "Slot.union.next_free=next", "--field", "Slot.union.value=val",
                        "--inactive", "SlotUnion.next_free=4294967295", "--inactive", "SlotUnion.value=none",
                        "--prim", "Key::new_unchecked(u32, u32) -> Key=Evenio.Key.mk",
                        "--prim", "Key::index(self) -> u32=Evenio.Key.idx",
                        "--prim", "Key::generation(self) -> NonZeroU32=Evenio.Key.gen"],
                       ["Slot.is_vacant", "Key.new", "insert_with", "remove", "get", "get_by_index", "next_key_iter",
                        "NextKeyIter.next"])


def extract_sparse_map():
    """sparse_map.rs: `SparseMap::{get, insert, remove}` over the hand model's record `SparseMap ν`; the key type
    `K: SparseIndex` is `Nat` with `K::MAX.index() = U32MAX`, `index()` / `from_index()` the identity (as in the hand model);
    `Evenio/Proofs/SparseMapGen.lean` proves them equal to the hand model."""
    return run_rs2lean("src/sparse_map.rs",
                       ["SparseMap", "get", "insert", "remove",
                        "--namespace", "Evenio.Gen.SparseMap", "--tyvar", "ν",
                        "--import", "Evenio.Generated.Rs2LeanPrelude", "--import", "Evenio.Model.SparseMap",
                        "--open", "Evenio.Rs2Lean",
                        "--type", "SparseMap=Evenio.SparseMap ν", "--type", "K=Nat", "--type", "V=ν",
                        "--prim", "K::index(self) -> usize=_", "--prim", "K::from_index(usize) -> K=_",
                        "--prim", "K::MAX: K=Evenio.U32MAX"],
                       ["get", "insert", "remove"])


def extract_entity():
    """entity.rs: `ReservedEntities::{reserve, spawn_all, refresh}` and `Entities::add_with`; the structs `Entities` and
    `ReservedEntities` are emitted as Lean structures; the slot-map functions they call are the translated ones of
    `Generated/SlotMapGen.lean` (`Evenio/Proofs/EntityGen.lean` ties them to the slot-map hand model)."""
    return run_rs2lean("src/entity.rs",
                       ["ReservedEntities", "Entities::add_with", "reserve", "spawn_all", "refresh",
                        "--namespace", "Evenio.Gen.Entity",
                        "--import", "Evenio.Generated.Rs2LeanPrelude", "--import", "Evenio.Generated.SlotMapGen",
                        "--import", "Evenio.Model.Storage", "--open", "Evenio.Rs2Lean",
                        "--struct", "Entities", "--struct", "ReservedEntities",
                        "--type", "SlotMap=Evenio.SlotMap Evenio.Loc", "--type", "EntityLocation=Evenio.Loc",
                        "--type", "EntityId=Evenio.Key", "--type", "Key=Evenio.Key",
                        "--type", "NextKeyIter=Evenio.Gen.SlotMap.NextKeyIter",
                        "--prim", "::EntityId(Key) -> EntityId=_",
                        "--prim", "NextKeyIter::next(&mut self, &SlotMap<EntityLocation>) -> Outcome<Option<Key>>"
                                  "=Evenio.Gen.SlotMap.NextKeyIter.next",
                        "--prim", "SlotMap::next_key_iter(&self) -> NextKeyIter<EntityLocation>=Evenio.Gen.SlotMap.next_key_iter",
                        "--prim", "SlotMap::insert_with(&mut self, impl FnOnce(Key) -> EntityLocation) -> Option<Key>"
                                  "=Evenio.Gen.SlotMap.insert_with"],
                       ["Entities.add_with", "reserve", "spawn_all", "refresh"])


def extract_handler_config():
    """handler.rs: the nine setters of `HandlerConfig`; the struct is emitted as a Lean structure whose field types are the
    world model's (`ReceivedEventId` = `Option (Option (EvTy × Key))`, `MaybeInvalidAccess` = `Option Access`, `BitSet<_>` =
    sorted `List Nat`); `Access::join`, `ComponentAccess::and`, `BitSet::insert` are taken as the hand model's `Access.join`,
    `CA.and`, `sortedInsert` (`Evenio/Proofs/HandlerConfigGen.lean` ties the setters to `Config.setRecv` / `setRecvAccess` /
    `setFilter` and to the record updates of `initParam`)."""
    return run_rs2lean("src/handler.rs",
                       ["HandlerConfig", "set_priority", "set_received_event", "set_received_event_access",
                        "set_targeted_event_component_access", "insert_sent_global_event", "insert_sent_targeted_event",
                        "set_event_queue_access", "push_component_access", "insert_referenced_components",
                        "--namespace", "Evenio.Gen.HandlerConfig",
                        "--import", "Evenio.Generated.Rs2LeanPrelude", "--import", "Evenio.Generated.Rs2LeanConfig",
                        "--open", "Evenio.Rs2Lean", "--struct", "HandlerConfig",
                        "--type", "HandlerPriority=Evenio.Priority",
                        "--type", "ReceivedEventId=Option (Option (Evenio.EvTy × Evenio.Key))",
                        "--type", "MaybeInvalidAccess=Option Evenio.Access", "--type", "ComponentAccess=Evenio.CA",
                        "--type", "BitSet=List Nat", "--type", "Access=Evenio.Access",
                        "--type", "EventId=Evenio.EvTy × Evenio.Key",
                        "--type", "GlobalEventIdx=Nat", "--type", "TargetedEventIdx=Nat", "--type", "ComponentIdx=Nat",
                        "--variant", "ReceivedEventId::None=none", "--variant", "ReceivedEventId::Ok=some (some $1)",
                        "--variant", "ReceivedEventId::Invalid=some none",
                        "--variant", "MaybeInvalidAccess::Ok=some $1", "--variant", "MaybeInvalidAccess::Invalid=none",
                        "--prim", "Access::join(self, Access) -> Option<Access>=Evenio.Access.join",
                        "--prim", "ComponentAccess::and(&self, &ComponentAccess) -> ComponentAccess=Evenio.CA.and",
                        "--prim", "ComponentAccess::or(&self, &ComponentAccess) -> ComponentAccess=Evenio.CA.or",
                        "--prim", "BitSet::insert(&mut self, _) -> bool=Evenio.Rs2Lean.setInsert"],
                       ["set_priority", "set_received_event", "set_received_event_access",
                        "set_targeted_event_component_access", "insert_sent_global_event", "insert_sent_targeted_event",
                        "set_event_queue_access", "push_component_access", "insert_referenced_components"])


def extract_access_funcs():
    """access.rs: `Access::{join, is_compatible}`, `ComponentAccess::{new_true, new_false, var, or, matches_archetype,
    clear_access, collect_conflicts}` — the code around the tables of AccessTables (iterator chains, `for … in &mut` as
    `List.map`, `for … in &` as a fold into an `IndexSet` = duplicate-free list in first-occurrence order);
    `ComponentAccess { cases }` is the list of cases.  `and` / `not` are outside the translator's subset.
    `Evenio/Proofs/AccessGen.lean` proves the translated functions equal to `Model/Access.lean`."""
    return run_rs2lean("src/access.rs",
                       ["ComponentAccess", "Access::join", "Access::is_compatible", "new_true", "new_false", "var", "or",
                        "matches_archetype", "clear_access", "collect_conflicts",
                        "--namespace", "Evenio.Gen.Access",
                        "--import", "Evenio.Generated.Rs2LeanPrelude", "--import", "Evenio.Model.Access",
                        "--open", "Evenio.Rs2Lean", "--transparent", "ComponentAccess",
                        "--type", "ComponentAccess=Evenio.CA", "--type", "Access=Evenio.Access",
                        "--type", "CaseAccess=Evenio.CaseAccess", "--type", "ComponentIdx=Nat",
                        "--variant", "CaseAccess::With=.wth", "--variant", "CaseAccess::Read=.rd",
                        "--variant", "CaseAccess::ReadWrite=.rw", "--variant", "CaseAccess::Not=.nt",
                        "--variant", "CaseAccess::Conflict=.cf",
                        "--type", "IndexSet=List Nat", "--type", "RandomState=Unit",
                        "--prim", "RandomState::new() -> RandomState=()",
                        "--prim", "IndexSet::with_hasher(RandomState) -> IndexSet=fun _ => ([] : List Nat)",
                        "--prim", "IndexSet::insert(&mut self, _) -> bool=indexSetInsert"],
                       ["Access.join", "Access.is_compatible", "new_true", "new_false", "var", "or", "matches_archetype",
                        "clear_access", "collect_conflicts"])


def extract_bit_set():
    """bit_set.rs: `BitSet::{new, clear, grow_to_block, is_disjoint, len, is_empty, insert, remove, contains}`, the trait
    methods `bitor_assign` / `bitxor_assign` and the free function `div_rem` over the hand model's record `BitSet`
    (`Block = usize` is `BitVec 64`); `Evenio/Proofs/BitSetGen.lean` proves them equal to `Model/BitSet.lean`.  `Iter`,
    `shrink_to_fit` and `Ord::cmp` (`while` / `loop`) are outside the translator's subset."""
    return run_rs2lean("src/bit_set.rs",
                       ["BitSet", "::div_rem", "new", "clear", "grow_to_block", "is_disjoint", "len", "is_empty", "insert",
                        "remove", "contains", "bitor_assign", "bitxor_assign",
                        "--namespace", "Evenio.Gen.BitSet",
                        "--import", "Evenio.Generated.Rs2LeanPrelude", "--import", "Evenio.Model.BitSet",
                        "--open", "Evenio.Rs2Lean",
                        "--type", "BitSet=Evenio.BitSet", "--type", "T=Nat", "--bits", "Block=64",
                        "--prim", "T::index(self) -> usize=_", "--prim", "::BITS: usize=64"],
                       ["div_rem", "new", "clear", "grow_to_block", "is_disjoint", "len", "is_empty", "insert", "remove",
                        "contains", "bitor_assign", "bitxor_assign"])


def extract_arch_handlers():
    """archetype.rs: `Archetype::register_handler`, `Archetypes::register_handler`, `Archetypes::remove_handler` over the world
    model's records (`Arch`, `HInfo`, `Slab Arch`); what they call is taken as given (`Generated/Rs2LeanArch.lean`:
    `matches_archetype` = `CA.matches`, `HandlerList::{insert, remove}` = the translated ones, `SparseMap`, `BTreeSet` as a
    duplicate-free list, `refresh_archetype` = the refresh of every parameter's cache).  `Evenio/Proofs/ArchHandlersGen.lean`
    ties them to `Arch.registerHandler` and the loops of `addHandler` / `removeHandler`."""
    return run_rs2lean("src/archetype.rs",
                       ["Archetype", "register_handler", "Archetypes::register_handler", "Archetypes::remove_handler",
                        "--namespace", "Evenio.Gen.ArchHandlers",
                        "--import", "Evenio.Generated.Rs2LeanPrelude", "--import", "Evenio.Generated.Rs2LeanArch",
                        "--open", "Evenio.Rs2Lean",
                        "--type", "Archetype=Evenio.Arch", "--type", "HandlerInfo=Evenio.HInfo",
                        "--type", "ComponentAccess=Evenio.CA", "--type", "ComponentIdx=Nat",
                        "--type", "HandlerInfoPtr=Evenio.Key", "--type", "HandlerPriority=Evenio.Priority",
                        "--type", "EventId=Bool × Nat", "--type", "TargetedEventIdx=Nat", "--type", "GlobalEventIdx=Nat",
                        "--type", "BTreeSet=List Evenio.Key", "--type", "HandlerList=Evenio.HandlerList Evenio.Key",
                        "--type", "SparseMap=Evenio.SparseMap (Evenio.HandlerList Evenio.Key)",
                        "--map", "SparseMap=sparseGet,sparseSet",
                        "--field", "Archetype.refresh_listeners=refresh", "--field", "Archetype.event_listeners=listeners",
                        "--enum", "EventId=Global(GlobalEventIdx)|Targeted(TargetedEventIdx)",
                        "--variant", "EventId::Global=(false, $1)", "--variant", "EventId::Targeted=(true, $1)",
                        "--prim", "HandlerInfo::archetype_filter(&self) -> &ComponentAccess=Evenio.HInfo.archFilter",
                        "--prim", "HandlerInfo::targeted_event_component_access(&self) -> Option<&ComponentAccess>=hinfoTargetedAccess",
                        "--prim", "HandlerInfo::received_event(&self) -> EventId=hinfoRecv",
                        "--prim", "HandlerInfo::ptr(&self) -> HandlerInfoPtr=Evenio.HInfo.key",
                        "--prim", "HandlerInfo::priority(&self) -> HandlerPriority=Evenio.HInfo.prio",
                        "--prim", "HandlerInfo::component_access(&self) -> &ComponentAccess=Evenio.HInfo.compAccess",
                        "--enum", "HandlerPriority=High|Medium|Low",
                        "--prim", "HandlerInfo::handler_mut(&mut self) -> HandlerInfo=_",
                        "--prim", "HandlerInfo::refresh_archetype(&mut self, &Archetype)=hinfoRefresh",
                        "--prim", "ComponentAccess::matches_archetype(&self, impl FnMut(ComponentIdx) -> bool) -> bool=Evenio.CA.matches",
                        "--prim", "Archetype::column_of(&self, ComponentIdx) -> Option<usize>=Evenio.Arch.colIdx",
                        "--prim", "Archetype::entity_count(&self) -> u32=archEntityCount",
                        "--prim", "TargetedEventIdx::index(self) -> usize=_",
                        "--prim", "BTreeSet::insert(&mut self, _) -> bool=keySetInsert",
                        "--prim", "BTreeSet::remove(&mut self, _) -> bool=keySetRemove",
                        "--prim", "HandlerList::new() -> HandlerList=({} : Evenio.HandlerList Evenio.Key)",
                        "--prim", "HandlerList::insert(&mut self, HandlerInfoPtr, HandlerPriority)=Evenio.Gen.HandlerList.insert",
                        "--prim", "HandlerList::remove(&mut self, HandlerInfoPtr) -> bool=Evenio.Gen.HandlerList.remove",
                        "--prim", "SparseMap::insert(&mut self, _, _) -> Option<HandlerList>=sparseInsert",
                        "--struct", "Archetypes", "--type", "Slab=Evenio.Slab Evenio.Arch", "--map", "Slab=slabGet,slabSet",
                        "--iter-mut", "Slab=slabMap,slabMapState", "--type", "HashMap=Unit"],
                       ["register_handler", "Archetypes.register_handler", "Archetypes.remove_handler"])


def extract_handlers():
    """handler.rs: `Handlers::{remove, register_event, get_global_list, get, get_by_index, contains}`; the struct is emitted as a
    Lean structure (`by_insert_order` / `by_type_id` as association lists); the slot-map functions called are the translated
    ones of SlotMapGen.  `Handlers::add` is outside the subset (a side effect inside `assert!`, and a closure that writes
    through a raw pointer).  `Evenio/Proofs/HandlersGen.lean` ties them to the registry part of the world model."""
    return run_rs2lean("src/handler.rs",
                       ["Handlers", "remove", "register_event", "get_global_list", "get", "get_by_index", "contains",
                        "--namespace", "Evenio.Gen.Handlers",
                        "--import", "Evenio.Generated.Rs2LeanPrelude", "--import", "Evenio.Generated.Rs2LeanArch",
                        "--import", "Evenio.Generated.SlotMapGen", "--open", "Evenio.Rs2Lean", "--struct", "Handlers",
                        "--type", "SlotMap=Evenio.SlotMap Evenio.HInfo", "--type", "HandlerInfo=Evenio.HInfo",
                        "--type", "HandlerList=Evenio.HandlerList Evenio.Key", "--type", "TypeIdMap=List (Nat × Evenio.Key)",
                        "--type", "BTreeMap=List (Nat × Evenio.Key)", "--type", "HandlerInfoPtr=Evenio.Key",
                        "--type", "HandlerId=Evenio.Key", "--type", "HandlerIdx=Nat", "--type", "GlobalEventIdx=Nat",
                        "--type", "GlobalEventId=Nat", "--type", "TargetedEventId=Nat", "--type", "TypeId=Nat",
                        "--type", "EventId=Bool × Nat", "--type", "Key=Evenio.Key",
                        "--enum", "EventId=Global(GlobalEventId)|Targeted(TargetedEventId)",
                        "--variant", "EventId::Global=(false, $1)", "--variant", "EventId::Targeted=(true, $1)",
                        "--prim", "::HandlerId(Key) -> HandlerId=_", "--prim", "::HandlerIdx(u32) -> HandlerIdx=_",
                        "--prim", "::GlobalEventIdx(u32) -> GlobalEventIdx=_",
                        "--prim", "GlobalEventId::index(self) -> GlobalEventIdx=_",
                        "--prim", "SlotMap::remove(&mut self, Key) -> Option<HandlerInfo>=Evenio.Gen.SlotMap.remove",
                        "--prim", "SlotMap::get(&self, Key) -> Option<&HandlerInfo>=Evenio.Gen.SlotMap.get",
                        "--prim", "SlotMap::get_by_index(&self, u32) -> Option<(Key, &HandlerInfo)>=Evenio.Gen.SlotMap.get_by_index",
                        "--prim", "HandlerInfo::received_event(&self) -> EventId=hinfoRecv",
                        "--prim", "HandlerInfo::ptr(&self) -> HandlerInfoPtr=Evenio.HInfo.key",
                        "--prim", "HandlerInfo::type_id(&self) -> Option<TypeId>=Evenio.HInfo.tid",
                        "--prim", "HandlerInfo::order(&self) -> u64=Evenio.HInfo.order",
                        "--prim", "HandlerList::remove(&mut self, HandlerInfoPtr) -> bool=Evenio.Gen.HandlerList.remove",
                        "--prim", "TypeIdMap::remove(&mut self, &TypeId) -> Option<HandlerInfoPtr>=assocRemove",
                        "--prim", "BTreeMap::remove(&mut self, &u64) -> Option<HandlerInfoPtr>=assocRemove",
                        "--prim", "Key::index(self) -> u32=Evenio.Key.idx"],
                       ["remove", "register_event", "get_global_list", "get", "get_by_index", "contains"])


def main():
    status_path = None
    if "--status" in sys.argv:
        status_path = sys.argv[sys.argv.index("--status") + 1]
    os.makedirs(OUT, exist_ok=True)
    status = {}
    for name, fn in [("AccessTables", extract_access), ("Gates", extract_gates), ("Sites", extract_sites),
                     ("HandlerListGen", extract_funcs), ("SlotMapGen", extract_slot_map),
                     ("SparseMapGen", extract_sparse_map), ("EntityGen", extract_entity),
                     ("HandlerConfigGen", extract_handler_config),
                     ("AccessGen", extract_access_funcs),
                     ("BitSetGen", extract_bit_set),
                     ("ArchHandlersGen", extract_arch_handlers),
                     ("HandlersGen", extract_handlers)]:
        target = os.path.join(OUT, name + ".lean")
        fallback = os.path.join(OUT, name + ".lean.fallback")
        old = open(target).read() if os.path.exists(target) else None
        try:
            new = fn()
            st = "extracted"
        except (ExtractError, OSError, ValueError) as ex:
            new = open(fallback).read() if os.path.exists(fallback) else old
            st = f"failed: {ex}"
        if new is not None and new != old:
            with open(target, "w") as fh:
                fh.write(new)
        committed = open(fallback).read() if os.path.exists(fallback) else None
        status[name] = {
            "status": st,
            "changed_vs_committed": (committed is not None and new != committed),
            "sha": hashlib.sha256((new or "").encode()).hexdigest()[:16],
        }
    out = json.dumps(status, indent=1)
    if status_path:
        with open(status_path, "w") as fh:
            fh.write(out)
    print(out)


if __name__ == "__main__":
    main()
