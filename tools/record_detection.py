#!/usr/bin/env python3
"""Writes `detected_by` into seeded/<id>/meta.json from try_mutants.py result logs.  usage: record_detection.py <log> [<log> ...]"""
import ast, json, os, sys
ROOT = os.path.abspath(os.path.join(os.path.dirname(os.path.abspath(__file__)), ".."))
res = {}
for l in sys.argv[1:]:
    for line in open(l, errors="replace"):
        line = line.strip()
        if line.startswith("("):
            try:
                t = ast.literal_eval(line)
            except Exception:
                continue
            res[t[0]] = t  # later logs win
for name, r in sorted(res.items()):
    mp = os.path.join(ROOT, "seeded", name, "meta.json")
    if not os.path.exists(mp):
        continue
    meta = json.load(open(mp))
    prop, verdict, how = r[1], r[2], r[3]
    secs, _, what = how.partition(" ")
    meta["detected_by"] = {
        "check": f"./check {prop} --tier quick",
        "verdict": {"rc=1 VIOL": "VIOLATION with replay", "rc=1 NFI": "VIOLATION no-failing-input-found",
                    "rc=0 quiet": "missed"}.get(verdict, verdict),
        "how": what[:300],
        "seconds": secs.rstrip("s"),
    }
    json.dump(meta, open(mp, "w"), indent=1)
    print(name, verdict)
