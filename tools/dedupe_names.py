#!/usr/bin/env python3
"""Makes all proof modules importable into one environment: helper lemmas that independently written files declare under
the same name get the suffix of the later file. Iterates: import everything, read Lean's `environment already contains`
error, rename in the file being imported (and in the files that import it), rebuild."""
import json, os, re, subprocess, sys

LEAN = os.path.join(os.path.dirname(os.path.abspath(__file__)), "..", "lean")
ALL = "/tmp/AllProofs.lean"
mods = sorted({m for v in json.load(open(os.path.join(LEAN, "obligations.json"))).values() for m in v["modules"]})
open(ALL, "w").write("".join(f"import {m}\n" for m in mods))


def sh(cmd):
    p = subprocess.run(cmd, cwd=LEAN, capture_output=True, text=True)
    return p.returncode, p.stdout + p.stderr


def path_of(mod):
    return os.path.join(LEAN, mod.replace(".", "/") + ".lean")


def importers(mod):
    """modules (transitively) importing `mod`"""
    res = set()
    files = {}
    for root, _, fs in os.walk(os.path.join(LEAN, "Evenio")):
        for f in fs:
            if f.endswith(".lean"):
                p = os.path.join(root, f)
                m = os.path.relpath(p, LEAN)[:-5].replace("/", ".")
                files[m] = re.findall(r"^import (\S+)", open(p).read(), flags=re.M)
    changed = True
    res.add(mod)
    while changed:
        changed = False
        for m, imps in files.items():
            if m not in res and any(i in res for i in imps):
                res.add(m)
                changed = True
    res.discard(mod)
    return res


for it in range(80):
    rc, out = sh(["lake", "build"] + mods)
    if rc != 0:
        print("build failed:\n", out[-1500:])
        sys.exit(1)
    rc, out = sh(["lake", "env", "lean", ALL])
    m = re.search(r"import (\S+) failed, environment already contains '([^']+)' from (\S+)", out)
    if not m:
        print("no more clashes" if rc == 0 else out[:600])
        break
    bmod, name, amod = m.group(1), m.group(2), m.group(3)
    short = name.split(".")[-1]
    suffix = "_" + bmod.split(".")[-1].lower()[:4]
    new = short + suffix
    targets = [bmod] + sorted(importers(bmod))
    n = 0
    for t in targets:
        p = path_of(t)
        s = open(p).read()
        s2 = re.sub(r"(?<![A-Za-z0-9_'])" + re.escape(short) + r"(?![A-Za-z0-9_'])", new, s)
        if s2 != s:
            open(p, "w").write(s2)
            n += 1
    print(f"{it}: {name} ({amod} vs {bmod}) -> {new} in {n} files", flush=True)
