#!/usr/bin/env python3
"""Applies each seeded change to /repo, runs the owning property's quick check, undoes the change, prints a table.
usage: try_mutants.py <dir-with-mutants> [name ...] [--props Cxx,Cyy] [--tier quick]"""
import json, os, subprocess, sys, time
ROOT = os.path.abspath(os.path.join(os.path.dirname(os.path.abspath(__file__)), ".."))
# with --sandbox the patches are applied to /root/scratch/mut/repo and checked by /root/scratch/mut/verif (tools/mut_sandbox.sh),
# so neither /repo nor /verif's build directories are touched
SANDBOX = "--sandbox" in sys.argv
SB = os.environ.get("MUT_SANDBOX", "/root/scratch/mut")
REPO = SB + "/repo" if SANDBOX else "/repo"
if SANDBOX:
    ROOT = SB + "/verif"
ENV = dict(os.environ, EVENIO_REPO=REPO)
base = sys.argv[1]
names = [a for a in sys.argv[2:] if not a.startswith("--")]
extra_props = None
tier = "quick"
for a in sys.argv[2:]:
    if a.startswith("--props="):
        extra_props = a[8:].split(",")
    if a.startswith("--tier="):
        tier = a[7:]
if not names:
    names = sorted(d for d in os.listdir(base) if os.path.exists(os.path.join(base, d, "patch.diff")))
rows = []
for n in names:
    d = os.path.join(base, n)
    meta = json.load(open(os.path.join(d, "meta.json"))) if os.path.exists(os.path.join(d, "meta.json")) else {}
    prop = meta.get("property", n.split("_")[0])
    props = extra_props or [prop]
    st = subprocess.run(["git", "-C", REPO, "status", "--porcelain", "--untracked-files=no"], capture_output=True, text=True).stdout.strip()
    if st:
        print("repo not clean:", st); sys.exit(1)
    r = subprocess.run(["git", "-C", REPO, "apply", os.path.join(d, "patch.diff")], capture_output=True, text=True)
    if r.returncode != 0:
        rows.append((n, prop, "patch-does-not-apply", r.stderr[:100])); continue
    try:
        for p in props:
            t0 = time.time()
            c = subprocess.run([os.path.join(ROOT, "check"), p, "--tier", tier], capture_output=True, text=True, cwd=ROOT, env=ENV)
            viol = [l for l in c.stdout.split("\n") if l.startswith("VIOLATION")]
            detail = ""
            lines = c.stdout.split("\n")
            for i, l in enumerate(lines):
                if l.startswith("VIOLATION") and i + 1 < len(lines):
                    detail = lines[i + 1].strip()[:150]; break
            rows.append((n, p, f"rc={c.returncode} {'NFI' if any('no-failing-input-found' in v for v in viol) else ('VIOL' if viol else 'quiet')}", f"{round(time.time()-t0)}s {detail}"))
            print(rows[-1], flush=True)
    finally:
        subprocess.run(["git", "-C", REPO, "checkout", "--", "."], capture_output=True)
print()
for r in rows:
    print(" | ".join(r))
