use super::*;

const HL: &str = r#"
pub enum Prio { High, Medium, Low }
pub struct Ptr(u64);
pub(crate) struct HL {
    before: u32,
    after: u32,
    entries: Vec<Ptr>,
    cap: u32,
}
impl HL {
    pub(crate) fn insert(&mut self, ptr: Ptr, priority: Prio) {
        assert!(self.entries.len() < u32::MAX as usize);
        match priority {
            Prio::High => {
                self.entries.insert(self.before as usize, ptr);
                self.before += 1;
                self.after += 1;
            }
            Prio::Medium => {
                self.entries.insert(self.after as usize, ptr);
                self.after += 1;
            }
            Prio::Low => self.entries.push(ptr),
        }
    }
    pub(crate) fn remove(&mut self, ptr: Ptr) -> bool {
        if let Some(idx) = self.entries.iter().position(|&p| p == ptr) {
            self.entries.remove(idx);
            let idx = idx as u32;
            if idx < self.after {
                self.after -= 1;
                if idx < self.before {
                    self.before -= 1;
                }
            }
            true
        } else {
            false
        }
    }
    fn flat(&mut self, idx: u32) {
        if idx < self.before { self.before -= 1 } else if idx < self.after { self.after -= 1 }
    }
    fn guard(&mut self, x: u32) -> bool {
        if x < self.before || !(x <= self.after) {
            return false;
        }
        let y = x + 1;
        let y = y as usize;
        self.after = x;
        y == self.entries.len() && self.before != 0
    }
    fn guard_unit(&mut self, x: u32) {
        if x == 0 { return; } else if x == 1 { self.before = 1; return; }
        self.after = x;
    }
    fn is_full(&self) -> bool {
        self.entries.len() == self.cap as usize
    }
    fn room(&self) -> u32 {
        if self.is_full_field { 0 } else { self.cap - self.after }
    }
    fn find(&self, p: Ptr) -> Option<usize> {
        match self.entries.iter().position(|q| *q == p) {
            Some(i) => Some(i + 1),
            None => None,
        }
    }
    fn nested(&mut self, a: Prio, b: Prio) -> u32 {
        match a {
            Prio::High | Prio::Medium => match b {
                Prio::High => 1,
                Prio::Medium | Prio::Low => { self.cap = 0; 2 }
            },
            Prio::Low => 3,
        }
    }
    fn partial(&mut self, x: u32) -> bool {
        if x < 3 { if x < 1 { return true; } self.cap = 1; }
        false
    }
    fn with_mut(&mut self) { let mut i = 0; self.cap = i; }
    fn with_loop(&mut self) { while self.cap < 3 { self.cap += 1; } }
    fn with_wild(&self, p: Prio) -> bool { match p { Prio::High => true, _ => false } }
    fn missing_arm(&self, p: Prio) -> bool { match p { Prio::High => true, Prio::Low => false } }
    fn with_unsafe(&mut self) { unsafe { self.cap = 1; } }
    fn with_index(&self, i: usize) -> Ptr { self.entries[i] }
    fn with_generic<T>(&self, t: T) -> bool { true }
    fn with_ref(&self, p: &Ptr) -> bool { true }
    fn with_unknown(&self, s: Other) -> bool { true }
    fn with_call(&mut self) { self.entries.clear(); }
    fn with_pop(&mut self) -> Option<Ptr> { self.entries.pop() }
    fn after_return(&mut self) -> bool { return true; self.cap = 1; false }
    fn ro_update(&self) -> bool { self.cap = 1; true }
    fn by_value(self) -> u32 { self.cap }
    fn signed(&self, x: i32) -> bool { true }
    fn bad_closure(&self, p: Ptr) -> bool { self.entries.iter().position(|&q| q == q) == None }
    fn tuple_let(&self) -> u32 { let (a, b) = (1, 2); a }
}
"#;

fn opts(fns: &[&str]) -> Options {
    Options {
        impl_type: "HL".into(),
        fns: fns.iter().map(|s| s.to_string()).collect(),
        self_type: Some("HL ρ".into()),
        type_map: vec![("Ptr".into(), "ρ".into()), ("Prio".into(), "Prio".into())],
        tyvars: vec!["ρ".into()],
        source_label: "t.rs".into(),
        ..Default::default()
    }
}

fn body_of(out: &str, f: &str) -> String {
    // the lines of `def f …` up to the next blank line, comments stripped
    let mut res = vec![];
    let mut on = false;
    for l in out.lines() {
        if l.starts_with(&format!("def {f} ")) {
            on = true;
        } else if on && l.trim().is_empty() {
            break;
        }
        if on {
            let l = match l.find("  -- ") {
                Some(k) => &l[..k],
                None => l,
            };
            if !l.trim().is_empty() && !l.trim_start().starts_with("--") {
                res.push(l.trim_end().to_string());
            }
        }
    }
    res.join("\n")
}

fn ok(f: &str) -> String {
    let out = translate(HL, &opts(&[f])).unwrap_or_else(|e| panic!("{f}: {e}"));
    body_of(&out, f)
}

fn rejected(f: &str, needle: &str) {
    match translate(HL, &opts(&[f])) {
        Ok(o) => panic!("{f} was translated:\n{o}"),
        Err(e) => assert!(e.0.contains(needle), "{f}: message `{}` does not mention `{needle}`", e.0),
    }
}

#[test]
fn insert_by_priority() {
    assert_eq!(
        ok("insert"),
        "def insert (self : HL ρ) (ptr : ρ) (priority : Prio) : HL ρ :=
  match priority with
  | .high =>
    let self := { self with entries := vecInsert self.entries self.before ptr }
    let self := { self with before := self.before + 1 }
    { self with after := self.after + 1 }
  | .medium =>
    let self := { self with entries := vecInsert self.entries self.after ptr }
    { self with after := self.after + 1 }
  | .low =>
    { self with entries := vecPush self.entries ptr }"
    );
}

#[test]
fn remove_with_if_let_and_nested_if() {
    assert_eq!(
        ok("remove"),
        "def remove [DecidableEq ρ] (self : HL ρ) (ptr : ρ) : HL ρ × Bool :=
  match vecPosition self.entries ptr with
  | some idx =>
    let self := { self with entries := vecRemove self.entries idx }
    let idx := idx
    let self :=
      if idx < self.after then
        let self := { self with after := self.after - 1 }
        if idx < self.before then
          { self with before := self.before - 1 }
        else self
      else self
    (self, true)
  | none =>
    (self, false)"
    );
}

#[test]
fn header_lists_what_is_not_carried_over() {
    let out = translate(HL, &opts(&["insert", "remove"])).unwrap();
    assert!(out.contains("line 12: `assert!(self.entries.len() < u32::MAX as usize)`"), "{out}");
    assert!(out.contains("-- L12: skipped `assert!(self.entries.len() < u32::MAX as usize)`"), "{out}");
    assert!(out.contains("line 16: `self.before += 1`"), "{out}");
    assert!(out.contains("line 33: `self.before -= 1`"), "{out}");
    assert!(out.contains("line 29: `idx as u32` (usize → u32)"), "{out}");
    assert!(out.contains("line 15: `self.entries.insert(self.before as usize, ptr)` panics"), "{out}");
    assert!(out.contains("`==` on `Ptr`"), "{out}");
    assert!(out.contains("namespace Evenio.Gen.HL") && out.contains("end Evenio.Gen.HL"), "{out}");
    assert!(out.contains("variable {ρ : Type}"), "{out}");
    // widening casts are not listed
    assert!(!out.contains("`self.before as usize`"), "{out}");
}

#[test]
fn else_if_chain() {
    assert_eq!(
        ok("flat"),
        "def flat (self : HL ρ) (idx : Nat) : HL ρ :=
  if idx < self.before then
    { self with before := self.before - 1 }
  else if idx < self.after then
    { self with after := self.after - 1 }
  else self"
    );
}

#[test]
fn early_return_takes_the_rest_into_the_else_branch() {
    assert_eq!(
        ok("guard"),
        "def guard (self : HL ρ) (x : Nat) : HL ρ × Bool :=
  if (x < self.before) ∨ (¬ (x ≤ self.after)) then
    (self, false)
  else
    let y := x + 1
    let y := y
    let self := { self with after := x }
    (self, (decide (y = (vecLen self.entries))) && (decide (self.before ≠ 0)))"
    );
}

#[test]
fn early_return_in_else_if_chain_of_unit_fn() {
    assert_eq!(
        ok("guard_unit"),
        "def guard_unit (self : HL ρ) (x : Nat) : HL ρ :=
  if x = 0 then
    self
  else if x = 1 then
    { self with before := 1 }
  else
    { self with after := x }"
    );
}

#[test]
fn shared_self_methods() {
    assert_eq!(ok("is_full"), "def is_full (self : HL ρ) : Bool :=\n  decide ((vecLen self.entries) = self.cap)");
    assert_eq!(
        ok("find"),
        "def find [DecidableEq ρ] (self : HL ρ) (p : ρ) : Option Nat :=
  match vecPosition self.entries p with
  | some i =>
    some (i + 1)
  | none =>
    none"
    );
}

#[test]
fn nested_match_is_parenthesised() {
    assert_eq!(
        ok("nested"),
        "def nested (self : HL ρ) (a : Prio) (b : Prio) : HL ρ × Nat :=
  match a with
  | .high | .medium =>
    (match b with
    | .high =>
      (self, 1)
    | .medium | .low =>
      let self := { self with cap := 0 }
      (self, 2))
  | .low =>
    (self, 3)"
    );
}

#[test]
fn rejections() {
    rejected("nope", "function `HL::nope` not found");
    rejected("room", "no field `is_full_field`");
    rejected("partial", "returns on some paths only");
    rejected("with_mut", "`let` pattern");
    rejected("with_loop", "outside the supported subset");
    rejected("with_wild", "match pattern");
    rejected("missing_arm", "without an arm for `Prio::Medium`");
    rejected("with_unsafe", "outside the supported subset");
    rejected("with_index", "outside the supported subset: expression `self.entries[i]`");
    rejected("with_generic", "generic function");
    rejected("with_ref", "outside the supported subset: type `&Ptr`");
    rejected("with_unknown", "no Lean type given for the Rust type `Other`");
    rejected("with_call", "Vec method as a statement");
    rejected("with_pop", "method call used as a value");
    rejected("after_return", "statement after `return`");
    rejected("ro_update", "does not take `&mut self`");
    rejected("by_value", "receiver");
    rejected("signed", "outside the supported subset: type `i32`");
    rejected("bad_closure", "closure body");
    rejected("tuple_let", "`let` pattern");
}

#[test]
fn generic_impl_and_missing_struct_are_rejected() {
    let src = "struct S<T> { v: Vec<T> } impl<T> S<T> { fn n(&self) -> usize { self.v.len() } }";
    let o = Options { impl_type: "S".into(), fns: vec!["n".into()], ..Default::default() };
    assert!(translate(src, &o).unwrap_err().0.contains("generic impl"));
    let o = Options { impl_type: "T".into(), fns: vec!["n".into()], ..Default::default() };
    assert!(translate(src, &o).unwrap_err().0.contains("struct `T` not found"));
    assert!(translate("fn (", &o).unwrap_err().0.contains("parse error"));
}

#[test]
fn error_messages_carry_file_line_and_function() {
    let e = translate(HL, &opts(&["with_loop"])).unwrap_err().0;
    let line = 1 + HL.lines().position(|l| l.contains("fn with_loop")).unwrap();
    assert!(e.starts_with(&format!("t.rs:{line}: fn with_loop:")), "{e}");
}
