use super::*;

const HL: &str = r#"
pub enum Prio { High, Medium, Low }
pub struct Ptr(u64);
pub(crate) struct HL {
    before: u32,
    after: u32,
    entries: Vec<Ptr>,
    cap: u32,
}
impl HL {
    pub(crate) fn insert(&mut self, ptr: Ptr, priority: Prio) {
        assert!(self.entries.len() < u32::MAX as usize);
        match priority {
            Prio::High => {
                self.entries.insert(self.before as usize, ptr);
                self.before += 1;
                self.after += 1;
            }
            Prio::Medium => {
                self.entries.insert(self.after as usize, ptr);
                self.after += 1;
            }
            Prio::Low => self.entries.push(ptr),
        }
    }
    pub(crate) fn remove(&mut self, ptr: Ptr) -> bool {
        if let Some(idx) = self.entries.iter().position(|&p| p == ptr) {
            self.entries.remove(idx);
            let idx = idx as u32;
            if idx < self.after {
                self.after -= 1;
                if idx < self.before {
                    self.before -= 1;
                }
            }
            true
        } else {
            false
        }
    }
    fn flat(&mut self, idx: u32) {
        if idx < self.before { self.before -= 1 } else if idx < self.after { self.after -= 1 }
    }
    fn guard(&mut self, x: u32) -> bool {
        if x < self.before || !(x <= self.after) {
            return false;
        }
        let y = x + 1;
        let y = y as usize;
        self.after = x;
        y == self.entries.len() && self.before != 0
    }
    fn guard_unit(&mut self, x: u32) {
        if x == 0 { return; } else if x == 1 { self.before = 1; return; }
        self.after = x;
    }
    fn is_full(&self) -> bool {
        self.entries.len() == self.cap as usize
    }
    fn room(&self) -> u32 {
        if self.is_full_field { 0 } else { self.cap - self.after }
    }
    fn find(&self, p: Ptr) -> Option<usize> {
        match self.entries.iter().position(|q| *q == p) {
            Some(i) => Some(i + 1),
            None => None,
        }
    }
    fn nested(&mut self, a: Prio, b: Prio) -> u32 {
        match a {
            Prio::High | Prio::Medium => match b {
                Prio::High => 1,
                Prio::Medium | Prio::Low => { self.cap = 0; 2 }
            },
            Prio::Low => 3,
        }
    }
    fn partial(&mut self, x: u32) -> bool {
        if x < 3 { if x < 1 { return true; } self.cap = 1; }
        false
    }
    fn with_mut(&mut self) { let mut i = 0; self.cap = i; }
    fn with_loop(&mut self) { while self.cap < 3 { self.cap += 1; } }
    fn with_wild(&self, p: Prio) -> bool { match p { Prio::High => true, _ => false } }
    fn missing_arm(&self, p: Prio) -> bool { match p { Prio::High => true, Prio::Low => false } }
    fn with_unsafe(&mut self) { unsafe { self.cap = 1; } }
    fn with_index(&self, i: usize) -> Ptr { self.entries[i] }
    fn with_generic<T>(&self, t: T) -> bool { true }
    fn with_ref(&self, p: &Ptr) -> bool { p == p }
    fn with_mut_ref(&self, p: &mut Ptr) -> bool { true }
    fn effect_in_assert(&mut self, p: Ptr) { debug_assert!(self.entries.pop().is_some()); self.cap = 1; }
    fn effect_in_assert_eq(&mut self, p: Ptr) { assert_eq!(self.entries.remove(0), p); }
    fn assign_in_assert(&mut self) { debug_assert!({ self.cap += 1; true }); }
    fn pure_assert(&mut self, x: u32) { debug_assert!(x <= self.cap && x != 3 || x >= 1); assert_eq!(self.entries.len(), 0, "msg {}", x); self.cap = x; }
    fn unsafe_stmts(&mut self) { unsafe { self.cap = 1; self.cap = 2; } }
    fn unsafe_expr(&mut self) { unsafe { self.cap = 1 } }
    fn with_unknown(&self, s: Other) -> bool { true }
    fn with_call(&mut self) { self.entries.reverse(); }
    fn with_pop(&mut self) -> Option<Ptr> { self.entries.pop() }
    fn after_return(&mut self) -> bool { return true; self.cap = 1; false }
    fn ro_update(&self) -> bool { self.cap = 1; true }
    fn by_value(self) -> u32 { self.cap }
    fn signed(&self, x: i32) -> bool { true }
    fn bad_closure(&self, p: Ptr) -> bool { self.entries.iter().position(|&q| q == q) == None }
    fn tuple_let(&self) -> u32 { let ((a, b), c) = ((1, 2), 3); a }
}
"#;

fn opts(fns: &[&str]) -> Options {
    Options {
        impl_type: "HL".into(),
        fns: fns.iter().map(|s| s.to_string()).collect(),
        self_type: Some("HL ρ".into()),
        type_map: vec![("Ptr".into(), "ρ".into()), ("Prio".into(), "Prio".into())],
        tyvars: vec!["ρ".into()],
        source_label: "t.rs".into(),
        ..Default::default()
    }
}

fn body_of(out: &str, f: &str) -> String {
    // the lines of `def f …` up to the next blank line, comments stripped
    let mut res = vec![];
    let mut on = false;
    for l in out.lines() {
        if l.starts_with(&format!("def {f} ")) {
            on = true;
        } else if on && l.trim().is_empty() {
            break;
        }
        if on {
            let l = match l.find("  -- ") {
                Some(k) => &l[..k],
                None => l,
            };
            if !l.trim().is_empty() && !l.trim_start().starts_with("--") {
                res.push(l.trim_end().to_string());
            }
        }
    }
    res.join("\n")
}

fn ok(f: &str) -> String {
    let out = translate(HL, &opts(&[f])).unwrap_or_else(|e| panic!("{f}: {e}"));
    body_of(&out, f)
}

fn rejected(f: &str, needle: &str) {
    match translate(HL, &opts(&[f])) {
        Ok(o) => panic!("{f} was translated:\n{o}"),
        Err(e) => assert!(e.0.contains(needle), "{f}: message `{}` does not mention `{needle}`", e.0),
    }
}

#[test]
fn insert_by_priority() {
    assert_eq!(
        ok("insert"),
        "def insert (self : HL ρ) (ptr : ρ) (priority : Prio) : HL ρ :=
  match priority with
  | .high =>
    let self := { self with entries := vecInsert self.entries self.before ptr }
    let self := { self with before := self.before + 1 }
    { self with after := self.after + 1 }
  | .medium =>
    let self := { self with entries := vecInsert self.entries self.after ptr }
    { self with after := self.after + 1 }
  | .low =>
    { self with entries := vecPush self.entries ptr }"
    );
}

#[test]
fn remove_with_if_let_and_nested_if() {
    assert_eq!(
        ok("remove"),
        "def remove [DecidableEq ρ] (self : HL ρ) (ptr : ρ) : HL ρ × Bool :=
  match vecPosition self.entries ptr with
  | some idx =>
    let self := { self with entries := vecRemove self.entries idx }
    let idx := idx
    let self :=
      if idx < self.after then
        let self := { self with after := self.after - 1 }
        if idx < self.before then
          { self with before := self.before - 1 }
        else self
      else self
    (self, true)
  | none =>
    (self, false)"
    );
}

#[test]
fn header_lists_what_is_not_carried_over() {
    let out = translate(HL, &opts(&["insert", "remove"])).unwrap();
    assert!(out.contains("line 12: `assert!(self.entries.len() < u32::MAX as usize)`"), "{out}");
    assert!(out.contains("-- L12: skipped `assert!(self.entries.len() < u32::MAX as usize)`"), "{out}");
    assert!(out.contains("line 16: `self.before += 1`"), "{out}");
    assert!(out.contains("line 33: `self.before -= 1`"), "{out}");
    assert!(out.contains("line 29: `idx as u32` (usize → u32)"), "{out}");
    assert!(out.contains("line 15: `self.entries.insert(self.before as usize, ptr)` panics"), "{out}");
    assert!(out.contains("`==` on `Ptr`"), "{out}");
    assert!(out.contains("namespace Evenio.Gen.HL") && out.contains("end Evenio.Gen.HL"), "{out}");
    assert!(out.contains("variable {ρ : Type}"), "{out}");
    // widening casts are not listed
    assert!(!out.contains("`self.before as usize`"), "{out}");
}

#[test]
fn else_if_chain() {
    assert_eq!(
        ok("flat"),
        "def flat (self : HL ρ) (idx : Nat) : HL ρ :=
  if idx < self.before then
    { self with before := self.before - 1 }
  else if idx < self.after then
    { self with after := self.after - 1 }
  else self"
    );
}

#[test]
fn early_return_takes_the_rest_into_the_else_branch() {
    assert_eq!(
        ok("guard"),
        "def guard (self : HL ρ) (x : Nat) : HL ρ × Bool :=
  if (x < self.before) ∨ (¬ (x ≤ self.after)) then
    (self, false)
  else
    let y := x + 1
    let y := y
    let self := { self with after := x }
    (self, (decide (y = (vecLen self.entries))) && (decide (self.before ≠ 0)))"
    );
}

#[test]
fn early_return_in_else_if_chain_of_unit_fn() {
    assert_eq!(
        ok("guard_unit"),
        "def guard_unit (self : HL ρ) (x : Nat) : HL ρ :=
  if x = 0 then
    self
  else if x = 1 then
    { self with before := 1 }
  else
    { self with after := x }"
    );
}

#[test]
fn shared_self_methods() {
    assert_eq!(ok("is_full"), "def is_full (self : HL ρ) : Bool :=\n  decide ((vecLen self.entries) = self.cap)");
    assert_eq!(
        ok("find"),
        "def find [DecidableEq ρ] (self : HL ρ) (p : ρ) : Option Nat :=
  match vecPosition self.entries p with
  | some i =>
    some (i + 1)
  | none =>
    none"
    );
}

#[test]
fn nested_match_is_parenthesised() {
    assert_eq!(
        ok("nested"),
        "def nested (self : HL ρ) (a : Prio) (b : Prio) : HL ρ × Nat :=
  match a with
  | .high | .medium =>
    (match b with
    | .high =>
      (self, 1)
    | .medium | .low =>
      let self := { self with cap := 0 }
      (self, 2))
  | .low =>
    (self, 3)"
    );
}

#[test]
fn rejections() {
    rejected("nope", "function `HL::nope` not found");
    rejected("room", "no field `is_full_field`");
    rejected("with_loop", "outside the supported subset");
    rejected("with_wild", "match pattern");
    rejected("missing_arm", "without an arm for `Prio::Medium`");
    rejected("with_unsafe", "outside the supported subset");
    rejected("with_index", "outside the supported subset: expression `self.entries[i]`");
    rejected("with_generic", "generic function");
    rejected("with_mut_ref", "`&mut` parameter (only of a struct type)");
    rejected("unsafe_stmts", "`unsafe` block with statements");
    rejected("effect_in_assert", "side effect inside an assertion (call of `pop`)");
    rejected("effect_in_assert_eq", "side effect inside an assertion (call of `remove`)");
    rejected("assign_in_assert", "side effect inside an assertion (an assignment)");
    assert!(ok("pure_assert").ends_with("{ self with cap := x }"));
    rejected("with_unknown", "no Lean type given for the Rust type `Other`");
    rejected("with_call", "Vec method as a statement");
    rejected("with_pop", "method call used as a value");
    rejected("after_return", "statement after `return`");
    rejected("ro_update", "does not take `&mut self`");
    rejected("by_value", "receiver");
    rejected("signed", "outside the supported subset: type `i32`");
    rejected("bad_closure", "closure body");
    rejected("tuple_let", "`let` pattern");
}

#[test]
fn generic_impl_and_missing_struct_are_rejected() {
    let src = "struct S<T> { v: Vec<T> } impl<T> S<T> { fn n(&self) -> usize { self.v.len() } }";
    let o = Options { impl_type: "S".into(), fns: vec!["n".into()], ..Default::default() };
    assert!(translate(src, &o).unwrap_err().0.contains("generic impl"));
    let o = Options { impl_type: "T".into(), fns: vec!["n".into()], ..Default::default() };
    assert!(translate(src, &o).unwrap_err().0.contains("struct `T` not found"));
    assert!(translate("fn (", &o).unwrap_err().0.contains("parse error"));
}

#[test]
fn error_messages_carry_file_line_and_function() {
    let e = translate(HL, &opts(&["with_loop"])).unwrap_err().0;
    let line = 1 + HL.lines().position(|l| l.contains("fn with_loop")).unwrap();
    assert!(e.starts_with(&format!("t.rs:{line}: fn with_loop:")), "{e}");
}

#[test]
fn return_on_some_paths_takes_the_rest_of_the_block_along() {
    assert_eq!(
        body_of(&translate(HL, &opts(&["partial"])).unwrap(), "«partial»"),
        "def «partial» (self : HL ρ) (x : Nat) : HL ρ × Bool :=
  if x < 3 then
    if x < 1 then
      (self, true)
    else
      let self := { self with cap := 1 }
      (self, false)
  else
    (self, false)"
    );
}

#[test]
fn shared_reference_parameter_and_transparent_unsafe() {
    assert_eq!(ok("with_ref"), "def with_ref [DecidableEq ρ] (self : HL ρ) (p : ρ) : Bool :=\n  decide (p = p)");
    assert_eq!(ok("unsafe_expr"), "def unsafe_expr (self : HL ρ) : HL ρ :=\n  { self with cap := 1 }");
    let out = translate(HL, &opts(&["with_ref", "unsafe_expr"])).unwrap();
    assert!(out.contains("`p: &Ptr` (fn with_ref): a shared reference is the value it points to"), "{out}");
    assert!(out.contains("`unsafe { self.cap = 1 }`"), "{out}");
}

// ------------------------------------------------------------------------------------------------ slot-map shaped code

const SM: &str = r#"
pub(crate) struct SM<T> { slots: Vec<Slot<T>>, next_free: u32, len: u32 }
struct Slot<T> { union: SlotUnion<T>, generation: u32 }
union SlotUnion<T> { value: ManuallyDrop<T>, next_free: u32 }
pub(crate) struct Key { n: NonZeroU64 }
pub(crate) struct It<T> { index: u32, _marker: PhantomData<fn() -> T> }
impl<T> Slot<T> {
    const fn is_vacant(&self) -> bool { self.generation % 2 == 0 }
}
impl Key {
    pub(crate) const fn new(index: u32, generation: u32) -> Option<Self> {
        if generation % 2 == 1 { Some(unsafe { Self::new_unchecked(index, generation) }) } else { None }
    }
}
impl<T> SM<T> {
    pub(crate) fn insert_with<F>(&mut self, f: F) -> Option<Key>
    where
        F: FnOnce(Key) -> T,
    {
        let key;
        if let Some(slot) = self.slots.get_mut(self.next_free as usize) {
            debug_assert!(slot.is_vacant());
            key = unsafe { Key::new(self.next_free, slot.generation + 1).unwrap_unchecked() };
            let value = f(key);
            slot.generation += 1;
            self.next_free = unsafe { slot.union.next_free };
            slot.union.value = ManuallyDrop::new(value);
        } else {
            let index = self.slots.len() as u32;
            if index == u32::MAX {
                return None;
            }
            key = Key::new(index, 1).unwrap();
            let value = f(key);
            self.slots.push(Slot { union: SlotUnion { value: ManuallyDrop::new(value) }, generation: 1 });
        };
        self.len += 1;
        Some(key)
    }
    pub(crate) fn remove(&mut self, key: Key) -> Option<T> {
        let slot = self.slots.get_mut(key.index() as usize)?;
        if slot.generation != key.generation().get() {
            return None;
        }
        slot.generation = slot.generation.wrapping_add(1);
        let res = unsafe { ManuallyDrop::take(&mut slot.union.value) };
        if slot.generation != 0 {
            slot.union.next_free = self.next_free;
            self.next_free = key.index();
        }
        self.len -= 1;
        Some(res)
    }
    pub(crate) fn get(&self, key: Key) -> Option<&T> {
        let slot = self.slots.get(key.index() as usize)?;
        if slot.generation != key.generation().get() {
            return None;
        }
        Some(unsafe { &slot.union.value })
    }
    pub(crate) fn get_by_index(&self, index: u32) -> Option<(Key, &T)> {
        let slot = self.slots.get(index as usize)?;
        if slot.is_vacant() {
            return None;
        }
        let key = unsafe { Key::new_unchecked(index, slot.generation) };
        let value = unsafe { &slot.union.value };
        Some((key, value))
    }
    pub(crate) fn iter_at(&self) -> It<T> {
        It { index: if self.next_free == u32::MAX { self.slots.len() as u32 } else { self.next_free }, _marker: PhantomData }
    }
    fn deferred_state(&mut self, x: u32) -> u32 {
        let y;
        if x < 3 { y = 1; self.len = 0; } else { y = x; }
        y
    }
    fn deferred_partial(&mut self, x: u32) -> u32 {
        let y;
        if x < 3 { y = 1; } else { self.len = 0; }
        7
    }
    fn assign_twice(&mut self) -> u32 { let y; y = 1; y = 2; y }
    fn use_before_init(&self) -> u32 { let y; let z = y; y = 1; z }
    fn try_in_nested(&mut self, i: usize) -> Option<u32> {
        if i < 3 { let s = self.slots.get(i)?; self.len = s.generation; }
        None
    }
    fn try_short_circuit(&self, i: usize) -> Option<bool> { Some(i < 3 && self.slots.get(i)?.generation == 0) }
    fn try_no_option(&self, i: usize) -> u32 { self.slots.get(i)?.generation }
    fn union_whole(&self, i: usize) -> Option<u32> { let s = self.slots.get(i)?; let u = s.union; None }
    fn union_literal_no_default(&mut self) { self.slots.push(Slot { union: SlotUnion { next_free: 3 }, generation: 0 }); }
    fn foreign_call(&self) -> u32 { helper(self.len) }
    fn unknown_assoc(&self) -> Option<Key> { Key::from_raw(3) }
    fn called_too_early(&self) -> bool { self.later() }
    fn later(&self) -> bool { true }
    fn panics(&mut self, x: u32) -> u32 {
        if x == 0 { panic!("zero {}", x); }
        self.len = x;
        x
    }
    fn mod_by_var(&self, x: u32) -> u32 { self.len % x }
    fn borrow_of_param(&self, v: u32) -> u32 { let r = &mut v; 1 }
    fn two_effects(&mut self, i: usize) -> Option<u32> {
        let a = mem::replace(&mut self.len, mem::replace(&mut self.next_free, 1));
        Some(a)
    }
    fn write_after_borrow(&mut self, i: usize, j: usize) -> Option<u32> {
        let s = self.slots.get_mut(i)?;
        s.generation = 4;
        let old = mem::replace(&mut s.generation, 5);
        Some(old)
    }
    fn effect_order(&mut self) -> Option<u32> {
        let a = self.len + mem::replace(&mut self.len, 1);
        Some(a)
    }
    fn effect_in_cond(&mut self) -> Option<u32> {
        if mem::replace(&mut self.len, 1) == 0 { return None; }
        Some(1)
    }
    fn leaking_name(&mut self, x: u32) -> u32 {
        let y = 1;
        if x < 3 { let y = 2; if x < 1 { return y; } }
        y
    }
    fn while_let(&mut self) { while let Some(s) = self.slots.get(0) { self.len = 1; } }
    fn for_loop(&mut self) { for i in 0..self.len { self.len = 1; } }
    fn closure_value(&self) -> u32 { let g = |x: u32| x; 1 }
    fn generic_non_closure<G: Clone>(&self, g: G) -> u32 { 1 }
}
impl<T> It<T> {
    pub(crate) fn next(&mut self, sm: &SM<T>) -> Option<Key> {
        let key;
        if let Some(slot) = sm.slots.get(self.index as usize) {
            if slot.is_vacant() {
                key = Some(unsafe { Key::new_unchecked(self.index, slot.generation + 1) });
                let next_free = unsafe { slot.union.next_free };
                if next_free == u32::MAX { self.index = sm.slots.len() as u32; } else { self.index = next_free; }
            } else {
                panic!("incorrect state for next key iter");
            }
        } else if self.index < u32::MAX {
            key = Some(Key::new(self.index, 1).unwrap());
            self.index += 1;
        } else {
            key = None;
        }
        key
    }
}
"#;

fn sm_opts(fns: &[&str]) -> Options {
    let mut all: Vec<String> = vec!["Slot::is_vacant".into(), "Key::new".into()];
    all.extend(fns.iter().map(|s| s.to_string()));
    let p = |a: &str, b: &str| (a.to_string(), b.to_string());
    Options {
        impl_type: "SM".into(),
        fns: all,
        type_map: vec![p("SM", "SM α"), p("Slot", "Slot α"), p("Key", "Key"), p("T", "α")],
        tyvars: vec!["α".into()],
        structs: vec!["It".into()],
        field_map: vec![p("SM.next_free", "nextFree"), p("Slot.generation", "gen"), p("Slot.union.next_free", "next"), p("Slot.union.value", "val")],
        inactive: vec![p("SlotUnion.next_free", "4294967295")],
        prims: vec![p("Key::new_unchecked(u32, u32) -> Key", "Key.mk"), p("Key::index(self) -> u32", "Key.idx"), p("Key::generation(self) -> NonZeroU32", "Key.gen")],
        source_label: "sm.rs".into(),
        ..Default::default()
    }
}

fn sm_ok(f: &str) -> String {
    let out = translate(SM, &sm_opts(&[f])).unwrap_or_else(|e| panic!("{f}: {e}"));
    let name = f.replace("::", ".");
    body_of(&out, &name)
}

fn sm_rejected(f: &str, needle: &str) {
    match translate(SM, &sm_opts(&[f])) {
        Ok(o) => panic!("{f} was translated:\n{o}"),
        Err(e) => assert!(e.0.contains(needle), "{f}: message `{}` does not mention `{needle}`", e.0),
    }
}

#[test]
fn functions_of_other_impls_and_associated_functions() {
    assert_eq!(sm_ok("Slot::is_vacant"), "def Slot.is_vacant (self : Slot α) : Bool :=\n  decide ((self.gen % 2) = 0)");
    assert_eq!(
        sm_ok("Key::new"),
        "def Key.new (index : Nat) (generation : Nat) : Option Key :=
  if (generation % 2) = 1 then
    some (Key.mk index generation)
  else
    none"
    );
}

#[test]
fn mutable_borrow_of_a_vec_element_deferred_let_closure_union_literal() {
    assert_eq!(
        sm_ok("insert_with"),
        "def insert_with (self : SM α) (f : Key → α) : SM α × (Option Key) :=
  let at1 := self.nextFree
  match vecGet self.slots at1 with
  | some slot =>
    let key := optUnwrap (Key.new self.nextFree (slot.gen + 1))
    let value := f key
    let slot := { slot with gen := slot.gen + 1 }
    let self := { self with slots := vecSet self.slots at1 slot }
    let self := { self with nextFree := slot.next }
    let slot := { slot with val := some value }
    let self := { self with slots := vecSet self.slots at1 slot }
    let self := { self with len := self.len + 1 }
    (self, some key)
  | none =>
    let index := vecLen self.slots
    if index = 4294967295 then
      (self, none)
    else
      let key := optUnwrap (Key.new index 1)
      let value := f key
      let self := { self with slots := vecPush self.slots ({ val := some value, next := 4294967295, gen := 1 } : Slot α) }
      let self := { self with len := self.len + 1 }
      (self, some key)"
    );
}

#[test]
fn question_mark_cell_take_wrapping_add_and_state_tuple() {
    assert_eq!(
        sm_ok("remove"),
        "def remove (self : SM α) (key : Key) : SM α × (Option α) :=
  let at1 := Key.idx key
  match vecGet self.slots at1 with
  | none => (self, none)
  | some slot =>
    if slot.gen ≠ (Key.gen key) then
      (self, none)
    else
      let slot := { slot with gen := (slot.gen + 1) % 4294967296 }
      let self := { self with slots := vecSet self.slots at1 slot }
      (match slot.val with
      | none => (self, none)
      | some res =>
        let slot := { slot with val := none }
        let self := { self with slots := vecSet self.slots at1 slot }
        let (self, slot) :=
          if slot.gen ≠ 0 then
            let slot := { slot with next := self.nextFree }
            let self := { self with slots := vecSet self.slots at1 slot }
            let self := { self with nextFree := Key.idx key }
            (self, slot)
          else (self, slot)
        let self := { self with len := self.len - 1 }
        (self, some res))"
    );
    let out = translate(SM, &sm_opts(&["remove"])).unwrap();
    assert!(out.contains("set_option linter.unusedVariables false"), "{out}");
}

#[test]
fn cell_reads_tuples_and_if_as_an_operand() {
    assert_eq!(
        sm_ok("get"),
        "def get (self : SM α) (key : Key) : Option α :=
  match vecGet self.slots (Key.idx key) with
  | none => none
  | some slot =>
    if slot.gen ≠ (Key.gen key) then
      none
    else
      (match slot.val with
      | none => none
      | some v1 =>
        some v1)"
    );
    assert_eq!(
        sm_ok("get_by_index"),
        "def get_by_index (self : SM α) (index : Nat) : Option (Key × α) :=
  match vecGet self.slots index with
  | none => none
  | some slot =>
    if (Slot.is_vacant slot) = true then
      none
    else
      let key := Key.mk index slot.gen
      (match slot.val with
      | none => none
      | some value =>
        some (key, value))"
    );
    assert_eq!(
        sm_ok("iter_at"),
        "def iter_at (self : SM α) : It :=\n  ({ index := if self.nextFree = 4294967295 then vecLen self.slots else self.nextFree } : It)"
    );
}

#[test]
fn panic_gives_an_outcome_and_the_rest_of_the_block_moves_into_the_branches() {
    assert_eq!(
        sm_ok("It::next"),
        "def It.next (self : It) (sm : SM α) : Outcome (It × (Option Key)) :=
  match vecGet sm.slots self.index with
  | some slot =>
    if (Slot.is_vacant slot) = true then
      let key := some (Key.mk self.index (slot.gen + 1))
      let next_free := slot.next
      let self :=
        if next_free = 4294967295 then
          { self with index := vecLen sm.slots }
        else
          { self with index := next_free }
      .ok (self, key)
    else
      .panic \"incorrect state for next key iter\"
  | none =>
    let (self, key) :=
      if self.index < 4294967295 then
        let key := some (optUnwrap (Key.new self.index 1))
        let self := { self with index := self.index + 1 }
        (self, key)
      else
        let key := none
        (self, key)
    .ok (self, key)"
    );
    assert_eq!(
        sm_ok("panics"),
        "def panics (self : SM α) (x : Nat) : Outcome (SM α × Nat) :=
  if x = 0 then
    .panic \"zero {}\"
  else
    let self := { self with len := x }
    .ok (self, x)"
    );
}

#[test]
fn deferred_initialisation_in_a_statement_is_part_of_its_state() {
    assert_eq!(
        sm_ok("deferred_state"),
        "def deferred_state (self : SM α) (x : Nat) : SM α × Nat :=
  let (self, y) :=
    if x < 3 then
      let y := 1
      let self := { self with len := 0 }
      (self, y)
    else
      let y := x
      (self, y)
  (self, y)"
    );
}

#[test]
fn struct_emission_and_header_of_the_slot_map_client() {
    let out = translate(SM, &sm_opts(&["insert_with", "remove", "get", "It::next"])).unwrap();
    assert!(out.contains("structure It where\n  index : Nat\n"), "{out}");
    assert!(out.contains("`It._marker` (`PhantomData`) is dropped"), "{out}");
    assert!(out.contains("`impl Slot`: is_vacant; `impl Key`: new; `impl SM`: insert_with, remove, get; `impl It`: next"), "{out}");
    assert!(out.contains("`unsafe { ManuallyDrop::take(&mut slot.union.value) }`"), "{out}");
    assert!(out.contains("`slot.union.next_free` (member `next_free` of the union `SlotUnion`)"), "{out}");
    assert!(out.contains("the field of the inactive member `next_free` is set to `4294967295`"), "{out}");
    assert!(out.contains("`ManuallyDrop::take(&mut slot.union.value)` of an empty cell"), "{out}");
    assert!(out.contains("`Key::new(self.next_free, slot.generation + 1).unwrap_unchecked()` is undefined behaviour in Rust when the value is `None`"), "{out}");
    assert!(out.contains("`Key::new(index, 1).unwrap()` panics in Rust"), "{out}");
    assert!(out.contains("`slot.generation.wrapping_add(1)` on `u32` is arithmetic modulo 4294967296"), "{out}");
    assert!(out.contains("`panic!(\"incorrect state for next key iter\");`"), "{out}");
    assert!(out.contains("`Key::new_unchecked(u32, u32) -> Key` is taken as `Key.mk`"), "{out}");
    assert!(out.contains("the type parameter `T` of `impl SM` is `α`"), "{out}");
    assert!(out.contains("`f` (fn insert_with, `Key → α`) is a pure Lean function"), "{out}");
    assert!(out.contains("`debug_assert!(slot.is_vacant())` (debug builds only)"), "{out}");
    assert!(out.contains("`Slot.union.value` is the field `val`"), "{out}");
    // a note is listed once even when the statement is copied into several branches
    assert_eq!(out.matches("`self.len += 1`").count(), 1, "{out}");
}

#[test]
fn slot_map_rejections() {
    sm_rejected("deferred_partial", "`y` is initialised in some branches of this statement only");
    sm_rejected("assign_twice", "second assignment to a variable");
    sm_rejected("use_before_init", "before its deferred initialisation");
    sm_rejected("try_in_nested", "early exit to `None` inside a nested statement block");
    sm_rejected("try_short_circuit", "inside a conditionally evaluated operand");
    sm_rejected("try_no_option", "in a function that does not return an `Option`");
    sm_rejected("union_whole", "a union as a whole");
    sm_rejected("union_literal_no_default", "use --inactive SlotUnion.value=");
    sm_rejected("foreign_call", "outside the supported subset: function call `helper(self.len)`");
    sm_rejected("unknown_assoc", "call of `Key::from_raw`, which is neither translated earlier in this run nor given by --prim");
    sm_rejected("called_too_early", "neither translated earlier");
    sm_rejected("borrow_of_param", "`&mut`");
    sm_rejected("two_effects", "second effect in one statement");
    sm_rejected("effect_order", "reads `self` elsewhere too (evaluation order)");
    sm_rejected("leaking_name", "the branch binds `y`");
    sm_rejected("while_let", "outside the supported subset");
    sm_rejected("closure_value", "outside the supported subset");
    sm_rejected("generic_non_closure", "generic function");
    // the messages carry file, line and function
    let e = translate(SM, &sm_opts(&["union_whole"])).unwrap_err().0;
    let line = 1 + SM.lines().position(|l| l.contains("fn union_whole")).unwrap();
    assert!(e.starts_with(&format!("sm.rs:{line}: fn union_whole:")), "{e}");
}

#[test]
fn effects_inside_an_expression_are_hoisted_in_order() {
    assert_eq!(
        sm_ok("write_after_borrow"),
        "def write_after_borrow (self : SM α) (i : Nat) (j : Nat) : SM α × (Option Nat) :=
  let at1 := i
  match vecGet self.slots at1 with
  | none => (self, none)
  | some s =>
    let s := { s with gen := 4 }
    let self := { self with slots := vecSet self.slots at1 s }
    let old1 := s.gen
    let s := { s with gen := 5 }
    let self := { self with slots := vecSet self.slots at1 s }
    let old := old1
    (self, some old)"
    );
}

#[test]
fn effect_in_a_condition_goes_in_front_of_the_if() {
    assert_eq!(
        sm_ok("effect_in_cond"),
        "def effect_in_cond (self : SM α) : SM α × (Option Nat) :=
  let old1 := self.len
  let self := { self with len := 1 }
  if old1 = 0 then
    (self, none)
  else
    (self, some 1)"
    );
}

#[test]
fn options_of_the_slot_map_client_are_checked() {
    // a generic impl whose parameter has no Lean type
    let mut o = sm_opts(&["get"]);
    o.type_map.retain(|(r, _)| r != "T");
    assert!(translate(SM, &o).unwrap_err().0.contains("generic impl block for `Slot`"));
    // a struct to emit that does not exist
    let mut o = sm_opts(&["get"]);
    o.structs.push("Nope".into());
    assert!(translate(SM, &o).unwrap_err().0.contains("--struct Nope"));
    // a malformed --prim
    let mut o = sm_opts(&["get"]);
    o.prims.push(("Key.index".into(), "x".into()));
    assert!(translate(SM, &o).unwrap_err().0.contains("--prim `Key.index`: expected"));
    // a function of a type without impl
    let mut o = sm_opts(&["get"]);
    o.fns.push("SlotUnion::f".into());
    assert!(translate(SM, &o).unwrap_err().0.contains("function `SlotUnion::f` not found"));
}

// ------------------------------------------------------------------------------------------------ sparse-map shaped code

const SP: &str = r#"
pub(crate) struct SP<K, V> { sparse: Vec<K>, dense: Vec<V>, indices: Vec<K> }
#[allow(dead_code)]
impl<K: SparseIndex, V> SP<K, V> {
    pub(crate) fn get(&self, key: K) -> Option<&V> {
        let idx = self.sparse.get(key.index())?.index();
        if idx >= K::MAX.index() {
            None
        } else {
            let value = unsafe { self.dense.get_unchecked(idx) };
            Some(value)
        }
    }
    pub(crate) fn insert(&mut self, key: K, value: V) -> Option<V> {
        let sparse_idx = key.index();
        assert_ne!(
            sparse_idx,
            K::MAX.index(),
            "cannot insert"
        );
        if sparse_idx >= self.sparse.len() {
            self.sparse.resize(sparse_idx + 1, K::MAX);
        }
        let dense_len = self.dense.len();
        let dense_idx = unsafe { self.sparse.get_unchecked_mut(sparse_idx) };
        if dense_idx.index() == K::MAX.index() {
            *dense_idx = K::from_index(dense_len);
            self.dense.push(value);
            self.indices.push(key);
            None
        } else {
            let idx = dense_idx.index();
            let v = unsafe { self.dense.get_unchecked_mut(idx) };
            Some(mem::replace(v, value))
        }
    }
    pub(crate) fn remove(&mut self, key: K) -> Option<V> {
        let dense_idx = mem::replace(self.sparse.get_mut(key.index())?, K::MAX).index();
        if dense_idx == K::MAX.index() {
            None
        } else {
            unsafe { assume_unchecked(dense_idx < self.dense.len()) };
            let res = self.dense.swap_remove(dense_idx);
            self.indices.swap_remove(dense_idx);
            if let Some(&moved_index) = self.indices.get(dense_idx) {
                *unsafe { self.sparse.get_unchecked_mut(moved_index.index()) } = K::from_index(dense_idx);
            }
            Some(res)
        }
    }
    fn deref_foreign(&mut self, p: K) { *p = K::MAX; }
    fn borrow_foreign_vec(&self, i: usize) -> Option<K> { let x = self.sparse.get_mut(i)?; Some(*x) }
    fn shrink(&mut self) { self.dense.shrink_to_fit(); }
    fn trait_fn_not_given(&self, key: K) -> usize { key.other() }
    fn replace_local(&mut self, key: K) -> K { mem::replace(key, K::MAX) }
}
"#;

fn sp_opts(fns: &[&str]) -> Options {
    let p = |a: &str, b: &str| (a.to_string(), b.to_string());
    Options {
        impl_type: "SP".into(),
        fns: fns.iter().map(|s| s.to_string()).collect(),
        type_map: vec![p("SP", "SP ν"), p("K", "Nat"), p("V", "ν")],
        tyvars: vec!["ν".into()],
        prims: vec![p("K::index(self) -> usize", "_"), p("K::from_index(usize) -> K", "_"), p("K::MAX: K", "MAXK")],
        source_label: "sp.rs".into(),
        ..Default::default()
    }
}

fn sp_ok(f: &str) -> String {
    let out = translate(SP, &sp_opts(&[f])).unwrap_or_else(|e| panic!("{f}: {e}"));
    body_of(&out, f)
}

fn sp_rejected(f: &str, needle: &str) {
    match translate(SP, &sp_opts(&[f])) {
        Ok(o) => panic!("{f} was translated:\n{o}"),
        Err(e) => assert!(e.0.contains(needle), "{f}: message `{}` does not mention `{needle}`", e.0),
    }
}

#[test]
fn unchecked_lookup_and_question_mark_inside_a_method_chain() {
    assert_eq!(
        sp_ok("get"),
        "def get (self : SP ν) (key : Nat) : Option ν :=
  match vecGet self.sparse key with
  | none => none
  | some idx =>
    if idx ≥ MAXK then
      none
    else
      (match vecGet self.dense idx with
      | none => none
      | some value =>
        some value)"
    );
}

#[test]
fn resize_scalar_borrow_and_mem_replace() {
    assert_eq!(
        sp_ok("insert"),
        "def insert (self : SP ν) (key : Nat) (value : ν) : SP ν × (Option ν) :=
  let sparse_idx := key
  let self :=
    if sparse_idx ≥ (vecLen self.sparse) then
      { self with sparse := vecResize self.sparse (sparse_idx + 1) MAXK }
    else self
  let dense_len := vecLen self.dense
  let at1 := sparse_idx
  match vecGet self.sparse at1 with
  | none => (self, none)
  | some dense_idx =>
    if dense_idx = MAXK then
      let dense_idx := dense_len
      let self := { self with sparse := vecSet self.sparse at1 dense_idx }
      let self := { self with dense := vecPush self.dense value }
      let self := { self with indices := vecPush self.indices key }
      (self, none)
    else
      let idx := dense_idx
      let at2 := idx
      (match vecGet self.dense at2 with
      | none => (self, none)
      | some v =>
        let old1 := v
        let v := value
        let self := { self with dense := vecSet self.dense at2 v }
        (self, some old1))"
    );
}

#[test]
fn replace_through_an_anonymous_borrow_swap_remove_and_element_assignment() {
    assert_eq!(
        sp_ok("remove"),
        "def remove (self : SP ν) (key : Nat) : SP ν × (Option ν) :=
  let at1 := key
  match vecGet self.sparse at1 with
  | none => (self, none)
  | some dense_idx =>
    let self := { self with sparse := vecSet self.sparse at1 MAXK }
    if dense_idx = MAXK then
      (self, none)
    else
      (match vecGet self.dense dense_idx with
      | none => (self, none)
      | some res =>
        let self := { self with dense := vecSwapRemove self.dense dense_idx }
        let self := { self with indices := vecSwapRemove self.indices dense_idx }
        let self :=
          (match vecGet self.indices dense_idx with
          | some moved_index =>
            { self with sparse := vecSet self.sparse moved_index dense_idx }
          | none =>
            self)
        (self, some res))"
    );
    let out = translate(SP, &sp_opts(&["get", "insert", "remove"])).unwrap();
    assert!(out.contains("`assume_unchecked(dense_idx < self.dense.len())` (an assumption handed to the optimiser"), "{out}");
    assert!(out.contains("`assert_ne!( sparse_idx, K::MAX.index(), \"cannot insert\" )`"), "{out}");
    assert!(out.contains("`self.dense.get_unchecked(idx)` is a checked lookup here"), "{out}");
    assert!(out.contains("`*unsafe { self.sparse.get_unchecked_mut(moved_index.index()) }` out of range is undefined behaviour"), "{out}");
    assert!(out.contains("`self.dense.swap_remove(dense_idx)` panics in Rust when the index is ≥ len; here the function returns `None`"), "{out}");
    assert!(out.contains("`self.indices.swap_remove(dense_idx)` panics in Rust when the index is ≥ len; `vecSwapRemove` is total"), "{out}");
    assert!(out.contains("the type parameter `K: SparseIndex` of `impl SP` is `Nat`"), "{out}");
    assert!(out.contains("`K::index(self) -> usize` is taken as `the identity`"), "{out}");
    assert!(out.contains("`K::MAX: K` is taken as `MAXK`"), "{out}");
}

#[test]
fn sparse_map_rejections() {
    sp_rejected("deref_foreign", "assignment through a dereference");
    sp_rejected("borrow_foreign_vec", "mutable borrow of an element of a Vec that is not a field of `&mut self`");
    sp_rejected("shrink", "Vec method as a statement");
    sp_rejected("trait_fn_not_given", "call of `K::other`, which is neither translated earlier in this run nor given by --prim");
    sp_rejected("replace_local", "destination of `mem::replace`");
}

// ------------------------------------------------------------------------------------------------ entity-shaped code

const EN: &str = r#"
pub struct Entities { locs: SlotMap<EntityLocation> }
pub struct EntityId(Key);
pub(crate) struct Reserved { iter: NextKeyIter<EntityLocation>, count: u32 }
impl Entities {
    fn add_with(&mut self, f: impl FnOnce(EntityId) -> EntityLocation) -> EntityId {
        if let Some(k) = self.locs.insert_with(|k| f(EntityId(k))) {
            EntityId(k)
        } else {
            panic!("too many entities")
        }
    }
    fn len(&self) -> u32 { self.locs.len() }
}
impl Reserved {
    pub(crate) fn reserve(&mut self, entities: &Entities) -> EntityId {
        if let Some(k) = self.iter.next(&entities.locs) {
            self.count += 1;
            EntityId(k)
        } else {
            panic!("too many entities")
        }
    }
    pub(crate) fn spawn_all(&mut self, entities: &mut Entities, mut f: impl FnMut(EntityId) -> EntityLocation) {
        for _ in 0..self.count {
            entities.add_with(&mut f);
        }
        self.iter = entities.locs.next_key_iter();
        self.count = 0;
    }
    pub(crate) fn refresh(&mut self, entities: &Entities) {
        debug_assert_eq!(self.count, 0);
        self.iter = entities.locs.next_key_iter();
    }
    fn pure_loop(&mut self, n: u32) {
        for i in 0..n { self.count += i; }
    }
    fn loop_with_local(&mut self, n: u32) -> u32 {
        let total = 0;
        for i in 0..n { if i < 3 { self.count = i; } }
        total
    }
    fn loop_from_one(&mut self, n: u32) { for i in 1..n { self.count += i; } }
    fn loop_inclusive(&mut self, n: u32) { for i in 0..=n { self.count += i; } }
    fn loop_over_vec(&mut self, v: Vec<u32>) { for x in v { self.count += x; } }
    fn loop_with_return(&mut self, n: u32) -> u32 { for i in 0..n { if i == 2 { return 1; } self.count = i; } 0 }
    fn loop_with_break(&mut self, n: u32) { for i in 0..n { if i == 2 { break; } self.count = i; } }
    fn loop_with_question(&mut self, n: u32, o: Option<u32>) -> Option<u32> { for _ in 0..n { self.count = o?; } None }
    fn loop_no_effect(&self, n: u32) -> u32 { for _ in 0..n { let x = 1; } 0 }
    fn mut_on_shared(&mut self, entities: &Entities, f: impl FnOnce(EntityId) -> EntityLocation) -> EntityId { entities.add_with(f) }
    fn mut_scalar_param(&mut self, x: &mut u32) { self.count = 1; }
    fn closure_wrong_arity(&mut self, entities: &mut Entities) -> Option<Key> { entities.locs.insert_with(|a, b| a) }
    fn panicking_in_nested(&mut self, entities: &mut Entities, f: impl FnOnce(EntityId) -> EntityLocation, c: bool) -> u32 {
        if c { entities.add_with(f); self.count = 0; }
        1
    }
}
"#;

fn en_opts(fns: &[&str]) -> Options {
    let mut all: Vec<String> = vec!["Entities::add_with".into()];
    all.extend(fns.iter().map(|s| s.to_string()));
    let p = |a: &str, b: &str| (a.to_string(), b.to_string());
    Options {
        impl_type: "Reserved".into(),
        fns: all,
        type_map: vec![p("SlotMap", "SlotMap Loc"), p("EntityLocation", "Loc"), p("EntityId", "Key"), p("Key", "Key"), p("NextKeyIter", "NextKeyIter")],
        structs: vec!["Entities".into(), "Reserved".into()],
        prims: vec![
            p("::EntityId(Key) -> EntityId", "_"),
            p("NextKeyIter::next(&mut self, &SlotMap<EntityLocation>) -> Outcome<Option<Key>>", "NextKeyIter.next"),
            p("SlotMap::next_key_iter(&self) -> NextKeyIter<EntityLocation>", "SlotMap.next_key_iter"),
            p("SlotMap::insert_with(&mut self, impl FnOnce(Key) -> EntityLocation) -> Option<Key>", "SlotMap.insert_with"),
        ],
        source_label: "en.rs".into(),
        ..Default::default()
    }
}

fn en_ok(f: &str) -> String {
    let out = translate(EN, &en_opts(&[f])).unwrap_or_else(|e| panic!("{f}: {e}"));
    body_of(&out, &f.replace("::", "."))
}

fn en_rejected(f: &str, needle: &str) {
    match translate(EN, &en_opts(&[f])) {
        Ok(o) => panic!("{f} was translated:\n{o}"),
        Err(e) => assert!(e.0.contains(needle), "{f}: message `{}` does not mention `{needle}`", e.0),
    }
}

#[test]
fn call_that_changes_its_receiver_closure_literal_and_constructor() {
    assert_eq!(
        en_ok("Entities::add_with"),
        "def Entities.add_with (self : Entities) (f : Key → Loc) : Outcome (Entities × Key) :=
  let (r1, q1) := SlotMap.insert_with self.locs (fun k => f k)
  let self := { self with locs := r1 }
  match q1 with
  | some k =>
    .ok (self, k)
  | none =>
    .panic \"too many entities\""
    );
}

#[test]
fn call_that_can_panic_is_an_outcome_bind() {
    assert_eq!(
        en_ok("reserve"),
        "def reserve (self : Reserved) (entities : Entities) : Outcome (Reserved × Key) :=
  match NextKeyIter.next self.iter entities.locs with
  | .panic msg => .panic msg
  | .ok (r1, q1) =>
    let self := { self with iter := r1 }
    (match q1 with
    | some k =>
      let self := { self with count := self.count + 1 }
      .ok (self, k)
    | none =>
      .panic \"too many entities\")"
    );
}

#[test]
fn for_loop_over_a_range_and_mutable_parameter() {
    assert_eq!(
        en_ok("spawn_all"),
        "def spawn_all (self : Reserved) (entities : Entities) (f : Key → Loc) : Outcome (Reserved × Entities) :=
  match forRangeO self.count (self, entities) (fun _ (self, entities) =>
      match Entities.add_with entities f with
      | .panic msg => .panic msg
      | .ok (r1, q1) =>
        let entities := r1
        .ok (self, entities)) with
  | .panic msg => .panic msg
  | .ok (self, entities) =>
    let self := { self with iter := SlotMap.next_key_iter entities.locs }
    let self := { self with count := 0 }
    .ok (self, entities)"
    );
    assert_eq!(
        en_ok("pure_loop"),
        "def pure_loop (self : Reserved) (n : Nat) : Reserved :=
  forRange n self (fun i self =>
      { self with count := self.count + i })"
    );
    assert_eq!(
        en_ok("loop_with_local"),
        "def loop_with_local (self : Reserved) (n : Nat) : Reserved × Nat :=
  let total := 0
  let self :=
    forRange n self (fun i self =>
        if i < 3 then
          { self with count := i }
        else self)
  (self, total)"
    );
    assert_eq!(en_ok("refresh"), "def refresh (self : Reserved) (entities : Entities) : Reserved :=\n  { self with iter := SlotMap.next_key_iter entities.locs }");
    let out = translate(EN, &en_opts(&["reserve", "spawn_all", "refresh"])).unwrap();
    assert!(out.contains("structure Entities where\n  locs : SlotMap Loc\n"), "{out}");
    assert!(out.contains("structure Reserved where\n  iter : NextKeyIter\n  count : Nat\n"), "{out}");
    assert!(out.contains("`entities: &mut Entities` (fn spawn_all): state, threaded through like `self`"), "{out}");
    assert!(out.contains("`NextKeyIter::next(&mut self, &SlotMap<EntityLocation>) -> Outcome<Option<Key>>` is taken as `NextKeyIter.next`"), "{out}");
    assert!(out.contains("`::EntityId(Key) -> EntityId` is taken as `the identity`"), "{out}");
    assert!(out.contains("`debug_assert_eq!(self.count, 0)` (debug builds only)"), "{out}");
}

#[test]
fn loop_and_state_rejections() {
    en_rejected("loop_from_one", "loop range (only `0..n`)");
    en_rejected("loop_inclusive", "loop (only `for x in 0..n`)");
    en_rejected("loop_with_return", "`return` here");
    en_rejected("loop_with_break", "outside the supported subset");
    en_rejected("loop_with_question", "early exit to `None` inside a loop body");
    en_rejected("loop_no_effect", "loop that can have no effect here");
    en_rejected("mut_on_shared", "which changes its receiver, on something that is not `&mut` state");
    en_rejected("mut_scalar_param", "`&mut` parameter (only of a struct type)");
    en_rejected("closure_wrong_arity", "closure (only `|x, …| e` where a closure type is expected)");
    en_rejected("panicking_in_nested", "inside a nested statement block");
    en_rejected("Entities::len", "call of `SlotMap::len`, which is neither translated earlier in this run nor given by --prim");
}

// ------------------------------------------------------------------------------------------------ handler-config shaped code

const HC: &str = r#"
pub struct HC {
    received_event: Recv,
    access: Maybe,
    filter: CAcc,
    filter_set: bool,
    sent: BitSet<GIdx>,
    accesses: Vec<CAcc>,
}
pub(crate) enum Recv { None, Ok(EventId), Invalid }
pub(crate) enum Maybe { Ok(Access), Invalid }
pub(crate) enum Named { A { x: u32 }, B }
impl HC {
    pub fn set_received_event<E: Into<EventId>>(&mut self, event: E) {
        let event = event.into();
        self.received_event = match self.received_event {
            Recv::None => Recv::Ok(event),
            Recv::Ok(old_event) => {
                if old_event == event { Recv::Ok(event) } else { Recv::Invalid }
            }
            Recv::Invalid => Recv::Invalid,
        };
    }
    pub fn set_access(&mut self, access: Access) {
        self.access = match self.access {
            Maybe::Ok(old_access) => access.join(old_access).map_or(Maybe::Invalid, Maybe::Ok),
            Maybe::Invalid => Maybe::Invalid,
        };
    }
    pub fn set_filter(&mut self, ca: CAcc) {
        self.filter = match self.filter_set {
            true => self.filter.and(&ca),
            false => ca,
        };
        self.filter_set = true;
    }
    pub fn insert_sent(&mut self, event: GIdx) -> bool { self.sent.insert(event) }
    pub fn insert_dropped(&mut self, event: GIdx) { self.sent.insert(event); }
    fn let_match(&self) -> bool {
        let b = match self.access { Maybe::Ok(a) => true, Maybe::Invalid => false };
        b
    }
    fn map_or_closure(&self, o: Option<u32>) -> u32 { o.map_or(0, |x| x + 1) }
    fn missing_variant(&mut self) { self.access = match self.access { Maybe::Ok(a) => Maybe::Ok(a) }; }
    fn wrong_arity(&mut self) { self.access = match self.access { Maybe::Ok(a, b) => Maybe::Invalid, Maybe::Invalid => Maybe::Invalid }; }
    fn nested_pattern(&mut self, r: Recv) -> bool { match r { Recv::Ok(EventId(x)) => true, Recv::None => false, Recv::Invalid => false } }
    fn bool_one_arm(&self) -> u32 { match self.filter_set { true => 1 } }
    fn bool_wild(&self) -> u32 { match self.filter_set { true => 1, _ => 0 } }
    fn ctor_as_value(&self) -> bool { let f = Maybe::Ok; true }
    fn map_or_fn(&self, o: Option<u32>) -> u32 { o.map_or(0, helper) }
    fn into_of_local(&self, x: u32) -> u32 { x.into() }
    fn generic_other<E: Clone>(&self, e: E) -> bool { true }
    fn match_named_fields(&self, n: Named) -> bool { match n { Named::A { x } => true, Named::B => false } }
}
"#;

fn hc_opts(fns: &[&str]) -> Options {
    let p = |a: &str, b: &str| (a.to_string(), b.to_string());
    Options {
        impl_type: "HC".into(),
        fns: fns.iter().map(|s| s.to_string()).collect(),
        type_map: vec![p("Recv", "Option (Option Ev)"), p("Maybe", "Option Acc"), p("CAcc", "CA"), p("BitSet", "List Nat"), p("Access", "Acc"), p("EventId", "Ev"), p("GIdx", "Nat"), p("Named", "Named")],
        variant_map: vec![p("Recv::None", "none"), p("Recv::Ok", "some (some $1)"), p("Recv::Invalid", "some none"), p("Maybe::Ok", "some $1"), p("Maybe::Invalid", "none")],
        structs: vec!["HC".into()],
        prims: vec![p("Access::join(self, Access) -> Option<Access>", "Acc.join"), p("CAcc::and(&self, &CAcc) -> CAcc", "CA.and"), p("BitSet::insert(&mut self, _) -> bool", "setInsert")],
        source_label: "hc.rs".into(),
        ..Default::default()
    }
}

fn hc_ok(f: &str) -> String {
    let out = translate(HC, &hc_opts(&[f])).unwrap_or_else(|e| panic!("{f}: {e}"));
    body_of(&out, f)
}

fn hc_rejected(f: &str, needle: &str) {
    match translate(HC, &hc_opts(&[f])) {
        Ok(o) => panic!("{f} was translated:\n{o}"),
        Err(e) => assert!(e.0.contains(needle), "{f}: message `{}` does not mention `{needle}`", e.0),
    }
}

#[test]
fn enum_with_fields_by_variant_templates_and_match_as_assigned_value() {
    assert_eq!(
        hc_ok("set_received_event"),
        "def set_received_event (self : HC) (event : Ev) : HC :=
  let event := event
  let v1 :=
    match self.received_event with
    | none =>
      some (some event)
    | some (some old_event) =>
      if old_event = event then
        some (some event)
      else
        some none
    | some none =>
      some none
  { self with received_event := v1 }"
    );
    let out = translate(HC, &hc_opts(&["set_received_event"])).unwrap();
    assert!(out.contains("the type parameter `E: Into<EventId>` of fn set_received_event is `Ev` (`.into()` is the identity"), "{out}");
    assert!(out.contains("`Recv::Ok` is `some (some $1)`"), "{out}");
    assert!(out.contains("structure HC where\n  received_event : Option (Option Ev)\n  access : Option Acc\n  filter : CA\n  filter_set : Bool\n  sent : List Nat\n  accesses : List CA\n"), "{out}");
}

#[test]
fn map_or_with_a_constructor_and_match_on_a_bool() {
    assert_eq!(
        hc_ok("set_access"),
        "def set_access (self : HC) (access : Acc) : HC :=
  let v1 :=
    match self.access with
    | some old_access =>
      Option.elim (Acc.join access old_access) none (fun x1 => some x1)
    | none =>
      none
  { self with access := v1 }"
    );
    assert_eq!(
        hc_ok("set_filter"),
        "def set_filter (self : HC) (ca : CA) : HC :=
  let v1 :=
    match self.filter_set with
    | true =>
      CA.and self.filter ca
    | false =>
      ca
  let self := { self with filter := v1 }
  { self with filter_set := true }"
    );
    assert_eq!(hc_ok("map_or_closure"), "def map_or_closure (self : HC) (o : Option Nat) : Nat :=\n  Option.elim o 0 (fun x => x + 1)");
    assert_eq!(
        hc_ok("let_match"),
        "def let_match (self : HC) : Bool :=
  let b :=
    match self.access with
    | some a =>
      true
    | none =>
      false
  b"
    );
}

#[test]
fn receiver_changing_prim_on_a_field() {
    assert_eq!(
        hc_ok("insert_sent"),
        "def insert_sent (self : HC) (event : Nat) : HC × Bool :=
  let (r1, q1) := setInsert self.sent event
  let self := { self with sent := r1 }
  (self, q1)"
    );
    assert_eq!(
        hc_ok("insert_dropped"),
        "def insert_dropped (self : HC) (event : Nat) : HC :=
  let (r1, q1) := setInsert self.sent event
  let self := { self with sent := r1 }
  self"
    );
}

#[test]
fn handler_config_rejections() {
    hc_rejected("missing_variant", "`match` without an arm for `Maybe::Invalid`");
    hc_rejected("wrong_arity", "`Maybe::Ok` has 1 field(s)");
    hc_rejected("nested_pattern", "the fields of a variant can only be bound to names");
    hc_rejected("bool_one_arm", "without both `true` and `false` arms");
    hc_rejected("bool_wild", "match pattern (only `true` and `false`)");
    hc_rejected("ctor_as_value", "enum constructor as a function value");
    hc_rejected("map_or_fn", "second argument of `map_or`");
    hc_rejected("into_of_local", "outside the supported subset: method call used as a value");
    hc_rejected("generic_other", "generic function");
    hc_rejected("match_named_fields", "named fields");
}

// ------------------------------------------------------------------------------------------------ access-shaped code

const AC: &str = r#"
pub enum Access { None, Read, ReadWrite }
pub struct CAcc { cases: Vec<Case> }
type Case = Vec<(Idx, Lit)>;
enum Lit { With, Not, Conflict }
impl Access {
    pub const fn join(self, other: Self) -> Option<Access> {
        match (self, other) {
            (Access::None, Access::None) => Some(Access::None),
            (Access::Read | Access::ReadWrite, Access::None) => Some(self),
            (Access::None, Access::Read | Access::ReadWrite) => Some(other),
            (Access::Read, Access::Read) => Some(Access::Read),
            (Access::Read | Access::ReadWrite, Access::ReadWrite) | (Access::ReadWrite, Access::Read) => None,
        }
    }
    pub const fn is_compatible(self, other: Self) -> bool { self.join(other).is_some() }
    fn partial(self, other: Self) -> bool { match (self, other) { (Access::None, Access::None) => true, (Access::Read, Access::None | Access::Read) => false } }
    fn twice(self, other: Self) -> bool { match (self, other) { (Access::None | Access::Read | Access::ReadWrite, Access::None | Access::Read | Access::ReadWrite) => true, (Access::None, Access::None) => false } }
    fn wild(self, other: Self) -> bool { match (self, other) { (Access::None, _) => true, (Access::Read | Access::ReadWrite, Access::None | Access::Read | Access::ReadWrite) => false } }
}
impl CAcc {
    pub fn new_true() -> Self { Self { cases: vec![vec![]] } }
    pub fn var(idx: Idx, access: Access) -> Self {
        Self { cases: vec![vec![(idx, match access { Access::None => Lit::With, Access::Read => Lit::With, Access::ReadWrite => Lit::Conflict })]] }
    }
    pub fn or(&self, rhs: &Self) -> Self {
        Self { cases: self.cases.iter().chain(rhs.cases.iter()).cloned().collect() }
    }
    pub(crate) fn matches<F>(&self, mut f: F) -> bool where F: FnMut(Idx) -> bool {
        self.cases.iter().any(|case| {
            case.iter().all(|&(idx, access)| match access { Lit::With => f(idx), Lit::Not => !f(idx), Lit::Conflict => f(idx) })
        })
    }
    pub fn clear(&mut self) {
        for case in &mut self.cases {
            for (_, access) in case {
                *access = match *access { Lit::With => Lit::With, Lit::Not => Lit::Not, Lit::Conflict => Lit::With }
            }
        }
    }
    pub(crate) fn conflicts(&self) -> IndexSet<Idx> {
        let mut res = IndexSet::new();
        for case in &self.cases {
            for &(idx, access) in case {
                if access == Lit::Conflict { res.insert(idx); }
            }
        }
        res
    }
    fn count(&self) -> u32 {
        let mut n = 0u32;
        for case in &self.cases { n += 1; }
        n
    }
    fn map_changes_self(&mut self, other: &mut CAcc) { for case in &mut self.cases { other.cases.push(vec![]); } }
    fn vec_repeat(&self) -> Vec<u32> { vec![0; 3] }
    fn fold_with_break(&self) -> u32 { let mut n = 0u32; for case in &self.cases { if n == 3 { break; } n += 1; } n }
    fn unknown_adaptor(&self) -> usize { self.cases.iter().rev().count() }
}
"#;

fn ac_opts(fns: &[&str]) -> Options {
    let p = |a: &str, b: &str| (a.to_string(), b.to_string());
    Options {
        impl_type: "CAcc".into(),
        fns: fns.iter().map(|s| s.to_string()).collect(),
        type_map: vec![p("CAcc", "CA"), p("Access", "Access"), p("Lit", "Lit"), p("Idx", "Nat"), p("IndexSet", "List Nat")],
        transparent: vec!["CAcc".into()],
        prims: vec![p("IndexSet::new() -> IndexSet", "([] : List Nat)"), p("IndexSet::insert(&mut self, _) -> bool", "indexSetInsert")],
        source_label: "ac.rs".into(),
        ..Default::default()
    }
}

fn ac_ok(f: &str) -> String {
    let out = translate(AC, &ac_opts(&[f])).unwrap_or_else(|e| panic!("{f}: {e}"));
    body_of(&out, &f.replace("::", "."))
}

fn ac_rejected(f: &str, needle: &str) {
    match translate(AC, &ac_opts(&[f])) {
        Ok(o) => panic!("{f} was translated:\n{o}"),
        Err(e) => assert!(e.0.contains(needle), "{f}: message `{}` does not mention `{needle}`", e.0),
    }
}

#[test]
fn match_on_a_tuple_of_enums_multiplies_alternatives_out() {
    assert_eq!(
        ac_ok("Access::join"),
        "def Access.join (self : Access) (other : Access) : Option Access :=
  match self, other with
  | .«none», .«none» =>
    some .«none»
  | .read, .«none» | .readWrite, .«none» =>
    some self
  | .«none», .read | .«none», .readWrite =>
    some other
  | .read, .read =>
    some .read
  | .read, .readWrite | .readWrite, .readWrite | .readWrite, .read =>
    none"
    );
    let out = translate(AC, &ac_opts(&["Access::join", "Access::is_compatible"])).unwrap();
    assert_eq!(body_of(&out, "Access.is_compatible"), "def Access.is_compatible (self : Access) (other : Access) : Bool :=\n  Option.isSome (Access.join self other)");
    ac_rejected("Access::partial", "covers 3 of 9 combinations");
    ac_rejected("Access::twice", "is matched twice");
    ac_rejected("Access::wild", "no `_`");
}

#[test]
fn transparent_struct_vec_macro_match_operand_and_iterator_chain() {
    assert_eq!(ac_ok("new_true"), "def new_true : CA :=\n  [[]]");
    assert_eq!(
        ac_ok("var"),
        "def var (idx : Nat) (access : Access) : CA :=\n  [[(idx, (match access with | .«none» => .«with» | .read => .«with» | .readWrite => .conflict))]]"
    );
    assert_eq!(ac_ok("or"), "def or (self : CA) (rhs : CA) : CA :=\n  self ++ rhs");
    assert_eq!(
        ac_ok("matches"),
        "def matches (self : CA) (f : Nat → Bool) : Bool :=\n  List.any self (fun case => List.all case (fun (idx, access) => (match access with | .«with» => f idx | .not => !(f idx) | .conflict => f idx)))"
    );
    let out = translate(AC, &ac_opts(&["or"])).unwrap();
    assert!(out.contains("the struct `CAcc` is its only field `cases`"), "{out}");
}

#[test]
fn for_over_mutable_elements_is_a_map_and_over_shared_elements_a_fold() {
    assert_eq!(
        ac_ok("clear"),
        "def clear (self : CA) : CA :=
  let m2 :=
    List.map (fun case =>
        let m1 :=
          List.map (fun (x1, access) =>
              let v1 :=
                match access with
                | .«with» =>
                  .«with»
                | .not =>
                  .not
                | .conflict =>
                  .«with»
              let access := v1
              (x1, access)) case
        m1) self
  m2"
    );
    assert_eq!(
        ac_ok("conflicts"),
        "def conflicts (self : CA) : List Nat :=
  let res := ([] : List Nat)
  let res :=
    forEach self res (fun case res =>
        forEach case res (fun (idx, access) res =>
            if access = .conflict then
              let (r1, q1) := indexSetInsert res idx
              let res := r1
              res
            else res))
  res"
    );
    assert_eq!(
        ac_ok("count"),
        "def count (self : CA) : Nat :=
  let n := 0
  let n :=
    forEach self n (fun case n =>
        n + 1)
  n"
    );
}

#[test]
fn access_rejections() {
    ac_rejected("map_changes_self", "method call as a statement");
    ac_rejected("vec_repeat", "`vec!` (only `vec![a, b, …]`)");
    ac_rejected("fold_with_break", "outside the supported subset");
    ac_rejected("unknown_adaptor", "method call used as a value");
}

// ------------------------------------------------------------------------------------------------ bit-set shaped code

const BS: &str = r#"
pub(crate) struct BS<T = usize> { blocks: Vec<Block>, _marker: PhantomData<T> }
type Block = usize;
const BITS: usize = Block::BITS as usize;
impl<T> BS<T> {
    pub(crate) const fn new() -> Self { Self { blocks: vec![], _marker: PhantomData } }
    pub(crate) fn clear(&mut self) { self.blocks.clear(); }
    fn grow_to_block(&mut self, block_idx: usize) -> &mut Block {
        if block_idx >= self.blocks.len() {
            self.blocks.resize(block_idx + 1, 0);
        }
        unsafe { self.blocks.get_unchecked_mut(block_idx) }
    }
    pub(crate) fn is_disjoint(&self, other: &Self) -> bool {
        self.blocks.iter().zip(other.blocks.iter()).all(|(a, b)| a & b == 0)
    }
    pub(crate) fn len(&self) -> usize { self.blocks.iter().map(|block| block.count_ones() as usize).sum() }
    fn bad_borrow(&mut self, i: usize) -> &mut Block { let x = 0; self.blocks.get_mut(i).unwrap() }
    fn int_and(&self, a: u32, b: u32) -> u32 { a & b }
    fn int_shift(&self, a: u32) -> u32 { a << 1 }
    fn bits_less(&self, a: Block, b: Block) -> bool { a < b }
}
impl<T: SparseIndex> BS<T> {
    pub(crate) fn insert(&mut self, value: T) -> bool {
        let idx = value.index();
        let (block, bit) = div_rem(idx, BITS);
        let block = self.grow_to_block(block);
        let newly_inserted = *block & (1 << bit) == 0;
        *block |= 1 << bit;
        newly_inserted
    }
    pub(crate) fn remove(&mut self, value: T) -> bool {
        let idx = value.index();
        let (block, bit) = div_rem(idx, BITS);
        if let Some(block) = self.blocks.get_mut(block) {
            let removed = *block & (1 << bit) != 0;
            *block &= !(1 << bit);
            removed
        } else {
            false
        }
    }
    pub(crate) fn contains(&self, value: T) -> bool {
        let idx = value.index();
        let (block, bit) = div_rem(idx, BITS);
        self.blocks.get(block).map_or(false, |&block| (block >> bit) & 1 == 1)
    }
}
impl<T> BitOrAssign<&Self> for BS<T> {
    fn bitor_assign(&mut self, rhs: &Self) {
        if self.blocks.len() < rhs.blocks.len() {
            self.blocks.resize(rhs.blocks.len(), 0);
        }
        for (a, b) in self.blocks.iter_mut().zip(rhs.blocks.iter()) {
            *a |= *b;
        }
    }
}
impl<'a, T: SparseIndex> IntoIterator for &'a BS<T> {
    type Item = T;
    type IntoIter = Iter<'a, T>;
    fn into_iter(self) -> Self::IntoIter { self.iter() }
}
fn div_rem(a: usize, b: usize) -> (usize, usize) { (a / b, a % b) }
"#;

fn bs_opts(fns: &[&str]) -> Options {
    let mut all: Vec<String> = vec!["::div_rem".into(), "grow_to_block".into()];
    all.extend(fns.iter().filter(|f| **f != "grow_to_block" && **f != "::div_rem").map(|s| s.to_string()));
    let p = |a: &str, b: &str| (a.to_string(), b.to_string());
    Options {
        impl_type: "BS".into(),
        fns: all,
        type_map: vec![p("BS", "BS"), p("T", "Nat")],
        bits: vec![("Block".into(), 64)],
        prims: vec![p("T::index(self) -> usize", "_"), p("::BITS: usize", "64")],
        source_label: "bs.rs".into(),
        ..Default::default()
    }
}

fn bs_ok(f: &str) -> String {
    let out = translate(BS, &bs_opts(&[f])).unwrap_or_else(|e| panic!("{f}: {e}"));
    body_of(&out, f.trim_start_matches("::"))
}

fn bs_rejected(f: &str, needle: &str) {
    match translate(BS, &bs_opts(&[f])) {
        Ok(o) => panic!("{f} was translated:\n{o}"),
        Err(e) => assert!(e.0.contains(needle), "{f}: message `{}` does not mention `{needle}`", e.0),
    }
}

#[test]
fn free_function_tuple_let_and_returned_borrow() {
    assert_eq!(bs_ok("::div_rem"), "def div_rem (a : Nat) (b : Nat) : Nat × Nat :=\n  (a / b, a % b)");
    assert_eq!(
        bs_ok("grow_to_block"),
        "def grow_to_block (self : BS) (block_idx : Nat) : BS × Nat :=
  let self :=
    if block_idx ≥ (vecLen self.blocks) then
      { self with blocks := vecResize self.blocks (block_idx + 1) 0 }
    else self
  (self, block_idx)"
    );
    assert_eq!(
        bs_ok("insert"),
        "def insert (self : BS) (value : Nat) : BS × Bool :=
  let idx := value
  let (block, bit) := div_rem idx 64
  let (r1, q1) := grow_to_block self block
  let self := r1
  let block := optUnwrap (vecGet self.blocks q1)
  let newly_inserted := decide ((block &&& (1#64 <<< bit)) = 0#64)
  let block := block ||| (1#64 <<< bit)
  let self := { self with blocks := vecSet self.blocks q1 block }
  (self, newly_inserted)"
    );
    let out = translate(BS, &bs_opts(&["insert"])).unwrap();
    assert!(out.contains("fn grow_to_block returns `&mut Block`, a mutable borrow of an element of a Vec of `self`"), "{out}");
    assert!(out.contains("`a / b` (division by zero panics in Rust; here it is 0)"), "{out}");
    assert!(out.contains("`a % b` (remainder by zero panics in Rust; here it is the dividend)"), "{out}");
    assert!(out.contains("free functions: div_rem; `impl BS`: grow_to_block, insert"), "{out}");
}

#[test]
fn blocks_of_bits_and_their_operations() {
    assert_eq!(
        bs_ok("remove"),
        "def remove (self : BS) (value : Nat) : BS × Bool :=
  let idx := value
  let (block, bit) := div_rem idx 64
  let at1 := block
  match vecGet self.blocks at1 with
  | some block =>
    let removed := decide ((block &&& (1#64 <<< bit)) ≠ 0#64)
    let block := block &&& (~~~(1#64 <<< bit))
    let self := { self with blocks := vecSet self.blocks at1 block }
    (self, removed)
  | none =>
    (self, false)"
    );
    assert_eq!(
        bs_ok("contains"),
        "def contains (self : BS) (value : Nat) : Bool :=
  let idx := value
  let (block, bit) := div_rem idx 64
  Option.elim (vecGet self.blocks block) false (fun block => decide (((block >>> bit) &&& 1#64) = 1#64))"
    );
    assert_eq!(bs_ok("is_disjoint"), "def is_disjoint (self : BS) (other : BS) : Bool :=\n  List.all (List.zip self.blocks other.blocks) (fun (a, b) => decide ((a &&& b) = 0#64))");
    assert_eq!(bs_ok("len"), "def len (self : BS) : Nat :=\n  List.sum (List.map (fun block => (BitVec.cpop block).toNat) self.blocks)");
    assert_eq!(bs_ok("new"), "def new : BS :=\n  ({ blocks := [] } : BS)");
    assert_eq!(bs_ok("clear"), "def clear (self : BS) : BS :=\n  { self with blocks := [] }");
}

#[test]
fn method_of_a_trait_impl_and_zip_of_mutable_elements() {
    assert_eq!(
        bs_ok("bitor_assign"),
        "def bitor_assign (self : BS) (rhs : BS) : BS :=
  let self :=
    if (vecLen self.blocks) < (vecLen rhs.blocks) then
      { self with blocks := vecResize self.blocks (vecLen rhs.blocks) 0 }
    else self
  let m1 :=
    vecZipMut (fun a b =>
        a ||| b) self.blocks rhs.blocks
  { self with blocks := m1 }"
    );
}

#[test]
fn bit_set_rejections() {
    bs_rejected("bad_borrow", "returned mutable borrow (only `self.v.get_unchecked_mut(i)`)");
    bs_rejected("int_and", "bitwise operation on something that is not a block of bits");
    bs_rejected("int_shift", "shift of something that is not a block of bits");
    bs_rejected("bits_less", "comparison");
    bs_rejected("into_iter", "function `BS::into_iter` not found");
}

// ------------------------------------------------------------------------------------------------ archetype-shaped code

const AR: &str = r#"
pub struct Arch { refresh_listeners: BTreeSet<Ptr>, event_listeners: SparseMap<Idx, HList>, count: u32 }
pub struct Archs { archetypes: Slab<Arch>, other: u32 }
impl Arch {
    fn register(&mut self, info: &mut Info) {
        if info.filter().matches(|idx| self.column_of(idx).is_some()) {
            if self.count > 0 {
                info.handler_mut().refresh(self);
            }
            self.refresh_listeners.insert(info.ptr());
        }
        if let (Some(expr), EventId::Targeted(event_id)) = (info.targeted(), info.received()) {
            if expr.matches(|idx| self.column_of(idx).is_some()) {
                if let Some(list) = self.event_listeners.get_mut(event_id.index()) {
                    list.insert(info.ptr());
                } else {
                    let mut list = HList::new();
                    list.insert(info.ptr());
                    self.event_listeners.insert(event_id.index(), list);
                }
            }
        }
    }
    fn irrefutable_names(&self, info: &Info) -> u32 { if let (a, EventId::Global(b)) = (self.count, info.received()) { a } else { 0 } }
    fn unknown_enum(&self, x: Other) -> u32 { if let Other::A(y) = x { y } else { 0 } }
    fn map_without_decl(&mut self, k: usize) -> Option<u32> { let v = self.refresh_listeners.get_mut(k)?; Some(1) }
    fn mut_arg_not_state(&mut self, info: Info) { self.register(&mut info); }
}
impl Archs {
    fn register(&mut self, info: &mut Info) {
        for (_, arch) in &mut self.archetypes {
            arch.register(info);
        }
    }
    fn remove(&mut self, info: &Info) {
        for (_, arch) in &mut self.archetypes {
            arch.refresh_listeners.remove(&info.ptr());
            if let EventId::Targeted(id) = info.received() {
                if let Some(list) = arch.event_listeners.get_mut(id.index()) {
                    list.remove(info.ptr());
                }
            }
        }
    }
    fn touches_self(&mut self) { for (_, arch) in &mut self.archetypes { self.other = 1; } }
    fn bad_pattern(&mut self) { for arch in &mut self.archetypes { arch.count = 1; } }
}
"#;

fn ar_opts(fns: &[&str]) -> Options {
    let mut all: Vec<String> = vec!["register".into()];
    all.extend(fns.iter().filter(|f| **f != "register").map(|s| s.to_string()));
    let p = |a: &str, b: &str| (a.to_string(), b.to_string());
    Options {
        impl_type: "Arch".into(),
        fns: all,
        type_map: vec![p("Arch", "Arch"), p("Info", "Info"), p("CAcc", "CA"), p("Ptr", "Key"), p("Idx", "Nat"), p("EventId", "Bool × Nat"), p("BTreeSet", "List Key"), p("HList", "HList"), p("SparseMap", "SMap"), p("Slab", "Slab Arch"), p("Other", "Other")],
        structs: vec!["Archs".into()],
        maps: vec![("SparseMap".into(), "smGet".into(), "smSet".into()), ("Slab".into(), "slabGet".into(), "slabSet".into())],
        iter_muts: vec![("Slab".into(), "slabMap".into(), "slabMapState".into())],
        enums: vec![p("EventId", "Global(Idx)|Targeted(Idx)")],
        variant_map: vec![p("EventId::Global", "(false, $1)"), p("EventId::Targeted", "(true, $1)")],
        prims: vec![
            p("Info::filter(&self) -> &CAcc", "Info.filter"), p("Info::targeted(&self) -> Option<&CAcc>", "Info.targeted"), p("Info::received(&self) -> EventId", "Info.received"),
            p("Info::ptr(&self) -> Ptr", "Info.key"), p("Info::handler_mut(&mut self) -> Info", "_"), p("Info::refresh(&mut self, &Arch)", "Info.refresh"),
            p("CAcc::matches(&self, impl FnMut(Idx) -> bool) -> bool", "CA.matches"), p("Arch::column_of(&self, Idx) -> Option<usize>", "Arch.colIdx"),
            p("Idx::index(self) -> usize", "_"), p("BTreeSet::insert(&mut self, _) -> bool", "setInsert"), p("BTreeSet::remove(&mut self, _) -> bool", "setRemove"),
            p("HList::new() -> HList", "HList.empty"), p("HList::insert(&mut self, Ptr)", "HList.insert"), p("HList::remove(&mut self, Ptr) -> bool", "HList.remove"),
            p("SparseMap::insert(&mut self, _, _) -> Option<HList>", "smInsert"),
        ],
        source_label: "ar.rs".into(),
        ..Default::default()
    }
}

fn ar_ok(f: &str) -> String {
    let out = translate(AR, &ar_opts(&[f])).unwrap_or_else(|e| panic!("{f}: {e}"));
    body_of(&out, &f.replace("::", "."))
}

fn ar_rejected(f: &str, needle: &str) {
    match translate(AR, &ar_opts(&[f])) {
        Ok(o) => panic!("{f} was translated:\n{o}"),
        Err(e) => assert!(e.0.contains(needle), "{f}: message `{}` does not mention `{needle}`", e.0),
    }
}

#[test]
fn tuple_if_let_foreign_enum_map_borrow_and_identity_accessor() {
    assert_eq!(
        ar_ok("register"),
        "def register (self : Arch) (info : Info) : Arch × Info :=
  let (self, info) :=
    if (CA.matches (Info.filter info) (fun idx => Option.isSome (Arch.colIdx self idx))) = true then
      let (self, info) :=
        if self.count > 0 then
          let r1 := Info.refresh info self
          let info := r1
          (self, info)
        else (self, info)
      let (r2, q1) := setInsert self.refresh_listeners (Info.key info)
      let self := { self with refresh_listeners := r2 }
      (self, info)
    else (self, info)
  match Info.targeted info, Info.received info with
  | some expr, (true, event_id) =>
    if (CA.matches expr (fun idx => Option.isSome (Arch.colIdx self idx))) = true then
      let at1 := event_id
      (match smGet self.event_listeners at1 with
      | some list =>
        let r3 := HList.insert list (Info.key info)
        let list := r3
        let self := { self with event_listeners := smSet self.event_listeners at1 list }
        (self, info)
      | none =>
        let list := HList.empty
        let r4 := HList.insert list (Info.key info)
        let list := r4
        let (r5, q2) := smInsert self.event_listeners event_id list
        let self := { self with event_listeners := r5 }
        (self, info))
    else (self, info)
  | _, _ =>
    (self, info)"
    );
    let out = translate(AR, &ar_opts(&["register"])).unwrap();
    assert!(out.contains("`Info::handler_mut(&mut self) -> Info` is taken as the identity (the part borrowed is modelled as the whole value)"), "{out}");
}

#[test]
fn loop_over_a_declared_container_with_and_without_state() {
    assert_eq!(
        ar_ok("Archs::register"),
        "def Archs.register (self : Archs) (info : Info) : Archs × Info :=
  let (m1, info) :=
    slabMapState self.archetypes info (fun _ arch info =>
        let (r1, p1) := Evenio.Gen.Arch.register arch info
        let arch := r1
        let info := p1
        (arch, info))
  let self := { self with archetypes := m1 }
  (self, info)"
    );
    assert_eq!(
        ar_ok("Archs::remove"),
        "def Archs.remove (self : Archs) (info : Info) : Archs :=
  let m1 :=
    slabMap self.archetypes (fun _ arch =>
        let (r1, q1) := setRemove arch.refresh_listeners (Info.key info)
        let arch := { arch with refresh_listeners := r1 }
        match Info.received info with
        | (true, id) =>
          let at1 := id
          (match smGet arch.event_listeners at1 with
          | some list =>
            let (r2, q2) := HList.remove list (Info.key info)
            let list := r2
            let arch := { arch with event_listeners := smSet arch.event_listeners at1 list }
            arch
          | none =>
            arch)
        | _ =>
          arch)
  { self with archetypes := m1 }"
    );
}

#[test]
fn archetype_rejections() {
    ar_rejected("unknown_enum", "not an enum of this file or given by --enum");
    ar_rejected("map_without_decl", "call of `BTreeSet::get_mut`, which is neither translated earlier in this run nor given by --prim");
    ar_rejected("mut_arg_not_state", "argument passed on as `&mut` state");
    ar_rejected("Archs::touches_self", "does not take `&mut self`");
    ar_rejected("Archs::bad_pattern", "loop pattern (only `(k, v)` over this container)");
}

// ------------------------------------------------------------------------------------------------ handlers-shaped code

const HD: &str = r#"
pub struct HD { infos: SlotMap<Info>, by_global: Vec<HList>, order: BTreeMap<u64, Ptr> }
impl HD {
    pub(crate) fn remove(&mut self, id: HId) -> Option<Info> {
        let info = self.infos.remove(id.0)?;
        if let EventId::Global(event_id) = info.received() {
            let list = &mut self.by_global[event_id.index().0 as usize];
            list.remove(info.ptr());
        }
        self.order.remove(&info.order());
        debug_assert_eq!(self.infos.len(), self.order.len() as u32);
        Some(info)
    }
    pub(crate) fn register_event(&mut self, event_idx: GIdx) {
        let idx = event_idx.0 as usize;
        if idx >= self.by_global.len() {
            self.by_global.resize_with(idx + 1, HList::default);
        }
    }
    pub fn get_by_index(&self, idx: HIdx) -> Option<&Info> { self.infos.get_by_index(idx.0).map(|(_, v)| v) }
    fn effect_in_debug_assert(&mut self, id: HId) -> Option<Info> {
        let info = self.infos.remove(id.0)?;
        debug_assert!(self.order.remove(&info.order()).is_some());
        Some(info)
    }
    fn bind_after_other_effect(&mut self, id: HId, o: Option<u32>) -> Option<u32> {
        let x = self.order.remove(&3).is_some() && o?.index() == 0;
        None
    }
    fn dot_zero_unknown(&self, p: Ptr) -> u32 { p.0 }
    fn resize_with_closure(&mut self) { self.by_global.resize_with(3, || HList::new()); }
}
"#;

fn hd_opts(fns: &[&str]) -> Options {
    let p = |a: &str, b: &str| (a.to_string(), b.to_string());
    Options {
        impl_type: "HD".into(),
        fns: fns.iter().map(|s| s.to_string()).collect(),
        type_map: vec![p("HD", "HD"), p("SlotMap", "SlotMap Info"), p("Info", "Info"), p("HList", "HList"), p("BTreeMap", "List (Nat × Key)"), p("Ptr", "Key"), p("HId", "Key"), p("HIdx", "Nat"), p("GIdx", "Nat"), p("GId", "Nat"), p("EventId", "Bool × Nat"), p("Key", "Key")],
        structs: vec!["HD".into()],
        enums: vec![p("EventId", "Global(GId)|Targeted(GId)")],
        variant_map: vec![p("EventId::Global", "(false, $1)"), p("EventId::Targeted", "(true, $1)")],
        prims: vec![
            p("::HId(Key) -> HId", "_"), p("::HIdx(u32) -> HIdx", "_"), p("::GIdx(u32) -> GIdx", "_"), p("GId::index(self) -> GIdx", "_"),
            p("SlotMap::remove(&mut self, Key) -> Option<Info>", "SlotMap.remove'"), p("SlotMap::get_by_index(&self, u32) -> Option<(Key, &Info)>", "SlotMap.getByIndex"),
            p("Info::received(&self) -> EventId", "Info.received"), p("Info::ptr(&self) -> Ptr", "Info.key"), p("Info::order(&self) -> u64", "Info.order"),
            p("HList::remove(&mut self, Ptr) -> bool", "HList.remove"), p("BTreeMap::remove(&mut self, &u64) -> Option<Ptr>", "assocRemove"),
        ],
        source_label: "hd.rs".into(),
        ..Default::default()
    }
}

#[test]
fn question_mark_on_the_result_of_an_effect_index_borrow_and_newtype_projection() {
    let out = translate(HD, &hd_opts(&["remove", "register_event", "get_by_index"])).unwrap_or_else(|e| panic!("{e}"));
    assert_eq!(
        body_of(&out, "remove"),
        "def remove (self : HD) (id : Key) : HD × (Option Info) :=
  let (r1, q1) := SlotMap.remove' self.infos id
  let self := { self with infos := r1 }
  match q1 with
  | none => (self, none)
  | some info =>
    let self :=
      (match Info.received info with
      | (false, event_id) =>
        let at1 := event_id
        let list := optUnwrap (vecGet self.by_global at1)
        let (r2, q3) := HList.remove list (Info.key info)
        let list := r2
        let self := { self with by_global := vecSet self.by_global at1 list }
        self
      | _ =>
        self)
    let (r3, q4) := assocRemove self.order (Info.order info)
    let self := { self with order := r3 }
    (self, some info)"
    );
    assert_eq!(
        body_of(&out, "register_event"),
        "def register_event (self : HD) (event_idx : Nat) : HD :=
  let idx := event_idx
  if idx ≥ (vecLen self.by_global) then
    { self with by_global := vecResize self.by_global (idx + 1) default }
  else self"
    );
    assert_eq!(body_of(&out, "get_by_index"), "def get_by_index (self : HD) (idx : Nat) : Option Info :=\n  Option.map (fun (_, v) => v) (SlotMap.getByIndex self.infos idx)");
    assert!(out.contains("`::HId(Key) -> HId` is taken as the identity (so is `.0`)"), "{out}");
    assert!(out.contains("`&mut self.by_global[event_id.index().0 as usize]` panics in Rust when the index is ≥ len"), "{out}");
    assert!(out.contains("`debug_assert_eq!(self.infos.len(), self.order.len() as u32)` (debug builds only)"), "{out}");
}

#[test]
fn handlers_rejections() {
    let rej = |f: &str, needle: &str| match translate(HD, &hd_opts(&[f])) {
        Ok(o) => panic!("{f} was translated:\n{o}"),
        Err(e) => assert!(e.0.contains(needle), "{f}: message `{}` does not mention `{needle}`", e.0),
    };
    rej("effect_in_debug_assert", "side effect inside an assertion (call of `remove`)");
    rej("bind_after_other_effect", "inside a conditionally evaluated operand");
    rej("dot_zero_unknown", "field `.0` (only of a tuple struct whose constructor is given by --prim as the identity)");
    rej("resize_with_closure", "Vec method as a statement");
}
