// (included by lib.rs) — the entry point: items of the file, the functions asked for, the output file

/// a Lean `structure` for a struct of the file (`--struct`)
fn emit_struct(tr: &mut Tr, name: &str) -> Res<Vec<String>> {
    let (fields, line) = match tr.defs.get(name) {
        Some(d) if d.kind == DefKind::Struct => (d.fields.clone(), d.line),
        _ => return Err(Error(format!("{}: --struct {name}: no struct with named fields of this name in the file", tr.label))),
    };
    tr.fn_name = format!("(struct {name})");
    tr.cur_type = name.to_string();
    let mut lines = vec![format!("/-- `struct {name}` ({} line {line}) -/", tr.label), format!("structure {} where", lean_ident(name))];
    let mut n = 0;
    for (f, t) in &fields {
        if let Some(u) = tr.union_of(t) {
            let members = tr.defs[&u].fields.clone();
            for (m, mt) in members {
                let mt = tr.ty(&mt)?;
                let lf = tr.lean_field(&format!("{name}.{f}.{m}"), format!("{f}_{m}"));
                lines.push(format!("  {} : {}", lean_ident(&lf), mt.lean()));
                n += 1;
            }
            continue;
        }
        let ft = tr.ty(t)?;
        if ft == Ty::Phantom {
            note!(tr, dropped, format!("`{name}.{f}` (`PhantomData`) is dropped"));
            continue;
        }
        if let Ty::Named { tyvar: true, .. } = ft {
            return Err(Error(format!("{}:{line}: --struct {name}: outside the supported subset: field `{f}` has a generic type (give the struct a Lean type with --type instead)", tr.label)));
        }
        let lf = tr.lean_field(&format!("{name}.{f}"), f.clone());
        lines.push(format!("  {} : {}", lean_ident(&lf), ft.lean()));
        n += 1;
    }
    if n == 0 {
        return Err(Error(format!("{}:{line}: --struct {name}: no field left", tr.label)));
    }
    Ok(lines)
}

/// Translate the functions `opts.fns` (`name` in `impl <opts.impl_type>`, or `Type::name`) of `src`.
pub fn translate(src: &str, opts: &Options) -> Res<String> {
    let label = if opts.source_label.is_empty() { "<input>".to_string() } else { opts.source_label.clone() };
    let file: syn::File = syn::parse_file(src).map_err(|e| Error(format!("{}:{}: parse error: {}", label, e.span().start().line, e)))?;
    // the structs and unions of the file
    let mut defs: BTreeMap<String, StructDef> = BTreeMap::new();
    let mut tuple_structs: Vec<(String, usize)> = vec![];
    for it in &file.items {
        match it {
            Item::Struct(s) => match &s.fields {
                syn::Fields::Named(n) => {
                    defs.insert(s.ident.to_string(), StructDef { kind: DefKind::Struct, fields: n.named.iter().map(|f| (f.ident.as_ref().unwrap().to_string(), f.ty.clone())).collect(), line: line_of(s.span()) });
                }
                _ => tuple_structs.push((s.ident.to_string(), line_of(s.span()))),
            },
            Item::Union(u) => {
                defs.insert(u.ident.to_string(), StructDef { kind: DefKind::Union, fields: u.fields.named.iter().map(|f| (f.ident.as_ref().unwrap().to_string(), f.ty.clone())).collect(), line: line_of(u.span()) });
            }
            _ => {}
        }
    }
    if opts.fns.is_empty() {
        return Err(Error("no function names given".to_string()));
    }
    // (type, fn) in the order given
    let specs: Vec<(String, String)> = opts
        .fns
        .iter()
        .map(|f| match f.split_once("::") {
            Some((t, n)) => (t.to_string(), n.to_string()),
            None => (opts.impl_type.clone(), f.clone()),
        })
        .collect();
    let mut types: Vec<String> = vec![];
    for (t, _) in &specs {
        if !types.contains(t) {
            types.push(t.clone());
        }
    }
    if !types.contains(&opts.impl_type) {
        types.insert(0, opts.impl_type.clone());
    }
    let is_enum = |t: &str| file.items.iter().any(|it| matches!(it, Item::Enum(e) if e.ident == t));
    for t in &types {
        if !t.is_empty() && !defs.contains_key(t) && !is_enum(t) {
            if let Some((_, line)) = tuple_structs.iter().find(|(n, _)| n == t) {
                return Err(Error(format!("{}:{}: struct `{}` has no named fields", label, line, t)));
            }
            return Err(Error(format!("{}: struct `{}` not found", label, t)));
        }
    }
    let mut prims = vec![];
    for (spec, lean) in &opts.prims {
        prims.push(parse_prim(spec, lean).map_err(Error)?);
    }
    let mut tr = Tr {
        src_lines: src.lines().collect(),
        file: &file,
        opts,
        label: label.clone(),
        defs,
        prims,
        sigs: vec![],
        notes: Notes::default(),
        cur_type: String::new(),
        fn_name: String::new(),
        has_self: false,
        self_mut: false,
        has_panic: false,
        ret: Ty::Unit,
        closures: vec![],
        intos: vec![],
        into_params: vec![],
        deceq: BTreeSet::new(),
        inh: BTreeSet::new(),
        match_depth: 0,
        idents: BTreeSet::new(),
        pre: vec![],
        no_hoist: 0,
        last_borrow: None,
        effect_seen: false,
        last_effect_result: None,
        bits_ctx: None,
        ret_borrow: None,
        effect_info: vec![],
        state: vec![],
        deferred_tys: BTreeMap::new(),
        tuple_state: false,
        mut_params: vec![],
        mut_idx: vec![],
        call_mut_idx: vec![],
        loop_ctx: None,
    };
    // the inherent impl blocks of each type
    let mut free_fns: Vec<syn::ImplItemFn> = vec![];
    for it in &file.items {
        if let Item::Fn(f) = it {
            free_fns.push(syn::ImplItemFn { attrs: f.attrs.clone(), vis: f.vis.clone(), defaultness: None, sig: f.sig.clone(), block: (*f.block).clone() });
        }
    }
    let mut methods: BTreeMap<String, Vec<&syn::ImplItemFn>> = BTreeMap::new();
    for f in &free_fns {
        methods.entry(String::new()).or_default().push(f);
    }
    for it in &file.items {
        if let Item::Impl(im) = it {
            // the methods of trait impls (`BitOrAssign::bitor_assign`, …) can be asked for too; a trait impl that does not fit
            // (lifetimes, where clauses) is passed over
            let of_trait = im.trait_.is_some();
            let name = match &*im.self_ty {
                Type::Path(p) if p.qself.is_none() => p.path.segments.last().map(|s| s.ident.to_string()).unwrap_or_default(),
                _ => continue,
            };
            if !types.contains(&name) {
                continue;
            }
            let mut fits = true;
            for gp in &im.generics.params {
                match gp {
                    syn::GenericParam::Type(tp) if opts.type_map.iter().any(|(r, _)| *r == tp.ident.to_string()) => {
                        use quote::ToTokens;
                        let lean = &opts.type_map.iter().find(|(r, _)| *r == tp.ident.to_string()).unwrap().1;
                        let bounds = tp.bounds.to_token_stream().to_string();
                        let n = if bounds.is_empty() {
                            format!("the type parameter `{}` of `impl {name}` is `{lean}`", tp.ident)
                        } else {
                            format!("the type parameter `{}: {}` of `impl {name}` is `{lean}` (the trait's functions used are listed under the functions taken as given)", tp.ident, bounds)
                        };
                        if !of_trait {
                            note_once(&mut tr.notes.generics, n);
                        }
                    }
                    _ if of_trait => fits = false,
                    _ => return Err(Error(format!("{}:{}: outside the supported subset: generic impl block for `{}` (give every type parameter a Lean type with --type)", label, line_of(im.span()), name))),
                }
            }
            if let Some(wc) = &im.generics.where_clause {
                if of_trait {
                    fits = false;
                } else {
                    return Err(Error(format!("{}:{}: outside the supported subset: generic impl block for `{}` with a where clause", label, line_of(wc.span()), name)));
                }
            }
            if !fits {
                continue;
            }
            for ii in &im.items {
                if let ImplItem::Fn(f) = ii {
                    methods.entry(name.clone()).or_default().push(f);
                }
            }
        }
    }
    for (k, l) in &opts.field_map {
        note!(tr, renames, format!("`{k}` is the field `{l}`"));
    }
    for t in &opts.transparent {
        match tr.defs.get(t) {
            Some(d) if d.kind == DefKind::Struct && d.fields.len() == 1 => {
                note_once(&mut tr.notes.renames, format!("the struct `{t}` is its only field `{}` (`{t} {{ {}: v }}` is `v`)", d.fields[0].0, d.fields[0].0));
            }
            _ => return Err(Error(format!("{}: --transparent {t}: no struct with exactly one named field of this name in the file", label))),
        }
    }
    for (k, l) in &opts.variant_map {
        note_once(&mut tr.notes.variants, format!("`{k}` is `{l}`"));
    }
    let mut struct_defs: Vec<Vec<String>> = vec![];
    for s in &opts.structs {
        struct_defs.push(emit_struct(&mut tr, s)?);
    }
    let mut fn_defs: Vec<Vec<String>> = vec![];
    for (t, name) in &specs {
        let empty = vec![];
        let found: Vec<&&syn::ImplItemFn> = methods.get(t).unwrap_or(&empty).iter().filter(|f| f.sig.ident == name.as_str()).collect();
        match found.len() {
            0 => return Err(Error(format!("{}: function `{}::{}` not found", label, t, name))),
            1 => fn_defs.push(tr.function(t, found[0])?),
            _ => return Err(Error(format!("{}: function `{}::{}` is defined more than once (cfg alternatives are not supported)", label, t, name))),
        }
    }
    // ---- output
    let ns = opts.namespace.clone().unwrap_or_else(|| format!("Evenio.Gen.{}", opts.impl_type));
    let mut out = String::new();
    let imports = if opts.imports.is_empty() { vec!["Evenio.Generated.Rs2LeanPrelude".to_string()] } else { opts.imports.clone() };
    for i in &imports {
        out.push_str(&format!("import {i}\n"));
    }
    out.push_str(&format!("/-! GENERATED by tools/rs2lean from {} — do not edit.\n", label));
    let per_type: Vec<String> = types
        .iter()
        .filter_map(|t| {
            let fs: Vec<String> = specs.iter().filter(|(st, _)| st == t).map(|(_, n)| n.clone()).collect();
            if fs.is_empty() {
                None
            } else {
                Some(if t.is_empty() { format!("free functions: {}", fs.join(", ")) } else { format!("`impl {}`: {}", t, fs.join(", ")) })
            }
        })
        .collect();
    out.push_str(&format!("  {}\n", per_type.join("; ")));
    out.push_str("  A `&mut self` method is a function returning the new `self` (paired with the result, `(self, result)`, if there is one).\n");
    out.push_str("  What the translation does not carry over:\n");
    let n = &tr.notes;
    let mut section = |title: &str, items: &Vec<String>| {
        if !items.is_empty() {
            out.push_str(&format!("   * {title}\n"));
            for a in items {
                // source text must not close (or nest) the header comment
                out.push_str(&format!("       {}\n", a.replace("-/", "- /").replace("/-", "/ -")));
            }
        }
    };
    section("unsigned integers are `Nat`: Rust's `+`/`-`/`+=`/`-=` panic on overflow/underflow in debug builds (wrap in release);\n     here `+` is unbounded and `-` is truncated subtraction:", &n.arith);
    section("skipped assertions (the functions describe the runs in which they hold):", &n.asserts);
    section("narrowing casts:", &n.casts);
    section("panicking Vec operations:", &n.vecs);
    section("equality:", &n.eqs);
    section("`unsafe` blocks (transparent: `unsafe { e }` is `e`):", &n.unsafes);
    section("unions: a union-typed field is flattened into the record that contains it, with one field per member (a read of the\n     inactive member — undefined behaviour / a reinterpretation of the bytes in Rust — is not representable: here every\n     member keeps the value last written to it); members touched:", &n.unions);
    section("`ManuallyDrop` cells:", &n.cells);
    section("`unwrap`s:", &n.unwraps);
    section("unchecked lookups:", &n.unchecked);
    section("wrapping arithmetic (exact):", &n.wrapping);
    section("panics: a function containing `panic!` returns `Outcome`: `.ok result`, or `.panic msg` where the code panics:", &n.panics);
    section("functions and constants not translated, taken as given:", &n.prims);
    section("generic parameters:", &n.generics);
    section("closure parameters:", &n.closures);
    section("references:", &n.refs);
    section("dropped fields:", &n.dropped);
    section("field names (the Lean records are the hand model's):", &n.renames);
    section("enum variants (as terms and as patterns; `$1`, … are the variant's fields):", &n.variants);
    out.push_str("-/\n");
    if tr.tuple_state {
        out.push_str("set_option linter.unusedVariables false -- a state tuple `(self, x)` may bind an `x` that is not read afterwards\n");
    }
    out.push_str(&format!("namespace {ns}\n"));
    let opens = if opts.opens.is_empty() && opts.imports.is_empty() { vec!["Evenio.Rs2Lean".to_string()] } else { opts.opens.clone() };
    for o in &opens {
        out.push_str(&format!("open {o}\n"));
    }
    if !opts.tyvars.is_empty() {
        out.push_str(&format!("variable {{{} : Type}}\n", opts.tyvars.join(" ")));
    }
    for d in struct_defs.into_iter().chain(fn_defs) {
        out.push('\n');
        for l in d {
            out.push_str(l.trim_end());
            out.push('\n');
        }
    }
    out.push_str(&format!("\nend {ns}\n"));
    Ok(out)
}
