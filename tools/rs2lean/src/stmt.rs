//! statements, blocks, control flow, functions
use super::*;

/// what a simple statement turns into: `let pat := rhs` lines
type Lets = Vec<(String, String)>;

impl<'a> Tr<'a> {
    fn begin_stmt(&mut self) {
        self.last_borrow = None;
        self.effect_seen = false;
        self.last_effect_result = None;
        self.effect_info.clear();
    }

    fn state_vars(&self) -> Vec<String> {
        self.state.last().cloned().unwrap_or_else(|| self.state_base())
    }

    /// a statement that updates the state: the `let`s it becomes (the environment may change: deferred initialisation)
    fn effect(&mut self, e: &Expr, env: &mut Env) -> Res<Lets> {
        let sp = e.span();
        let e = self.strip(e)?;
        match e {
            Expr::Assign(a) => {
                let left = self.strip(&a.left)?;
                // x = e  (deferred initialisation)
                if let Some((b, segs)) = self.as_place(left) {
                    if segs.is_empty() {
                        return match self.lookup(env, &b).cloned() {
                            Some(Var { kind: Kind::Deferred { init: false }, .. }) => {
                                let (r, rt) = self.expr(&a.right, env)?;
                                let rt = if rt == Ty::Opt(Box::new(Ty::Unit)) { Ty::Unknown } else { rt };
                                if let Some(v) = env.iter_mut().rev().find(|v| v.name == b) {
                                    v.kind = Kind::Deferred { init: true };
                                    v.ty = rt.clone();
                                }
                                if rt != Ty::Unknown || !self.deferred_tys.contains_key(&b) {
                                    self.deferred_tys.insert(b.clone(), rt);
                                }
                                Ok(vec![(lean_ident(&b), r.s)])
                            }
                            Some(Var { kind: Kind::MutLocal, ty, .. }) => {
                                let (r, rt) = self.expr(&a.right, env)?;
                                if !assignable(&ty, &rt) {
                                    return self.err(sp, format!("type of the value assigned to `{b}`"));
                                }
                                Ok(vec![(lean_ident(&b), r.s)])
                            }
                            Some(Var { kind: Kind::Deferred { init: true }, .. }) => self.unsupported(sp, "second assignment to a variable (only deferred initialisation `let x; … x = e;`)"),
                            _ => self.unsupported(sp, "assignment (only to `self.f…`, through a mutable borrow of a Vec element, or deferred initialisation)"),
                        };
                    }
                }
                // *x = e / *V.get_unchecked_mut(i) = e
                if let Expr::Unary(u) = left {
                    if matches!(u.op, UnOp::Deref(_)) {
                        let inner = self.strip(&u.expr)?;
                        if let Some((b, segs)) = self.as_place(inner) {
                            if segs.is_empty() {
                                if let Some(Var { kind: Kind::MutBorrow(bor), ty, .. }) = self.lookup(env, &b).cloned() {
                                    let (r, rt) = self.expr(&a.right, env)?;
                                    if !assignable(&ty, &rt) {
                                        return self.err(sp, format!("type of the value assigned to `*{b}`"));
                                    }
                                    let wb = self.write_back(&bor, &lean_ident(&b));
                                    return Ok(vec![(lean_ident(&b), r.s), wb]);
                                }
                                if let Some(Var { kind: Kind::ElemMut, ty, .. }) = self.lookup(env, &b).cloned() {
                                    let (r, rt) = self.expr(&a.right, env)?;
                                    if !assignable(&ty, &rt) {
                                        return self.err(sp, format!("type of the value assigned to `*{b}`"));
                                    }
                                    return Ok(vec![(lean_ident(&b), r.s)]);
                                }
                            }
                        }
                        if let Expr::MethodCall(m) = inner {
                            if m.method == "get_unchecked_mut" && m.args.len() == 1 && m.turbofish.is_none() {
                                if let Some(pl) = self.place(&m.receiver, env)? {
                                    if let Ty::Vec(elem) = &pl.ty {
                                        if !self.is_state_var(&pl.base) {
                                            return self.unsupported(sp, "assignment to an element of a Vec that is not a field of `&mut self`:");
                                        }
                                        let (i, it) = self.expr(&m.args[0], env)?;
                                        let (r, rt) = self.expr(&a.right, env)?;
                                        if !matches!(it, Ty::Int(64, _) | Ty::Int(0, _)) || !assignable(elem, &rt) {
                                            return self.err(sp, "types of the element assignment");
                                        }
                                        note!(self, unchecked, format!("line {}: `{}` out of range is undefined behaviour in Rust; `vecSet` leaves the list unchanged", line_of(sp), self.src_text(left.span())));
                                        return Ok(vec![(lean_ident(&pl.base), pl.update(&format!("vecSet {} {} {}", pl.read(), i.arg(), r.arg())))]);
                                    }
                                }
                            }
                        }
                        return self.unsupported(sp, "assignment through a dereference (only `*x` for a mutable borrow of a Vec element, `*V.get_unchecked_mut(i)`)");
                    }
                }
                if self.as_place(left).is_none() {
                    return self.unsupported(sp, "assignment (only to `self.f`)");
                }
                let pl = self.writable(left, env)?;
                let (r, rt) = self.expr(&a.right, env)?;
                self.check_effect_order(&a.right)?;
                if !assignable(&pl.ty, &rt) {
                    return self.err(sp, format!("type of the assigned value does not match the field `{}`", self.src_text(left.span()).rsplit('.').next().unwrap_or("")));
                }
                Ok(self.store(&pl, &r.s, env))
            }
            Expr::Binary(b) if matches!(b.op, BinOp::AddAssign(_) | BinOp::SubAssign(_) | BinOp::BitOrAssign(_) | BinOp::BitAndAssign(_) | BinOp::BitXorAssign(_)) => {
                let (op, bitop) = match b.op {
                    BinOp::AddAssign(_) => ("+", false),
                    BinOp::SubAssign(_) => ("-", false),
                    BinOp::BitOrAssign(_) => ("|||", true),
                    BinOp::BitAndAssign(_) => ("&&&", true),
                    _ => ("^^^", true),
                };
                let left = self.strip(&b.left)?;
                // the target: a `let mut` local, `*x` for a borrow of an element, or a place
                enum Target {
                    Var(String, Option<Borrow>),
                    Place(PlaceInfo),
                }
                let mut target: Option<(Target, String, Ty)> = None;
                if let Some((x, segs)) = self.as_place(left) {
                    if segs.is_empty() {
                        if let Some(Var { kind: Kind::MutLocal, ty, .. }) = self.lookup(env, &x).cloned() {
                            target = Some((Target::Var(x.clone(), None), lean_ident(&x), ty));
                        }
                    }
                }
                if let Expr::Unary(u) = left {
                    if matches!(u.op, UnOp::Deref(_)) {
                        if let Some((x, segs)) = self.as_place(&u.expr) {
                            if segs.is_empty() {
                                match self.lookup(env, &x).cloned() {
                                    Some(Var { kind: Kind::MutBorrow(bor), ty, .. }) => target = Some((Target::Var(x.clone(), Some(bor)), lean_ident(&x), ty)),
                                    Some(Var { kind: Kind::ElemMut, ty, .. }) => target = Some((Target::Var(x.clone(), None), lean_ident(&x), ty)),
                                    _ => {}
                                }
                            }
                        }
                    }
                }
                if target.is_none() {
                    if self.as_place(left).map(|p| p.1.is_empty()).unwrap_or(true) {
                        return self.unsupported(sp, "compound assignment (only to `self.f`)");
                    }
                    let pl = self.writable(left, env)?;
                    let (rd, ty) = (pl.read(), pl.ty.clone());
                    target = Some((Target::Place(pl), rd, ty));
                }
                let (target, read, ty) = target.unwrap();
                let saved = self.bits_ctx;
                if let Ty::Bits(w) = ty {
                    self.bits_ctx = Some(w);
                }
                let r = self.expr(&b.right, env);
                self.bits_ctx = saved;
                let (r, rt) = r?;
                if self.effect_seen {
                    return self.unsupported(sp, "effect inside a compound assignment:");
                }
                match (bitop, &ty, &rt) {
                    (false, Ty::Int(..), Ty::Int(..)) => note!(self, arith, format!("line {}: `{}`", line_of(sp), self.src_text(sp))),
                    (true, Ty::Bits(a), Ty::Bits(c)) if a == c => {}
                    (false, _, _) => return self.unsupported(sp, if matches!(target, Target::Place(_)) { "compound assignment on a non-integer field" } else { "compound assignment on a non-integer local" }),
                    (true, _, _) => return self.unsupported(sp, "bitwise compound assignment on something that is not a block of bits:"),
                }
                let v = format!("{read} {op} {}", r.arg());
                match target {
                    Target::Var(x, None) => Ok(vec![(lean_ident(&x), v)]),
                    Target::Var(x, Some(bor)) => {
                        let wb = self.write_back(&bor, &lean_ident(&x));
                        Ok(vec![(lean_ident(&x), v), wb])
                    }
                    Target::Place(pl) => Ok(self.store(&pl, &v, env)),
                }
            }
            Expr::Call(c) => {
                // assume_unchecked(cond): skipped, listed
                if let Expr::Path(p) = &*c.func {
                    if p.path.segments.last().map(|s| s.ident == "assume_unchecked").unwrap_or(false) && c.args.len() == 1 {
                        let txt = self.src_text(c.span());
                        note!(self, asserts, format!("line {}: `{}` (an assumption handed to the optimiser: undefined behaviour when false)", line_of(sp), txt));
                        return Ok(vec![]);
                    }
                }
                self.unsupported(sp, "statement")
            }
            Expr::MethodCall(m) => {
                let pl = match self.place(&m.receiver, env)? {
                    Some(pl) => pl,
                    None => {
                        // `x.f(..)` for a `&mut` parameter / `self`: a method that changes its receiver
                        if let Some((b, segs)) = self.as_place(&m.receiver) {
                            if segs.is_empty() && (self.is_state_var(&b) || matches!(self.lookup(env, &b), Some(Var { kind: Kind::MutLocal | Kind::ElemMut | Kind::MutBorrow(_), .. }))) {
                                self.method_value(m, env)?;
                                if !self.effect_seen {
                                    return self.unsupported(sp, "call without effect as a statement:");
                                }
                                return Ok(vec![]);
                            }
                        }
                        if matches!(&*m.receiver, Expr::MethodCall(_)) {
                            self.method_value(m, env)?;
                            if !self.effect_seen {
                                return self.unsupported(sp, "call without effect as a statement:");
                            }
                            return Ok(vec![]);
                        }
                        return self.unsupported(sp, "method call as a statement (only on a Vec field `self.f`)");
                    }
                };
                if m.turbofish.is_some() {
                    return self.unsupported(sp, "turbofish");
                }
                let elem = match &pl.ty {
                    Ty::Vec(t) => (**t).clone(),
                    Ty::Named { .. } | Ty::Map { .. } => {
                        // a method that changes its receiver, called for its effect (the value is dropped)
                        self.method_value(m, env)?;
                        if !self.effect_seen {
                            return self.unsupported(sp, "call without effect as a statement:");
                        }
                        return Ok(vec![]);
                    }
                    _ => return self.unsupported(sp, "method call on a field that is not a Vec"),
                };
                if pl.base == "self" && !self.self_mut {
                    return self.unsupported(sp, "field update in a method that does not take `&mut self`");
                }
                if !self.is_state_var(&pl.base) {
                    return self.unsupported(sp, "method call as a statement (only on a Vec field `self.f`)");
                }
                let name = m.method.to_string();
                let args: Vec<&Expr> = m.args.iter().collect();
                let rd = pl.read();
                let is_index = |t: &Ty| matches!(t, Ty::Int(64, _) | Ty::Int(0, _));
                let upd = |v: String| vec![(lean_ident(&pl.base), pl.update(&v))];
                match (name.as_str(), args.len()) {
                    ("insert", 2) => {
                        let (i, it) = self.expr(args[0], env)?;
                        let (x, xt) = self.expr(args[1], env)?;
                        if !is_index(&it) || !assignable(&elem, &xt) {
                            return self.err(sp, "argument types of `Vec::insert`");
                        }
                        note!(self, vecs, format!("line {}: `{}` panics in Rust when the index is > len; `vecInsert` is total", line_of(sp), self.src_text(sp)));
                        Ok(upd(format!("vecInsert {rd} {} {}", i.arg(), x.arg())))
                    }
                    ("push", 1) => {
                        let (x, xt) = self.expr(args[0], env)?;
                        if !assignable(&elem, &xt) {
                            return self.err(sp, "argument type of `Vec::push`");
                        }
                        Ok(upd(format!("vecPush {rd} {}", x.arg())))
                    }
                    ("remove", 1) => {
                        let (i, it) = self.expr(args[0], env)?;
                        if !is_index(&it) {
                            return self.err(sp, "argument type of `Vec::remove`");
                        }
                        note!(self, vecs, format!("line {}: `{}` panics in Rust when the index is ≥ len; `vecRemove` is total (the removed element is dropped)", line_of(sp), self.src_text(sp)));
                        Ok(upd(format!("vecRemove {rd} {}", i.arg())))
                    }
                    ("swap_remove", 1) => {
                        let (i, it) = self.expr(args[0], env)?;
                        if !is_index(&it) {
                            return self.err(sp, "argument type of `Vec::swap_remove`");
                        }
                        note!(self, vecs, format!("line {}: `{}` panics in Rust when the index is ≥ len; `vecSwapRemove` is total (the removed element is dropped)", line_of(sp), self.src_text(sp)));
                        Ok(upd(format!("vecSwapRemove {rd} {}", i.arg())))
                    }
                    ("resize", 2) => {
                        let (n, nt) = self.expr(args[0], env)?;
                        let (x, xt) = self.expr(args[1], env)?;
                        if !is_index(&nt) || !assignable(&elem, &xt) {
                            return self.err(sp, "argument types of `Vec::resize`");
                        }
                        Ok(upd(format!("vecResize {rd} {} {}", n.arg(), x.arg())))
                    }
                    ("clear", 0) => Ok(upd("[]".to_string())),
                    ("resize_with", 2) if matches!(args[1], Expr::Path(p) if p.path.segments.len() == 2 && p.path.segments[1].ident == "default") => {
                        // v.resize_with(n, T::default)
                        let (n, nt) = self.expr(args[0], env)?;
                        if !is_index(&nt) {
                            return self.err(sp, "argument types of `Vec::resize_with`");
                        }
                        note!(self, prims, format!("line {}: `{}` fills with `default` (`T::default()` is taken as the Lean `default`)", line_of(sp), self.src_text(args[1].span())));
                        Ok(upd(format!("vecResize {rd} {} default", n.arg())))
                    }
                    _ => self.unsupported(sp, "Vec method as a statement (only insert, push, remove, swap_remove, resize, clear)"),
                }
            }
            _ => self.unsupported(sp, "statement"),
        }
    }

    /// the outer variables a statement changes, from the syntactic scan: assigned ones, and `let mut` locals that are the
    /// receiver of a method call
    fn changed_outer(&self, assigned: Vec<String>, lets: &[String], env: &Env, base: &[String], sp: Span) -> Res<Vec<String>> {
        let mut vars = vec![];
        for x in assigned {
            let (x, recv_only) = match x.strip_prefix('@') {
                Some(r) => (r.to_string(), true),
                None => (x, false),
            };
            if x == "self" || base.contains(&x) || vars.contains(&x) {
                continue;
            }
            match self.lookup(env, &x) {
                Some(v) => {
                    if recv_only && !matches!(v.kind, Kind::MutLocal | Kind::ElemMut) {
                        continue;
                    }
                    if lets.contains(&x) {
                        return self.err(sp, format!("outside the supported subset: `{x}` is assigned in this statement and also bound by a `let` / pattern inside it"));
                    }
                    vars.push(x);
                }
                None => {}
            }
        }
        Ok(vars)
    }

    /// does the token stream of an assertion contain something that may change state? (syntactic and conservative: a call
    /// of a method whose name is that of a mutating std method or of a `&mut self` function known to the translator, `&mut`,
    /// an assignment operator)
    fn assertion_effect(&self, ts: proc_macro2::TokenStream) -> Option<String> {
        const MUTATORS: &[&str] = &[
            "insert", "remove", "push", "pop", "swap_remove", "clear", "take", "replace", "swap", "resize", "extend", "drain", "retain",
            "truncate", "append", "entry", "set", "push_back", "push_front", "pop_back", "pop_front", "get_or_insert_with", "or_insert",
            "or_insert_with", "split_off", "dedup", "sort", "reverse", "next", "remove_entry", "shrink_to_fit", "reserve", "fetch_add",
            "fetch_sub", "store",
        ];
        let v: Vec<proc_macro2::TokenTree> = ts.into_iter().collect();
        for (i, t) in v.iter().enumerate() {
            match t {
                proc_macro2::TokenTree::Ident(id) => {
                    let n = id.to_string();
                    let called = matches!(v.get(i + 1), Some(proc_macro2::TokenTree::Group(g)) if g.delimiter() == proc_macro2::Delimiter::Parenthesis);
                    let after_dot = i > 0 && matches!(&v[i - 1], proc_macro2::TokenTree::Punct(p) if p.as_char() == '.' || p.as_char() == ':');
                    if called && after_dot {
                        let known_mut = self.prims.iter().any(|p| p.self_mut && p.name == n) || self.sigs.iter().any(|s| s.self_mut && s.name == n);
                        if MUTATORS.contains(&n.as_str()) || n.ends_with("_mut") || known_mut {
                            return Some(format!("call of `{n}`"));
                        }
                    }
                    if n == "mut" && i > 0 && matches!(&v[i - 1], proc_macro2::TokenTree::Punct(p) if p.as_char() == '&') {
                        return Some("`&mut`".to_string());
                    }
                }
                proc_macro2::TokenTree::Punct(p) if p.as_char() == '=' => {
                    // `=`, `+=`, … but not `==`, `!=`, `<=`, `>=`, `=>`
                    let prev = if i > 0 { if let proc_macro2::TokenTree::Punct(q) = &v[i - 1] { if q.spacing() == proc_macro2::Spacing::Joint { Some(q.as_char()) } else { None } } else { None } } else { None };
                    let next_eq = p.spacing() == proc_macro2::Spacing::Joint && matches!(v.get(i + 1), Some(proc_macro2::TokenTree::Punct(q)) if q.as_char() == '=' || q.as_char() == '>');
                    let cmp = matches!(prev, Some('=') | Some('!') | Some('<') | Some('>')) || next_eq;
                    if !cmp {
                        return Some("an assignment".to_string());
                    }
                }
                proc_macro2::TokenTree::Group(g) => {
                    if let Some(w) = self.assertion_effect(g.stream()) {
                        return Some(w);
                    }
                }
                _ => {}
            }
        }
        None
    }

    fn wants_value(&self, mode: Mode) -> bool {
        match mode {
            Mode::Value => true,
            Mode::Tail => self.ret != Ty::Unit,
            Mode::State => false,
        }
    }

    /// the end of a block: its value
    fn finish(&mut self, mut out: Vec<Chunk>, value: Option<&Expr>, env: &Env, mode: Mode, sp: Span) -> Res<Vec<String>> {
        let want = self.wants_value(mode);
        self.begin_stmt();
        let v = match (want, value) {
            (true, Some(e)) if self.ret_borrow.is_some() && mode == Mode::Tail && self.loop_ctx.is_none() => {
                // the returned borrow must be `self.v.get_unchecked_mut(i)`: the result is `i`
                let inner = self.strip(e)?;
                let m = match inner {
                    Expr::MethodCall(m) if (m.method == "get_unchecked_mut") && m.args.len() == 1 => m,
                    _ => return self.unsupported(e.span(), "returned mutable borrow (only `self.v.get_unchecked_mut(i)`)"),
                };
                let pl = match self.place(&m.receiver, env)? {
                    Some(pl) if pl.base == "self" && matches!(pl.ty, Ty::Vec(_)) => pl,
                    _ => return self.unsupported(e.span(), "returned mutable borrow (only `self.v.get_unchecked_mut(i)`)"),
                };
                let elem = match &pl.ty {
                    Ty::Vec(t) => (**t).clone(),
                    _ => unreachable!(),
                };
                let (i, it) = self.expr(&m.args[0], env)?;
                if !matches!(it, Ty::Int(..)) || !assignable(&self.ret_borrow.as_ref().unwrap().1, &elem) {
                    return self.err(e.span(), "types of the returned mutable borrow");
                }
                match &self.ret_borrow {
                    Some((p, _)) if !p.is_empty() && *p != pl.lean_path => return self.unsupported(e.span(), "returned mutable borrows into different Vecs:"),
                    _ => {}
                }
                self.ret_borrow = Some((pl.lean_path.clone(), elem));
                note!(self, unchecked, format!("line {}: `{}` is returned as the index; the caller reads the element with a checked lookup (`default` out of range, undefined behaviour in Rust)", line_of(e.span()), self.src_text(inner.span())));
                Some(i)
            }
            (true, Some(e)) => {
                let (l, t) = self.expr(e, env)?;
                self.check_effect_order(e)?;
                if mode == Mode::Tail && !assignable(&self.ret, &t) {
                    return self.err(e.span(), "type of the returned value does not match the return type");
                }
                Some(l)
            }
            (true, None) => return self.err(sp, "the block ends without a value"),
            (false, Some(e)) => return self.unsupported(e.span(), "value where none is expected"),
            (false, None) => None,
        };
        let pre = self.take_pre();
        let ln = value.map(|e| format!("  -- L{}", line_of(e.span()))).unwrap_or_default();
        match (mode, v) {
            (Mode::Value, Some(l)) => {
                if !pre.is_empty() {
                    return self.unsupported(sp, "early exit or effect in a value block");
                }
                out.push(Chunk::Lines(vec![format!("{}{ln}", l.s)]))
            }
            (Mode::Tail, Some(l)) => {
                let line = format!("{}{ln}", self.result(Some(&l.s)));
                let lines = self.wrap(pre, vec![line]);
                out.push(Chunk::Lines(lines));
            }
            (Mode::Tail, None) => {
                let pat = pat_of(&self.tail_state());
                let inline = !self.has_panic && matches!(out.last(), Some(Chunk::LetState(p, _)) if *p == pat);
                if inline {
                    // the new `self` is the value: `let self := X; self` is written `X`
                    if let Some(Chunk::LetState(_, lines)) = out.pop() {
                        out.push(Chunk::Lines(lines));
                    }
                } else {
                    out.push(Chunk::Lines(vec![self.result(None)]));
                }
            }
            _ => {
                let vars = self.state_vars();
                for x in &vars {
                    if let Some(Var { kind: Kind::Deferred { init: false }, .. }) = self.lookup(env, x) {
                        return self.err(sp, format!("outside the supported subset: `{x}` is initialised in some branches of this statement only"));
                    }
                }
                let pat = pat_of(&vars);
                let inline = matches!(out.last(), Some(Chunk::LetState(p, _)) if *p == pat);
                if inline {
                    if let Some(Chunk::LetState(_, lines)) = out.pop() {
                        out.push(Chunk::Lines(lines));
                    }
                } else {
                    out.push(Chunk::Lines(vec![pat]));
                }
            }
        }
        Ok(flatten(out))
    }

    fn lets_to_chunks(lets: Lets, line: usize) -> Vec<Chunk> {
        lets.into_iter().map(|(p, r)| Chunk::LetState(p, vec![format!("{r}  -- L{line}")])).collect()
    }

    /// closes a statement: the pending lets / binds go in front of `own`; a bind takes the rest of the block with it
    /// (returns the finished block in that case)
    fn close_stmt(&mut self, stmts: &[Stmt], next: usize, env: &Env, mode: Mode, sp: Span, out: &mut Vec<Chunk>, own: Vec<Chunk>) -> Res<Option<Vec<String>>> {
        let pre = self.take_pre();
        let nb = Self::binds_in(&pre);
        if nb == 0 {
            let lines = self.wrap(pre, vec![]);
            if !lines.is_empty() {
                out.push(Chunk::Lines(lines));
            }
            out.extend(own);
            return Ok(None);
        }
        if mode != Mode::Tail {
            return self.unsupported(stmts[next - 1].span(), "early exit to `None` inside a nested statement block:");
        }
        self.match_depth += nb;
        let inner = self.block_from(&stmts[next..], env.clone(), mode, sp, own);
        self.match_depth -= nb;
        let lines = self.wrap(pre, inner?);
        let mut o = std::mem::take(out);
        o.push(Chunk::Lines(lines));
        Ok(Some(flatten(o)))
    }

    pub(crate) fn block(&mut self, stmts: &[Stmt], env: &Env, mode: Mode, sp: Span) -> Res<Vec<String>> {
        self.block_from(stmts, env.clone(), mode, sp, vec![])
    }

    fn block_from(&mut self, stmts: &[Stmt], mut env: Env, mode: Mode, sp: Span, mut out: Vec<Chunk>) -> Res<Vec<String>> {
        let n = stmts.len();
        for (i, st) in stmts.iter().enumerate() {
            let last = i + 1 == n;
            self.begin_stmt();
            match st {
                Stmt::Local(l) => {
                    if !l.attrs.is_empty() {
                        return self.unsupported(l.span(), "attribute on a `let`");
                    }
                    // `let x = &mut V[i];`: a borrow of the element (Rust panics out of range; here `default` is read and nothing written)
                    if let (Pat::Ident(pi), Some(init)) = (&l.pat, &l.init) {
                        if let Expr::Reference(r) = &*init.expr {
                            if let (true, Expr::Index(ix)) = (r.mutability.is_some(), &*r.expr) {
                                if pi.by_ref.is_none() && pi.mutability.is_none() && init.diverge.is_none() {
                                    let pl = self.writable(&ix.expr, &env)?;
                                    let elem = match &pl.ty {
                                        Ty::Vec(t) => (**t).clone(),
                                        _ => return self.unsupported(l.span(), "index into something that is not a Vec:"),
                                    };
                                    let (iv, it) = self.expr(&ix.index, &env)?;
                                    if !matches!(it, Ty::Int(..)) {
                                        return self.err(l.span(), "type of the index");
                                    }
                                    let at = self.fresh("at");
                                    let name = pi.ident.to_string();
                                    note!(self, vecs, format!("line {}: `{}` panics in Rust when the index is ≥ len; here `default` is read and the write-back changes nothing", line_of(l.span()), self.src_text(init.expr.span())));
                                    if let Ty::Named { tyvar: true, lean, .. } = &elem {
                                        self.inh.insert(lean.clone());
                                    }
                                    let own = vec![Chunk::Lines(vec![
                                        format!("let {at} := {}  -- L{}", iv.s, line_of(l.span())),
                                        format!("let {} := optUnwrap (vecGet {} {at})  -- L{}", lean_ident(&name), pl.read(), line_of(l.span())),
                                    ])];
                                    env.push(Var { name: name.clone(), ty: elem, kind: Kind::MutBorrow(Borrow { vec: pl, idx: at, value: lean_ident(&name), setter: "vecSet".into() }) });
                                    if let Some(done) = self.close_stmt(stmts, i + 1, &env, mode, sp, &mut out, own)? {
                                        return Ok(done);
                                    }
                                    continue;
                                }
                            }
                        }
                    }
                    // `let (a, b) = e;`
                    if let (Pat::Tuple(pt), Some(init)) = (&l.pat, &l.init) {
                        if init.diverge.is_none() && pt.elems.iter().all(|q| matches!(q, Pat::Ident(i) if i.by_ref.is_none() && i.mutability.is_none() && i.subpat.is_none())) {
                            let (v, t) = self.expr(&init.expr, &env)?;
                            self.check_effect_order(&init.expr)?;
                            let ts = match t {
                                Ty::Tuple(ts) if ts.len() == pt.elems.len() => ts,
                                _ => return self.unsupported(l.span(), "`let` of a tuple pattern on a value that is not such a tuple:"),
                            };
                            let mut names = vec![];
                            for (q, qt) in pt.elems.iter().zip(ts) {
                                if let Pat::Ident(i) = q {
                                    names.push(lean_ident(&i.ident.to_string()));
                                    env.push(var(i.ident.to_string(), qt));
                                }
                            }
                            let own = vec![Chunk::Lines(vec![format!("let ({}) := {}  -- L{}", names.join(", "), v.s, line_of(l.span()))])];
                            if let Some(done) = self.close_stmt(stmts, i + 1, &env, mode, sp, &mut out, own)? {
                                return Ok(done);
                            }
                            continue;
                        }
                    }
                    let let_mut = matches!(&l.pat, Pat::Ident(p) if p.by_ref.is_none() && p.mutability.is_some() && p.subpat.is_none() && l.init.is_some());
                    let (name, declared) = match &l.pat {
                        Pat::Ident(p) if p.by_ref.is_none() && (p.mutability.is_none() || let_mut) && p.subpat.is_none() => (p.ident.to_string(), None),
                        Pat::Type(pt) => match &*pt.pat {
                            Pat::Ident(p) if p.by_ref.is_none() && p.mutability.is_none() && p.subpat.is_none() => (p.ident.to_string(), Some(self.ty(&pt.ty)?)),
                            _ => return self.unsupported(l.span(), "`let` pattern (only `let x = e;`, no `mut`)"),
                        },
                        _ => return self.unsupported(l.span(), "`let` pattern (only `let x = e;`, no `mut`)"),
                    };
                    let init = match &l.init {
                        Some(i) if i.diverge.is_none() => &i.expr,
                        None => {
                            // `let x;` — initialised later, once on every path
                            env.push(Var { name, ty: declared.unwrap_or(Ty::Unknown), kind: Kind::Deferred { init: false } });
                            out.push(Chunk::Lines(vec![format!("-- L{}: `{}` (initialised below)", line_of(l.span()), self.src_text(l.span()))]));
                            continue;
                        }
                        _ => return self.unsupported(l.span(), "`let` with `else`"),
                    };
                    // `let x = match … { … };` / `let x = if … { … } else { … };` with blocks as branches: a value block
                    let init_s = self.strip(init)?;
                    let multi = match init_s {
                        Expr::Match(_) => true,
                        Expr::If(i) => matches!(&*i.cond, Expr::Let(_)) || i.then_branch.stmts.len() != 1 || !matches!(i.then_branch.stmts.first(), Some(Stmt::Expr(_, None))),
                        _ => false,
                    };
                    if multi {
                        let lines = self.control(init_s, &env, Mode::Value, &[])?;
                        out.push(Chunk::LetState(lean_ident(&name), lines));
                        env.push(Var { name, ty: declared.unwrap_or(Ty::Unknown), kind: Kind::Plain });
                        continue;
                    }
                    let (v, t) = self.expr(init, &env)?;
                    self.check_effect_order(init)?;
                    let t = match declared {
                        Some(d) => {
                            if !assignable(&d, &t) {
                                return self.err(l.span(), "declared type of the `let` does not match its initialiser");
                            }
                            d
                        }
                        None => t,
                    };
                    let borrow = self.last_borrow.take().filter(|b| b.value == v.s);
                    // `let x = <bind>`: the bind takes the name
                    let mut own = vec![];
                    let mut renamed = false;
                    if v.atomic {
                        if let Some(k) = self.pre.iter().position(|p| matches!(p, Pre::Bind { name: n, .. } if *n == v.s)) {
                            let clash = self.pre.iter().enumerate().any(|(j, p)| match p {
                                Pre::Let { pat, rhs, .. } => j > k && (text_mentions(rhs, &lean_ident(&name)) || text_mentions(pat, &lean_ident(&name)) || text_mentions(rhs, &v.s)),
                                Pre::Bind { opt, .. } => j > k && (text_mentions(opt, &lean_ident(&name)) || text_mentions(opt, &v.s)),
                                Pre::OBind { .. } => j > k,
                            });
                            if !clash {
                                if let Pre::Bind { name: n, .. } = &mut self.pre[k] {
                                    *n = name.clone();
                                }
                                renamed = true;
                            }
                        }
                    }
                    if !renamed {
                        own.push(Chunk::Lines(vec![format!("let {} := {}  -- L{}", lean_ident(&name), v.s, line_of(l.span()))]));
                    }
                    let kind = match borrow {
                        Some(_) if let_mut => return self.unsupported(l.span(), "`let mut` of a mutable borrow"),
                        Some(mut b) => {
                            b.value = lean_ident(&name);
                            Kind::MutBorrow(b)
                        }
                        None if let_mut => Kind::MutLocal,
                        None => Kind::Plain,
                    };
                    env.push(Var { name, ty: t, kind });
                    if let Some(done) = self.close_stmt(stmts, i + 1, &env, mode, sp, &mut out, own)? {
                        return Ok(done);
                    }
                }
                Stmt::Macro(m) => {
                    let name = m.mac.path.segments.last().map(|s| s.ident.to_string()).unwrap_or_default();
                    let single = m.mac.path.segments.len() == 1;
                    if single && matches!(name.as_str(), "assert" | "debug_assert" | "assert_eq" | "assert_ne" | "debug_assert_eq" | "debug_assert_ne") {
                        let txt = self.src_text(m.mac.span());
                        // an assertion is skipped only when nothing in it can change state: a side effect inside it would
                        // silently disappear from the translation (and, for `debug_assert!`, from release builds)
                        if let Some(why) = self.assertion_effect(m.mac.tokens.clone()) {
                            return self.err(m.span(), format!("outside the supported subset: side effect inside an assertion ({why}): `{txt}`"));
                        }
                        out.push(Chunk::Lines(vec![format!("-- L{}: skipped `{}`", line_of(m.span()), txt)]));
                        note!(self, asserts, format!("line {}: `{}`{}", line_of(m.span()), txt, if name.starts_with("debug_") { " (debug builds only)" } else { "" }));
                    } else if single && name == "panic" {
                        if !last {
                            return self.unsupported(stmts[i + 1].span(), "statement after `panic!`");
                        }
                        if mode != Mode::Tail {
                            return self.unsupported(m.span(), "`panic!` here");
                        }
                        return Ok(self.panic_lines(out, &m.mac, m.span()));
                    } else {
                        return self.unsupported(m.span(), "macro (only assert!/debug_assert!/assert_eq!/assert_ne!/panic!)");
                    }
                }
                Stmt::Item(it) => return self.unsupported(it.span(), "item inside a function"),
                Stmt::Expr(e, semi) => {
                    if let Expr::Return(r) = e {
                        if !last {
                            return self.unsupported(stmts[i + 1].span(), "statement after `return`");
                        }
                        if mode != Mode::Tail || self.loop_ctx.is_some() {
                            return self.unsupported(e.span(), "`return` here");
                        }
                        return self.finish(out, r.expr.as_deref(), &env, mode, e.span());
                    }
                    if let Expr::Macro(m) = e {
                        if is_panic_macro(&m.mac) {
                            if !last {
                                return self.unsupported(stmts[i + 1].span(), "statement after `panic!`");
                            }
                            if mode != Mode::Tail {
                                return self.unsupported(e.span(), "`panic!` here");
                            }
                            return Ok(self.panic_lines(out, &m.mac, e.span()));
                        }
                    }
                    if let Expr::ForLoop(fl) = e {
                        if mode == Mode::Value {
                            return self.unsupported(e.span(), "loop inside a value block");
                        }
                        let own = self.for_loop(fl, &env, mode)?;
                        if let Some(done) = self.close_stmt(stmts, i + 1, &env, mode, sp, &mut out, own)? {
                            return Ok(done);
                        }
                        continue;
                    }
                    if let Expr::Assign(a) = e {
                        if matches!(&*a.right, Expr::Match(_)) {
                            let v = self.fresh("v");
                            let id = syn::Ident::new(&v, a.right.span());
                            let l: Stmt = syn::parse_quote!(let #id = 0;);
                            let mut l = match l {
                                Stmt::Local(l) => l,
                                _ => unreachable!(),
                            };
                            l.init.as_mut().unwrap().expr = a.right.clone();
                            let mut a2 = a.clone();
                            a2.right = Box::new(syn::parse_quote!(#id));
                            let mut all: Vec<Stmt> = vec![Stmt::Local(l), Stmt::Expr(Expr::Assign(a2), Some(Default::default()))];
                            all.extend(stmts[i + 1..].iter().cloned());
                            return self.block_from(&all, env, mode, sp, out);
                        }
                    }
                    let control = matches!(e, Expr::If(_) | Expr::Match(_));
                    if last && semi.is_none() && self.wants_value(mode) {
                        if control {
                            let lines = self.control(e, &env, mode, &[])?;
                            out.push(Chunk::Lines(lines));
                            return Ok(flatten(out));
                        }
                        return self.finish(out, Some(e), &env, mode, e.span());
                    }
                    if control {
                        if expr_contains_return(e) {
                            if mode != Mode::Tail {
                                return self.unsupported(e.span(), "`return` inside a nested statement block");
                            }
                            let lines = self.control(e, &env, Mode::Tail, &stmts[i + 1..])?;
                            out.push(Chunk::Lines(lines));
                            return Ok(flatten(out));
                        }
                        if mode == Mode::Value {
                            return self.unsupported(e.span(), "`if`/`match` statement that can have no effect here");
                        }
                        // the state of the statement: `self` and the outer locals it assigns
                        let mut assigned = vec![];
                        let mut lets = vec![];
                        assigned_in_expr(e, &mut assigned, &mut lets);
                        let mut vars: Vec<String> = self.state_base();
                        let more = self.changed_outer(assigned, &lets, &env, &vars, e.span())?;
                        vars.extend(more);
                        if vars.is_empty() {
                            return self.unsupported(e.span(), "`if`/`match` statement that can have no effect here");
                        }
                        if vars.len() > 1 {
                            self.tuple_state = true;
                        }
                        self.state.push(vars.clone());
                        let lines = self.control(e, &env, Mode::State, &[]);
                        self.state.pop();
                        let lines = lines?;
                        for x in &vars {
                            if let Some(v) = env.iter_mut().rev().find(|v| v.name == *x) {
                                if let Kind::Deferred { init: false } = v.kind {
                                    v.kind = Kind::Deferred { init: true };
                                    v.ty = self.deferred_tys.get(x).cloned().unwrap_or(Ty::Unknown);
                                }
                            }
                        }
                        out.push(Chunk::LetState(pat_of(&vars), lines));
                    } else {
                        if mode == Mode::Value {
                            return self.unsupported(e.span(), "statement inside a value block");
                        }
                        let lets = self.effect(e, &mut env)?;
                        if self.effect_seen {
                            match e {
                                Expr::Assign(a) => self.check_effect_order(&a.right)?,
                                Expr::MethodCall(_) => self.check_effect_order(e)?,
                                _ => return self.unsupported(e.span(), "effect inside this kind of statement:"),
                            }
                        }
                        let own = Self::lets_to_chunks(lets, line_of(e.span()));
                        if let Some(done) = self.close_stmt(stmts, i + 1, &env, mode, sp, &mut out, own)? {
                            return Ok(done);
                        }
                    }
                }
            }
        }
        self.finish(out, None, &env, mode, sp)
    }

    /// `for x in 0..n { body }` (a general rule): a fold of the body over `0, …, n-1` on the state the body changes —
    /// `forRange n state (fun x state => body)`, or `forRangeO` (stops at the first panic) when the body can panic
    fn for_loop(&mut self, fl: &syn::ExprForLoop, env: &Env, mode: Mode) -> Res<Vec<Chunk>> {
        let sp = fl.span();
        if !fl.attrs.is_empty() || fl.label.is_some() {
            return self.unsupported(sp, "loop with a label or an attribute");
        }
        if !matches!(self.strip(&fl.expr)?, Expr::Range(_)) {
            return self.for_elems(fl, env, mode);
        }
        let idx = match &*fl.pat {
            Pat::Wild(_) => None,
            Pat::Ident(p) if p.by_ref.is_none() && p.mutability.is_none() && p.subpat.is_none() => Some(p.ident.to_string()),
            _ => return self.unsupported(sp, "loop pattern (only `for x in 0..n` / `for _ in 0..n`)"),
        };
        let end = match self.strip(&fl.expr)? {
            Expr::Range(r) if matches!(r.limits, syn::RangeLimits::HalfOpen(_)) => match (&r.start, &r.end) {
                (Some(s), Some(e)) if matches!(&**s, Expr::Lit(l) if matches!(&l.lit, Lit::Int(i) if i.base10_digits() == "0")) => &**e,
                _ => return self.unsupported(sp, "loop range (only `0..n`)"),
            },
            _ => return self.unsupported(sp, "loop (only `for x in 0..n`)"),
        };
        let (n, nt) = self.expr(end, env)?;
        if !matches!(nt, Ty::Int(..)) {
            return self.unsupported(sp, "loop range (only `0..n` for an integer `n`)");
        }
        if self.effect_seen {
            return self.unsupported(sp, "effect in the range of a loop:");
        }
        // the state of the loop: the function's state and the outer locals the body assigns
        let mut assigned = vec![];
        let mut lets = vec![];
        assigned_in_stmts(&fl.body.stmts, &mut assigned, &mut lets);
        let mut vars = self.state_base();
        let more = self.changed_outer(assigned, &lets, env, &vars, sp)?;
        if more.iter().any(|x| matches!(self.lookup(env, x), Some(Var { kind: Kind::Deferred { .. }, .. }))) {
            return self.unsupported(sp, "deferred initialisation inside a loop:");
        }
        vars.extend(more);
        if vars.is_empty() {
            return self.unsupported(sp, "loop that can have no effect here:");
        }
        let body_panics = {
            use quote::ToTokens;
            let mut ids = BTreeSet::new();
            collect_idents(fl.body.to_token_stream(), &mut ids);
            tokens_have_panic(fl.body.to_token_stream()) || self.prims.iter().any(|p| p.panics && ids.contains(&p.name)) || self.sigs.iter().any(|s| s.has_panic && ids.contains(&s.name))
        };
        if body_panics && mode != Mode::Tail {
            return self.unsupported(sp, "loop whose body can panic inside a nested statement block:");
        }
        if vars.len() > 1 {
            self.tuple_state = true;
        }
        let mut env2 = env.clone();
        if let Some(x) = &idx {
            env2.push(var(x.clone(), if matches!(nt, Ty::Int(0, _)) { Ty::usize() } else { nt.clone() }));
        }
        // the body is a function from state to state (to `Outcome state`)
        let saved = (self.loop_ctx.take(), std::mem::replace(&mut self.ret, Ty::Unit), self.has_panic, self.match_depth, std::mem::take(&mut self.state));
        self.loop_ctx = Some((vars.clone(), body_panics));
        self.has_panic = body_panics;
        self.match_depth = 0;
        let pre_outer = self.take_pre();
        let body = self.block(&fl.body.stmts, &env2, Mode::Tail, fl.body.span());
        self.pre = pre_outer;
        self.loop_ctx = saved.0;
        self.ret = saved.1;
        self.has_panic = saved.2;
        self.match_depth = saved.3;
        self.state = saved.4;
        let body = body?;
        let pat = pat_of(&vars);
        let x = idx.map(|x| lean_ident(&x)).unwrap_or_else(|| "_".to_string());
        let f = if body_panics { "forRangeO" } else { "forRange" };
        let mut call = vec![format!("{f} {} {pat} (fun {x} {pat} =>  -- L{}: `for {} in {}`", n.arg(), line_of(sp), self.src_text(fl.pat.span()), self.src_text(fl.expr.span()))];
        call.extend(indent(indent(body)));
        let last = call.len() - 1;
        call[last] = match call[last].find("  -- ") {
            Some(c) => format!("{}){}", &call[last][..c], &call[last][c..]),
            None => format!("{})", call[last]),
        };
        if body_panics {
            self.push_pre(Pre::OBind { pat, call, line: line_of(sp), why: "the loop".to_string() }, sp)?;
            Ok(vec![])
        } else {
            Ok(vec![Chunk::LetState(pat, call)])
        }
    }

    /// `for PAT in &mut V { body }` (the body changes nothing but the element): `V := List.map (fun PAT => body; PAT) V`;
    /// `for PAT in &V { body }` / `in V.iter()` / `in v` (a list): `forEach V state (fun PAT state => body)`, a left fold
    fn for_elems(&mut self, fl: &syn::ExprForLoop, env: &Env, mode: Mode) -> Res<Vec<Chunk>> {
        let sp = fl.span();
        let src = self.strip(&fl.expr)?;
        // `for (a, b) in P.iter_mut().zip(Q.iter()) { body }`: `P := vecZipMut (fun a b => body; a) P Q`
        if let Expr::MethodCall(z) = src {
            if z.method == "zip" && z.args.len() == 1 {
                if let Expr::MethodCall(im) = &*z.receiver {
                    if im.method == "iter_mut" && im.args.is_empty() {
                        return self.for_zip_mut(fl, &im.receiver, &z.args[0], env);
                    }
                }
            }
        }
        // `for (k, v) in &mut C` for a container given by --iter-mut
        if let Expr::Reference(r) = src {
            if r.mutability.is_some() {
                if let Some(pl) = self.place(&r.expr, env)? {
                    if let Ty::Map { rust, val, .. } = &pl.ty {
                        if let Some((_, fmap, fmap_s)) = self.opts.iter_muts.iter().find(|(n, _, _)| n == rust).cloned() {
                            let val = (**val).clone();
                            return self.for_container_mut(fl, &r.expr, val, &fmap, &fmap_s, env, mode);
                        }
                    }
                }
            }
        }
        // the source: (Lean list, element type, the place to store the mapped list into — for the `&mut` form)
        enum Store {
            Place(PlaceInfo),
            Var(String),
        }
        let mut store: Option<Store> = None;
        let (list, elem) = match src {
            Expr::Reference(r) if r.mutability.is_some() => {
                let pl = self.writable(&r.expr, env)?;
                match pl.ty.clone() {
                    Ty::Vec(t) => {
                        let l = pl.read();
                        store = Some(Store::Place(pl));
                        (l, *t)
                    }
                    _ => return self.unsupported(sp, "loop over something that is not a Vec:"),
                }
            }
            _ => {
                let inner = match src {
                    Expr::Reference(r) => &*r.expr,
                    x => x,
                };
                let elem_mut = match self.as_place(inner) {
                    Some((b, segs)) if segs.is_empty() => matches!(self.lookup(env, &b), Some(Var { kind: Kind::ElemMut, .. })).then_some(b),
                    _ => None,
                };
                let (l, t) = self.expr(inner, env)?;
                if self.effect_seen || !self.pre.is_empty() {
                    return self.unsupported(sp, "effect or early exit in the source of a loop:");
                }
                match t {
                    Ty::Vec(t) | Ty::Iter(t) => {
                        if let Some(b) = elem_mut {
                            store = Some(Store::Var(b));
                        }
                        (l.arg(), *t)
                    }
                    _ => return self.unsupported(sp, "loop (only `for x in 0..n`, over a Vec, or over `v.iter()`)"),
                }
            }
        };
        let mut env2 = env.clone();
        let saved = (self.loop_ctx.take(), std::mem::replace(&mut self.ret, Ty::Unit), self.has_panic, self.match_depth, std::mem::take(&mut self.state), self.self_mut, std::mem::take(&mut self.mut_params));
        let restore = |this: &mut Self, saved: (Option<(Vec<String>, bool)>, Ty, bool, usize, Vec<Vec<String>>, bool, Vec<String>)| {
            this.loop_ctx = saved.0;
            this.ret = saved.1;
            this.has_panic = saved.2;
            this.match_depth = saved.3;
            this.state = saved.4;
            this.self_mut = saved.5;
            this.mut_params = saved.6;
        };
        {
            use quote::ToTokens;
            let mut ids = BTreeSet::new();
            collect_idents(fl.body.to_token_stream(), &mut ids);
            if tokens_have_panic(fl.body.to_token_stream()) || self.prims.iter().any(|p| p.panics && ids.contains(&p.name)) || self.sigs.iter().any(|s| s.has_panic && ids.contains(&s.name)) {
                restore(self, saved);
                return self.unsupported(sp, "loop over elements whose body can panic:");
            }
        }
        if let Some(st) = store {
            // ---- map: the pattern's names are the state of the body; `_` gets a name so that the element can be rebuilt
            let p = match &*fl.pat {
                Pat::Reference(r) => &*r.pat,
                p => p,
            };
            let mut names: Vec<String> = vec![];
            let mut bind = |this: &mut Self, q: &Pat, t: &Ty, env2: &mut Env| -> Res<()> {
                let n = match q {
                    Pat::Ident(i) if i.by_ref.is_none() && i.mutability.is_none() && i.subpat.is_none() => i.ident.to_string(),
                    Pat::Wild(_) => this.fresh("x"),
                    _ => return this.unsupported(sp, "loop pattern (only names, `_`, and a tuple of them)"),
                };
                env2.push(Var { name: n.clone(), ty: t.clone(), kind: Kind::ElemMut });
                names.push(n);
                Ok(())
            };
            let r = match (p, &elem) {
                (Pat::Tuple(t), Ty::Tuple(ts)) if t.elems.len() == ts.len() => t.elems.iter().zip(ts).try_for_each(|(q, qt)| bind(self, q, qt, &mut env2)),
                (q, t) => bind(self, q, t, &mut env2),
            };
            if let Err(x) = r {
                restore(self, saved);
                return Err(x);
            }
            self.loop_ctx = Some((names.clone(), false));
            self.has_panic = false;
            self.match_depth = 0;
            self.self_mut = false; // nothing but the element may change
            let pre_outer = self.take_pre();
            let body = self.block(&fl.body.stmts, &env2, Mode::Tail, fl.body.span());
            self.pre = pre_outer;
            restore(self, saved);
            let body = body?;
            let pat = pat_of(&names);
            let tmp = self.fresh("m");
            let mut lines = vec![format!("List.map (fun {pat} =>  -- L{}: `for {} in {}`", line_of(sp), self.src_text(fl.pat.span()), self.src_text(fl.expr.span()))];
            lines.extend(indent(indent(body)));
            let last = lines.len() - 1;
            lines[last] = match lines[last].find("  -- ") {
                Some(c) => format!("{}) {list}{}", &lines[last][..c], &lines[last][c..]),
                None => format!("{}) {list}", lines[last]),
            };
            let mut out = vec![Chunk::LetState(tmp.clone(), lines)];
            let lets = match st {
                Store::Place(pl) => self.store(&pl, &tmp, env),
                Store::Var(b) => vec![(lean_ident(&b), tmp.clone())],
            };
            out.extend(Self::lets_to_chunks(lets, line_of(sp)));
            return Ok(out);
        }
        // ---- fold
        restore(self, saved);
        let mut assigned = vec![];
        let mut lets = vec![];
        assigned_in_stmts(&fl.body.stmts, &mut assigned, &mut lets);
        let mut vars = self.state_base();
        let more = self.changed_outer(assigned, &lets, env, &vars, sp)?;
        vars.extend(more);
        if vars.is_empty() {
            return self.unsupported(sp, "loop that can have no effect here:");
        }
        if vars.len() > 1 {
            self.tuple_state = true;
        }
        let xpat = self.elem_pattern(&fl.pat, &elem, &mut env2, sp)?;
        let saved = (self.loop_ctx.take(), std::mem::replace(&mut self.ret, Ty::Unit), self.has_panic, self.match_depth, std::mem::take(&mut self.state));
        self.loop_ctx = Some((vars.clone(), false));
        self.has_panic = false;
        self.match_depth = 0;
        let pre_outer = self.take_pre();
        let body = self.block(&fl.body.stmts, &env2, Mode::Tail, fl.body.span());
        self.pre = pre_outer;
        self.loop_ctx = saved.0;
        self.ret = saved.1;
        self.has_panic = saved.2;
        self.match_depth = saved.3;
        self.state = saved.4;
        let body = body?;
        let _ = mode;
        let pat = pat_of(&vars);
        let mut lines = vec![format!("forEach {list} {pat} (fun {xpat} {pat} =>  -- L{}: `for {} in {}`", line_of(sp), self.src_text(fl.pat.span()), self.src_text(fl.expr.span()))];
        lines.extend(indent(indent(body)));
        let last = lines.len() - 1;
        lines[last] = match lines[last].find("  -- ") {
            Some(c) => format!("{}){}", &lines[last][..c], &lines[last][c..]),
            None => format!("{})", lines[last]),
        };
        Ok(vec![Chunk::LetState(pat, lines)])
    }

    /// `for (k, v) in &mut C { body }` for a container given by `--iter-mut C=map,mapState`: the body may change `v` and
    /// the state of the function other than `self` (which is borrowed by the loop):
    /// `C := map C (fun k v => body; v)`, or `(C, state) := mapState C state (fun k v state => body; (v, state))`
    #[allow(clippy::too_many_arguments)]
    fn for_container_mut(&mut self, fl: &syn::ExprForLoop, c: &Expr, val: Ty, fmap: &str, fmap_s: &str, env: &Env, mode: Mode) -> Res<Vec<Chunk>> {
        let sp = fl.span();
        let pl = self.writable(c, env)?;
        let (kp, vp) = match &*fl.pat {
            Pat::Tuple(t) if t.elems.len() == 2 => (&t.elems[0], &t.elems[1]),
            _ => return self.unsupported(sp, "loop pattern (only `(k, v)` over this container)"),
        };
        let mut env2 = env.clone();
        let k = match kp {
            Pat::Wild(_) => "_".to_string(),
            Pat::Ident(i) if i.by_ref.is_none() && i.mutability.is_none() && i.subpat.is_none() => {
                env2.push(var(i.ident.to_string(), Ty::usize()));
                lean_ident(&i.ident.to_string())
            }
            _ => return self.unsupported(sp, "loop pattern (only `(k, v)` over this container)"),
        };
        let v = match vp {
            Pat::Ident(i) if i.by_ref.is_none() && i.mutability.is_none() && i.subpat.is_none() => i.ident.to_string(),
            _ => return self.unsupported(sp, "loop pattern (only `(k, v)` over this container)"),
        };
        env2.push(Var { name: v.clone(), ty: val, kind: Kind::ElemMut });
        // the state besides the element: the `&mut` parameters and the outer locals the body changes
        let mut assigned = vec![];
        let mut lets = vec![];
        assigned_in_stmts(&fl.body.stmts, &mut assigned, &mut lets);
        let mut st: Vec<String> = self.mut_params.clone();
        let base: Vec<String> = st.iter().cloned().chain(std::iter::once(v.clone())).collect();
        let more = self.changed_outer(assigned, &lets, env, &base, sp)?;
        st.extend(more);
        let body_panics = {
            use quote::ToTokens;
            let mut ids = BTreeSet::new();
            collect_idents(fl.body.to_token_stream(), &mut ids);
            tokens_have_panic(fl.body.to_token_stream()) || self.prims.iter().any(|p| p.panics && ids.contains(&p.name)) || self.sigs.iter().any(|s| s.has_panic && ids.contains(&s.name))
        };
        if body_panics {
            return self.unsupported(sp, "loop over elements whose body can panic:");
        }
        let mut vars = vec![v.clone()];
        vars.extend(st.iter().cloned());
        let saved = (self.loop_ctx.take(), std::mem::replace(&mut self.ret, Ty::Unit), self.has_panic, self.match_depth, std::mem::take(&mut self.state), self.self_mut);
        self.loop_ctx = Some((vars.clone(), false));
        self.has_panic = false;
        self.match_depth = 0;
        self.self_mut = false; // `self` is borrowed by the loop
        let pre_outer = self.take_pre();
        let body = self.block(&fl.body.stmts, &env2, Mode::Tail, fl.body.span());
        self.pre = pre_outer;
        self.loop_ctx = saved.0;
        self.ret = saved.1;
        self.has_panic = saved.2;
        self.match_depth = saved.3;
        self.state = saved.4;
        self.self_mut = saved.5;
        let body = body?;
        let _ = mode;
        let tmp = self.fresh("m");
        let (head, pat) = if st.is_empty() {
            (format!("{fmap} {} (fun {k} {} =>", pl.read(), lean_ident(&v)), tmp.clone())
        } else {
            self.tuple_state = true;
            let sp_ = pat_of(&st);
            (format!("{fmap_s} {} {sp_} (fun {k} {} {sp_} =>", pl.read(), lean_ident(&v)), format!("({tmp}, {})", st.iter().map(|x| lean_ident(x)).collect::<Vec<_>>().join(", ")))
        };
        let mut lines = vec![format!("{head}  -- L{}: `for {} in {}`", line_of(sp), self.src_text(fl.pat.span()), self.src_text(fl.expr.span()))];
        lines.extend(indent(indent(body)));
        let last = lines.len() - 1;
        lines[last] = match lines[last].find("  -- ") {
            Some(cm) => format!("{}){}", &lines[last][..cm], &lines[last][cm..]),
            None => format!("{})", lines[last]),
        };
        let mut out = vec![Chunk::LetState(pat, lines)];
        let lets = self.store(&pl, &tmp, env);
        out.extend(Self::lets_to_chunks(lets, line_of(sp)));
        Ok(out)
    }

    fn for_zip_mut(&mut self, fl: &syn::ExprForLoop, p: &Expr, q: &Expr, env: &Env) -> Res<Vec<Chunk>> {
        let sp = fl.span();
        let pl = self.writable(p, env)?;
        let ea = match &pl.ty {
            Ty::Vec(t) => (**t).clone(),
            _ => return self.unsupported(sp, "`iter_mut()` on something that is not a Vec:"),
        };
        let (ql, qt) = self.expr(q, env)?;
        let eb = match qt {
            Ty::Iter(t) => *t,
            _ => return self.unsupported(sp, "argument of `zip` (only another iterator)"),
        };
        if self.effect_seen || !self.pre.is_empty() {
            return self.unsupported(sp, "effect or early exit in the source of a loop:");
        }
        let (a, b) = match &*fl.pat {
            Pat::Tuple(t) if t.elems.len() == 2 => match (&t.elems[0], &t.elems[1]) {
                (Pat::Ident(a), Pat::Ident(b)) if a.by_ref.is_none() && a.mutability.is_none() && b.by_ref.is_none() && b.mutability.is_none() => (a.ident.to_string(), b.ident.to_string()),
                _ => return self.unsupported(sp, "loop pattern (only `(a, b)`)"),
            },
            _ => return self.unsupported(sp, "loop pattern (only `(a, b)`)"),
        };
        {
            use quote::ToTokens;
            if tokens_have_panic(fl.body.to_token_stream()) {
                return self.unsupported(sp, "loop over elements whose body can panic:");
            }
        }
        let mut env2 = env.clone();
        env2.push(Var { name: a.clone(), ty: ea, kind: Kind::ElemMut });
        env2.push(var(b.clone(), eb));
        let saved = (self.loop_ctx.take(), std::mem::replace(&mut self.ret, Ty::Unit), self.has_panic, self.match_depth, std::mem::take(&mut self.state), self.self_mut, std::mem::take(&mut self.mut_params));
        self.loop_ctx = Some((vec![a.clone()], false));
        self.has_panic = false;
        self.match_depth = 0;
        self.self_mut = false;
        let pre_outer = self.take_pre();
        let body = self.block(&fl.body.stmts, &env2, Mode::Tail, fl.body.span());
        self.pre = pre_outer;
        self.loop_ctx = saved.0;
        self.ret = saved.1;
        self.has_panic = saved.2;
        self.match_depth = saved.3;
        self.state = saved.4;
        self.self_mut = saved.5;
        self.mut_params = saved.6;
        let body = body?;
        let tmp = self.fresh("m");
        let mut lines = vec![format!("vecZipMut (fun {} {} =>  -- L{}: `for {} in {}`", lean_ident(&a), lean_ident(&b), line_of(sp), self.src_text(fl.pat.span()), self.src_text(fl.expr.span()))];
        lines.extend(indent(indent(body)));
        let last = lines.len() - 1;
        let tail = format!(") {} {}", pl.read(), ql.arg());
        lines[last] = match lines[last].find("  -- ") {
            Some(c) => format!("{}{tail}{}", &lines[last][..c], &lines[last][c..]),
            None => format!("{}{tail}", lines[last]),
        };
        let mut out = vec![Chunk::LetState(tmp.clone(), lines)];
        let lets = self.store(&pl, &tmp, env);
        out.extend(Self::lets_to_chunks(lets, line_of(sp)));
        Ok(out)
    }

    fn panic_lines(&mut self, mut out: Vec<Chunk>, m: &syn::Macro, sp: Span) -> Vec<String> {
        let msg = panic_message(m);
        note!(self, panics, format!("line {}: `{}`", line_of(sp), self.short_text(sp)));
        out.push(Chunk::Lines(vec![format!(".panic \"{msg}\"  -- L{}", line_of(sp))]));
        flatten(out)
    }

    /// one branch of an `if`/`match`; `rest` = the statements after the `if`/`match` (only when it contains an early exit);
    /// `bound` = the names the branch's pattern binds
    fn branch(&mut self, stmts: &[Stmt], env: &Env, mode: Mode, rest: &[Stmt], sp: Span, bound: &[String]) -> Res<Vec<String>> {
        if rest.is_empty() {
            return self.block(stmts, env, mode, sp);
        }
        // `mode == Tail`, and an early exit occurs in some branch of this `if`/`match`
        if definitely_returns(stmts) {
            return self.block(stmts, env, Mode::Tail, sp);
        }
        // the branch falls through into `rest` on some paths: `rest` is appended; the names the branch binds must not be
        // visible to it
        let mut names: Vec<String> = bound.to_vec();
        for s in stmts {
            if let Stmt::Local(l) = s {
                pat_names(&l.pat, &mut names);
            }
        }
        for r in rest {
            use quote::ToTokens;
            let mut ids = BTreeSet::new();
            collect_idents(r.to_token_stream(), &mut ids);
            if let Some(x) = names.iter().find(|x| ids.contains(*x)) {
                return self.err(sp, format!("outside the supported subset: the branch binds `{x}`, which the statements after the `if`/`match` mention (the rest of the block is moved into the branches that can exit early)"));
            }
        }
        let mut all: Vec<Stmt> = stmts.to_vec();
        all.extend(rest.iter().cloned());
        self.block(&all, env, Mode::Tail, sp)
    }

    /// `Some(x)` / `Some(&x)` → x
    fn some_pattern(&self, p: &Pat) -> Option<String> {
        match p {
            Pat::TupleStruct(ts) if ts.path.is_ident("Some") && ts.qself.is_none() && ts.elems.len() == 1 => {
                let inner = match &ts.elems[0] {
                    Pat::Reference(r) if r.mutability.is_none() => &*r.pat,
                    p => p,
                };
                match inner {
                    Pat::Ident(p) if p.by_ref.is_none() && p.mutability.is_none() && p.subpat.is_none() => Some(p.ident.to_string()),
                    _ => None,
                }
            }
            _ => None,
        }
    }

    pub(crate) fn control(&mut self, e: &Expr, env: &Env, mode: Mode, rest: &[Stmt]) -> Res<Vec<String>> {
        match e {
            Expr::If(i) => {
                if !i.attrs.is_empty() {
                    return self.unsupported(e.span(), "attribute");
                }
                let else_stmts: Option<Vec<Stmt>>;
                let mut else_if: Option<&Expr> = None;
                match &i.else_branch {
                    None => else_stmts = Some(vec![]),
                    Some((_, eb)) => match &**eb {
                        Expr::Block(b) if b.label.is_none() && b.attrs.is_empty() => else_stmts = Some(b.block.stmts.clone()),
                        Expr::If(_) => {
                            else_if = Some(&**eb);
                            else_stmts = None;
                        }
                        _ => return self.unsupported(eb.span(), "else branch"),
                    },
                }
                self.begin_stmt();
                if let Expr::Let(l) = &*i.cond {
                    // if let Some(x) = e { A } else { B }
                    let bound = match self.some_pattern(&l.pat) {
                        Some(b) => b,
                        None => return self.if_let_general(i, l, e, else_stmts, else_if, env, mode, rest),
                    };
                    let (s, st) = self.expr(&l.expr, env)?;
                    let inner = match st {
                        Ty::Opt(t) => *t,
                        _ => return self.unsupported(l.span(), "`if let Some(..)` on a value that is not an Option"),
                    };
                    let borrow = self.last_borrow.take().filter(|b| b.value == s.s);
                    self.check_effect_order(&l.expr)?;
                    let pre = self.take_pre();
                    let nb = Self::binds_in(&pre);
                    if nb > 0 && mode != Mode::Tail {
                        return self.unsupported(l.span(), "early exit to `None` inside a nested statement block:");
                    }
                    let else_stmts = match (else_stmts, else_if) {
                        (Some(s), _) => s,
                        (None, Some(ei)) => vec![Stmt::Expr(ei.clone(), None)],
                        _ => vec![],
                    };
                    let mut env2 = env.clone();
                    let kind = match borrow {
                        Some(mut b) => {
                            b.value = lean_ident(&bound);
                            Kind::MutBorrow(b)
                        }
                        None => Kind::Plain,
                    };
                    env2.push(Var { name: bound.clone(), ty: inner, kind });
                    self.match_depth += 1 + nb;
                    let a = self.branch(&i.then_branch.stmts, &env2, mode, rest, i.then_branch.span(), &[bound.clone()]);
                    let b = self.branch(&else_stmts, env, mode, rest, e.span(), &[]);
                    self.match_depth -= 1 + nb;
                    let (a, b) = (a?, b?);
                    let mut lines = vec![format!("match {} with  -- L{}: if let Some({}) = …", s.s, line_of(e.span()), bound)];
                    lines.push(format!("| some {} =>", lean_ident(&bound)));
                    lines.extend(indent(a));
                    lines.push(format!("| none =>  -- else"));
                    lines.extend(indent(b));
                    self.match_depth += nb;
                    let lines = self.paren_match(lines);
                    self.match_depth -= nb;
                    return Ok(self.wrap(pre, lines));
                }
                let c = self.cond(&i.cond, env)?;
                self.check_effect_order(&i.cond)?;
                let pre = self.take_pre();
                let nb = Self::binds_in(&pre);
                if nb > 0 && mode != Mode::Tail {
                    return self.unsupported(i.cond.span(), "early exit to `None` inside a nested statement block:");
                }
                self.match_depth += nb;
                let r = self.if_branches(i, e, c, else_stmts, else_if, env, mode, rest);
                self.match_depth -= nb;
                Ok(self.wrap(pre, r?))
            }
            Expr::Match(m) => self.match_stmt(m, e, env, mode, rest),
            _ => self.unsupported(e.span(), "control statement"),
        }
    }

    /// `if let PAT = e { A } else { B }` for a general pattern: `match e with | PAT => A | _ => B`; a tuple scrutinee
    /// `(e1, e2)` is matched component-wise
    #[allow(clippy::too_many_arguments)]
    fn if_let_general(&mut self, i: &syn::ExprIf, l: &syn::ExprLet, e: &Expr, else_stmts: Option<Vec<Stmt>>, else_if: Option<&Expr>, env: &Env, mode: Mode, rest: &[Stmt]) -> Res<Vec<String>> {
        let sp = l.span();
        let (scruts, pats): (Vec<&Expr>, Vec<&Pat>) = match (&*l.expr, &*l.pat) {
            (Expr::Tuple(t), Pat::Tuple(p)) if t.elems.len() == p.elems.len() => (t.elems.iter().collect(), p.elems.iter().collect()),
            (x, p) => (vec![x], vec![p]),
        };
        let mut env2 = env.clone();
        let mut ls = vec![];
        let mut ps = vec![];
        for (x, p) in scruts.iter().zip(&pats) {
            let (s, st) = self.expr(x, env)?;
            ls.push(s.s);
            ps.push(self.pattern(p, &st, &mut env2, sp)?);
        }
        self.check_effect_order(&l.expr)?;
        self.last_borrow = None;
        let pre = self.take_pre();
        let nb = Self::binds_in(&pre);
        if nb > 0 && mode != Mode::Tail {
            return self.unsupported(sp, "early exit to `None` inside a nested statement block:");
        }
        let else_stmts = match (else_stmts, else_if) {
            (Some(s), _) => s,
            (None, Some(ei)) => vec![Stmt::Expr(ei.clone(), None)],
            _ => vec![],
        };
        let mut bound = vec![];
        for p in &pats {
            pat_names(p, &mut bound);
        }
        self.match_depth += 1 + nb;
        let a = self.branch(&i.then_branch.stmts, &env2, mode, rest, i.then_branch.span(), &bound);
        let b = self.branch(&else_stmts, env, mode, rest, e.span(), &[]);
        self.match_depth -= 1 + nb;
        let (a, b) = (a?, b?);
        let mut lines = vec![format!("match {} with  -- L{}: if let …", ls.join(", "), line_of(e.span()))];
        lines.push(format!("| {} =>", ps.join(", ")));
        lines.extend(indent(a));
        lines.push(format!("| {} =>  -- else", vec!["_"; ps.len()].join(", ")));
        lines.extend(indent(b));
        self.match_depth += nb;
        let lines = self.paren_match(lines);
        self.match_depth -= nb;
        Ok(self.wrap(pre, lines))
    }

    #[allow(clippy::too_many_arguments)]
    fn if_branches(&mut self, i: &syn::ExprIf, e: &Expr, c: String, else_stmts: Option<Vec<Stmt>>, else_if: Option<&Expr>, env: &Env, mode: Mode, rest: &[Stmt]) -> Res<Vec<String>> {
        let a = self.branch(&i.then_branch.stmts, env, mode, rest, i.then_branch.span(), &[])?;
        let mut lines = vec![format!("if {c} then  -- L{}", line_of(e.span()))];
        lines.extend(indent(a));
        match (else_stmts, else_if) {
            (Some(s), _) => {
                let b = self.branch(&s, env, mode, rest, e.span(), &[])?;
                if b.len() == 1 && !b[0].contains("--") {
                    lines.push(format!("else {}", b[0]));
                } else {
                    lines.push("else".to_string());
                    lines.extend(indent(b));
                }
            }
            (None, Some(ei)) => {
                // else if …: `if a {A} else if b {B} else {C}; rest` = `if a {A; rest} else { if b {B; rest} else {C; rest} }`
                let b = self.control(ei, env, mode, rest)?;
                if b.first().map(|l| l.starts_with("if ")).unwrap_or(false) {
                    lines.push(format!("else {}", b[0]));
                    lines.extend(b.into_iter().skip(1));
                } else {
                    lines.push("else".to_string());
                    lines.extend(indent(b));
                }
            }
            _ => unreachable!(),
        }
        Ok(lines)
    }

    fn match_stmt(&mut self, m: &syn::ExprMatch, e: &Expr, env: &Env, mode: Mode, rest: &[Stmt]) -> Res<Vec<String>> {
        if !m.attrs.is_empty() {
            return self.unsupported(e.span(), "attribute");
        }
        self.begin_stmt();
        if let Expr::Tuple(t) = &*m.expr {
            return self.match_tuple(m, t, e, env, mode, rest);
        }
        let (s, st) = self.expr(&m.expr, env)?;
        self.check_effect_order(&m.expr)?;
        let pre = self.take_pre();
        let nb = Self::binds_in(&pre);
        if nb > 0 && mode != Mode::Tail {
            return self.unsupported(m.expr.span(), "early exit to `None` inside a nested statement block:");
        }
        // (Lean pattern, bound variables with types, body)
        let mut arms: Vec<(String, Vec<(String, Ty)>, &Expr)> = vec![];
        match &st {
            Ty::Bool => {
                // match b { true => A, false => B }
                let mut seen: Vec<bool> = vec![];
                for arm in &m.arms {
                    if arm.guard.is_some() || !arm.attrs.is_empty() {
                        return self.unsupported(arm.span(), "match arm with a guard or an attribute");
                    }
                    let v = match &arm.pat {
                        Pat::Lit(l) => match &l.lit {
                            Lit::Bool(b) => b.value,
                            _ => return self.unsupported(arm.pat.span(), "match pattern (only `true` and `false`)"),
                        },
                        _ => return self.unsupported(arm.pat.span(), "match pattern (only `true` and `false`)"),
                    };
                    if seen.contains(&v) {
                        return self.err(arm.pat.span(), format!("`{v}` matched twice"));
                    }
                    seen.push(v);
                    arms.push((v.to_string(), vec![], &arm.body));
                }
                if seen.len() != 2 {
                    return self.unsupported(e.span(), "`match` on a bool without both `true` and `false` arms;");
                }
            }
            Ty::Named { rust, .. } => {
                let variants = match self.enum_variants(rust) {
                    Some(Ok(v)) => v,
                    Some(Err(why)) => return self.unsupported(e.span(), format!("`match` on an enum with named fields ({why});")),
                    None => return self.err(e.span(), format!("outside the supported subset: `match` on `{rust}`, which is not an enum defined in this file")),
                };
                let mut seen: Vec<String> = vec![];
                for arm in &m.arms {
                    if arm.guard.is_some() || !arm.attrs.is_empty() {
                        return self.unsupported(arm.span(), "match arm with a guard or an attribute");
                    }
                    let pats: Vec<&Pat> = match &arm.pat {
                        Pat::Or(o) => o.cases.iter().collect(),
                        p => vec![p],
                    };
                    let mut lean_pats = vec![];
                    let mut bound: Vec<(String, Ty)> = vec![];
                    for p in &pats {
                        let is_variant_path = |path: &syn::Path| path.segments.len() == 2 && (path.segments[0].ident == rust.as_str() || path.segments[0].ident == "Self");
                        let (v, subs): (String, Vec<String>) = match p {
                            Pat::Path(pp) if pp.qself.is_none() && is_variant_path(&pp.path) => (pp.path.segments[1].ident.to_string(), vec![]),
                            Pat::TupleStruct(ts) if ts.qself.is_none() && is_variant_path(&ts.path) && pats.len() == 1 => {
                                let mut subs = vec![];
                                for el in &ts.elems {
                                    match el {
                                        Pat::Ident(i) if i.by_ref.is_none() && i.mutability.is_none() && i.subpat.is_none() => subs.push(i.ident.to_string()),
                                        _ => return self.unsupported(p.span(), "match pattern (the fields of a variant can only be bound to names)"),
                                    }
                                }
                                (ts.path.segments[1].ident.to_string(), subs)
                            }
                            _ => return self.unsupported(p.span(), format!("match pattern (only `{rust}::Variant`, one arm per variant, no `_`)")),
                        };
                        let ftys = match variants.iter().find(|(n, _)| *n == v) {
                            Some((_, f)) => f.clone(),
                            None => return self.err(p.span(), format!("`{rust}` has no variant `{v}`")),
                        };
                        if ftys.len() != subs.len() {
                            return self.err(p.span(), format!("`{rust}::{v}` has {} field(s)", ftys.len()));
                        }
                        if seen.contains(&v) {
                            return self.err(p.span(), format!("variant `{v}` matched twice"));
                        }
                        seen.push(v.clone());
                        for (x, t) in subs.iter().zip(&ftys) {
                            bound.push((x.clone(), self.ty(t)?));
                        }
                        let args: Vec<String> = subs.iter().map(|x| lean_ident(x)).collect();
                        lean_pats.push(self.lean_variant(rust, &v, &args));
                    }
                    arms.push((lean_pats.join(" | "), bound, &arm.body));
                }
                for (v, _) in &variants {
                    if !seen.contains(v) {
                        return self.err(e.span(), format!("outside the supported subset: `match` without an arm for `{rust}::{v}`"));
                    }
                }
            }
            Ty::Opt(inner) => {
                let mut some = false;
                let mut none = false;
                for arm in &m.arms {
                    if arm.guard.is_some() || !arm.attrs.is_empty() {
                        return self.unsupported(arm.span(), "match arm with a guard or an attribute");
                    }
                    match &arm.pat {
                        Pat::TupleStruct(ts) if ts.path.is_ident("Some") && ts.elems.len() == 1 && !some => match &ts.elems[0] {
                            Pat::Ident(p) if p.by_ref.is_none() && p.mutability.is_none() && p.subpat.is_none() => {
                                some = true;
                                let x = p.ident.to_string();
                                arms.push((format!("some {}", lean_ident(&x)), vec![(x, (**inner).clone())], &arm.body));
                            }
                            _ => return self.unsupported(arm.pat.span(), "match pattern (only `Some(x)` and `None`)"),
                        },
                        Pat::Ident(p) if p.ident == "None" && p.subpat.is_none() && p.by_ref.is_none() && p.mutability.is_none() && !none => {
                            none = true;
                            arms.push(("none".to_string(), vec![], &arm.body));
                        }
                        _ => return self.unsupported(arm.pat.span(), "match pattern (only `Some(x)` and `None`, once each)"),
                    }
                }
                if !(some && none) {
                    return self.unsupported(e.span(), "`match` on an Option without both `Some(x)` and `None` arms;");
                }
            }
            _ => return self.unsupported(e.span(), "`match` on a value that is neither an enum of this file, an Option nor a bool;"),
        }
        let mut lines = vec![format!("match {} with  -- L{}", s.s, line_of(e.span()))];
        self.match_depth += 1 + nb;
        let mut res = Ok(());
        for (pat, bound, body) in arms {
            let stmts: Vec<Stmt> = match body {
                Expr::Block(b) if b.label.is_none() && b.attrs.is_empty() => b.block.stmts.clone(),
                other => vec![Stmt::Expr(other.clone(), None)],
            };
            let mut env2 = env.clone();
            let mut names = vec![];
            for (x, t) in bound {
                names.push(x.clone());
                env2.push(var(x, t));
            }
            match self.branch(&stmts, &env2, mode, rest, body.span(), &names) {
                Ok(b) => {
                    lines.push(format!("| {pat} =>  -- L{}", line_of(body.span())));
                    lines.extend(indent(b));
                }
                Err(x) => {
                    res = Err(x);
                    break;
                }
            }
        }
        self.match_depth -= 1 + nb;
        res?;
        self.match_depth += nb;
        let lines = self.paren_match(lines);
        self.match_depth -= nb;
        Ok(self.wrap(pre, lines))
    }

    /// `match (a, b, …) { (P, Q, …) | … => e, … }` on fieldless enums of the file: an alternative inside a component
    /// (`A::X | A::Y`) is multiplied out (Lean has alternatives between whole patterns only); every combination once
    fn match_tuple(&mut self, m: &syn::ExprMatch, t: &syn::ExprTuple, e: &Expr, env: &Env, mode: Mode, rest: &[Stmt]) -> Res<Vec<String>> {
        let mut scrut = vec![];
        let mut enums: Vec<(String, Vec<String>)> = vec![];
        for x in &t.elems {
            let is_self = matches!(x, Expr::Path(p) if p.path.is_ident("self"));
            let (l, ty) = match (is_self, self.lookup(env, "self")) {
                (true, Some(v)) => (L::atom("self"), v.ty.clone()),
                _ => self.expr(x, env)?,
            };
            let rust = match &ty {
                Ty::Named { rust, .. } => rust.clone(),
                _ => return self.unsupported(x.span(), "`match` on a tuple whose components are not fieldless enums of this file:"),
            };
            match self.enum_variants(&rust) {
                Some(Ok(vs)) if vs.iter().all(|(_, f)| f.is_empty()) => enums.push((rust, vs.into_iter().map(|(n, _)| n).collect())),
                _ => return self.unsupported(x.span(), "`match` on a tuple whose components are not fieldless enums of this file:"),
            }
            scrut.push(l.s);
        }
        if !self.pre.is_empty() {
            return self.unsupported(e.span(), "early exit or effect in the scrutinee of a tuple `match`:");
        }
        let mut seen: Vec<Vec<String>> = vec![];
        let mut lines = vec![format!("match {} with  -- L{}", scrut.join(", "), line_of(e.span()))];
        self.match_depth += 1;
        let mut res: Res<()> = Ok(());
        'arms: for arm in &m.arms {
            if arm.guard.is_some() || !arm.attrs.is_empty() {
                res = self.unsupported(arm.span(), "match arm with a guard or an attribute");
                break;
            }
            let alts: Vec<&Pat> = match &arm.pat {
                Pat::Or(o) => o.cases.iter().collect(),
                p => vec![p],
            };
            let mut combos: Vec<Vec<String>> = vec![];
            for alt in alts {
                let comps = match alt {
                    Pat::Tuple(pt) if pt.elems.len() == enums.len() => pt,
                    _ => {
                        res = self.unsupported(alt.span(), "match pattern (only tuples of enum variants)");
                        break 'arms;
                    }
                };
                let mut partial: Vec<Vec<String>> = vec![vec![]];
                for (cp, (en, vs)) in comps.elems.iter().zip(&enums) {
                    let cps: Vec<&Pat> = match cp {
                        Pat::Or(o) => o.cases.iter().collect(),
                        Pat::Paren(p) => match &*p.pat {
                            Pat::Or(o) => o.cases.iter().collect(),
                            q => vec![q],
                        },
                        p => vec![p],
                    };
                    let mut names = vec![];
                    for c in cps {
                        match c {
                            Pat::Path(pp) if pp.qself.is_none() && pp.path.segments.len() == 2 && (pp.path.segments[0].ident == en.as_str() || pp.path.segments[0].ident == "Self") && vs.contains(&pp.path.segments[1].ident.to_string()) => names.push(pp.path.segments[1].ident.to_string()),
                            _ => {
                                res = self.unsupported(c.span(), format!("match pattern (only `{en}::Variant`, no `_`)"));
                                break 'arms;
                            }
                        }
                    }
                    let mut next = vec![];
                    for p in &partial {
                        for n in &names {
                            let mut q = p.clone();
                            q.push(n.clone());
                            next.push(q);
                        }
                    }
                    partial = next;
                }
                combos.extend(partial);
            }
            for c in &combos {
                if seen.contains(c) {
                    res = self.err(arm.pat.span(), format!("the combination ({}) is matched twice", c.join(", ")));
                    break 'arms;
                }
                seen.push(c.clone());
            }
            let pats: Vec<String> = combos.iter().map(|c| c.iter().zip(&enums).map(|(v, (en, _))| self.lean_variant(en, v, &[])).collect::<Vec<_>>().join(", ")).collect();
            let stmts: Vec<Stmt> = match &*arm.body {
                Expr::Block(b) if b.label.is_none() && b.attrs.is_empty() => b.block.stmts.clone(),
                other => vec![Stmt::Expr(other.clone(), None)],
            };
            match self.branch(&stmts, env, mode, rest, arm.body.span(), &[]) {
                Ok(b) => {
                    lines.push(format!("| {} =>  -- L{}", pats.join(" | "), line_of(arm.body.span())));
                    lines.extend(indent(b));
                }
                Err(x) => {
                    res = Err(x);
                    break;
                }
            }
        }
        self.match_depth -= 1;
        res?;
        let total: usize = enums.iter().map(|(_, v)| v.len()).product();
        if seen.len() != total {
            return self.err(e.span(), format!("outside the supported subset: `match` on a tuple that covers {} of {} combinations", seen.len(), total));
        }
        Ok(self.paren_match(lines))
    }

    // ---------------------------------------------------------------- functions

    /// `F: FnOnce(A) -> B` (inline or in the where clause) for every generic parameter of the fn
    fn fn_generics(&mut self, sig: &syn::Signature) -> Res<()> {
        self.closures.clear();
        self.intos.clear();
        let sp = sig.span();
        for gp in &sig.generics.params {
            let tp = match gp {
                syn::GenericParam::Type(tp) => tp,
                _ => return self.unsupported(sp, "generic function"),
            };
            let name = tp.ident.to_string();
            let mut bounds: Vec<&syn::TypeParamBound> = tp.bounds.iter().collect();
            if let Some(wc) = &sig.generics.where_clause {
                for pred in &wc.predicates {
                    if let syn::WherePredicate::Type(pt) = pred {
                        if matches!(&pt.bounded_ty, Type::Path(p) if p.path.is_ident(&name)) {
                            bounds.extend(pt.bounds.iter());
                        }
                    }
                }
            }
            // `E: Into<T>`: the parameter stands for `T`, `.into()` is the identity
            if let [syn::TypeParamBound::Trait(tb)] = bounds.as_slice() {
                if let Some(seg) = tb.path.segments.last() {
                    if seg.ident == "Into" {
                        if let syn::PathArguments::AngleBracketed(ab) = &seg.arguments {
                            if let (1, Some(syn::GenericArgument::Type(t))) = (ab.args.len(), ab.args.first()) {
                                let target = self.ty(t)?;
                                note!(self, generics, format!("the type parameter `{}: Into<{}>` of fn {} is `{}` (`.into()` is the identity: the conversion is not translated)", name, self.src_text(t.span()), self.fn_name, target.lean()));
                                self.closures.push((name.clone(), target));
                                self.intos.push(name);
                                continue;
                            }
                        }
                    }
                }
            }
            let f = match bounds.as_slice() {
                [syn::TypeParamBound::Trait(tb)] => self.fn_trait(&tb.path, sp)?,
                _ => None,
            };
            match f {
                Some(f) => self.closures.push((name, f)),
                None => return self.unsupported(sp, "generic function"),
            }
        }
        if let Some(wc) = &sig.generics.where_clause {
            for pred in &wc.predicates {
                let ok = matches!(pred, syn::WherePredicate::Type(pt) if matches!(&pt.bounded_ty, Type::Path(p) if self.closures.iter().any(|(n, _)| p.path.is_ident(n))));
                if !ok {
                    return self.unsupported(sp, "generic function");
                }
            }
        }
        Ok(())
    }

    pub(crate) fn function(&mut self, ty_name: &str, f: &syn::ImplItemFn) -> Res<Vec<String>> {
        let sig = &f.sig;
        self.cur_type = ty_name.to_string();
        self.fn_name = sig.ident.to_string();
        self.deceq.clear();
        self.inh.clear();
        self.match_depth = 0;
        self.pre.clear();
        self.no_hoist = 0;
        self.state = vec![];
        self.mut_params.clear();
        self.mut_idx.clear();
        self.loop_ctx = None;
        self.deferred_tys.clear();
        self.idents.clear();
        {
            use quote::ToTokens;
            collect_idents(f.to_token_stream(), &mut self.idents);
        }
        let sp = sig.span();
        if sig.asyncness.is_some() || sig.unsafety.is_some() || sig.abi.is_some() || sig.variadic.is_some() {
            return self.unsupported(sp, "async/unsafe/extern function");
        }
        self.into_params.clear();
        self.fn_generics(sig)?;
        self.has_self = false;
        self.self_mut = false;
        let primary = ty_name == self.opts.impl_type;
        let self_ty = self.self_lean(ty_name);
        let mut env: Env = vec![];
        let mut binders: Vec<String> = vec![];
        let mut params: Vec<Ty> = vec![];
        let mut mut_param_tys: Vec<String> = vec![];
        for a in &sig.inputs {
            match a {
                FnArg::Receiver(r) => {
                    let copy_enum = matches!(self.enum_variants(ty_name), Some(Ok(vs)) if vs.iter().all(|(_, f)| f.is_empty()));
                    if (r.reference.is_none() && !copy_enum) || r.colon_token.is_some() {
                        return self.unsupported(r.span(), "receiver (only `&self` and `&mut self`; `self` by value for a fieldless enum)");
                    }
                    self.has_self = true;
                    self.self_mut = r.mutability.is_some();
                    binders.push(format!("(self : {self_ty})"));
                    env.push(var("self", Ty::Named { rust: ty_name.to_string(), lean: self_ty.clone(), tyvar: false }));
                }
                FnArg::Typed(pt) => {
                    let (name, mut_binding) = match &*pt.pat {
                        Pat::Ident(p) if p.by_ref.is_none() && p.subpat.is_none() => (p.ident.to_string(), p.mutability.is_some()),
                        _ => return self.unsupported(pt.span(), "argument pattern (only `x: T`, no `mut`)"),
                    };
                    // `x: &mut S` for a struct `S`: state, threaded through like `self`
                    if let Type::Reference(r) = &*pt.ty {
                        if r.mutability.is_some() {
                            let t = self.ty(&r.elem)?;
                            if !matches!(t, Ty::Named { tyvar: false, .. }) || mut_binding {
                                return self.unsupported(pt.span(), "`&mut` parameter (only of a struct type)");
                            }
                            binders.push(format!("({} : {})", lean_ident(&name), t.lean()));
                            params.push(t.clone());
                            mut_param_tys.push(t.lean());
                            self.mut_idx.push(params.len() - 1);
                            note!(self, refs, format!("`{}: {}` (fn {}): state, threaded through like `self` of a `&mut self` method (the function returns its new value)", name, self.src_text(pt.ty.span()), self.fn_name));
                            self.mut_params.push(name.clone());
                            env.push(var(name, t));
                            continue;
                        }
                    }
                    let t = self.ty(&pt.ty)?;
                    if matches!(&*pt.ty, Type::Path(p) if p.path.get_ident().map(|i| self.intos.contains(&i.to_string())).unwrap_or(false)) {
                        self.into_params.push(name.clone());
                    }
                    if mut_binding && !matches!(t, Ty::Fn(..)) {
                        return self.unsupported(pt.span(), "argument pattern (only `x: T`, no `mut`)");
                    }
                    if matches!(&*pt.ty, Type::Reference(_)) {
                        note!(self, refs, format!("`{}: {}` (fn {}): a shared reference is the value it points to", name, self.src_text(pt.ty.span()), self.fn_name));
                    }
                    if let Ty::Fn(..) = t {
                        note!(self, closures, format!("`{}` (fn {}, `{}`) is a pure Lean function: what the closure captures, and its unwinding, are not modelled", name, self.fn_name, t.lean()));
                    }
                    binders.push(format!("({} : {})", lean_ident(&name), t.lean()));
                    params.push(t.clone());
                    env.push(var(name, t));
                }
            }
        }
        self.ret_borrow = None;
        self.ret = match &sig.output {
            ReturnType::Default => Ty::Unit,
            // `-> &mut T`: a mutable borrow of an element of a Vec field of `self`; the function returns the element's index
            ReturnType::Type(_, t) => match &**t {
                Type::Reference(r) if r.mutability.is_some() && self.self_mut => {
                    let elem = self.ty(&r.elem)?;
                    self.ret_borrow = Some((vec![], elem));
                    note!(self, refs, format!("fn {} returns `{}`, a mutable borrow of an element of a Vec of `self`: the Lean function returns the element's index, the caller works on a copy and writes it back", self.fn_name, self.src_text(t.span())));
                    Ty::usize()
                }
                _ => self.ty(t)?,
            },
        };
        if self.state_base().is_empty() && self.ret == Ty::Unit {
            return self.unsupported(sp, if self.has_self { "`&self` method without a result" } else { "associated function without a result" });
        }
        {
            use quote::ToTokens;
            let mut ids = BTreeSet::new();
            collect_idents(f.block.to_token_stream(), &mut ids);
            // `panic!` in the body, or a call of something that can panic (by name)
            self.has_panic = tokens_have_panic(f.block.to_token_stream())
                || self.prims.iter().any(|p| p.panics && ids.contains(&p.name))
                || self.sigs.iter().any(|s| s.has_panic && ids.contains(&s.name));
        }
        let body = self.block(&f.block.stmts, &env, Mode::Tail, f.block.span())?;
        let mut comps: Vec<String> = vec![];
        if self.self_mut {
            comps.push(self_ty.clone());
        }
        comps.extend(mut_param_tys.iter().cloned());
        if self.ret != Ty::Unit {
            comps.push(self.ret.lean());
        }
        let ret = if comps.len() == 1 { comps[0].clone() } else { comps.iter().map(|c| paren_ty(c)).collect::<Vec<_>>().join(" × ") };
        let ret = if comps.len() > 1 && self.self_mut && mut_param_tys.is_empty() { format!("{} × {}", self_ty, paren_ty(&self.ret.lean())) } else { ret };
        let ret = if self.has_panic { format!("Outcome ({ret})") } else { ret };
        let mut inst: Vec<String> = self.deceq.iter().map(|v| format!("[DecidableEq {v}]")).collect();
        inst.extend(self.inh.iter().map(|v| format!("[Inhabited {v}]")));
        let lean_name = if primary || ty_name.is_empty() { lean_ident(&self.fn_name) } else { format!("{}.{}", lean_ident(ty_name), lean_ident(&self.fn_name)) };
        let mut head = format!("def {lean_name}");
        for b in inst.iter().chain(binders.iter()) {
            head.push(' ');
            head.push_str(b);
        }
        head.push_str(&format!(" : {ret} :="));
        let (l0, l1) = (line_of(f.span()), f.span().end().line);
        let what = match (self.has_self, self.self_mut, &self.ret) {
            _ if !self.mut_params.is_empty() => "returns the new state (`self` of a `&mut self` method, the `&mut` parameters) and the result",
            (false, _, _) => "no receiver",
            (_, true, Ty::Unit) => "returns the new `self`",
            (_, true, _) => "returns `(new self, result)`",
            (_, false, _) => "reads `self`",
        };
        let what = if self.has_panic { format!("{what}; `.panic` where the code panics") } else { what.to_string() };
        let mut lines = vec![format!("/-- `{}::{}` ({} lines {}–{}); {} -/", ty_name, self.fn_name, self.label, l0, l1, what), head];
        lines.extend(indent(body));
        self.sigs.push(Sig {
            ty: ty_name.to_string(),
            name: self.fn_name.clone(),
            has_self: self.has_self,
            self_mut: self.self_mut,
            params,
            ret: self.ret.clone(),
            has_panic: self.has_panic,
            mut_params: self.mut_params.len(),
            mut_idx: self.mut_idx.clone(),
            ret_borrow: self.ret_borrow.clone(),
            lean: lean_name,
            deceq: self.deceq.clone(),
            inh: self.inh.clone(),
        });
        Ok(lines)
    }
}
