//! rs2lean <file.rs> <ImplType> <fn> [<fn> …] [options]   — see `lib.rs` for the supported subset
//!
//! options
//!   --namespace NS        Lean namespace of the output            (default Evenio.Gen.<ImplType>)
//!   --self-type "T ρ"     Lean type standing for Self             (default <ImplType>)
//!   --type Rust=Lean      Lean type of a named Rust type          (repeatable)
//!   --tyvar ρ             bind a Lean type variable               (repeatable)
//!   --variant E::V=.ctor  Lean constructor of an enum variant     (default `.v`, first letter lower-cased)
//!   --import M / --open N Lean imports / opened namespaces        (default Evenio.Generated.Rs2LeanPrelude / Evenio.Rs2Lean)
//!   --label TEXT          how the source file is named in the output (default: the path given)
//!   --field S.f=name      Lean field name of the Rust field `f` of struct `S` (`S.f.m`: member `m` of the union-typed field `f`)
//!   --inactive U.m=term   the value the field of union member `m` gets in a union literal that initialises another member
//!   --prim 'SIG=term'     a function / constant taken as given: `T::f(A, B) -> R`, `T::f(self, A) -> R`, `T::C: R`; `_` = identity;
//!                         `T::f(&mut self, A) -> R`: the Lean function returns `(new receiver, result)`; `-> Outcome<R>`: it can panic;
//!                         `::Name(T) -> R`: a tuple-struct constructor
//!   --transparent S       the one-field struct `S` is represented by its field (its Lean type is given by --type)
//!   --bits Name=w         the type `Name` is a block of `w` bits (`BitVec w`; `& | ^ ! << >>` are the bit operations)
//!   --enum E=V1(T)|V2     the variants of an enum defined in another file
//!   --map C=get,set       a container with keyed elements (`c.get_mut(k)` is a borrow: `get c k : Option v`, `set c k v : c`)
//!   --iter-mut C=map,mapS how `for (k, v) in &mut c` is a map (`map c (fun k v => v)`, `mapS c s (fun k v s => (v, s))`)
//!   --struct S            emit a Lean structure for the struct `S` of the file (PhantomData fields dropped)
//! a function name may be `Type::name` (a method of another impl of the same file; emitted as `Type.name`)
use rs2lean::{translate, Options};
use std::process::ExitCode;

fn usage() -> ExitCode {
    eprintln!("usage: rs2lean <file.rs> <ImplType> <fn> [<fn> …] [--namespace NS] [--self-type T] [--type R=L]… [--tyvar v]… [--variant E::V=ctor]… [--import M]… [--open N]… [--label TEXT] [--field S.f=name]… [--inactive U.m=term]… [--prim SIG=term]… [--struct S]…");
    ExitCode::from(2)
}

fn main() -> ExitCode {
    let args: Vec<String> = std::env::args().skip(1).collect();
    let mut pos: Vec<String> = vec![];
    let mut o = Options::default();
    let mut i = 0;
    while i < args.len() {
        let a = &args[i];
        if let Some(flag) = a.strip_prefix("--") {
            let v = match args.get(i + 1) {
                Some(v) => v.clone(),
                None => {
                    eprintln!("rs2lean: option --{flag} needs a value");
                    return usage();
                }
            };
            let pair = |v: &str| -> Option<(String, String)> { v.split_once('=').map(|(a, b)| (a.trim().to_string(), b.trim().to_string())) };
            match flag {
                "namespace" => o.namespace = Some(v),
                "self-type" => o.self_type = Some(v),
                "tyvar" => o.tyvars.push(v),
                "import" => o.imports.push(v),
                "open" => o.opens.push(v),
                "label" => o.source_label = v,
                "struct" => o.structs.push(v),
                "transparent" => o.transparent.push(v),
                "enum" => match pair(&v) {
                    Some(p) => o.enums.push(p),
                    None => {
                        eprintln!("rs2lean: --enum expects Name=V1(T)|V2, got `{v}`");
                        return usage();
                    }
                },
                "map" | "iter-mut" => match pair(&v).and_then(|(n, fs)| fs.split_once(',').map(|(a, b)| (n, a.trim().to_string(), b.trim().to_string()))) {
                    Some(t) if flag == "map" => o.maps.push(t),
                    Some(t) => o.iter_muts.push(t),
                    None => {
                        eprintln!("rs2lean: --{flag} expects Name=fn1,fn2, got `{v}`");
                        return usage();
                    }
                },
                "bits" => match pair(&v).and_then(|(a, b)| b.parse::<u32>().ok().map(|w| (a, w))) {
                    Some(p) => o.bits.push(p),
                    None => {
                        eprintln!("rs2lean: --bits expects Name=width, got `{v}`");
                        return usage();
                    }
                },
                "prim" => match v.split_once('=') {
                    Some((a, b)) => o.prims.push((a.trim().to_string(), b.trim().to_string())),
                    None => {
                        eprintln!("rs2lean: --prim expects SIG=term, got `{v}`");
                        return usage();
                    }
                },
                "type" | "variant" | "field" | "inactive" => match pair(&v) {
                    Some(p) if flag == "type" => o.type_map.push(p),
                    Some(p) if flag == "field" => o.field_map.push(p),
                    Some(p) if flag == "inactive" => o.inactive.push(p),
                    Some(p) => o.variant_map.push(p),
                    None => {
                        eprintln!("rs2lean: --{flag} expects A=B, got `{v}`");
                        return usage();
                    }
                },
                _ => {
                    eprintln!("rs2lean: unknown option --{flag}");
                    return usage();
                }
            }
            i += 2;
        } else {
            pos.push(a.clone());
            i += 1;
        }
    }
    if pos.len() < 3 {
        return usage();
    }
    let path = pos[0].clone();
    o.impl_type = pos[1].clone();
    o.fns = pos[2..].to_vec();
    if o.source_label.is_empty() {
        o.source_label = path.clone();
    }
    let src = match std::fs::read_to_string(&path) {
        Ok(s) => s,
        Err(e) => {
            eprintln!("rs2lean: cannot read {path}: {e}");
            return ExitCode::from(1);
        }
    };
    match translate(&src, &o) {
        Ok(lean) => {
            print!("{lean}");
            ExitCode::SUCCESS
        }
        Err(e) => {
            eprintln!("rs2lean: {e}");
            ExitCode::from(1)
        }
    }
}
