//! rs2lean — translator from a restricted subset of Rust (small, pure methods of one `impl` block) to Lean 4.
//!
//! The translation is purely syntactic and state-passing:
//!   * a `&mut self` method becomes a function that takes `self` and returns the new `self`
//!     (paired with the return value, `(self, value)`, when the Rust method returns one);
//!   * every statement that changes a field becomes `let self := { self with f := … }`;
//!   * an `if`/`match` statement becomes `let self := if … then … else self`;
//!   * an `if`/`match` statement containing an early `return` takes the rest of the block into its branches.
//! Everything outside the supported subset is rejected with an error (file:line: message) — the translator never guesses.
//!
//! Supported subset
//!   items       `impl T { fn f(&self | &mut self, x: Ty, …) [-> Ty] { … } }`, no generics on the fn, no `unsafe`
//!   types       u8 u16 u32 u64 usize (→ Nat), bool, `Vec<T>` (→ List), `Option<T>`, named types given by `--type R=L`
//!   statements  `let x = e;` (shadowing allowed, no `mut`), `self.f = e;`, `self.f += e;`, `self.f -= e;`,
//!               `self.f.insert(i, x);` `self.f.push(x);` `self.f.remove(i);` (f a Vec field),
//!               `assert!(…);` / `debug_assert!(…);` (skipped, listed in the header), `return [e];`,
//!               `if c {…} [else if …] [else {…}]`, `if let Some(x) = e {…} [else {…}]`,
//!               `match e { … }` on a fieldless enum of the same file (one arm per variant, no guard, no `_`) or on an `Option`
//!   expressions integer / bool literals, locals, `self.f`, `e as u32|usize|…` (identity), `+ -`, `< <= > >= == !=`, `&& || !`,
//!               `self.f.len()`, `self.f.iter().position(|&p| p == x)`, `Some(e)`, `None`, parentheses

use proc_macro2::Span;
use std::collections::BTreeSet;
use syn::spanned::Spanned;
use syn::{BinOp, Block, Expr, FnArg, ImplItem, Item, Lit, Pat, ReturnType, Stmt, Type, UnOp};

#[derive(Clone, Debug, Default)]
pub struct Options {
    pub impl_type: String,
    pub fns: Vec<String>,
    /// Lean namespace of the output (default `Evenio.Gen.<ImplType>`)
    pub namespace: Option<String>,
    /// Lean type standing for `Self` (default: the impl type's name)
    pub self_type: Option<String>,
    /// Rust type name → Lean type
    pub type_map: Vec<(String, String)>,
    /// Lean type variables to bind (`variable {ρ : Type}`)
    pub tyvars: Vec<String>,
    /// `Enum::Variant` → Lean constructor (default: `.variant`, first letter lower-cased)
    pub variant_map: Vec<(String, String)>,
    pub imports: Vec<String>,
    pub opens: Vec<String>,
    /// how the source file is named in the output
    pub source_label: String,
}

#[derive(Debug)]
pub struct Error(pub String);
type Res<T> = Result<T, Error>;

impl std::fmt::Display for Error {
    fn fmt(&self, f: &mut std::fmt::Formatter<'_>) -> std::fmt::Result {
        write!(f, "{}", self.0)
    }
}

#[derive(Clone, Debug, PartialEq)]
enum Ty {
    /// bits (usize counted as 64; 0 = unsuffixed literal), Rust name
    Int(u8, String),
    Bool,
    Unit,
    Named { rust: String, lean: String, tyvar: bool },
    Vec(Box<Ty>),
    Opt(Box<Ty>),
}

impl Ty {
    fn lean(&self) -> String {
        match self {
            Ty::Int(..) => "Nat".into(),
            Ty::Bool => "Bool".into(),
            Ty::Unit => "Unit".into(),
            Ty::Named { lean, .. } => lean.clone(),
            Ty::Vec(t) => format!("List {}", paren_ty(&t.lean())),
            Ty::Opt(t) => format!("Option {}", paren_ty(&t.lean())),
        }
    }
}

fn paren_ty(s: &str) -> String {
    if s.contains(' ') {
        format!("({s})")
    } else {
        s.to_string()
    }
}

/// a Lean term on one line
#[derive(Clone, Debug)]
struct L {
    s: String,
    atomic: bool,
}

impl L {
    fn atom(s: impl Into<String>) -> L {
        L { s: s.into(), atomic: true }
    }
    fn comp(s: impl Into<String>) -> L {
        L { s: s.into(), atomic: false }
    }
    fn arg(&self) -> String {
        if self.atomic {
            self.s.clone()
        } else {
            format!("({})", self.s)
        }
    }
}

type Env = Vec<(String, Ty)>;

#[derive(Clone, Copy, PartialEq, Debug)]
enum Mode {
    /// the block's end is the function's end: yields the function result
    Tail,
    /// the block is a statement: yields the new `self`; `return` not allowed
    State,
    /// the block is a pure value (no field updates, no `return`)
    Value,
}

enum Chunk {
    /// `let self := <expr>`; the expression's lines
    LetSelf(Vec<String>),
    Lines(Vec<String>),
}

#[derive(Default)]
struct Notes {
    asserts: Vec<String>,
    arith: Vec<String>,
    casts: Vec<String>,
    vecs: Vec<String>,
    eqs: Vec<String>,
}

const LEAN_KEYWORDS: &[&str] = &[
    "at", "by", "do", "end", "from", "fun", "have", "in", "open", "show", "then", "with", "where", "def", "theorem", "namespace",
    "section", "variable", "universe", "instance", "structure", "inductive", "class", "deriving", "import", "export", "macro",
    "syntax", "notation", "infix", "prefix", "postfix", "mutual", "private", "protected", "noncomputable", "partial", "example",
    "abbrev", "axiom", "opaque", "forall", "exists", "calc", "suffices", "termination_by", "decreasing_by", "using", "nomatch",
    "nofun", "obtain", "set_option", "attribute", "local", "scoped", "this", "Type", "Prop", "Sort", "some", "none",
];

fn lean_ident(s: &str) -> String {
    if LEAN_KEYWORDS.contains(&s) {
        format!("«{s}»")
    } else {
        s.to_string()
    }
}

fn indent(lines: Vec<String>) -> Vec<String> {
    lines.into_iter().map(|l| format!("  {l}")).collect()
}

struct Tr<'a> {
    src_lines: Vec<&'a str>,
    file: &'a syn::File,
    opts: &'a Options,
    label: String,
    fields: Vec<(String, Type)>,
    notes: Notes,
    // per function
    fn_name: String,
    has_self: bool,
    self_mut: bool,
    ret: Ty,
    deceq: BTreeSet<String>,
    match_depth: usize,
}

fn line_of(sp: Span) -> usize {
    sp.start().line
}

impl<'a> Tr<'a> {
    fn err<T>(&self, sp: Span, msg: impl AsRef<str>) -> Res<T> {
        Err(Error(format!("{}:{}: fn {}: {}", self.label, line_of(sp), self.fn_name, msg.as_ref())))
    }

    fn unsupported<T>(&self, sp: Span, what: impl AsRef<str>) -> Res<T> {
        let txt = self.src_text(sp);
        let txt = if txt.chars().count() > 70 { format!("{}…", txt.chars().take(70).collect::<String>()) } else { txt };
        self.err(sp, format!("outside the supported subset: {} `{}`", what.as_ref(), txt))
    }

    /// the source text under a span, white space collapsed
    fn src_text(&self, sp: Span) -> String {
        let (s, e) = (sp.start(), sp.end());
        if s.line == 0 || e.line == 0 || s.line > self.src_lines.len() || e.line > self.src_lines.len() {
            return String::new();
        }
        let mut out = String::new();
        for ln in s.line..=e.line {
            let chars: Vec<char> = self.src_lines[ln - 1].chars().collect();
            let from = if ln == s.line { s.column.min(chars.len()) } else { 0 };
            let to = if ln == e.line { e.column.min(chars.len()) } else { chars.len() };
            if from < to {
                out.extend(&chars[from..to]);
            }
            out.push(' ');
        }
        out.split_whitespace().collect::<Vec<_>>().join(" ")
    }

    // ---------------------------------------------------------------- types

    fn ty(&self, t: &Type) -> Res<Ty> {
        match t {
            Type::Paren(p) => self.ty(&p.elem),
            Type::Tuple(t) if t.elems.is_empty() => Ok(Ty::Unit),
            Type::Path(p) if p.qself.is_none() && p.path.segments.len() == 1 => {
                let seg = &p.path.segments[0];
                let name = seg.ident.to_string();
                match &seg.arguments {
                    syn::PathArguments::None => {
                        let bits = match name.as_str() {
                            "u8" => 8,
                            "u16" => 16,
                            "u32" => 32,
                            "u64" | "usize" => 64,
                            _ => 0,
                        };
                        if bits > 0 {
                            return Ok(Ty::Int(bits, name));
                        }
                        if name == "bool" {
                            return Ok(Ty::Bool);
                        }
                        if matches!(name.as_str(), "i8" | "i16" | "i32" | "i64" | "isize" | "u128" | "i128" | "f32" | "f64" | "char" | "str" | "String") {
                            return self.unsupported(t.span(), "type");
                        }
                        if name == "Self" {
                            return self.unsupported(t.span(), "`Self` as a value type");
                        }
                        match self.opts.type_map.iter().find(|(r, _)| *r == name) {
                            Some((_, lean)) => Ok(Ty::Named { rust: name, lean: lean.clone(), tyvar: self.opts.tyvars.contains(lean) }),
                            None => self.err(t.span(), format!("no Lean type given for the Rust type `{name}` (use --type {name}=<LeanType>)")),
                        }
                    }
                    syn::PathArguments::AngleBracketed(ab) if ab.args.len() == 1 && (name == "Vec" || name == "Option") => {
                        let inner = match &ab.args[0] {
                            syn::GenericArgument::Type(t) => self.ty(t)?,
                            _ => return self.unsupported(t.span(), "type argument"),
                        };
                        Ok(if name == "Vec" { Ty::Vec(Box::new(inner)) } else { Ty::Opt(Box::new(inner)) })
                    }
                    _ => self.unsupported(t.span(), "type"),
                }
            }
            _ => self.unsupported(t.span(), "type"),
        }
    }

    fn field_ty(&self, name: &str, sp: Span) -> Res<Ty> {
        match self.fields.iter().find(|(n, _)| n == name) {
            Some((_, t)) => self.ty(t),
            None => self.err(sp, format!("`{}` has no field `{name}`", self.opts.impl_type)),
        }
    }

    /// the variants of a fieldless enum defined in the same file
    fn enum_variants(&self, rust: &str) -> Option<Result<Vec<String>, String>> {
        for it in &self.file.items {
            if let Item::Enum(e) = it {
                if e.ident == rust {
                    let mut vs = vec![];
                    for v in &e.variants {
                        if !matches!(v.fields, syn::Fields::Unit) {
                            return Some(Err(format!("variant `{}::{}` has fields", rust, v.ident)));
                        }
                        vs.push(v.ident.to_string());
                    }
                    return Some(Ok(vs));
                }
            }
        }
        None
    }

    fn lean_variant(&self, en: &str, v: &str) -> String {
        let key = format!("{en}::{v}");
        if let Some((_, l)) = self.opts.variant_map.iter().find(|(k, _)| *k == key) {
            return l.clone();
        }
        let mut c = v.chars();
        let first = c.next().map(|f| f.to_lowercase().collect::<String>()).unwrap_or_default();
        format!(".{}", lean_ident(&format!("{first}{}", c.as_str())))
    }

    // ---------------------------------------------------------------- expressions

    /// `self.f` → Some(f)
    fn self_field(&self, e: &Expr) -> Option<String> {
        if let Expr::Field(f) = e {
            if let (Expr::Path(p), syn::Member::Named(id)) = (&*f.base, &f.member) {
                if p.path.is_ident("self") && p.qself.is_none() {
                    return Some(id.to_string());
                }
            }
        }
        None
    }

    fn expr(&mut self, e: &Expr, env: &Env) -> Res<(L, Ty)> {
        match e {
            Expr::Paren(p) => self.expr(&p.expr, env),
            Expr::Lit(l) => match &l.lit {
                Lit::Int(i) => {
                    let bits = match i.suffix() {
                        "" => 0,
                        "u8" => 8,
                        "u16" => 16,
                        "u32" => 32,
                        "u64" | "usize" => 64,
                        _ => return self.unsupported(e.span(), "integer literal"),
                    };
                    let v: u128 = i.base10_parse().map_err(|_| Error(format!("{}:{}: bad integer literal", self.label, line_of(e.span()))))?;
                    Ok((L::atom(v.to_string()), Ty::Int(bits, i.suffix().to_string())))
                }
                Lit::Bool(b) => Ok((L::atom(if b.value { "true" } else { "false" }), Ty::Bool)),
                _ => self.unsupported(e.span(), "literal"),
            },
            Expr::Path(p) if p.qself.is_none() && p.path.segments.len() == 1 && p.path.segments[0].arguments.is_none() => {
                let name = p.path.segments[0].ident.to_string();
                if name == "self" {
                    return self.unsupported(e.span(), "`self` as a value");
                }
                if name == "None" {
                    // the element type is fixed by the context on the Lean side
                    return Ok((L::atom("none"), Ty::Opt(Box::new(Ty::Unit))));
                }
                match env.iter().rev().find(|(n, _)| *n == name) {
                    Some((_, t)) => Ok((L::atom(lean_ident(&name)), t.clone())),
                    None => self.unsupported(e.span(), "name that is neither a local nor an argument"),
                }
            }
            Expr::Field(_) => match self.self_field(e) {
                Some(f) => {
                    if !self.has_self {
                        return self.unsupported(e.span(), "field access without a self parameter");
                    }
                    let t = self.field_ty(&f, e.span())?;
                    Ok((L::atom(format!("self.{}", lean_ident(&f))), t))
                }
                None => self.unsupported(e.span(), "field access (only `self.f`)"),
            },
            Expr::Cast(c) => {
                let (l, from) = self.expr(&c.expr, env)?;
                let to = self.ty(&c.ty)?;
                match (&from, &to) {
                    (Ty::Int(fb, fname), Ty::Int(tb, tname)) => {
                        if *fb != 0 && tb < fb {
                            self.notes.casts.push(format!(
                                "line {}: `{}` ({} → {}) is the identity here; in Rust it truncates values ≥ 2^{}",
                                line_of(e.span()),
                                self.src_text(e.span()),
                                fname,
                                tname,
                                tb
                            ));
                        }
                        Ok((l, to))
                    }
                    _ => self.unsupported(e.span(), "cast (only between unsigned integer types)"),
                }
            }
            Expr::Unary(u) => match u.op {
                UnOp::Not(_) => {
                    let (l, t) = self.expr(&u.expr, env)?;
                    if t != Ty::Bool {
                        return self.unsupported(e.span(), "`!` on a non-bool");
                    }
                    Ok((L::comp(format!("!{}", l.arg())), Ty::Bool))
                }
                _ => self.unsupported(e.span(), "unary operator"),
            },
            Expr::Binary(b) => {
                match b.op {
                    BinOp::Add(_) | BinOp::Sub(_) => {
                        let (l, lt) = self.expr(&b.left, env)?;
                        let (r, rt) = self.expr(&b.right, env)?;
                        let t = match (&lt, &rt) {
                            (Ty::Int(0, _), Ty::Int(..)) => rt.clone(),
                            (Ty::Int(..), Ty::Int(..)) => lt.clone(),
                            _ => return self.unsupported(e.span(), "arithmetic on non-integers"),
                        };
                        let op = if matches!(b.op, BinOp::Add(_)) { "+" } else { "-" };
                        self.notes.arith.push(format!("line {}: `{}`", line_of(e.span()), self.src_text(e.span())));
                        Ok((L::comp(format!("{} {op} {}", l.arg(), r.arg())), t))
                    }
                    BinOp::Lt(_) | BinOp::Le(_) | BinOp::Gt(_) | BinOp::Ge(_) | BinOp::Eq(_) | BinOp::Ne(_) => {
                        let p = self.cond(e, env)?;
                        Ok((L::comp(format!("decide ({p})")), Ty::Bool))
                    }
                    BinOp::And(_) | BinOp::Or(_) => {
                        let (l, lt) = self.expr(&b.left, env)?;
                        let (r, rt) = self.expr(&b.right, env)?;
                        if lt != Ty::Bool || rt != Ty::Bool {
                            return self.unsupported(e.span(), "`&&`/`||` on non-bools");
                        }
                        let op = if matches!(b.op, BinOp::And(_)) { "&&" } else { "||" };
                        Ok((L::comp(format!("{} {op} {}", l.arg(), r.arg())), Ty::Bool))
                    }
                    _ => self.unsupported(e.span(), "binary operator"),
                }
            }
            Expr::Call(c) => {
                // Some(e)
                if let Expr::Path(p) = &*c.func {
                    if p.path.is_ident("Some") && c.args.len() == 1 {
                        let (l, t) = self.expr(&c.args[0], env)?;
                        return Ok((L::comp(format!("some {}", l.arg())), Ty::Opt(Box::new(t))));
                    }
                }
                self.unsupported(e.span(), "function call")
            }
            Expr::MethodCall(m) => self.method_value(m, env),
            Expr::If(_) | Expr::Match(_) => self.unsupported(e.span(), "`if`/`match` as an operand (allowed as a statement or as the result of a block)"),
            Expr::Return(_) => self.unsupported(e.span(), "`return` inside an expression"),
            _ => self.unsupported(e.span(), "expression"),
        }
    }

    /// a method call used for its value: `self.f.len()`, `self.f.iter().position(|&p| p == x)`
    fn method_value(&mut self, m: &syn::ExprMethodCall, env: &Env) -> Res<(L, Ty)> {
        let sp = m.span();
        if m.turbofish.is_some() {
            return self.unsupported(sp, "turbofish");
        }
        let name = m.method.to_string();
        // self.f.len()
        if let Some(f) = self.self_field(&m.receiver) {
            let ft = self.field_ty(&f, sp)?;
            if let Ty::Vec(_) = ft {
                if name == "len" && m.args.is_empty() {
                    return Ok((L::comp(format!("vecLen self.{}", lean_ident(&f))), Ty::Int(64, "usize".into())));
                }
            }
            return self.unsupported(sp, "method call used as a value");
        }
        // self.f.iter().position(|&p| p == x)
        if name == "position" && m.args.len() == 1 {
            if let Expr::MethodCall(inner) = &*m.receiver {
                if inner.method == "iter" && inner.args.is_empty() && inner.turbofish.is_none() {
                    if let Some(f) = self.self_field(&inner.receiver) {
                        let ft = self.field_ty(&f, sp)?;
                        let elem = match ft {
                            Ty::Vec(t) => *t,
                            _ => return self.unsupported(sp, "`iter().position` on a field that is not a Vec"),
                        };
                        let needle = self.position_needle(&m.args[0], env)?;
                        let (nl, nt) = self.expr(needle, env)?;
                        if nt != elem {
                            return self.err(sp, "the value searched for does not have the Vec's element type");
                        }
                        self.note_eq(&elem, sp);
                        return Ok((L::comp(format!("vecPosition self.{} {}", lean_ident(&f), nl.arg())), Ty::Opt(Box::new(Ty::Int(64, "usize".into())))));
                    }
                }
            }
        }
        self.unsupported(sp, "method call used as a value")
    }

    /// the closure must be `|&p| p == x`, `|&p| x == p`, `|p| *p == x` or `|p| x == *p` with `x` not mentioning `p`
    fn position_needle<'e>(&self, clos: &'e Expr, _env: &Env) -> Res<&'e Expr> {
        let c = match clos {
            Expr::Closure(c) => c,
            _ => return self.unsupported(clos.span(), "argument of `position` (only a closure `|&p| p == x`)"),
        };
        if c.inputs.len() != 1 || c.capture.is_some() || c.asyncness.is_some() || !matches!(c.output, ReturnType::Default) {
            return self.unsupported(clos.span(), "closure (only `|&p| p == x`)");
        }
        let (pname, by_ref) = match &c.inputs[0] {
            Pat::Reference(r) if r.mutability.is_none() => match &*r.pat {
                Pat::Ident(i) if i.by_ref.is_none() && i.mutability.is_none() && i.subpat.is_none() => (i.ident.to_string(), false),
                _ => return self.unsupported(clos.span(), "closure parameter"),
            },
            Pat::Ident(i) if i.by_ref.is_none() && i.mutability.is_none() && i.subpat.is_none() => (i.ident.to_string(), true),
            _ => return self.unsupported(clos.span(), "closure parameter"),
        };
        let b = match &*c.body {
            Expr::Binary(b) if matches!(b.op, BinOp::Eq(_)) => b,
            _ => return self.unsupported(clos.span(), "closure body (only `p == x`)"),
        };
        let is_param = |e: &Expr| -> bool {
            let e = if by_ref {
                match e {
                    Expr::Unary(u) if matches!(u.op, UnOp::Deref(_)) => &*u.expr,
                    _ => return false,
                }
            } else {
                e
            };
            matches!(e, Expr::Path(p) if p.path.is_ident(&pname))
        };
        let needle = if is_param(&b.left) {
            &*b.right
        } else if is_param(&b.right) {
            &*b.left
        } else {
            return self.unsupported(clos.span(), "closure body (only `p == x`)");
        };
        if mentions(needle, &pname) {
            return self.unsupported(clos.span(), "closure body (the value compared with must not mention the parameter)");
        }
        Ok(needle)
    }

    fn note_eq(&mut self, t: &Ty, sp: Span) {
        if let Ty::Named { rust, lean, tyvar } = t {
            if *tyvar {
                self.deceq.insert(lean.clone());
            }
            let n = format!("`==` on `{rust}` (its `PartialEq` impl) is equality of `{lean}`");
            if !self.notes.eqs.contains(&n) {
                self.notes.eqs.push(n);
            }
        }
        let _ = sp;
    }

    /// a bool expression as a Lean proposition (for `if`)
    fn cond(&mut self, e: &Expr, env: &Env) -> Res<String> {
        match e {
            Expr::Paren(p) => self.cond(&p.expr, env),
            Expr::Binary(b) => match b.op {
                BinOp::Lt(_) | BinOp::Le(_) | BinOp::Gt(_) | BinOp::Ge(_) | BinOp::Eq(_) | BinOp::Ne(_) => {
                    let (l, lt) = self.expr(&b.left, env)?;
                    let (r, rt) = self.expr(&b.right, env)?;
                    let ordered = !matches!(b.op, BinOp::Eq(_) | BinOp::Ne(_));
                    match (&lt, &rt) {
                        (Ty::Int(..), Ty::Int(..)) => {}
                        (Ty::Bool, Ty::Bool) if !ordered => {}
                        (Ty::Named { .. }, Ty::Named { .. }) if !ordered && lt == rt => self.note_eq(&lt, e.span()),
                        _ => return self.unsupported(e.span(), "comparison (integers; `==`/`!=` also on bools and on named types)"),
                    }
                    let op = match b.op {
                        BinOp::Lt(_) => "<",
                        BinOp::Le(_) => "≤",
                        BinOp::Gt(_) => ">",
                        BinOp::Ge(_) => "≥",
                        BinOp::Eq(_) => "=",
                        _ => "≠",
                    };
                    Ok(format!("{} {op} {}", l.arg(), r.arg()))
                }
                BinOp::And(_) | BinOp::Or(_) => {
                    let l = self.cond(&b.left, env)?;
                    let r = self.cond(&b.right, env)?;
                    let op = if matches!(b.op, BinOp::And(_)) { "∧" } else { "∨" };
                    Ok(format!("({l}) {op} ({r})"))
                }
                _ => self.unsupported(e.span(), "condition"),
            },
            Expr::Unary(u) if matches!(u.op, UnOp::Not(_)) => {
                let c = self.cond(&u.expr, env)?;
                Ok(format!("¬ ({c})"))
            }
            _ => {
                let (l, t) = self.expr(e, env)?;
                if t != Ty::Bool {
                    return self.unsupported(e.span(), "condition that is not a bool");
                }
                Ok(format!("{} = true", l.arg()))
            }
        }
    }

    // ---------------------------------------------------------------- statements

    /// a statement that updates one field: the Lean term of the new `self`
    fn effect(&mut self, e: &Expr, env: &Env) -> Res<String> {
        let sp = e.span();
        let need_mut = |this: &Self| -> Res<()> {
            if !this.self_mut {
                return this.unsupported(sp, "field update in a method that does not take `&mut self`");
            }
            Ok(())
        };
        match e {
            Expr::Assign(a) => {
                let f = match self.self_field(&a.left) {
                    Some(f) => f,
                    None => return self.unsupported(sp, "assignment (only to `self.f`)"),
                };
                need_mut(self)?;
                let ft = self.field_ty(&f, sp)?;
                let (r, rt) = self.expr(&a.right, env)?;
                if !assignable(&ft, &rt) {
                    return self.err(sp, format!("type of the assigned value does not match the field `{f}`"));
                }
                Ok(format!("{{ self with {} := {} }}", lean_ident(&f), r.s))
            }
            Expr::Binary(b) if matches!(b.op, BinOp::AddAssign(_) | BinOp::SubAssign(_)) => {
                let f = match self.self_field(&b.left) {
                    Some(f) => f,
                    None => return self.unsupported(sp, "compound assignment (only to `self.f`)"),
                };
                need_mut(self)?;
                let ft = self.field_ty(&f, sp)?;
                let (r, rt) = self.expr(&b.right, env)?;
                if !matches!((&ft, &rt), (Ty::Int(..), Ty::Int(..))) {
                    return self.unsupported(sp, "compound assignment on a non-integer field");
                }
                let op = if matches!(b.op, BinOp::AddAssign(_)) { "+" } else { "-" };
                self.notes.arith.push(format!("line {}: `{}`", line_of(sp), self.src_text(sp)));
                let f = lean_ident(&f);
                Ok(format!("{{ self with {f} := self.{f} {op} {} }}", r.arg()))
            }
            Expr::MethodCall(m) => {
                let f = match self.self_field(&m.receiver) {
                    Some(f) => f,
                    None => return self.unsupported(sp, "method call as a statement (only on a Vec field `self.f`)"),
                };
                if m.turbofish.is_some() {
                    return self.unsupported(sp, "turbofish");
                }
                let elem = match self.field_ty(&f, sp)? {
                    Ty::Vec(t) => *t,
                    _ => return self.unsupported(sp, "method call on a field that is not a Vec"),
                };
                need_mut(self)?;
                let name = m.method.to_string();
                let args: Vec<&Expr> = m.args.iter().collect();
                let lf = lean_ident(&f);
                let is_index = |t: &Ty| matches!(t, Ty::Int(64, _) | Ty::Int(0, _));
                match (name.as_str(), args.len()) {
                    ("insert", 2) => {
                        let (i, it) = self.expr(args[0], env)?;
                        let (x, xt) = self.expr(args[1], env)?;
                        if !is_index(&it) || !assignable(&elem, &xt) {
                            return self.err(sp, "argument types of `Vec::insert`");
                        }
                        self.notes.vecs.push(format!("line {}: `{}` panics in Rust when the index is > len; `vecInsert` is total", line_of(sp), self.src_text(sp)));
                        Ok(format!("{{ self with {lf} := vecInsert self.{lf} {} {} }}", i.arg(), x.arg()))
                    }
                    ("push", 1) => {
                        let (x, xt) = self.expr(args[0], env)?;
                        if !assignable(&elem, &xt) {
                            return self.err(sp, "argument type of `Vec::push`");
                        }
                        Ok(format!("{{ self with {lf} := vecPush self.{lf} {} }}", x.arg()))
                    }
                    ("remove", 1) => {
                        let (i, it) = self.expr(args[0], env)?;
                        if !is_index(&it) {
                            return self.err(sp, "argument type of `Vec::remove`");
                        }
                        self.notes.vecs.push(format!("line {}: `{}` panics in Rust when the index is ≥ len; `vecRemove` is total (the removed element is dropped)", line_of(sp), self.src_text(sp)));
                        Ok(format!("{{ self with {lf} := vecRemove self.{lf} {} }}", i.arg()))
                    }
                    _ => self.unsupported(sp, "Vec method as a statement (only insert, push, remove)"),
                }
            }
            _ => self.unsupported(sp, "statement"),
        }
    }

    fn wants_value(&self, mode: Mode) -> bool {
        match mode {
            Mode::Value => true,
            Mode::Tail => self.ret != Ty::Unit,
            Mode::State => false,
        }
    }

    /// the end of a block: its value
    fn finish(&mut self, mut out: Vec<Chunk>, value: Option<&Expr>, env: &Env, mode: Mode, sp: Span) -> Res<Vec<String>> {
        let want = self.wants_value(mode);
        let v = match (want, value) {
            (true, Some(e)) => {
                let (l, t) = self.expr(e, env)?;
                if mode == Mode::Tail && !assignable(&self.ret, &t) {
                    return self.err(e.span(), "type of the returned value does not match the return type");
                }
                Some(l)
            }
            (true, None) => return self.err(sp, "the block ends without a value"),
            (false, Some(e)) => return self.unsupported(e.span(), "value where none is expected"),
            (false, None) => None,
        };
        let ln = value.map(|e| format!("  -- L{}", line_of(e.span()))).unwrap_or_default();
        match (mode, v) {
            (Mode::Value, Some(l)) => out.push(Chunk::Lines(vec![format!("{}{ln}", l.s)])),
            (Mode::Tail, Some(l)) if self.self_mut => out.push(Chunk::Lines(vec![format!("(self, {}){ln}", l.s)])),
            (Mode::Tail, Some(l)) => out.push(Chunk::Lines(vec![format!("{}{ln}", l.s)])),
            _ => {
                // the new `self` is the value: `let self := X; self` is written `X`
                if let Some(Chunk::LetSelf(_)) = out.last() {
                    if let Some(Chunk::LetSelf(lines)) = out.pop() {
                        out.push(Chunk::Lines(lines));
                    }
                } else {
                    out.push(Chunk::Lines(vec!["self".to_string()]));
                }
            }
        }
        Ok(flatten(out))
    }

    fn block(&mut self, stmts: &[Stmt], env: &Env, mode: Mode, sp: Span) -> Res<Vec<String>> {
        let mut env = env.clone();
        let mut out: Vec<Chunk> = vec![];
        let n = stmts.len();
        for (i, st) in stmts.iter().enumerate() {
            let last = i + 1 == n;
            match st {
                Stmt::Local(l) => {
                    if !l.attrs.is_empty() {
                        return self.unsupported(l.span(), "attribute on a `let`");
                    }
                    let (name, declared) = match &l.pat {
                        Pat::Ident(p) if p.by_ref.is_none() && p.mutability.is_none() && p.subpat.is_none() => (p.ident.to_string(), None),
                        Pat::Type(pt) => match &*pt.pat {
                            Pat::Ident(p) if p.by_ref.is_none() && p.mutability.is_none() && p.subpat.is_none() => (p.ident.to_string(), Some(self.ty(&pt.ty)?)),
                            _ => return self.unsupported(l.span(), "`let` pattern (only `let x = e;`, no `mut`)"),
                        },
                        _ => return self.unsupported(l.span(), "`let` pattern (only `let x = e;`, no `mut`)"),
                    };
                    let init = match &l.init {
                        Some(i) if i.diverge.is_none() => &i.expr,
                        _ => return self.unsupported(l.span(), "`let` without initialiser or with `else`"),
                    };
                    let (v, t) = self.expr(init, &env)?;
                    let t = match declared {
                        Some(d) => {
                            if !assignable(&d, &t) {
                                return self.err(l.span(), "declared type of the `let` does not match its initialiser");
                            }
                            d
                        }
                        None => t,
                    };
                    out.push(Chunk::Lines(vec![format!("let {} := {}  -- L{}", lean_ident(&name), v.s, line_of(l.span()))]));
                    env.push((name, t));
                }
                Stmt::Macro(m) => {
                    let name = m.mac.path.segments.last().map(|s| s.ident.to_string()).unwrap_or_default();
                    if m.mac.path.segments.len() == 1 && (name == "assert" || name == "debug_assert") {
                        let txt = self.src_text(m.mac.span());
                        out.push(Chunk::Lines(vec![format!("-- L{}: skipped `{}`", line_of(m.span()), txt)]));
                        self.notes.asserts.push(format!("line {}: `{}`{}", line_of(m.span()), txt, if name == "debug_assert" { " (debug builds only)" } else { "" }));
                    } else {
                        return self.unsupported(m.span(), "macro (only assert!/debug_assert!)");
                    }
                }
                Stmt::Item(it) => return self.unsupported(it.span(), "item inside a function"),
                Stmt::Expr(e, semi) => {
                    if let Expr::Return(r) = e {
                        if !last {
                            return self.unsupported(stmts[i + 1].span(), "statement after `return`");
                        }
                        if mode != Mode::Tail {
                            return self.unsupported(e.span(), "`return` here");
                        }
                        return self.finish(out, r.expr.as_deref(), &env, mode, e.span());
                    }
                    let control = matches!(e, Expr::If(_) | Expr::Match(_));
                    if last && semi.is_none() && self.wants_value(mode) {
                        if control {
                            let lines = self.control(e, &env, mode, &[])?;
                            out.push(Chunk::Lines(lines));
                            return Ok(flatten(out));
                        }
                        return self.finish(out, Some(e), &env, mode, e.span());
                    }
                    if control {
                        if expr_contains_return(e) {
                            if mode != Mode::Tail {
                                return self.unsupported(e.span(), "`return` inside a nested statement block");
                            }
                            let lines = self.control(e, &env, Mode::Tail, &stmts[i + 1..])?;
                            out.push(Chunk::Lines(lines));
                            return Ok(flatten(out));
                        }
                        if mode == Mode::Value || !self.self_mut {
                            return self.unsupported(e.span(), "`if`/`match` statement that can have no effect here");
                        }
                        let lines = self.control(e, &env, Mode::State, &[])?;
                        out.push(Chunk::LetSelf(lines));
                    } else {
                        if mode == Mode::Value {
                            return self.unsupported(e.span(), "statement inside a value block");
                        }
                        let rhs = self.effect(e, &env)?;
                        out.push(Chunk::LetSelf(vec![format!("{rhs}  -- L{}", line_of(e.span()))]));
                    }
                }
            }
        }
        self.finish(out, None, &env, mode, sp)
    }

    /// one branch of an `if`/`match`; `rest` = the statements after the `if`/`match` (only when it contains a `return`)
    fn branch(&mut self, stmts: &[Stmt], env: &Env, mode: Mode, rest: &[Stmt], sp: Span) -> Res<Vec<String>> {
        if rest.is_empty() {
            return self.block(stmts, env, mode, sp);
        }
        // `mode == Tail`, and a `return` occurs in some branch of this `if`/`match`
        if definitely_returns(stmts) {
            return self.block(stmts, env, Mode::Tail, sp);
        }
        if stmts_contain_return(stmts) {
            return self.err(sp, "outside the supported subset: a branch that returns on some paths only (a branch must either always `return` or never)");
        }
        // the branch falls through into `rest`; its locals go out of scope
        let st = self.block(stmts, env, Mode::State, sp)?;
        let mut out = vec![];
        if self.self_mut && st != vec!["self".to_string()] {
            out.push(Chunk::LetSelf(st));
        }
        let mut lines = flatten(out);
        lines.extend(self.block(rest, env, Mode::Tail, sp)?);
        Ok(lines)
    }

    fn control(&mut self, e: &Expr, env: &Env, mode: Mode, rest: &[Stmt]) -> Res<Vec<String>> {
        match e {
            Expr::If(i) => {
                if !i.attrs.is_empty() {
                    return self.unsupported(e.span(), "attribute");
                }
                let else_stmts: Option<Vec<Stmt>>;
                let mut else_if: Option<&Expr> = None;
                match &i.else_branch {
                    None => else_stmts = Some(vec![]),
                    Some((_, eb)) => match &**eb {
                        Expr::Block(b) if b.label.is_none() && b.attrs.is_empty() => else_stmts = Some(b.block.stmts.clone()),
                        Expr::If(_) => {
                            else_if = Some(&**eb);
                            else_stmts = None;
                        }
                        _ => return self.unsupported(eb.span(), "else branch"),
                    },
                }
                if let Expr::Let(l) = &*i.cond {
                    // if let Some(x) = e { A } else { B }
                    let bound = match &*l.pat {
                        Pat::TupleStruct(ts) if ts.path.is_ident("Some") && ts.qself.is_none() && ts.elems.len() == 1 => match &ts.elems[0] {
                            Pat::Ident(p) if p.by_ref.is_none() && p.mutability.is_none() && p.subpat.is_none() => p.ident.to_string(),
                            _ => return self.unsupported(l.span(), "`if let` pattern (only `Some(x)`)"),
                        },
                        _ => return self.unsupported(l.span(), "`if let` pattern (only `Some(x)`)"),
                    };
                    let (s, st) = self.expr(&l.expr, env)?;
                    let inner = match st {
                        Ty::Opt(t) => *t,
                        _ => return self.unsupported(l.span(), "`if let Some(..)` on a value that is not an Option"),
                    };
                    let else_stmts = match (else_stmts, else_if) {
                        (Some(s), _) => s,
                        (None, Some(ei)) => vec![Stmt::Expr(ei.clone(), None)],
                        _ => vec![],
                    };
                    let mut env2 = env.clone();
                    env2.push((bound.clone(), inner));
                    self.match_depth += 1;
                    let a = self.branch(&i.then_branch.stmts, &env2, mode, rest, i.then_branch.span());
                    let b = self.branch(&else_stmts, env, mode, rest, e.span());
                    self.match_depth -= 1;
                    let (a, b) = (a?, b?);
                    let mut lines = vec![format!("match {} with  -- L{}: if let Some({}) = …", s.s, line_of(e.span()), bound)];
                    lines.push(format!("| some {} =>", lean_ident(&bound)));
                    lines.extend(indent(a));
                    lines.push(format!("| none =>  -- else"));
                    lines.extend(indent(b));
                    return Ok(self.paren_match(lines));
                }
                let c = self.cond(&i.cond, env)?;
                let a = self.branch(&i.then_branch.stmts, env, mode, rest, i.then_branch.span())?;
                let mut lines = vec![format!("if {c} then  -- L{}", line_of(e.span()))];
                lines.extend(indent(a));
                match (else_stmts, else_if) {
                    (Some(s), _) => {
                        let b = self.branch(&s, env, mode, rest, e.span())?;
                        if b.len() == 1 && !b[0].contains("--") {
                            lines.push(format!("else {}", b[0]));
                        } else {
                            lines.push("else".to_string());
                            lines.extend(indent(b));
                        }
                    }
                    (None, Some(ei)) => {
                        // else if …: `if a {A} else if b {B} else {C}; rest` = `if a {A; rest} else { if b {B; rest} else {C; rest} }`
                        let b = self.control(ei, env, mode, rest)?;
                        if b.first().map(|l| l.starts_with("if ")).unwrap_or(false) {
                            lines.push(format!("else {}", b[0]));
                            lines.extend(b.into_iter().skip(1));
                        } else {
                            lines.push("else".to_string());
                            lines.extend(indent(b));
                        }
                    }
                    _ => unreachable!(),
                }
                Ok(lines)
            }
            Expr::Match(m) => {
                if !m.attrs.is_empty() {
                    return self.unsupported(e.span(), "attribute");
                }
                let (s, st) = self.expr(&m.expr, env)?;
                // (Lean pattern, bound variable with type, body)
                let mut arms: Vec<(String, Option<(String, Ty)>, &Expr)> = vec![];
                match &st {
                    Ty::Named { rust, .. } => {
                        let variants = match self.enum_variants(rust) {
                            Some(Ok(v)) => v,
                            Some(Err(why)) => return self.unsupported(e.span(), format!("`match` on an enum with fields ({why});")),
                            None => return self.err(e.span(), format!("outside the supported subset: `match` on `{rust}`, which is not an enum defined in this file")),
                        };
                        let mut seen: Vec<String> = vec![];
                        for arm in &m.arms {
                            if arm.guard.is_some() || !arm.attrs.is_empty() {
                                return self.unsupported(arm.span(), "match arm with a guard or an attribute");
                            }
                            let pats: Vec<&Pat> = match &arm.pat {
                                Pat::Or(o) => o.cases.iter().collect(),
                                p => vec![p],
                            };
                            let mut lean_pats = vec![];
                            for p in pats {
                                let v = match p {
                                    Pat::Path(pp) if pp.qself.is_none() && pp.path.segments.len() == 2 && (pp.path.segments[0].ident == rust.as_str() || pp.path.segments[0].ident == "Self") => {
                                        pp.path.segments[1].ident.to_string()
                                    }
                                    _ => return self.unsupported(p.span(), format!("match pattern (only `{rust}::Variant`, one arm per variant, no `_`)")),
                                };
                                if !variants.contains(&v) {
                                    return self.err(p.span(), format!("`{rust}` has no variant `{v}`"));
                                }
                                if seen.contains(&v) {
                                    return self.err(p.span(), format!("variant `{v}` matched twice"));
                                }
                                seen.push(v.clone());
                                lean_pats.push(self.lean_variant(rust, &v));
                            }
                            arms.push((lean_pats.join(" | "), None, &arm.body));
                        }
                        for v in &variants {
                            if !seen.contains(v) {
                                return self.err(e.span(), format!("outside the supported subset: `match` without an arm for `{rust}::{v}`"));
                            }
                        }
                    }
                    Ty::Opt(inner) => {
                        let mut some = false;
                        let mut none = false;
                        for arm in &m.arms {
                            if arm.guard.is_some() || !arm.attrs.is_empty() {
                                return self.unsupported(arm.span(), "match arm with a guard or an attribute");
                            }
                            match &arm.pat {
                                Pat::TupleStruct(ts) if ts.path.is_ident("Some") && ts.elems.len() == 1 && !some => match &ts.elems[0] {
                                    Pat::Ident(p) if p.by_ref.is_none() && p.mutability.is_none() && p.subpat.is_none() => {
                                        some = true;
                                        let x = p.ident.to_string();
                                        arms.push((format!("some {}", lean_ident(&x)), Some((x, (**inner).clone())), &arm.body));
                                    }
                                    _ => return self.unsupported(arm.pat.span(), "match pattern (only `Some(x)` and `None`)"),
                                },
                                Pat::Ident(p) if p.ident == "None" && p.subpat.is_none() && p.by_ref.is_none() && p.mutability.is_none() && !none => {
                                    none = true;
                                    arms.push(("none".to_string(), None, &arm.body));
                                }
                                _ => return self.unsupported(arm.pat.span(), "match pattern (only `Some(x)` and `None`, once each)"),
                            }
                        }
                        if !(some && none) {
                            return self.unsupported(e.span(), "`match` on an Option without both `Some(x)` and `None` arms;");
                        }
                    }
                    _ => return self.unsupported(e.span(), "`match` on a value that is neither a fieldless enum nor an Option;"),
                }
                let mut lines = vec![format!("match {} with  -- L{}", s.s, line_of(e.span()))];
                self.match_depth += 1;
                let mut res = Ok(());
                for (pat, bound, body) in arms {
                    let stmts: Vec<Stmt> = match body {
                        Expr::Block(b) if b.label.is_none() && b.attrs.is_empty() => b.block.stmts.clone(),
                        other => vec![Stmt::Expr(other.clone(), None)],
                    };
                    let mut env2 = env.clone();
                    if let Some(b) = bound {
                        env2.push(b);
                    }
                    match self.branch(&stmts, &env2, mode, rest, body.span()) {
                        Ok(b) => {
                            lines.push(format!("| {pat} =>  -- L{}", line_of(body.span())));
                            lines.extend(indent(b));
                        }
                        Err(x) => {
                            res = Err(x);
                            break;
                        }
                    }
                }
                self.match_depth -= 1;
                res?;
                Ok(self.paren_match(lines))
            }
            _ => self.unsupported(e.span(), "control statement"),
        }
    }

    /// a `match` nested in an arm of another `match` is parenthesised
    fn paren_match(&self, mut lines: Vec<String>) -> Vec<String> {
        if self.match_depth > 0 {
            lines[0] = format!("({}", lines[0]);
            // the closing parenthesis goes before a trailing comment, if any
            let last = lines.len() - 1;
            lines[last] = match lines[last].find("  -- ") {
                Some(k) => format!("{}){}", &lines[last][..k], &lines[last][k..]),
                None => format!("{})", lines[last]),
            };
        }
        lines
    }

    // ---------------------------------------------------------------- functions

    fn function(&mut self, f: &syn::ImplItemFn) -> Res<Vec<String>> {
        let sig = &f.sig;
        self.fn_name = sig.ident.to_string();
        self.deceq.clear();
        self.match_depth = 0;
        let sp = sig.span();
        if sig.asyncness.is_some() || sig.unsafety.is_some() || sig.abi.is_some() || sig.variadic.is_some() {
            return self.unsupported(sp, "async/unsafe/extern function");
        }
        if !sig.generics.params.is_empty() || sig.generics.where_clause.is_some() {
            return self.unsupported(sp, "generic function");
        }
        self.has_self = false;
        self.self_mut = false;
        let mut env: Env = vec![];
        let mut binders: Vec<String> = vec![];
        for a in &sig.inputs {
            match a {
                FnArg::Receiver(r) => {
                    if r.reference.is_none() || r.colon_token.is_some() {
                        return self.unsupported(r.span(), "receiver (only `&self` and `&mut self`)");
                    }
                    self.has_self = true;
                    self.self_mut = r.mutability.is_some();
                    let st = self.opts.self_type.clone().unwrap_or_else(|| self.opts.impl_type.clone());
                    binders.push(format!("(self : {st})"));
                }
                FnArg::Typed(pt) => {
                    let name = match &*pt.pat {
                        Pat::Ident(p) if p.by_ref.is_none() && p.mutability.is_none() && p.subpat.is_none() => p.ident.to_string(),
                        _ => return self.unsupported(pt.span(), "argument pattern (only `x: T`, no `mut`)"),
                    };
                    let t = self.ty(&pt.ty)?;
                    binders.push(format!("({} : {})", lean_ident(&name), t.lean()));
                    env.push((name, t));
                }
            }
        }
        if !self.has_self {
            return self.unsupported(sp, "associated function without a `self` receiver");
        }
        self.ret = match &sig.output {
            ReturnType::Default => Ty::Unit,
            ReturnType::Type(_, t) => self.ty(t)?,
        };
        if !self.self_mut && self.ret == Ty::Unit {
            return self.unsupported(sp, "`&self` method without a result");
        }
        let body = self.block(&f.block.stmts, &env, Mode::Tail, f.block.span())?;
        let self_ty = self.opts.self_type.clone().unwrap_or_else(|| self.opts.impl_type.clone());
        let ret = match (self.self_mut, &self.ret) {
            (true, Ty::Unit) => self_ty.clone(),
            (true, t) => format!("{} × {}", self_ty, paren_ty(&t.lean())),
            (false, t) => t.lean(),
        };
        let inst: Vec<String> = self.deceq.iter().map(|v| format!("[DecidableEq {v}]")).collect();
        let mut head = format!("def {}", lean_ident(&self.fn_name));
        for b in inst.iter().chain(binders.iter()) {
            head.push(' ');
            head.push_str(b);
        }
        head.push_str(&format!(" : {ret} :="));
        let (l0, l1) = (line_of(f.span()), f.span().end().line);
        let what = match (self.self_mut, &self.ret) {
            (true, Ty::Unit) => "returns the new `self`",
            (true, _) => "returns `(new self, result)`",
            (false, _) => "reads `self`",
        };
        let mut lines = vec![format!("/-- `{}::{}` ({} lines {}–{}); {} -/", self.opts.impl_type, self.fn_name, self.label, l0, l1, what), head];
        lines.extend(indent(body));
        Ok(lines)
    }
}

fn flatten(out: Vec<Chunk>) -> Vec<String> {
    let mut lines = vec![];
    for c in out {
        match c {
            Chunk::Lines(l) => lines.extend(l),
            Chunk::LetSelf(l) => {
                if l.len() == 1 {
                    lines.push(format!("let self := {}", l[0]));
                } else {
                    lines.push("let self :=".to_string());
                    lines.extend(indent(l));
                }
            }
        }
    }
    lines
}

/// may a value of type `v` be stored where `slot` is expected? (the Rust compiler has checked the program; this only
/// guards the translator's own bookkeeping)
fn assignable(slot: &Ty, v: &Ty) -> bool {
    match (slot, v) {
        (Ty::Int(..), Ty::Int(0, _)) => true,
        (Ty::Int(a, _), Ty::Int(b, _)) => a == b,
        (Ty::Opt(_), Ty::Opt(b)) if **b == Ty::Unit => true, // `None`
        (Ty::Opt(a), Ty::Opt(b)) => assignable(a, b),
        (Ty::Vec(a), Ty::Vec(b)) => assignable(a, b),
        _ => slot == v,
    }
}

fn mentions(e: &Expr, name: &str) -> bool {
    use quote::ToTokens;
    e.to_token_stream().into_iter().any(|t| tokens_mention(t, name))
}

fn tokens_mention(t: proc_macro2::TokenTree, name: &str) -> bool {
    match t {
        proc_macro2::TokenTree::Ident(i) => i == name,
        proc_macro2::TokenTree::Group(g) => g.stream().into_iter().any(|t| tokens_mention(t, name)),
        _ => false,
    }
}

fn block_contains_return(b: &Block) -> bool {
    stmts_contain_return(&b.stmts)
}

fn stmts_contain_return(stmts: &[Stmt]) -> bool {
    stmts.iter().any(|s| match s {
        Stmt::Expr(e, _) => expr_contains_return(e),
        Stmt::Local(l) => l.init.as_ref().map(|i| expr_contains_return(&i.expr) || i.diverge.as_ref().map(|(_, d)| expr_contains_return(d)).unwrap_or(false)).unwrap_or(false),
        _ => false,
    })
}

/// does a `return` occur in the statement positions the translator descends into? (a `return` anywhere else is rejected
/// where it is met)
fn expr_contains_return(e: &Expr) -> bool {
    match e {
        Expr::Return(_) => true,
        Expr::If(i) => block_contains_return(&i.then_branch) || i.else_branch.as_ref().map(|(_, b)| expr_contains_return(b)).unwrap_or(false),
        Expr::Match(m) => m.arms.iter().any(|a| expr_contains_return(&a.body)),
        Expr::Block(b) => block_contains_return(&b.block),
        Expr::Paren(p) => expr_contains_return(&p.expr),
        _ => false,
    }
}

fn definitely_returns(stmts: &[Stmt]) -> bool {
    match stmts.last() {
        Some(Stmt::Expr(e, _)) => expr_definitely_returns(e),
        _ => false,
    }
}

fn expr_definitely_returns(e: &Expr) -> bool {
    match e {
        Expr::Return(_) => true,
        Expr::If(i) => match &i.else_branch {
            Some((_, b)) => definitely_returns(&i.then_branch.stmts) && expr_definitely_returns(b),
            None => false,
        },
        Expr::Match(m) => !m.arms.is_empty() && m.arms.iter().all(|a| expr_definitely_returns(&a.body)),
        Expr::Block(b) => definitely_returns(&b.block.stmts),
        _ => false,
    }
}

/// Translate the functions `opts.fns` of `impl <opts.impl_type>` in `src`.
pub fn translate(src: &str, opts: &Options) -> Res<String> {
    let label = if opts.source_label.is_empty() { "<input>".to_string() } else { opts.source_label.clone() };
    let file: syn::File = syn::parse_file(src).map_err(|e| Error(format!("{}:{}: parse error: {}", label, e.span().start().line, e)))?;
    // the struct
    let mut fields: Option<Vec<(String, Type)>> = None;
    for it in &file.items {
        if let Item::Struct(s) = it {
            if s.ident == opts.impl_type.as_str() {
                match &s.fields {
                    syn::Fields::Named(n) => {
                        fields = Some(n.named.iter().map(|f| (f.ident.as_ref().unwrap().to_string(), f.ty.clone())).collect());
                    }
                    _ => return Err(Error(format!("{}:{}: struct `{}` has no named fields", label, line_of(s.span()), opts.impl_type))),
                }
            }
        }
    }
    let fields = fields.ok_or_else(|| Error(format!("{}: struct `{}` not found", label, opts.impl_type)))?;
    // the inherent impl blocks
    let mut methods: Vec<&syn::ImplItemFn> = vec![];
    for it in &file.items {
        if let Item::Impl(im) = it {
            if im.trait_.is_some() {
                continue;
            }
            let is_target = matches!(&*im.self_ty, Type::Path(p) if p.qself.is_none() && p.path.segments.last().map(|s| s.ident == opts.impl_type.as_str()).unwrap_or(false));
            if !is_target {
                continue;
            }
            if !im.generics.params.is_empty() {
                return Err(Error(format!("{}:{}: outside the supported subset: generic impl block for `{}`", label, line_of(im.span()), opts.impl_type)));
            }
            for ii in &im.items {
                if let ImplItem::Fn(f) = ii {
                    methods.push(f);
                }
            }
        }
    }
    let mut tr = Tr {
        src_lines: src.lines().collect(),
        file: &file,
        opts,
        label: label.clone(),
        fields,
        notes: Notes::default(),
        fn_name: String::new(),
        has_self: false,
        self_mut: false,
        ret: Ty::Unit,
        deceq: BTreeSet::new(),
        match_depth: 0,
    };
    if opts.fns.is_empty() {
        return Err(Error("no function names given".to_string()));
    }
    let mut defs: Vec<Vec<String>> = vec![];
    for name in &opts.fns {
        let found: Vec<&&syn::ImplItemFn> = methods.iter().filter(|f| f.sig.ident == name.as_str()).collect();
        match found.len() {
            0 => return Err(Error(format!("{}: function `{}::{}` not found", label, opts.impl_type, name))),
            1 => defs.push(tr.function(found[0])?),
            _ => return Err(Error(format!("{}: function `{}::{}` is defined more than once (cfg alternatives are not supported)", label, opts.impl_type, name))),
        }
    }
    // ---- output
    let ns = opts.namespace.clone().unwrap_or_else(|| format!("Evenio.Gen.{}", opts.impl_type));
    let mut out = String::new();
    let imports = if opts.imports.is_empty() { vec!["Evenio.Generated.Rs2LeanPrelude".to_string()] } else { opts.imports.clone() };
    for i in &imports {
        out.push_str(&format!("import {i}\n"));
    }
    out.push_str(&format!("/-! GENERATED by tools/rs2lean from {} — do not edit.\n", label));
    out.push_str(&format!("  `impl {}`: {}\n", opts.impl_type, opts.fns.join(", ")));
    out.push_str("  A `&mut self` method is a function returning the new `self` (paired with the result, `(self, result)`, if there is one).\n");
    out.push_str("  What the translation does not carry over:\n");
    let n = &tr.notes;
    if !n.arith.is_empty() {
        out.push_str("   * unsigned integers are `Nat`: Rust's `+`/`-`/`+=`/`-=` panic on overflow/underflow in debug builds (wrap in release);\n     here `+` is unbounded and `-` is truncated subtraction:\n");
        for a in &n.arith {
            out.push_str(&format!("       {a}\n"));
        }
    }
    if !n.asserts.is_empty() {
        out.push_str("   * skipped assertions (the functions describe the runs in which they hold):\n");
        for a in &n.asserts {
            out.push_str(&format!("       {a}\n"));
        }
    }
    if !n.casts.is_empty() {
        out.push_str("   * narrowing casts:\n");
        for a in &n.casts {
            out.push_str(&format!("       {a}\n"));
        }
    }
    if !n.vecs.is_empty() {
        out.push_str("   * panicking Vec operations:\n");
        for a in &n.vecs {
            out.push_str(&format!("       {a}\n"));
        }
    }
    if !n.eqs.is_empty() {
        out.push_str("   * equality:\n");
        for a in &n.eqs {
            out.push_str(&format!("       {a}\n"));
        }
    }
    out.push_str("-/\n");
    out.push_str(&format!("namespace {ns}\n"));
    let opens = if opts.opens.is_empty() && opts.imports.is_empty() { vec!["Evenio.Rs2Lean".to_string()] } else { opts.opens.clone() };
    for o in &opens {
        out.push_str(&format!("open {o}\n"));
    }
    if !opts.tyvars.is_empty() {
        out.push_str(&format!("variable {{{} : Type}}\n", opts.tyvars.join(" ")));
    }
    for d in defs {
        out.push('\n');
        for l in d {
            out.push_str(l.trim_end());
            out.push('\n');
        }
    }
    out.push_str(&format!("\nend {ns}\n"));
    Ok(out)
}

#[cfg(test)]
mod tests;
