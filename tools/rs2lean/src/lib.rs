//! rs2lean — translator from a restricted subset of Rust (small methods of the `impl` blocks of one file) to Lean 4.
//!
//! The translation is purely syntactic and state-passing:
//!   * a `&mut self` method becomes a function that takes `self` and returns the new `self`
//!     (paired with the return value, `(self, value)`, when the Rust method returns one);
//!   * every statement that changes a field becomes `let self := { self with f := … }`;
//!   * an `if`/`match` statement becomes `let self := if … then … else self` (`let (self, x) := …` when it also assigns
//!     locals declared outside it);
//!   * an `if`/`match` statement containing an early exit (`return`, `panic!`) takes the rest of the block into its branches;
//!   * a mutable borrow of a `Vec` element (`let slot = self.v.get_mut(i)?`, `if let Some(slot) = self.v.get_mut(i)`) is a local
//!     copy of the element; every assignment through it is followed by the write-back `self.v := vecSet self.v i slot`
//!     (`i` is frozen when the borrow is taken);
//!   * `e?`, a read of a `ManuallyDrop` cell, `get_unchecked(i)` are `match … with | none => <the function returns None> | some x => …`
//!     around the rest of the block;
//!   * a `&mut S` parameter (S a struct) is state like `self`: the function returns its new value too;
//!   * the call of a method that changes its receiver (`&mut self`; translated earlier or given by --prim) is
//!     `let (r, q) := f recv args` followed by the store of `r` into the receiver; when the callee can panic (`Outcome`) it is
//!     `match f recv args with | .panic msg => .panic msg | .ok (r, q) => …` around the rest of the block;
//!   * `for x in 0..n { body }` is `forRange n state (fun x state => body)` over the state the body changes (`forRangeO` when
//!     the body can panic).
//! Everything outside the supported subset is rejected with an error (file:line: message) — the translator never guesses.
//!
//! Supported subset
//!   items       `impl[<T, …>] X[<T, …>] { fn f([&self | &mut self,] x: Ty, y: &mut S, …) [-> Ty] { … } }` for several `X` of one file
//!               (structs, fieldless enums — there also `self` by value —, methods of trait impls), free functions (`::f`);
//!               the generic parameters of the impl must be given Lean types (`--type T=α`); a generic parameter of the fn
//!               must be a closure type (`F: FnOnce(A) -> B`, → a pure Lean function) or `E: Into<T>` (→ `T`);
//!               `-> &mut T` for a borrow of an element of a Vec of `self` (the function returns the index)
//!   types       u8 u16 u32 u64 usize NonZeroU32 NonZeroU64 (→ Nat), bool, `Vec<T>` (→ List), `Option<T>`, tuples, `&T` (→ T),
//!               `ManuallyDrop<T>` (→ Option T), `PhantomData<…>` (dropped), `impl Fn*(A) -> B`, `Self`, type aliases of the file,
//!               blocks of bits (`--bits Block=64` → `BitVec 64`), named types given by `--type R=L` or emitted by `--struct R`;
//!               structs / unions of the file for field access (a union-typed field is flattened into the record that
//!               contains it: every member is a field; a `--transparent` one-field struct is its field)
//!   statements  `let x = e;` `let (a, b) = e;` `let mut x = e;` `let x;` … `x = e;` (deferred initialisation),
//!               `P = e;` `P += e;` `P -= e;` `P |= e;` `P &= e;` `P ^= e;` where `P` is `self.f…`, a `let mut` local, or
//!               `x.f…` / `*x` for a mutable borrow `x` of a Vec element, `*V.get_unchecked_mut(i) = e;`,
//!               `V.insert(i, x);` `V.push(x);` `V.remove(i);` `V.resize(n, x);` `V.swap_remove(i);` `V.clear();` (V a Vec field),
//!               `x.g(..);` for a method that changes its receiver,
//!               `assert!`/`debug_assert!`/`assert_eq!`/`assert_ne!`/`debug_assert_eq!`/`assume_unchecked(..)` (skipped, listed),
//!               `panic!(..)` (the function then returns an `Outcome`), `return [e];`, `unsafe { e }` (transparent, listed),
//!               `if c {…} [else if …] [else {…}]`, `if let Some(x) = e {…} [else {…}]`,
//!               `for x in 0..n {…}` (fold over the range), `for p in &v {…}` / `in v.iter()` (fold over the elements),
//!               `for p in &mut v {…}` (`List.map`), `for (a, b) in v.iter_mut().zip(w.iter()) {…}` (`vecZipMut`),
//!               `match e { … }` on an enum of the same file (fields by `--variant` templates; one arm per variant, no guard,
//!               no `_`), on an `Option`, on a bool, on a tuple of fieldless enums
//!   expressions integer / bool literals, locals, places `x.f.g`, `e as u32|usize|…` (identity), `+ - / %`, `< <= > >= == !=`,
//!               `&& || !`, `& | ^ ! << >>` on blocks of bits, `u32::MAX`, `V.len()`, `V.get(i)`, `V.get_mut(i)`,
//!               `V.get_unchecked[_mut](i)`, `V.swap_remove(i)`, `V.iter().position(|&p| p == x)`,
//!               `V.iter()` with `chain zip cloned copied map any all sum collect` (closures over `x`, `&x`, `(a, b)`, `&(a, b)`),
//!               `Some(e)`, `None`, `E::V(e)`, tuples, struct literals, `vec![a, b]`, `if c { a } else { b }`, `match` with value
//!               arms, `e?`, `e.unwrap()`, `e.unwrap_unchecked()`, `o.map_or(d, f)`, `e.wrapping_add(k)`, `nz.get()`,
//!               `b.count_ones()`, `f(x)` for a closure parameter,
//!               `T::g(..)` / `x.g(..)` / `g(..)` for a function translated earlier in the same run or given by `--prim` (a closure
//!               literal `|x| e` where the callee expects a closure; `Name(e)` for a tuple struct given by `--prim ::Name(T) -> R`),
//!               `ManuallyDrop::new(e)`, `ManuallyDrop::take(&mut P)`, `mem::replace(dest, e)`, parentheses

use proc_macro2::Span;
use std::collections::{BTreeMap, BTreeSet};
use syn::spanned::Spanned;
use syn::{BinOp, Block, Expr, FnArg, ImplItem, Item, Lit, Pat, ReturnType, Stmt, Type, UnOp};

macro_rules! note {
    ($t:ident, $f:ident, $s:expr) => {{
        let s: String = $s;
        note_once(&mut $t.notes.$f, s);
    }};
}

mod expr;
mod stmt;

#[derive(Clone, Debug, Default)]
pub struct Options {
    pub impl_type: String,
    /// `name` (a method of `impl_type`) or `Type::name`
    pub fns: Vec<String>,
    /// Lean namespace of the output (default `Evenio.Gen.<ImplType>`)
    pub namespace: Option<String>,
    /// Lean type standing for `Self` in `impl_type` (default: `--type <impl_type>=…`, else the impl type's name)
    pub self_type: Option<String>,
    /// Rust type name → Lean type
    pub type_map: Vec<(String, String)>,
    /// Lean type variables to bind (`variable {ρ : Type}`)
    pub tyvars: Vec<String>,
    /// `Enum::Variant` → Lean constructor (default: `.variant`, first letter lower-cased)
    pub variant_map: Vec<(String, String)>,
    pub imports: Vec<String>,
    pub opens: Vec<String>,
    /// how the source file is named in the output
    pub source_label: String,
    /// `Struct.field` or `Struct.field.member` (member of a union-typed field) → Lean field name
    pub field_map: Vec<(String, String)>,
    /// `Union.member` → the Lean value the member's field gets in a union literal that initialises another member
    pub inactive: Vec<(String, String)>,
    /// functions / constants taken as given: (`T::f(A, B) -> R` | `T::f(self, A) -> R` | `T::C: R`, Lean term; `_` = identity)
    pub prims: Vec<(String, String)>,
    /// structs of the file to emit as Lean structures
    pub structs: Vec<String>,
    /// structs with one field that are represented by that field (`ComponentAccess { cases }` is the list of cases)
    pub transparent: Vec<String>,
    /// containers with keyed elements: (`SparseMap`, Lean getter `m k : Option v`, Lean setter `m k v : m`); the element type
    /// is the last type argument
    pub maps: Vec<(String, String, String)>,
    /// containers iterated by `for (k, v) in &mut c`: (`Slab`, Lean map `c (fun k v => v)`, Lean map with state
    /// `c s (fun k v s => (v, s)) : c × s`)
    pub iter_muts: Vec<(String, String, String)>,
    /// enums defined in another file: (`EventId`, `Global(GlobalEventIdx)|Targeted(TargetedEventIdx)`)
    pub enums: Vec<(String, String)>,
    /// type names that are blocks of bits: (`Block`, 64) — `BitVec 64` with `&&& ||| ^^^ ~~~ <<< >>>`
    pub bits: Vec<(String, u32)>,
}

#[derive(Debug)]
pub struct Error(pub String);
type Res<T> = Result<T, Error>;

impl std::fmt::Display for Error {
    fn fmt(&self, f: &mut std::fmt::Formatter<'_>) -> std::fmt::Result {
        write!(f, "{}", self.0)
    }
}

#[derive(Clone, Debug, PartialEq)]
enum Ty {
    /// bits (usize counted as 64; 0 = unsuffixed literal), Rust name
    Int(u8, String),
    Bool,
    Unit,
    Named { rust: String, lean: String, tyvar: bool },
    Vec(Box<Ty>),
    Opt(Box<Ty>),
    Tuple(Vec<Ty>),
    Fn(Vec<Ty>, Box<Ty>),
    /// `ManuallyDrop<T>`: a cell that holds a value or has been emptied
    Cell(Box<Ty>),
    /// a block of bits (`--bits Block=64`): `BitVec w`
    Bits(u32),
    /// a `--map` container with values of type `val`
    Map { rust: String, lean: String, val: Box<Ty> },
    /// an iterator over a list (`v.iter()`, and what `chain` / `map` / `cloned` make of it): the list
    Iter(Box<Ty>),
    Phantom,
    /// not known to the translator (a `None` literal, a deferred `let`)
    Unknown,
}

impl Ty {
    fn lean(&self) -> String {
        match self {
            Ty::Int(..) => "Nat".into(),
            Ty::Bool => "Bool".into(),
            Ty::Bits(w) => format!("BitVec {w}"),
            Ty::Unit | Ty::Phantom | Ty::Unknown => "Unit".into(),
            Ty::Named { lean, .. } | Ty::Map { lean, .. } => lean.clone(),
            Ty::Vec(t) | Ty::Iter(t) => format!("List {}", paren_ty(&t.lean())),
            Ty::Opt(t) | Ty::Cell(t) => format!("Option {}", paren_ty(&t.lean())),
            Ty::Tuple(ts) => ts.iter().map(|t| paren_ty(&t.lean())).collect::<Vec<_>>().join(" × "),
            Ty::Fn(a, r) => {
                let mut s: Vec<String> = a.iter().map(|t| paren_ty(&t.lean())).collect();
                s.push(paren_ty(&r.lean()));
                s.join(" → ")
            }
        }
    }
    fn usize() -> Ty {
        Ty::Int(64, "usize".into())
    }
}

fn paren_ty(s: &str) -> String {
    if s.contains(' ') {
        format!("({s})")
    } else {
        s.to_string()
    }
}

/// a Lean term on one line
#[derive(Clone, Debug)]
struct L {
    s: String,
    atomic: bool,
}

impl L {
    fn atom(s: impl Into<String>) -> L {
        L { s: s.into(), atomic: true }
    }
    fn comp(s: impl Into<String>) -> L {
        L { s: s.into(), atomic: false }
    }
    fn arg(&self) -> String {
        if self.atomic {
            self.s.clone()
        } else {
            format!("({})", self.s)
        }
    }
}

/// a resolved place `base.f.g`
#[derive(Clone, Debug)]
struct PlaceInfo {
    base: String,
    lean_path: Vec<String>,
    ty: Ty,
}

impl PlaceInfo {
    fn read(&self) -> String {
        let mut s = lean_ident(&self.base);
        for p in &self.lean_path {
            s.push('.');
            s.push_str(&lean_ident(p));
        }
        s
    }
    /// the Lean term of `base` with the place replaced by `v`
    fn update(&self, v: &str) -> String {
        fn upd(base: String, path: &[String], v: &str) -> String {
            let p = lean_ident(&path[0]);
            if path.len() == 1 {
                format!("{{ {base} with {p} := {v} }}")
            } else {
                format!("{{ {base} with {p} := {} }}", upd(format!("{base}.{p}"), &path[1..], v))
            }
        }
        if self.lean_path.is_empty() {
            return v.to_string(); // a transparent struct: the place is the variable itself
        }
        upd(lean_ident(&self.base), &self.lean_path, v)
    }
}

/// a mutable borrow of the element `vec[idx]`
#[derive(Clone, Debug)]
struct Borrow {
    vec: PlaceInfo,
    /// the Lean name the index was frozen under
    idx: String,
    /// the Lean term the borrow was created as (guards the side channel `last_borrow`)
    value: String,
    /// how the element is written back (`vecSet` for a Vec; the setter of a `--map` container)
    setter: String,
}

#[derive(Clone, Debug)]
enum Kind {
    Plain,
    /// `let x;`
    Deferred { init: bool },
    MutBorrow(Borrow),
    /// `let mut x = e;`
    MutLocal,
    /// bound by `for x in &mut v`: assignments through it change the element
    ElemMut,
}

#[derive(Clone, Debug)]
struct Var {
    name: String,
    ty: Ty,
    kind: Kind,
}

type Env = Vec<Var>;

fn var(name: impl Into<String>, ty: Ty) -> Var {
    Var { name: name.into(), ty, kind: Kind::Plain }
}

#[derive(Clone, Copy, PartialEq, Debug)]
enum Mode {
    /// the block's end is the function's end: yields the function result
    Tail,
    /// the block is a statement: yields the new state (`self`, or a tuple of `self` and the locals it assigns); no early exit
    State,
    /// the block is a pure value (no field updates, no `return`)
    Value,
}

enum Chunk {
    /// `let <pattern> := <expr>`; the expression's lines
    LetState(String, Vec<String>),
    Lines(Vec<String>),
}

/// what the translation of an expression puts in front of the statement it occurs in
#[derive(Clone, Debug)]
enum Pre {
    /// `match opt with | none => <the function returns None> | some name => …rest of the block…`
    Bind { name: String, opt: String, line: usize, why: String },
    /// `let pat := rhs`
    Let { pat: String, rhs: String, line: usize },
    /// `match call with | .panic msg => .panic msg | .ok pat => …rest of the block…` (the call of something that can panic)
    OBind { pat: String, call: Vec<String>, line: usize, why: String },
}

#[derive(Default)]
struct Notes {
    asserts: Vec<String>,
    arith: Vec<String>,
    casts: Vec<String>,
    vecs: Vec<String>,
    eqs: Vec<String>,
    unsafes: Vec<String>,
    unions: Vec<String>,
    cells: Vec<String>,
    unwraps: Vec<String>,
    unchecked: Vec<String>,
    prims: Vec<String>,
    generics: Vec<String>,
    closures: Vec<String>,
    wrapping: Vec<String>,
    panics: Vec<String>,
    dropped: Vec<String>,
    renames: Vec<String>,
    variants: Vec<String>,
    refs: Vec<String>,
}

fn note_once(v: &mut Vec<String>, s: String) {
    if !v.contains(&s) {
        v.push(s);
    }
}

const LEAN_KEYWORDS: &[&str] = &[
    "at", "by", "do", "end", "from", "fun", "have", "in", "open", "show", "then", "with", "where", "def", "theorem", "namespace",
    "section", "variable", "universe", "instance", "structure", "inductive", "class", "deriving", "import", "export", "macro",
    "syntax", "notation", "infix", "prefix", "postfix", "mutual", "private", "protected", "noncomputable", "partial", "example",
    "abbrev", "axiom", "opaque", "forall", "exists", "calc", "suffices", "termination_by", "decreasing_by", "using", "nomatch",
    "nofun", "obtain", "set_option", "attribute", "local", "scoped", "this", "Type", "Prop", "Sort", "some", "none",
];

fn lean_ident(s: &str) -> String {
    if LEAN_KEYWORDS.contains(&s) {
        format!("«{s}»")
    } else {
        s.to_string()
    }
}

fn indent(lines: Vec<String>) -> Vec<String> {
    lines.into_iter().map(|l| format!("  {l}")).collect()
}

#[derive(Clone, Copy, PartialEq, Debug)]
enum DefKind {
    Struct,
    Union,
}

struct StructDef {
    kind: DefKind,
    fields: Vec<(String, Type)>,
    line: usize,
}

/// the signature of a function translated earlier in the run
#[derive(Clone, Debug)]
struct Sig {
    ty: String,
    name: String,
    has_self: bool,
    self_mut: bool,
    params: Vec<Ty>,
    ret: Ty,
    has_panic: bool,
    /// number of `&mut` parameters besides `self`
    mut_params: usize,
    /// their positions among the parameters
    mut_idx: Vec<usize>,
    /// `-> &mut T`: (path of the Vec field of `self` the borrow points into, element type); the result is the index
    ret_borrow: Option<(Vec<String>, Ty)>,
    lean: String,
    /// type-class instances the definition asks for (tyvar names)
    deceq: BTreeSet<String>,
    inh: BTreeSet<String>,
}

/// a parsed `--prim`
#[derive(Clone, Debug)]
struct Prim {
    ty: String,
    name: String,
    /// None = a constant
    args: Option<Vec<String>>,
    method: bool,
    /// `&mut self`: the Lean function returns the new receiver (paired with the result, if there is one)
    self_mut: bool,
    /// `-> Outcome<R>`: the Lean function returns an `Outcome`
    panics: bool,
    ret: String,
    lean: String,
    spec: String,
}

struct Tr<'a> {
    src_lines: Vec<&'a str>,
    file: &'a syn::File,
    opts: &'a Options,
    label: String,
    defs: BTreeMap<String, StructDef>,
    prims: Vec<Prim>,
    sigs: Vec<Sig>,
    notes: Notes,
    // per function
    cur_type: String,
    fn_name: String,
    has_self: bool,
    self_mut: bool,
    has_panic: bool,
    ret: Ty,
    closures: Vec<(String, Ty)>,
    /// generic parameters `E: Into<T>` of the function (they stand for `T`; `.into()` is the identity)
    intos: Vec<String>,
    /// the parameters declared with such a type
    into_params: Vec<String>,
    deceq: BTreeSet<String>,
    inh: BTreeSet<String>,
    match_depth: usize,
    idents: BTreeSet<String>,
    pre: Vec<Pre>,
    no_hoist: usize,
    last_borrow: Option<Borrow>,
    effect_seen: bool,
    /// the variable holding the result of the effectful call of the current statement
    last_effect_result: Option<String>,
    /// integer literals are blocks of this width (inside a bitwise operation on a block)
    bits_ctx: Option<u32>,
    /// the current function returns `&mut T` (see `Sig::ret_borrow`)
    ret_borrow: Option<(Vec<String>, Ty)>,
    /// (variable an effect of the current statement changes, how often the effectful call mentions it)
    effect_info: Vec<(String, usize)>,
    /// state variables of the enclosing `State` blocks (innermost last)
    state: Vec<Vec<String>>,
    deferred_tys: BTreeMap<String, Ty>,
    /// `&mut` parameters of a struct type (state, like `self` of a `&mut self` method)
    mut_params: Vec<String>,
    /// positions of the `&mut` parameters of the current function
    mut_idx: Vec<usize>,
    /// arguments of the call being translated that are passed as `&mut` state (positions): set by the caller of `mut_call`
    call_mut_idx: Vec<usize>,
    /// inside the body of a `for` loop: (the loop's state variables, can the body panic)
    loop_ctx: Option<(Vec<String>, bool)>,
    /// some `if`/`match` statement returns a tuple of state variables (a component may go unused afterwards)
    tuple_state: bool,
}

fn line_of(sp: Span) -> usize {
    sp.start().line
}

fn pat_of(vars: &[String]) -> String {
    if vars.len() == 1 {
        lean_ident(&vars[0])
    } else {
        format!("({})", vars.iter().map(|v| lean_ident(v)).collect::<Vec<_>>().join(", "))
    }
}

/// does the identifier `name` occur in the Lean text `s`?
fn text_mentions(s: &str, name: &str) -> bool {
    let is_id = |c: char| c.is_alphanumeric() || c == '_' || c == '\'';
    let mut from = 0;
    while let Some(k) = s[from..].find(name) {
        let a = from + k;
        let b = a + name.len();
        let before = s[..a].chars().next_back();
        let after = s[b..].chars().next();
        if !before.map(is_id).unwrap_or(false) && !after.map(is_id).unwrap_or(false) && before != Some('.') {
            return true;
        }
        from = b;
    }
    false
}

impl<'a> Tr<'a> {
    fn err<T>(&self, sp: Span, msg: impl AsRef<str>) -> Res<T> {
        Err(Error(format!("{}:{}: fn {}: {}", self.label, line_of(sp), self.fn_name, msg.as_ref())))
    }

    fn unsupported<T>(&self, sp: Span, what: impl AsRef<str>) -> Res<T> {
        let txt = self.src_text(sp);
        let txt = if txt.chars().count() > 70 { format!("{}…", txt.chars().take(70).collect::<String>()) } else { txt };
        self.err(sp, format!("outside the supported subset: {} `{}`", what.as_ref(), txt))
    }

    /// the source text under a span, white space collapsed
    fn src_text(&self, sp: Span) -> String {
        let (s, e) = (sp.start(), sp.end());
        if s.line == 0 || e.line == 0 || s.line > self.src_lines.len() || e.line > self.src_lines.len() {
            return String::new();
        }
        let mut out = String::new();
        for ln in s.line..=e.line {
            let chars: Vec<char> = self.src_lines[ln - 1].chars().collect();
            let from = if ln == s.line { s.column.min(chars.len()) } else { 0 };
            let to = if ln == e.line { e.column.min(chars.len()) } else { chars.len() };
            if from < to {
                out.extend(&chars[from..to]);
            }
            out.push(' ');
        }
        out.split_whitespace().collect::<Vec<_>>().join(" ")
    }

    fn short_text(&self, sp: Span) -> String {
        let t = self.src_text(sp);
        if t.chars().count() > 90 {
            format!("{}…", t.chars().take(90).collect::<String>())
        } else {
            t
        }
    }

    fn fresh(&mut self, prefix: &str) -> String {
        let mut n = 1;
        loop {
            let name = format!("{prefix}{n}");
            if !self.idents.contains(&name) {
                self.idents.insert(name.clone());
                return name;
            }
            n += 1;
        }
    }

    // ---------------------------------------------------------------- types

    fn self_lean(&self, rust: &str) -> String {
        if rust == self.opts.impl_type {
            if let Some(s) = &self.opts.self_type {
                return s.clone();
            }
        }
        match self.opts.type_map.iter().find(|(r, _)| r == rust) {
            Some((_, l)) => l.clone(),
            None => rust.to_string(),
        }
    }

    fn named(&self, rust: &str) -> Option<Ty> {
        if rust == self.opts.impl_type && self.opts.self_type.is_some() {
            let lean = self.self_lean(rust);
            return Some(Ty::Named { rust: rust.to_string(), lean, tyvar: false });
        }
        if let Some((_, lean)) = self.opts.type_map.iter().find(|(r, _)| r == rust) {
            return Some(Ty::Named { rust: rust.to_string(), lean: lean.clone(), tyvar: self.opts.tyvars.contains(lean) });
        }
        if self.opts.structs.iter().any(|s| s == rust) || rust == self.opts.impl_type {
            return Some(Ty::Named { rust: rust.to_string(), lean: rust.to_string(), tyvar: false });
        }
        None
    }

    fn fn_trait(&self, path: &syn::Path, sp: Span) -> Res<Option<Ty>> {
        let seg = match path.segments.last() {
            Some(s) => s,
            None => return Ok(None),
        };
        if !matches!(seg.ident.to_string().as_str(), "FnOnce" | "FnMut" | "Fn") {
            return Ok(None);
        }
        match &seg.arguments {
            syn::PathArguments::Parenthesized(p) => {
                let mut args = vec![];
                for a in &p.inputs {
                    args.push(self.ty(a)?);
                }
                let ret = match &p.output {
                    ReturnType::Default => Ty::Unit,
                    ReturnType::Type(_, t) => self.ty(t)?,
                };
                if args.is_empty() {
                    return self.unsupported(sp, "closure type without arguments");
                }
                Ok(Some(Ty::Fn(args, Box::new(ret))))
            }
            _ => Ok(None),
        }
    }

    fn ty(&self, t: &Type) -> Res<Ty> {
        match t {
            Type::Paren(p) => self.ty(&p.elem),
            Type::Group(p) => self.ty(&p.elem),
            Type::Tuple(t) if t.elems.is_empty() => Ok(Ty::Unit),
            Type::Tuple(t) => {
                let mut ts = vec![];
                for e in &t.elems {
                    ts.push(self.ty(e)?);
                }
                Ok(Ty::Tuple(ts))
            }
            Type::Reference(r) if r.mutability.is_none() => self.ty(&r.elem),
            Type::Infer(_) => Ok(Ty::Unknown),
            Type::ImplTrait(it) if it.bounds.len() == 1 => match &it.bounds[0] {
                syn::TypeParamBound::Trait(tb) => match self.fn_trait(&tb.path, t.span())? {
                    Some(f) => Ok(f),
                    None => self.unsupported(t.span(), "type"),
                },
                _ => self.unsupported(t.span(), "type"),
            },
            Type::Path(p) if p.qself.is_none() && p.path.segments.len() == 1 => {
                let seg = &p.path.segments[0];
                let name = seg.ident.to_string();
                match &seg.arguments {
                    syn::PathArguments::None => {
                        let bits = match name.as_str() {
                            "u8" => 8,
                            "u16" => 16,
                            "u32" | "NonZeroU32" => 32,
                            "u64" | "usize" | "NonZeroU64" => 64,
                            _ => 0,
                        };
                        if bits > 0 {
                            return Ok(Ty::Int(bits, name));
                        }
                        if name == "bool" {
                            return Ok(Ty::Bool);
                        }
                        if matches!(name.as_str(), "i8" | "i16" | "i32" | "i64" | "isize" | "u128" | "i128" | "f32" | "f64" | "char" | "str" | "String") {
                            return self.unsupported(t.span(), "type");
                        }
                        if name == "Self" {
                            if self.cur_type.is_empty() {
                                return self.unsupported(t.span(), "`Self` as a value type");
                            }
                            let lean = self.self_lean(&self.cur_type);
                            return Ok(Ty::Named { rust: self.cur_type.clone(), lean, tyvar: false });
                        }
                        if name == "PhantomData" {
                            return Ok(Ty::Phantom);
                        }
                        if let Some((_, w)) = self.opts.bits.iter().find(|(n, _)| *n == name) {
                            return Ok(Ty::Bits(*w));
                        }
                        if let Some((_, f)) = self.closures.iter().find(|(n, _)| *n == name) {
                            return Ok(f.clone());
                        }
                        if let Some(nt) = self.named(&name) {
                            return Ok(nt);
                        }
                        // a type alias of the file
                        for it in &self.file.items {
                            if let Item::Type(ta) = it {
                                if ta.ident == name.as_str() && ta.generics.params.is_empty() {
                                    return self.ty(&ta.ty);
                                }
                            }
                        }
                        self.err(t.span(), format!("no Lean type given for the Rust type `{name}` (use --type {name}=<LeanType>)"))
                    }
                    syn::PathArguments::AngleBracketed(ab) => {
                        if name == "PhantomData" {
                            return Ok(Ty::Phantom);
                        }
                        if ab.args.len() == 1 && matches!(name.as_str(), "Vec" | "Option" | "ManuallyDrop") {
                            let inner = match &ab.args[0] {
                                syn::GenericArgument::Type(t) => self.ty(t)?,
                                _ => return self.unsupported(t.span(), "type argument"),
                            };
                            return Ok(match name.as_str() {
                                "Vec" => Ty::Vec(Box::new(inner)),
                                "Option" => Ty::Opt(Box::new(inner)),
                                _ => Ty::Cell(Box::new(inner)),
                            });
                        }
                        if self.opts.maps.iter().any(|(n, _, _)| *n == name) {
                            let val = match ab.args.last() {
                                Some(syn::GenericArgument::Type(t)) => self.ty(t)?,
                                _ => return self.unsupported(t.span(), "type argument"),
                            };
                            return match self.named(&name) {
                                Some(Ty::Named { rust, lean, .. }) => Ok(Ty::Map { rust, lean, val: Box::new(val) }),
                                _ => self.err(t.span(), format!("no Lean type given for the Rust type `{name}` (use --type {name}=<LeanType>)")),
                            };
                        }
                        // a generic struct of the file: the Lean type given for its name stands for every instance
                        match self.named(&name) {
                            Some(nt) => {
                                for a in &ab.args {
                                    if !matches!(a, syn::GenericArgument::Type(_)) {
                                        return self.unsupported(t.span(), "type argument");
                                    }
                                }
                                Ok(nt)
                            }
                            None if self.defs.contains_key(&name) => self.err(t.span(), format!("no Lean type given for the Rust type `{name}` (use --type {name}=<LeanType>)")),
                            None => self.unsupported(t.span(), "type"),
                        }
                    }
                    _ => self.unsupported(t.span(), "type"),
                }
            }
            _ => self.unsupported(t.span(), "type"),
        }
    }

    fn lean_field(&self, key: &str, default: String) -> String {
        match self.opts.field_map.iter().find(|(k, _)| k == key) {
            Some((_, l)) => l.clone(),
            None => default,
        }
    }

    /// the union a field type names, if any
    fn union_of(&self, t: &Type) -> Option<String> {
        if let Type::Path(p) = t {
            if let Some(seg) = p.path.segments.last() {
                let n = seg.ident.to_string();
                if let Some(d) = self.defs.get(&n) {
                    if d.kind == DefKind::Union {
                        return Some(n);
                    }
                }
            }
        }
        None
    }

    /// `base.f.g…` with `base : base_ty`
    fn resolve_place(&mut self, base: &str, base_ty: &Ty, segs: &[String], sp: Span) -> Res<PlaceInfo> {
        let mut cur = base_ty.clone();
        let mut lean_path = vec![];
        let mut i = 0;
        while i < segs.len() {
            let rust = match &cur {
                Ty::Named { rust, .. } => rust.clone(),
                _ => return self.unsupported(sp, "field access on a value that is not a struct of this file;"),
            };
            let f = &segs[i];
            let fty = match self.defs.get(&rust) {
                Some(d) if d.kind == DefKind::Struct => match d.fields.iter().find(|(n, _)| n == f) {
                    Some((_, t)) => t.clone(),
                    None => return self.err(sp, format!("`{rust}` has no field `{f}`")),
                },
                _ => return self.err(sp, format!("outside the supported subset: field access on `{rust}`, which is not a struct with named fields defined in this file")),
            };
            if self.opts.transparent.iter().any(|t| *t == rust) {
                // the struct is its only field
                cur = self.ty(&fty)?;
                i += 1;
                continue;
            }
            if let Some(u) = self.union_of(&fty) {
                let m = match segs.get(i + 1) {
                    Some(m) => m,
                    None => return self.unsupported(sp, "a union as a whole (only its members)"),
                };
                let mty = match self.defs[&u].fields.iter().find(|(n, _)| n == m) {
                    Some((_, t)) => t.clone(),
                    None => return self.err(sp, format!("union `{u}` has no member `{m}`")),
                };
                let lf = self.lean_field(&format!("{rust}.{f}.{m}"), format!("{f}_{m}"));
                note!(self, unions, format!("line {}: `{}` (member `{m}` of the union `{u}`)", line_of(sp), self.src_text(sp)));
                lean_path.push(lf);
                cur = self.ty(&mty)?;
                i += 2;
            } else {
                lean_path.push(self.lean_field(&format!("{rust}.{f}"), f.clone()));
                cur = self.ty(&fty)?;
                i += 1;
            }
        }
        Ok(PlaceInfo { base: base.to_string(), lean_path, ty: cur })
    }

    /// the variants of a fieldless enum defined in the same file
    /// the variants of an enum defined in the same file, each with the types of its (unnamed) fields
    fn enum_variants(&self, rust: &str) -> Option<Result<Vec<(String, Vec<Type>)>, String>> {
        // declared by --enum (an enum of another file)
        if let Some((_, decl)) = self.opts.enums.iter().find(|(n, _)| n == rust) {
            let mut vs = vec![];
            for v in decl.split('|') {
                let v = v.trim();
                let (name, fields) = match v.split_once('(') {
                    Some((n, rest)) => (n.trim().to_string(), split_top(rest.trim_end_matches(')'))),
                    None => (v.to_string(), vec![]),
                };
                let mut tys = vec![];
                for f in fields {
                    match syn::parse_str::<Type>(&f) {
                        Ok(t) => tys.push(t),
                        Err(_) => return Some(Err(format!("--enum {rust}: cannot parse the type `{f}`"))),
                    }
                }
                vs.push((name, tys));
            }
            return Some(Ok(vs));
        }
        for it in &self.file.items {
            if let Item::Enum(e) = it {
                if e.ident == rust {
                    let mut vs = vec![];
                    for v in &e.variants {
                        match &v.fields {
                            syn::Fields::Unit => vs.push((v.ident.to_string(), vec![])),
                            syn::Fields::Unnamed(u) => vs.push((v.ident.to_string(), u.unnamed.iter().map(|f| f.ty.clone()).collect())),
                            syn::Fields::Named(_) => return Some(Err(format!("variant `{}::{}` has named fields", rust, v.ident))),
                        }
                    }
                    return Some(Ok(vs));
                }
            }
        }
        None
    }

    /// the Lean term / pattern of `En::V(args)`: the template given by --variant (`$1`, `$2`, … are the arguments), else
    /// `.v args` (first letter lower-cased)
    fn lean_variant(&self, en: &str, v: &str, args: &[String]) -> String {
        let key = format!("{en}::{v}");
        if let Some((_, l)) = self.opts.variant_map.iter().find(|(k, _)| *k == key) {
            let mut t = l.clone();
            for (i, a) in args.iter().enumerate().rev() {
                t = t.replace(&format!("${}", i + 1), a);
            }
            return t;
        }
        let mut c = v.chars();
        let first = c.next().map(|f| f.to_lowercase().collect::<String>()).unwrap_or_default();
        let mut t = format!(".{}", lean_ident(&format!("{first}{}", c.as_str())));
        for a in args {
            t.push(' ');
            t.push_str(a);
        }
        t
    }

    // ---------------------------------------------------------------- results

    /// the state the function threads through: `self` of a `&mut self` method and the `&mut` parameters
    fn state_base(&self) -> Vec<String> {
        let mut v = vec![];
        if self.self_mut {
            v.push("self".to_string());
        }
        v.extend(self.mut_params.iter().cloned());
        v
    }

    fn is_state_var(&self, name: &str) -> bool {
        (name == "self" && self.self_mut) || self.mut_params.iter().any(|p| p == name)
    }

    /// the state at the end of a `Tail` block: the function's, or the enclosing loop's
    fn tail_state(&self) -> Vec<String> {
        match &self.loop_ctx {
            Some((vars, _)) => vars.clone(),
            None => self.state_base(),
        }
    }

    /// the function's result for the value `v` (None: a unit function); inside a loop body: the body's
    fn result(&self, v: Option<&str>) -> String {
        let mut comps: Vec<String> = self.tail_state().iter().map(|x| lean_ident(x)).collect();
        if let Some(v) = v {
            comps.push(v.to_string());
        }
        let base = match comps.len() {
            0 => "()".to_string(),
            1 => comps.remove(0),
            _ => format!("({})", comps.join(", ")),
        };
        if self.has_panic {
            if base.contains(' ') && !base.starts_with('(') {
                format!(".ok ({base})")
            } else {
                format!(".ok {base}")
            }
        } else {
            base
        }
    }

    fn take_pre(&mut self) -> Vec<Pre> {
        std::mem::take(&mut self.pre)
    }

    fn push_pre(&mut self, p: Pre, sp: Span) -> Res<()> {
        if self.no_hoist > 0 {
            return self.unsupported(sp, "early exit or effect inside a conditionally evaluated operand:");
        }
        if let Pre::OBind { .. } = p {
            if !self.has_panic {
                return self.err(sp, "internal: a call that can panic in a function not marked as panicking");
            }
        }
        if let Pre::Bind { .. } = p {
            if self.loop_ctx.is_some() {
                return self.unsupported(sp, "early exit to `None` inside a loop body:");
            }
            // (allowed when what is tested is the result of the effectful call itself: `self.m.remove(k)?`)
            let on_result = matches!((&p, &self.last_effect_result), (Pre::Bind { opt, .. }, Some(q)) if opt == q);
            if self.effect_seen && !on_result {
                return self.unsupported(sp, "early exit after an effect in the same statement:");
            }
            if !matches!(self.ret, Ty::Opt(_)) {
                return self.unsupported(sp, "early exit to `None` in a function that does not return an `Option`:");
            }
        }
        self.pre.push(p);
        Ok(())
    }

    fn binds_in(pre: &[Pre]) -> usize {
        pre.iter().filter(|p| matches!(p, Pre::Bind { .. } | Pre::OBind { .. })).count()
    }

    /// `inner` (translated with `match_depth` raised by the number of binds in `pre`) behind the lets and binds of `pre`
    fn wrap(&mut self, pre: Vec<Pre>, inner: Vec<String>) -> Vec<String> {
        let nb = Self::binds_in(&pre);
        let mut k = nb;
        let mut lines = inner;
        let exit = self.result(Some("none"));
        for p in pre.into_iter().rev() {
            match p {
                Pre::Let { pat, rhs, line } => lines.insert(0, format!("let {pat} := {rhs}  -- L{line}")),
                Pre::OBind { pat, mut call, line, why } => {
                    k -= 1;
                    call[0] = format!("match {}", call[0]);
                    let last = call.len() - 1;
                    call[last] = match call[last].find("  -- ") {
                        Some(c) => format!("{} with{}", &call[last][..c], &call[last][c..]),
                        None => format!("{} with  -- L{line}: {why}", call[last]),
                    };
                    let mut m = call;
                    m.push("| .panic msg => .panic msg".to_string());
                    m.push(format!("| .ok {pat} =>"));
                    m.extend(indent(lines));
                    lines = if self.match_depth + k > 0 { paren_lines(m) } else { m };
                }
                Pre::Bind { name, opt, line, why } => {
                    k -= 1;
                    let mut m = vec![format!("match {opt} with  -- L{line}: {why}"), format!("| none => {exit}"), format!("| some {} =>", lean_ident(&name))];
                    m.extend(indent(lines));
                    lines = if self.match_depth + k > 0 { paren_lines(m) } else { m };
                }
            }
        }
        lines
    }

    /// a `match` nested in an arm of another `match` is parenthesised
    fn paren_match(&self, lines: Vec<String>) -> Vec<String> {
        if self.match_depth > 0 {
            paren_lines(lines)
        } else {
            lines
        }
    }
}

fn paren_lines(mut lines: Vec<String>) -> Vec<String> {
    lines[0] = format!("({}", lines[0]);
    // the closing parenthesis goes before a trailing comment, if any
    let last = lines.len() - 1;
    lines[last] = match lines[last].find("  -- ") {
        Some(k) => format!("{}){}", &lines[last][..k], &lines[last][k..]),
        None => format!("{})", lines[last]),
    };
    lines
}

fn flatten(out: Vec<Chunk>) -> Vec<String> {
    let mut lines = vec![];
    for c in out {
        match c {
            Chunk::Lines(l) => lines.extend(l),
            Chunk::LetState(p, l) => {
                if l.len() == 1 {
                    lines.push(format!("let {p} := {}", l[0]));
                } else {
                    lines.push(format!("let {p} :="));
                    lines.extend(indent(l));
                }
            }
        }
    }
    lines
}

/// may a value of type `v` be stored where `slot` is expected? (the Rust compiler has checked the program; this only
/// guards the translator's own bookkeeping)
fn assignable(slot: &Ty, v: &Ty) -> bool {
    match (slot, v) {
        (_, Ty::Unknown) | (Ty::Unknown, _) => true,
        (Ty::Int(..), Ty::Int(0, _)) | (Ty::Int(0, _), Ty::Int(..)) => true,
        (Ty::Bits(_), Ty::Int(0, _)) => true,
        (Ty::Int(a, _), Ty::Int(b, _)) => a == b,
        (Ty::Opt(_), Ty::Opt(b)) if **b == Ty::Unit => true, // `None`
        (Ty::Opt(a), Ty::Opt(b)) => assignable(a, b),
        (Ty::Cell(a), Ty::Cell(b)) => assignable(a, b),
        (Ty::Vec(a), Ty::Vec(b)) | (Ty::Iter(a), Ty::Iter(b)) => assignable(a, b),
        (Ty::Tuple(a), Ty::Tuple(b)) => a.len() == b.len() && a.iter().zip(b).all(|(x, y)| assignable(x, y)),
        _ => slot == v,
    }
}

fn mentions(e: &Expr, name: &str) -> bool {
    count_mentions(e, name) > 0
}

fn count_mentions(e: &Expr, name: &str) -> usize {
    use quote::ToTokens;
    e.to_token_stream().into_iter().map(|t| tokens_count(t, name)).sum()
}

fn tokens_count(t: proc_macro2::TokenTree, name: &str) -> usize {
    match t {
        proc_macro2::TokenTree::Ident(i) => (i == name) as usize,
        proc_macro2::TokenTree::Group(g) => g.stream().into_iter().map(|t| tokens_count(t, name)).sum(),
        _ => 0,
    }
}

fn collect_idents(ts: proc_macro2::TokenStream, out: &mut BTreeSet<String>) {
    for t in ts {
        match t {
            proc_macro2::TokenTree::Ident(i) => {
                out.insert(i.to_string());
            }
            proc_macro2::TokenTree::Group(g) => collect_idents(g.stream(), out),
            _ => {}
        }
    }
}

/// does `panic!` occur in the token stream?
fn tokens_have_panic(ts: proc_macro2::TokenStream) -> bool {
    let v: Vec<proc_macro2::TokenTree> = ts.into_iter().collect();
    for (i, t) in v.iter().enumerate() {
        match t {
            proc_macro2::TokenTree::Ident(id) if id == "panic" => {
                if let Some(proc_macro2::TokenTree::Punct(p)) = v.get(i + 1) {
                    if p.as_char() == '!' {
                        return true;
                    }
                }
            }
            proc_macro2::TokenTree::Group(g) => {
                if tokens_have_panic(g.stream()) {
                    return true;
                }
            }
            _ => {}
        }
    }
    false
}

fn is_panic_macro(m: &syn::Macro) -> bool {
    m.path.is_ident("panic")
}

fn panic_message(m: &syn::Macro) -> String {
    for t in m.tokens.clone() {
        if let proc_macro2::TokenTree::Literal(l) = t {
            let s = l.to_string();
            if s.starts_with('"') && s.ends_with('"') && s.len() >= 2 {
                return s[1..s.len() - 1].replace('\\', "");
            }
        }
    }
    String::new()
}

fn block_contains_return(b: &Block) -> bool {
    stmts_contain_return(&b.stmts)
}

fn stmts_contain_return(stmts: &[Stmt]) -> bool {
    stmts.iter().any(|s| match s {
        Stmt::Expr(e, _) => expr_contains_return(e),
        Stmt::Macro(m) => is_panic_macro(&m.mac),
        Stmt::Local(l) => l.init.as_ref().map(|i| expr_contains_return(&i.expr) || i.diverge.as_ref().map(|(_, d)| expr_contains_return(d)).unwrap_or(false)).unwrap_or(false),
        _ => false,
    })
}

/// does a `return` / `panic!` occur in the statement positions the translator descends into? (anywhere else it is rejected
/// where it is met)
fn expr_contains_return(e: &Expr) -> bool {
    match e {
        Expr::Return(_) => true,
        Expr::Macro(m) => is_panic_macro(&m.mac),
        Expr::If(i) => block_contains_return(&i.then_branch) || i.else_branch.as_ref().map(|(_, b)| expr_contains_return(b)).unwrap_or(false),
        Expr::Match(m) => m.arms.iter().any(|a| expr_contains_return(&a.body)),
        Expr::Block(b) => block_contains_return(&b.block),
        Expr::Paren(p) => expr_contains_return(&p.expr),
        _ => false,
    }
}

fn definitely_returns(stmts: &[Stmt]) -> bool {
    match stmts.last() {
        Some(Stmt::Expr(e, _)) => expr_definitely_returns(e),
        Some(Stmt::Macro(m)) => is_panic_macro(&m.mac),
        _ => false,
    }
}

fn expr_definitely_returns(e: &Expr) -> bool {
    match e {
        Expr::Return(_) => true,
        Expr::Macro(m) => is_panic_macro(&m.mac),
        Expr::If(i) => match &i.else_branch {
            Some((_, b)) => definitely_returns(&i.then_branch.stmts) && expr_definitely_returns(b),
            None => false,
        },
        Expr::Match(m) => !m.arms.is_empty() && m.arms.iter().all(|a| expr_definitely_returns(&a.body)),
        Expr::Block(b) => definitely_returns(&b.block.stmts),
        _ => false,
    }
}

/// the variable at the root of an assigned place: `x`, `x.f.g`, `*x`, `&mut x.f`
fn root_ident(e: &Expr) -> Option<String> {
    match e {
        Expr::Path(p) if p.qself.is_none() && p.path.segments.len() == 1 => Some(p.path.segments[0].ident.to_string()),
        Expr::Field(f) => root_ident(&f.base),
        Expr::Paren(p) => root_ident(&p.expr),
        Expr::Group(p) => root_ident(&p.expr),
        Expr::Unary(u) if matches!(u.op, UnOp::Deref(_)) => root_ident(&u.expr),
        Expr::Reference(r) => root_ident(&r.expr),
        Expr::Unsafe(u) => match u.block.stmts.as_slice() {
            [Stmt::Expr(e, None)] => root_ident(e),
            _ => None,
        },
        _ => None,
    }
}

/// the variables assigned in `e` (syntactic scan of the shapes the translator accepts), and the names bound by a `let` in it
fn assigned_in_expr(e: &Expr, out: &mut Vec<String>, lets: &mut Vec<String>) {
    let add = |x: Option<String>, out: &mut Vec<String>| {
        if let Some(x) = x {
            if !out.contains(&x) {
                out.push(x);
            }
        }
    };
    match e {
        Expr::Assign(a) => {
            add(root_ident(&a.left), out);
            assigned_in_expr(&a.right, out, lets);
        }
        Expr::Binary(b) => {
            if matches!(b.op, BinOp::AddAssign(_) | BinOp::SubAssign(_) | BinOp::MulAssign(_) | BinOp::DivAssign(_) | BinOp::RemAssign(_) | BinOp::BitAndAssign(_) | BinOp::BitOrAssign(_) | BinOp::BitXorAssign(_) | BinOp::ShlAssign(_) | BinOp::ShrAssign(_)) {
                add(root_ident(&b.left), out);
            } else {
                assigned_in_expr(&b.left, out, lets);
            }
            assigned_in_expr(&b.right, out, lets);
        }
        Expr::Call(c) => {
            if let Expr::Path(p) = &*c.func {
                let last = p.path.segments.last().map(|s| s.ident.to_string()).unwrap_or_default();
                if (last == "take" || last == "replace" || last == "swap") && !c.args.is_empty() {
                    add(root_ident(&c.args[0]), out);
                }
            }
            for a in &c.args {
                assigned_in_expr(a, out, lets);
            }
        }
        Expr::MethodCall(m) => {
            // a method may change its receiver: `@x` marks the receiver's root (kept only for `let mut` locals)
            if let Some(x) = root_ident(&m.receiver) {
                let tag = format!("@{x}");
                if !out.contains(&tag) {
                    out.push(tag);
                }
            }
            assigned_in_expr(&m.receiver, out, lets);
            for a in &m.args {
                assigned_in_expr(a, out, lets);
            }
        }
        Expr::If(i) => {
            assigned_in_expr(&i.cond, out, lets);
            assigned_in_stmts(&i.then_branch.stmts, out, lets);
            if let Some((_, b)) = &i.else_branch {
                assigned_in_expr(b, out, lets);
            }
        }
        Expr::Let(l) => {
            pat_names(&l.pat, lets);
            assigned_in_expr(&l.expr, out, lets);
        }
        Expr::Match(m) => {
            assigned_in_expr(&m.expr, out, lets);
            for a in &m.arms {
                pat_names(&a.pat, lets);
                assigned_in_expr(&a.body, out, lets);
            }
        }
        Expr::ForLoop(f) => {
            pat_names(&f.pat, lets);
            assigned_in_expr(&f.expr, out, lets);
            assigned_in_stmts(&f.body.stmts, out, lets);
        }
        Expr::Block(b) => assigned_in_stmts(&b.block.stmts, out, lets),
        Expr::Unsafe(u) => assigned_in_stmts(&u.block.stmts, out, lets),
        Expr::Paren(p) => assigned_in_expr(&p.expr, out, lets),
        Expr::Group(p) => assigned_in_expr(&p.expr, out, lets),
        Expr::Reference(r) => assigned_in_expr(&r.expr, out, lets),
        Expr::Unary(u) => assigned_in_expr(&u.expr, out, lets),
        Expr::Try(t) => assigned_in_expr(&t.expr, out, lets),
        Expr::Cast(c) => assigned_in_expr(&c.expr, out, lets),
        Expr::Field(f) => assigned_in_expr(&f.base, out, lets),
        Expr::Tuple(t) => t.elems.iter().for_each(|e| assigned_in_expr(e, out, lets)),
        Expr::Struct(s) => s.fields.iter().for_each(|f| assigned_in_expr(&f.expr, out, lets)),
        Expr::Return(r) => {
            if let Some(e) = &r.expr {
                assigned_in_expr(e, out, lets)
            }
        }
        _ => {}
    }
}

fn assigned_in_stmts(stmts: &[Stmt], out: &mut Vec<String>, lets: &mut Vec<String>) {
    for s in stmts {
        match s {
            Stmt::Expr(e, _) => assigned_in_expr(e, out, lets),
            Stmt::Local(l) => {
                pat_names(&l.pat, lets);
                if let Some(i) = &l.init {
                    assigned_in_expr(&i.expr, out, lets);
                }
            }
            _ => {}
        }
    }
}

fn pat_names(p: &Pat, out: &mut Vec<String>) {
    match p {
        Pat::Ident(i) => {
            let n = i.ident.to_string();
            if n != "None" && !out.contains(&n) {
                out.push(n);
            }
        }
        Pat::Type(t) => pat_names(&t.pat, out),
        Pat::Reference(r) => pat_names(&r.pat, out),
        Pat::TupleStruct(ts) => ts.elems.iter().for_each(|e| pat_names(e, out)),
        Pat::Tuple(t) => t.elems.iter().for_each(|e| pat_names(e, out)),
        Pat::Paren(p) => pat_names(&p.pat, out),
        Pat::Or(o) => o.cases.iter().for_each(|e| pat_names(e, out)),
        _ => {}
    }
}

/// split at top-level commas
fn split_top(s: &str) -> Vec<String> {
    let mut out = vec![];
    let mut depth = 0i32;
    let mut cur = String::new();
    for c in s.chars() {
        match c {
            '(' | '<' | '[' => depth += 1,
            ')' | '>' | ']' => depth -= 1,
            _ => {}
        }
        if c == ',' && depth == 0 {
            out.push(cur.trim().to_string());
            cur.clear();
        } else {
            cur.push(c);
        }
    }
    if !cur.trim().is_empty() {
        out.push(cur.trim().to_string());
    }
    out
}

fn parse_prim(spec: &str, lean: &str) -> Result<Prim, String> {
    let bad = || format!("--prim `{spec}`: expected `T::f(A, B) -> R`, `T::f(self, A) -> R` or `T::C: R`");
    let (ty, rest) = spec.split_once("::").ok_or_else(bad)?;
    let ty = ty.trim().to_string();
    let rest = rest.trim();
    if let Some(open) = rest.find('(') {
        let name = rest[..open].trim().to_string();
        // the matching `)` of the argument list
        let mut depth = 0;
        let mut close = None;
        for (k, c) in rest.char_indices().skip(open) {
            if c == '(' {
                depth += 1;
            } else if c == ')' {
                depth -= 1;
                if depth == 0 {
                    close = Some(k);
                    break;
                }
            }
        }
        let close = close.ok_or_else(bad)?;
        let mut args = split_top(&rest[open + 1..close]);
        let self_mut = args.first().map(|a| a == "&mut self").unwrap_or(false);
        let method = self_mut || args.first().map(|a| a == "self" || a == "&self").unwrap_or(false);
        if method {
            args.remove(0);
        }
        let tail = rest[close + 1..].trim();
        let ret = match tail.strip_prefix("->") {
            Some(r) => r.trim().to_string(),
            None if tail.is_empty() => "()".to_string(),
            None => return Err(bad()),
        };
        let (ret, panics) = match ret.strip_prefix("Outcome<").and_then(|r| r.strip_suffix('>')) {
            Some(inner) => (inner.trim().to_string(), true),
            None => (ret, false),
        };
        if name.is_empty() {
            return Err(bad());
        }
        Ok(Prim { ty, name, args: Some(args), method, self_mut, panics, ret, lean: lean.to_string(), spec: spec.to_string() })
    } else {
        let (name, ret) = rest.split_once(':').ok_or_else(bad)?;
        Ok(Prim { ty, name: name.trim().to_string(), args: None, method: false, self_mut: false, panics: false, ret: ret.trim().to_string(), lean: lean.to_string(), spec: spec.to_string() })
    }
}

include!("translate.rs");

#[cfg(test)]
mod tests;
