//! expressions
use super::*;

impl<'a> Tr<'a> {
    /// parentheses and `unsafe { e }` blocks are transparent (every `unsafe` block is listed in the header)
    pub(crate) fn strip<'e>(&mut self, e: &'e Expr) -> Res<&'e Expr> {
        let mut e = e;
        loop {
            match e {
                Expr::Paren(p) => e = &p.expr,
                Expr::Group(p) => e = &p.expr,
                Expr::Unsafe(u) => {
                    if !u.attrs.is_empty() {
                        return self.unsupported(e.span(), "attribute");
                    }
                    match u.block.stmts.as_slice() {
                        [Stmt::Expr(inner, None)] => {
                            let n = format!("line {}: `{}`", line_of(e.span()), self.short_text(e.span()));
                            note!(self, unsafes, n);
                            e = inner;
                        }
                        _ => return self.unsupported(e.span(), "`unsafe` block with statements (only `unsafe { expr }`)"),
                    }
                }
                _ => return Ok(e),
            }
        }
    }

    /// `x.f.g` rooted at a variable → (x, [f, g])
    pub(crate) fn as_place(&self, e: &Expr) -> Option<(String, Vec<String>)> {
        match e {
            Expr::Paren(p) => self.as_place(&p.expr),
            Expr::Group(p) => self.as_place(&p.expr),
            Expr::Path(p) if p.qself.is_none() && p.path.segments.len() == 1 && p.path.segments[0].arguments.is_none() => Some((p.path.segments[0].ident.to_string(), vec![])),
            Expr::Field(f) => {
                let (b, mut segs) = self.as_place(&f.base)?;
                match &f.member {
                    syn::Member::Named(id) => {
                        segs.push(id.to_string());
                        Some((b, segs))
                    }
                    _ => None,
                }
            }
            _ => None,
        }
    }

    pub(crate) fn lookup<'e>(&self, env: &'e Env, name: &str) -> Option<&'e Var> {
        env.iter().rev().find(|v| v.name == name)
    }

    /// a place expression (with at least one field) resolved against the environment
    pub(crate) fn place(&mut self, e: &Expr, env: &Env) -> Res<Option<PlaceInfo>> {
        let (base, segs) = match self.as_place(e) {
            Some(x) if !x.1.is_empty() => x,
            _ => return Ok(None),
        };
        if base == "self" && !self.has_self {
            return self.unsupported(e.span(), "field access without a self parameter");
        }
        let v = match self.lookup(env, &base) {
            Some(v) => v.clone(),
            None => return self.unsupported(e.span(), "field access (the base is neither `self` nor a local)"),
        };
        Ok(Some(self.resolve_place(&base, &v.ty, &segs, e.span())?))
    }

    fn int_const(&self, ty: &str, name: &str) -> Option<(String, Ty)> {
        let bits: u32 = match ty {
            "u8" => 8,
            "u16" => 16,
            "u32" => 32,
            "u64" | "usize" => 64,
            _ => return None,
        };
        let v: u128 = match name {
            "MAX" => (1u128 << bits) - 1,
            "MIN" => 0,
            _ => return None,
        };
        Some((v.to_string(), Ty::Int(bits as u8, ty.to_string())))
    }

    fn find_prim(&self, ty: &str, name: &str) -> Option<Prim> {
        self.prims.iter().find(|p| p.ty == ty && p.name == name).cloned()
    }

    fn prim_ty(&self, s: &str, sp: Span) -> Res<Ty> {
        match syn::parse_str::<Type>(s) {
            Ok(t) => self.ty(&t),
            Err(_) => self.err(sp, format!("--prim: cannot parse the type `{s}`")),
        }
    }

    fn apply_prim(&mut self, p: &Prim, args: Vec<L>, sp: Span) -> Res<(L, Ty)> {
        let ret = self.prim_ty(&p.ret.clone(), sp)?;
        note!(self, prims, format!("`{}` is taken as `{}`", p.spec, if p.lean == "_" { "the identity".to_string() } else { p.lean.clone() }));
        if p.lean == "_" {
            if args.len() != 1 {
                return self.err(sp, format!("--prim `{}`: `_` (identity) needs exactly one argument", p.spec));
            }
            return Ok((args[0].clone(), ret));
        }
        if args.is_empty() {
            return Ok((if p.lean.contains(' ') { L::comp(p.lean.clone()) } else { L::atom(p.lean.clone()) }, ret));
        }
        let f = if p.lean.contains(' ') { format!("({})", p.lean) } else { p.lean.clone() };
        Ok((L::comp(format!("{f} {}", args.iter().map(|a| a.arg()).collect::<Vec<_>>().join(" "))), ret))
    }

    /// `T` in `T::f`: `Self` is the impl type
    fn type_name(&self, s: &str) -> String {
        if s == "Self" {
            self.cur_type.clone()
        } else {
            s.to_string()
        }
    }

    /// the Lean name to call `s` by: inside `def Other.f` the namespace `Other` is open, so a function of the primary type (or
    /// a free one) with the same name as a function of `Other` is named in full
    fn sig_lean_name(&self, s: &Sig) -> String {
        let callee_top = s.ty.is_empty() || s.ty == self.opts.impl_type;
        let caller_nested = !self.cur_type.is_empty() && self.cur_type != self.opts.impl_type;
        if callee_top && caller_nested {
            let ns = self.opts.namespace.clone().unwrap_or_else(|| format!("Evenio.Gen.{}", self.opts.impl_type));
            return format!("{ns}.{}", s.lean);
        }
        s.lean.clone()
    }

    fn use_sig(&mut self, s: &Sig) {
        let (d, i) = (s.deceq.clone(), s.inh.clone());
        self.deceq.extend(d);
        self.inh.extend(i);
    }

    fn args(&mut self, args: &syn::punctuated::Punctuated<Expr, syn::token::Comma>, env: &Env) -> Res<Vec<(L, Ty)>> {
        let mut out = vec![];
        for a in args {
            out.push(self.expr(a, env)?);
        }
        Ok(out)
    }

    /// an argument where a value of type `want` is expected: a closure literal `|x| e` is a `fun`
    fn arg_expected(&mut self, a: &Expr, want: &Ty, env: &Env) -> Res<(L, Ty)> {
        if let (Expr::Closure(c), Ty::Fn(params, ret)) = (a, want) {
            let sp = a.span();
            if c.inputs.len() != params.len() || c.capture.is_some() || c.asyncness.is_some() || !matches!(c.output, ReturnType::Default) {
                return self.unsupported(sp, "closure (only `|x, …| e` where a closure type is expected)");
            }
            let mut env2 = env.clone();
            let mut names = vec![];
            for (p, t) in c.inputs.iter().zip(params) {
                match p {
                    Pat::Ident(i) if i.by_ref.is_none() && i.mutability.is_none() && i.subpat.is_none() => {
                        names.push(lean_ident(&i.ident.to_string()));
                        env2.push(var(i.ident.to_string(), t.clone()));
                    }
                    _ => return self.unsupported(sp, "closure parameter"),
                }
            }
            self.no_hoist += 1;
            let body = self.expr(&c.body, &env2);
            self.no_hoist -= 1;
            let (b, bt) = body?;
            if !assignable(ret, &bt) {
                return self.err(sp, "type of the closure's body");
            }
            return Ok((L::comp(format!("fun {} => {}", names.join(" "), b.s)), want.clone()));
        }
        self.expr(a, env)
    }

    fn args_expected(&mut self, args: &syn::punctuated::Punctuated<Expr, syn::token::Comma>, want: &[Ty], env: &Env, what: &str, sp: Span) -> Res<Vec<L>> {
        if args.len() != want.len() {
            return self.err(sp, format!("number of arguments of the call of {what}"));
        }
        let mut out = vec![];
        for (a, w) in args.iter().zip(want) {
            let (l, t) = self.arg_expected(a, w, env)?;
            if !assignable(w, &t) {
                return self.err(sp, format!("argument types of the call of {what}"));
            }
            out.push(l);
        }
        Ok(out)
    }

    fn prim_arg_tys(&self, p: &Prim, sp: Span) -> Res<Vec<Ty>> {
        let mut out = vec![];
        for a in p.args.clone().unwrap_or_default() {
            out.push(self.prim_ty(&a, sp)?);
        }
        Ok(out)
    }

    /// the call of something that changes its receiver (`&mut self`): a method translated earlier or given by --prim whose
    /// Lean function returns the new receiver (paired with the result, if any), in an `Outcome` when it can panic
    #[allow(clippy::too_many_arguments)]
    fn mut_call(&mut self, m: &syn::ExprMethodCall, recv: &Expr, env: &Env, lean: &str, want: &[Ty], ret: &Ty, panics: bool, what: &str) -> Res<(L, Ty)> {
        let sp = m.span();
        // `x.part_mut()` given by --prim as the identity (`&mut self`): the part is modelled as the whole
        let mut recv = recv;
        while let Expr::MethodCall(inner) = recv {
            let is_identity = inner.args.is_empty() && self.prims.iter().any(|p| p.method && p.self_mut && p.lean == "_" && p.name == inner.method.to_string());
            if !is_identity {
                break;
            }
            let pr = self.prims.iter().find(|p| p.method && p.self_mut && p.lean == "_" && p.name == inner.method.to_string()).unwrap().clone();
            note!(self, prims, format!("`{}` is taken as the identity (the part borrowed is modelled as the whole value)", pr.spec));
            recv = &inner.receiver;
        }
        // the receiver: a state variable, or a place rooted at one
        let mut recv_borrow: Option<Borrow> = None;
        let (read, root, pl) = match self.as_place(recv) {
            Some((b, segs)) if segs.is_empty() => {
                match self.lookup(env, &b).map(|v| v.kind.clone()) {
                    _ if self.is_state_var(&b) => {}
                    Some(Kind::MutLocal) | Some(Kind::ElemMut) => {}
                    Some(Kind::MutBorrow(bor)) => recv_borrow = Some(bor),
                    _ => return self.unsupported(sp, format!("call of {what}, which changes its receiver, on something that is not `&mut` state:")),
                }
                (lean_ident(&b), b, None)
            }
            Some(_) => {
                let pl = self.writable(recv, env)?;
                (pl.read(), pl.base.clone(), Some(pl))
            }
            None => return self.unsupported(sp, format!("receiver of the call of {what} (only a place)")),
        };
        let mut_idx = std::mem::take(&mut self.call_mut_idx);
        // an argument handed on as `&mut` state must be a state variable of the caller: its new value comes back
        let mut mut_args: Vec<(String, String)> = vec![];
        for k in &mut_idx {
            let a = match m.args.iter().nth(*k) {
                Some(a) => a,
                None => return self.err(sp, format!("number of arguments of the call of {what}")),
            };
            let inner = match a {
                Expr::Reference(r) if r.mutability.is_some() => &*r.expr,
                x => x,
            };
            match self.as_place(inner) {
                Some((b, segs)) if segs.is_empty() && (self.is_state_var(&b) || matches!(self.lookup(env, &b), Some(Var { kind: Kind::MutLocal, .. }))) => {
                    let p = self.fresh("p");
                    mut_args.push((b, p));
                }
                _ => return self.unsupported(a.span(), format!("argument passed on as `&mut` state to {what} (only a `&mut` parameter or a `let mut` local):")),
            }
        }
        let mut args = vec![];
        if m.args.len() != want.len() {
            return self.err(sp, format!("number of arguments of the call of {what}"));
        }
        for (k, (a, w)) in m.args.iter().zip(want).enumerate() {
            if let Some(pos) = mut_idx.iter().position(|x| *x == k) {
                args.push(L::atom(lean_ident(&mut_args[pos].0)));
                continue;
            }
            let (l, t) = self.arg_expected(a, w, env)?;
            if !assignable(w, &t) {
                return self.err(sp, format!("argument types of the call of {what}"));
            }
            args.push(l);
        }
        let r = self.fresh("r");
        let mut comps = vec![r.clone()];
        comps.extend(mut_args.iter().map(|(_, p)| p.clone()));
        let (value, vt) = if *ret == Ty::Unit {
            (L::atom("()"), Ty::Unit)
        } else {
            let q = self.fresh("q");
            comps.push(q.clone());
            self.last_effect_result = Some(q.clone());
            (L::atom(q), ret.clone())
        };
        if comps.len() > 1 {
            self.tuple_state = true; // a component may go unused
        }
        let pat = if comps.len() == 1 { comps[0].clone() } else { format!("({})", comps.join(", ")) };
        let mut call = format!("{lean} {read}");
        for a in &args {
            call.push(' ');
            call.push_str(&a.arg());
        }
        if panics {
            self.push_pre(Pre::OBind { pat, call: vec![call], line: line_of(sp), why: format!("`{}`", self.short_text(sp)) }, sp)?;
        } else {
            self.push_pre(Pre::Let { pat, rhs: call, line: line_of(sp) }, sp)?;
        }
        let lets = match &pl {
            Some(pl) => self.store(pl, &r, env),
            None => {
                let mut l = vec![(lean_ident(&root), r.clone())];
                if let Some(bor) = &recv_borrow {
                    l.push(self.write_back(bor, &lean_ident(&root)));
                }
                l
            }
        };
        let mut lets = lets;
        for (x, p) in &mut_args {
            lets.push((lean_ident(x), p.clone()));
        }
        let mut parts: Vec<&Expr> = vec![recv];
        parts.extend(m.args.iter());
        self.effect_pre(lets, sp, &[&root, "self"], &parts)?;
        Ok((value, vt))
    }

    /// a closure over the elements of an iterator: `|x| e`, `|&x| e`, `|(a, b)| e`, `|&(a, b)| e` (a `{ e }` body is `e`) →
    /// (`fun pattern => e`, type of `e`)
    fn iter_closure(&mut self, clos: &Expr, elem: &Ty, env: &Env) -> Res<(String, Ty)> {
        let sp = clos.span();
        let c = match clos {
            Expr::Closure(c) if c.inputs.len() == 1 && c.capture.is_none() && c.asyncness.is_none() && matches!(c.output, ReturnType::Default) => c,
            _ => return self.unsupported(sp, "argument of an iterator adaptor (only a closure with one parameter)"),
        };
        let mut env2 = env.clone();
        let pat = self.elem_pattern(&c.inputs[0], elem, &mut env2, sp)?;
        let body: &Expr = match &*c.body {
            Expr::Block(b) if b.label.is_none() => match b.block.stmts.as_slice() {
                [Stmt::Expr(x, None)] => x,
                _ => return self.unsupported(sp, "closure body (only one expression)"),
            },
            x => x,
        };
        self.no_hoist += 1;
        let r = self.expr(body, &env2);
        self.no_hoist -= 1;
        let (b, bt) = r?;
        Ok((format!("fun {pat} => {}", b.s), bt))
    }

    /// the Lean pattern of `x`, `&x`, `(a, b)`, `&(a, b)`, `_` for an element of type `elem`; the names go into `env`
    pub(crate) fn elem_pattern(&mut self, p: &Pat, elem: &Ty, env: &mut Env, sp: Span) -> Res<String> {
        let p = match p {
            Pat::Reference(r) if r.mutability.is_none() => &*r.pat,
            p => p,
        };
        match (p, elem) {
            (Pat::Ident(i), _) if i.by_ref.is_none() && i.mutability.is_none() && i.subpat.is_none() => {
                env.push(var(i.ident.to_string(), elem.clone()));
                Ok(lean_ident(&i.ident.to_string()))
            }
            (Pat::Wild(_), _) => Ok("_".to_string()),
            (Pat::Tuple(t), Ty::Tuple(ts)) if t.elems.len() == ts.len() => {
                let mut parts = vec![];
                for (q, qt) in t.elems.iter().zip(ts) {
                    match q {
                        Pat::Ident(i) if i.by_ref.is_none() && i.mutability.is_none() && i.subpat.is_none() => {
                            env.push(var(i.ident.to_string(), qt.clone()));
                            parts.push(lean_ident(&i.ident.to_string()));
                        }
                        Pat::Wild(_) => parts.push("_".to_string()),
                        _ => return self.unsupported(sp, "pattern (only names and `_` inside a tuple)"),
                    }
                }
                Ok(format!("({})", parts.join(", ")))
            }
            _ => self.unsupported(sp, "pattern over the elements (only `x`, `&x`, `(a, b)`, `&(a, b)`)"),
        }
    }

    /// a (possibly refutable) pattern for a value of type `ty`: names, `_`, `&p`, `Some(p)`, `None`, `E::V(p, …)`, tuples →
    /// the Lean pattern; the names go into `env`
    pub(crate) fn pattern(&mut self, p: &Pat, ty: &Ty, env: &mut Env, sp: Span) -> Res<String> {
        let paren = |s: String| if s.contains(' ') && !s.starts_with('(') { format!("({s})") } else { s };
        match (p, ty) {
            (Pat::Reference(r), _) if r.mutability.is_none() => self.pattern(&r.pat, ty, env, sp),
            (Pat::Paren(q), _) => self.pattern(&q.pat, ty, env, sp),
            (Pat::Wild(_), _) => Ok("_".to_string()),
            (Pat::Ident(i), Ty::Opt(_)) if i.ident == "None" && i.subpat.is_none() => Ok("none".to_string()),
            (Pat::Ident(i), _) if i.by_ref.is_none() && i.mutability.is_none() && i.subpat.is_none() => {
                env.push(var(i.ident.to_string(), ty.clone()));
                Ok(lean_ident(&i.ident.to_string()))
            }
            (Pat::TupleStruct(ts), Ty::Opt(inner)) if ts.path.is_ident("Some") && ts.elems.len() == 1 => {
                let q = self.pattern(&ts.elems[0], inner, env, sp)?;
                Ok(format!("some {}", paren(q)))
            }
            (Pat::Tuple(t), Ty::Tuple(ts)) if t.elems.len() == ts.len() => {
                let mut parts = vec![];
                for (q, qt) in t.elems.iter().zip(ts) {
                    parts.push(self.pattern(q, qt, env, sp)?);
                }
                Ok(format!("({})", parts.join(", ")))
            }
            (Pat::Path(_), Ty::Named { rust, .. }) | (Pat::TupleStruct(_), Ty::Named { rust, .. }) => {
                let (path, subs): (&syn::Path, Vec<&Pat>) = match p {
                    Pat::Path(pp) => (&pp.path, vec![]),
                    Pat::TupleStruct(ts) => (&ts.path, ts.elems.iter().collect()),
                    _ => unreachable!(),
                };
                if path.segments.len() != 2 || (path.segments[0].ident != rust.as_str() && path.segments[0].ident != "Self") {
                    return self.unsupported(sp, format!("pattern (only `{rust}::Variant(..)`)"));
                }
                let v = path.segments[1].ident.to_string();
                let ftys = match self.enum_variants(rust) {
                    Some(Ok(vs)) => match vs.into_iter().find(|(n, _)| *n == v) {
                        Some((_, f)) => f,
                        None => return self.err(sp, format!("`{rust}` has no variant `{v}`")),
                    },
                    Some(Err(why)) => return self.err(sp, why),
                    None => return self.err(sp, format!("outside the supported subset: pattern on `{rust}`, which is not an enum of this file or given by --enum")),
                };
                if ftys.len() != subs.len() {
                    return self.err(sp, format!("`{rust}::{v}` has {} field(s)", ftys.len()));
                }
                let mut args = vec![];
                for (q, qt) in subs.iter().zip(&ftys) {
                    let t = self.ty(qt)?;
                    let s = self.pattern(q, &t, env, sp)?;
                    args.push(paren(s));
                }
                Ok(self.lean_variant(rust, &v, &args))
            }
            _ => self.unsupported(sp, "pattern"),
        }
    }

    /// is `x` a parameter whose declared type is a generic `E: Into<T>` of the function?
    fn into_var(&self, env: &Env, x: &str) -> bool {
        self.into_params.iter().any(|p| p == x) && self.lookup(env, x).is_some()
    }

    /// a bind: `match opt with | none => exit | some name => …`; the value is `name`
    fn bind(&mut self, prefix: &str, opt: String, ty: Ty, sp: Span, why: String) -> Res<(L, Ty)> {
        let name = self.fresh(prefix);
        self.push_pre(Pre::Bind { name: name.clone(), opt, line: line_of(sp), why }, sp)?;
        Ok((L::atom(name), ty))
    }

    pub(crate) fn expr(&mut self, e: &Expr, env: &Env) -> Res<(L, Ty)> {
        let e = self.strip(e)?;
        match e {
            Expr::Lit(l) => match &l.lit {
                Lit::Int(i) => {
                    let bits = match i.suffix() {
                        "" => 0,
                        "u8" => 8,
                        "u16" => 16,
                        "u32" => 32,
                        "u64" | "usize" => 64,
                        _ => return self.unsupported(e.span(), "integer literal"),
                    };
                    let v: u128 = i.base10_parse().map_err(|_| Error(format!("{}:{}: bad integer literal", self.label, line_of(e.span()))))?;
                    if let (Some(w), 0) = (self.bits_ctx, bits) {
                        return Ok((L::atom(format!("{v}#{w}")), Ty::Bits(w)));
                    }
                    Ok((L::atom(v.to_string()), Ty::Int(bits, i.suffix().to_string())))
                }
                Lit::Bool(b) => Ok((L::atom(if b.value { "true" } else { "false" }), Ty::Bool)),
                _ => self.unsupported(e.span(), "literal"),
            },
            Expr::Path(p) if p.qself.is_none() && p.path.segments.len() == 1 && p.path.segments[0].arguments.is_none() => {
                let name = p.path.segments[0].ident.to_string();
                if name == "self" {
                    // the receiver of a method that does not change it is a value
                    // (in a `&mut self` method: its current value, e.g. passed on as `&self`)
                    if let (true, Some(v)) = (self.has_self, self.lookup(env, "self")) {
                        return Ok((L::atom("self"), v.ty.clone()));
                    }
                    return self.unsupported(e.span(), "`self` as a value");
                }
                if name == "None" {
                    // the element type is fixed by the context on the Lean side
                    return Ok((L::atom("none"), Ty::Opt(Box::new(Ty::Unit))));
                }
                match self.lookup(env, &name) {
                    Some(v) => {
                        if let Kind::Deferred { init: false } = v.kind {
                            return self.unsupported(e.span(), "use of a variable before its deferred initialisation:");
                        }
                        Ok((L::atom(lean_ident(&name)), v.ty.clone()))
                    }
                    None => match self.find_prim("", &name) {
                        Some(pr) if pr.args.is_none() => self.apply_prim(&pr, vec![], e.span()),
                        _ => self.unsupported(e.span(), "name that is neither a local nor an argument"),
                    },
                }
            }
            Expr::Path(p) if p.qself.is_none() && p.path.segments.len() == 2 => {
                let t = self.type_name(&p.path.segments[0].ident.to_string());
                let n = p.path.segments[1].ident.to_string();
                if let Some((v, ty)) = self.int_const(&t, &n) {
                    return Ok((L::atom(v), ty));
                }
                if let Some(Ok(vs)) = self.enum_variants(&t) {
                    if let Some((_, ftys)) = vs.iter().find(|(v, _)| *v == n) {
                        if !ftys.is_empty() {
                            return self.unsupported(e.span(), "enum constructor as a function value (only as the second argument of `map_or`)");
                        }
                        let ty = match self.named(&t) {
                            Some(ty) => ty,
                            None => return self.err(e.span(), format!("no Lean type given for the Rust type `{t}` (use --type {t}=<LeanType>)")),
                        };
                        let l = self.lean_variant(&t, &n, &[]);
                        return Ok((if l.contains(' ') { L::comp(l) } else { L::atom(l) }, ty));
                    }
                }
                match self.find_prim(&t, &n) {
                    Some(pr) if pr.args.is_none() => self.apply_prim(&pr, vec![], e.span()),
                    _ => self.unsupported(e.span(), "path (only integer `MAX`/`MIN` and constants given by --prim)"),
                }
            }
            Expr::Field(f) if matches!(&f.member, syn::Member::Unnamed(ix) if ix.index == 0) => {
                // `x.0` for a tuple struct whose constructor is given by --prim as the identity (`::Name(T) -> Name=_`)
                let (l, t) = self.expr(&f.base, env)?;
                if let Ty::Named { rust, .. } = &t {
                    if let Some(pr) = self.find_prim("", rust) {
                        if pr.lean == "_" && pr.args.as_ref().map(|a| a.len() == 1).unwrap_or(false) {
                            let inner = self.prim_ty(&pr.args.as_ref().unwrap()[0].clone(), e.span())?;
                            note!(self, prims, format!("`{}` is taken as the identity (so is `.0`)", pr.spec));
                            return Ok((l, inner));
                        }
                    }
                }
                self.unsupported(e.span(), "field `.0` (only of a tuple struct whose constructor is given by --prim as the identity)")
            }
            Expr::Field(_) => match self.place(e, env)? {
                Some(pl) => {
                    if let Ty::Cell(inner) = &pl.ty {
                        let n = format!("line {}: `{}` reads a `ManuallyDrop` cell; if the cell is empty (in Rust: the union's other member is active, or the value was taken — undefined behaviour) the function returns `None` here", line_of(e.span()), self.src_text(e.span()));
                        note!(self, cells, n);
                        return self.bind("v", pl.read(), (**inner).clone(), e.span(), format!("read of the cell `{}`", self.src_text(e.span())));
                    }
                    if pl.ty == Ty::Phantom {
                        return self.unsupported(e.span(), "`PhantomData` field as a value");
                    }
                    Ok((L::atom(pl.read()), pl.ty))
                }
                None => {
                    // a field of a value that is not a place: `e?.f`
                    if let Expr::Field(f) = e {
                        if let syn::Member::Named(id) = &f.member {
                            let (l, t) = self.expr(&f.base, env)?;
                            let pl = self.resolve_place(&l.arg(), &t, &[id.to_string()], e.span())?;
                            if matches!(pl.ty, Ty::Cell(_) | Ty::Phantom) {
                                return self.unsupported(e.span(), "field access");
                            }
                            return Ok((L::atom(pl.read()), pl.ty));
                        }
                    }
                    self.unsupported(e.span(), "field access (only `x.f` on a struct of this file)")
                }
            },
            Expr::Cast(c) => {
                let (l, from) = self.expr(&c.expr, env)?;
                let to = self.ty(&c.ty)?;
                match (&from, &to) {
                    (Ty::Int(fb, fname), Ty::Int(tb, tname)) => {
                        if *fb != 0 && tb < fb {
                            note!(self, casts, format!(
                                "line {}: `{}` ({} → {}) is the identity here; in Rust it truncates values ≥ 2^{}",
                                line_of(e.span()),
                                self.src_text(e.span()),
                                fname,
                                tname,
                                tb
                            ));
                        }
                        Ok((l, to))
                    }
                    _ => self.unsupported(e.span(), "cast (only between unsigned integer types)"),
                }
            }
            Expr::Unary(u) => match u.op {
                UnOp::Not(_) => {
                    let (l, t) = self.expr(&u.expr, env)?;
                    if let Ty::Bits(_) = t {
                        return Ok((L::comp(format!("~~~{}", l.arg())), t));
                    }
                    if t != Ty::Bool {
                        return self.unsupported(e.span(), "`!` on a non-bool");
                    }
                    Ok((L::comp(format!("!{}", l.arg())), Ty::Bool))
                }
                UnOp::Deref(_) => {
                    // `*x` for a mutable borrow `x` of a Vec element (the local copy)
                    if let Some((b, segs)) = self.as_place(&u.expr) {
                        if segs.is_empty() {
                            if let Some(v) = self.lookup(env, &b) {
                                if matches!(v.kind, Kind::MutBorrow(_) | Kind::ElemMut) {
                                    return Ok((L::atom(lean_ident(&b)), v.ty.clone()));
                                }
                                // `*x` for a shared reference to a scalar: the value
                                if matches!(v.kind, Kind::Plain) && matches!(v.ty, Ty::Int(..) | Ty::Bits(_) | Ty::Bool) {
                                    return Ok((L::atom(lean_ident(&b)), v.ty.clone()));
                                }
                            }
                        }
                    }
                    self.unsupported(e.span(), "dereference (only `*x` for a mutable borrow of a Vec element)")
                }
                _ => self.unsupported(e.span(), "unary operator"),
            },
            Expr::Reference(r) => {
                if r.mutability.is_some() {
                    // `&mut f` for a closure parameter: closures are pure functions here
                    if let Some((b, segs)) = self.as_place(&r.expr) {
                        if segs.is_empty() {
                            if let Some(Var { ty: Ty::Fn(..), .. }) = self.lookup(env, &b) {
                                return self.expr(&r.expr, env);
                            }
                        }
                    }
                    return self.unsupported(e.span(), "`&mut` (only as the first argument of `ManuallyDrop::take` / `mem::replace`, or of a closure parameter)");
                }
                // a shared reference is the value it points to
                self.expr(&r.expr, env)
            }
            Expr::Binary(b) => match b.op {
                BinOp::BitAnd(_) | BinOp::BitOr(_) | BinOp::BitXor(_) => {
                    // on blocks of bits; an integer literal on the other side is a block too
                    let (mut l, mut lt) = self.expr(&b.left, env)?;
                    let saved = self.bits_ctx;
                    if let Ty::Bits(w) = lt {
                        self.bits_ctx = Some(w);
                    }
                    let r = self.expr(&b.right, env);
                    self.bits_ctx = saved;
                    let (r, rt) = r?;
                    if let (Ty::Int(0, _), Ty::Bits(w)) = (&lt, &rt) {
                        self.bits_ctx = Some(*w);
                        let l2 = self.expr(&b.left, env);
                        self.bits_ctx = saved;
                        let (l2, lt2) = l2?;
                        l = l2;
                        lt = lt2;
                    }
                    match (&lt, &rt) {
                        (Ty::Bits(a), Ty::Bits(c)) if a == c => {}
                        _ => return self.unsupported(e.span(), "bitwise operation on something that is not a block of bits (--bits):"),
                    }
                    let op = match b.op {
                        BinOp::BitAnd(_) => "&&&",
                        BinOp::BitOr(_) => "|||",
                        _ => "^^^",
                    };
                    Ok((L::comp(format!("{} {op} {}", l.arg(), r.arg())), lt))
                }
                BinOp::Shl(_) | BinOp::Shr(_) => {
                    let (l, lt) = self.expr(&b.left, env)?;
                    let saved = self.bits_ctx.take();
                    let r = self.expr(&b.right, env);
                    self.bits_ctx = saved;
                    let (r, rt) = r?;
                    if !matches!(lt, Ty::Bits(_)) || !matches!(rt, Ty::Int(..)) {
                        return self.unsupported(e.span(), "shift of something that is not a block of bits (--bits), or by a non-integer:");
                    }
                    note!(self, arith, format!("line {}: `{}` (a shift by the width or more panics in debug builds, and is masked in release builds; `BitVec` shifts everything out)", line_of(e.span()), self.src_text(e.span())));
                    let op = if matches!(b.op, BinOp::Shl(_)) { "<<<" } else { ">>>" };
                    Ok((L::comp(format!("{} {op} {}", l.arg(), r.arg())), lt))
                }
                BinOp::Div(_) => {
                    let (l, lt) = self.expr(&b.left, env)?;
                    let (r, rt) = self.expr(&b.right, env)?;
                    if !matches!((&lt, &rt), (Ty::Int(..), Ty::Int(..))) {
                        return self.unsupported(e.span(), "arithmetic on non-integers");
                    }
                    note!(self, arith, format!("line {}: `{}` (division by zero panics in Rust; here it is 0)", line_of(e.span()), self.src_text(e.span())));
                    Ok((L::comp(format!("{} / {}", l.arg(), r.arg())), if matches!(lt, Ty::Int(0, _)) { rt } else { lt }))
                }
                BinOp::Add(_) | BinOp::Sub(_) | BinOp::Rem(_) => {
                    let (l, lt) = self.expr(&b.left, env)?;
                    let (r, rt) = self.expr(&b.right, env)?;
                    let t = match (&lt, &rt) {
                        (Ty::Int(0, _), Ty::Int(..)) => rt.clone(),
                        (Ty::Int(..), Ty::Int(..)) => lt.clone(),
                        _ => return self.unsupported(e.span(), "arithmetic on non-integers"),
                    };
                    let op = match b.op {
                        BinOp::Add(_) => "+",
                        BinOp::Sub(_) => "-",
                        _ => "%",
                    };
                    if op == "%" {
                        let nonzero_lit = matches!(&*b.right, Expr::Lit(l) if matches!(&l.lit, Lit::Int(i) if i.base10_parse::<u128>().map(|v| v != 0).unwrap_or(false)));
                        if !nonzero_lit {
                            note!(self, arith, format!("line {}: `{}` (remainder by zero panics in Rust; here it is the dividend)", line_of(e.span()), self.src_text(e.span())));
                        }
                    } else {
                        note!(self, arith, format!("line {}: `{}`", line_of(e.span()), self.src_text(e.span())));
                    }
                    Ok((L::comp(format!("{} {op} {}", l.arg(), r.arg())), t))
                }
                BinOp::Lt(_) | BinOp::Le(_) | BinOp::Gt(_) | BinOp::Ge(_) | BinOp::Eq(_) | BinOp::Ne(_) => {
                    let p = self.cond(e, env)?;
                    Ok((L::comp(format!("decide ({p})")), Ty::Bool))
                }
                BinOp::And(_) | BinOp::Or(_) => {
                    let (l, lt) = self.expr(&b.left, env)?;
                    self.no_hoist += 1;
                    let r = self.expr(&b.right, env);
                    self.no_hoist -= 1;
                    let (r, rt) = r?;
                    if lt != Ty::Bool || rt != Ty::Bool {
                        return self.unsupported(e.span(), "`&&`/`||` on non-bools");
                    }
                    let op = if matches!(b.op, BinOp::And(_)) { "&&" } else { "||" };
                    Ok((L::comp(format!("{} {op} {}", l.arg(), r.arg())), Ty::Bool))
                }
                _ => self.unsupported(e.span(), "binary operator"),
            },
            Expr::Call(c) => self.call(c, env),
            Expr::MethodCall(m) => self.method_value(m, env),
            Expr::Tuple(t) if t.elems.len() >= 2 => {
                let mut ls = vec![];
                let mut ts = vec![];
                for x in &t.elems {
                    let (l, ty) = self.expr(x, env)?;
                    ls.push(l.s);
                    ts.push(ty);
                }
                Ok((L::atom(format!("({})", ls.join(", "))), Ty::Tuple(ts)))
            }
            Expr::Struct(s) => self.struct_lit(s, env),
            Expr::Try(t) => {
                let (l, ty) = self.expr(&t.expr, env)?;
                let inner = match ty {
                    Ty::Opt(i) => *i,
                    _ => return self.unsupported(e.span(), "`?` on a value that is not an Option:"),
                };
                let b = self.last_borrow.take().filter(|b| b.value == l.s);
                let (v, ty) = self.bind("q", l.s.clone(), inner, e.span(), format!("`{}`", self.short_text(e.span())))?;
                if let Some(mut b) = b {
                    b.value = v.s.clone();
                    self.last_borrow = Some(b);
                }
                Ok((v, ty))
            }
            Expr::If(i) => {
                // `if c { a } else { b }` as an operand: both branches are single expressions
                if !i.attrs.is_empty() || matches!(&*i.cond, Expr::Let(_)) {
                    return self.unsupported(e.span(), "`if let` as an operand");
                }
                let single = |b: &'_ Block| -> Option<Expr> {
                    match b.stmts.as_slice() {
                        [Stmt::Expr(x, None)] => Some(x.clone()),
                        _ => None,
                    }
                };
                let a = single(&i.then_branch);
                let b = match &i.else_branch {
                    Some((_, eb)) => match &**eb {
                        Expr::Block(bl) if bl.label.is_none() => single(&bl.block),
                        Expr::If(_) => Some((**eb).clone()),
                        _ => None,
                    },
                    None => None,
                };
                let (a, b) = match (a, b) {
                    (Some(a), Some(b)) => (a, b),
                    _ => return self.unsupported(e.span(), "`if` as an operand (only `if c { a } else { b }` with single expressions)"),
                };
                let c = self.cond(&i.cond, env)?;
                self.no_hoist += 1;
                let ra = self.expr(&a, env);
                let rb = self.expr(&b, env);
                self.no_hoist -= 1;
                let ((la, ta), (lb, tb)) = (ra?, rb?);
                if !assignable(&ta, &tb) && !assignable(&tb, &ta) {
                    return self.err(e.span(), "the branches of the `if` have different types");
                }
                Ok((L::comp(format!("if {c} then {} else {}", la.s, lb.s)), if ta == Ty::Unknown { tb } else { ta }))
            }
            Expr::Macro(m) if m.mac.path.is_ident("vec") => {
                use syn::parse::Parser;
                let elems = match syn::punctuated::Punctuated::<Expr, syn::token::Comma>::parse_terminated.parse2(m.mac.tokens.clone()) {
                    Ok(p) => p,
                    Err(_) => return self.unsupported(e.span(), "`vec!` (only `vec![a, b, …]`)"),
                };
                let mut ls = vec![];
                let mut et = Ty::Unknown;
                for x in &elems {
                    let (l, t) = self.expr(x, env)?;
                    if et == Ty::Unknown {
                        et = t;
                    } else if !assignable(&et, &t) {
                        return self.err(e.span(), "the elements of the `vec!` have different types");
                    }
                    ls.push(l.s);
                }
                Ok((L::atom(format!("[{}]", ls.join(", "))), Ty::Vec(Box::new(et))))
            }
            Expr::Match(_) => {
                // a `match` as an operand: on one line, every arm a pure value
                self.no_hoist += 1;
                self.match_depth += 1;
                let lines = self.control(e, env, Mode::Value, &[]);
                self.match_depth -= 1;
                self.no_hoist -= 1;
                let mut parts = vec![];
                for l in lines? {
                    let l = match l.find("  -- ") {
                        Some(k) => l[..k].trim().to_string(),
                        None => l.trim().to_string(),
                    };
                    if l.is_empty() || l.starts_with("--") {
                        continue;
                    }
                    parts.push(if l.starts_with("let ") { format!("{l};") } else { l });
                }
                Ok((L::atom(parts.join(" ")), Ty::Unknown))
            }
            Expr::Return(_) => self.unsupported(e.span(), "`return` inside an expression"),
            _ => self.unsupported(e.span(), "expression"),
        }
    }

    fn struct_lit(&mut self, s: &syn::ExprStruct, env: &Env) -> Res<(L, Ty)> {
        let sp = s.span();
        if s.qself.is_some() || s.rest.is_some() || s.path.segments.len() != 1 {
            return self.unsupported(sp, "struct literal");
        }
        let name = self.type_name(&s.path.segments[0].ident.to_string());
        let fields: Vec<(String, Type)> = match self.defs.get(&name) {
            Some(d) if d.kind == DefKind::Struct => d.fields.clone(),
            _ => return self.err(sp, format!("outside the supported subset: literal of `{name}`, which is not a struct with named fields defined in this file")),
        };
        let ty = match self.named(&name) {
            Some(t) => t,
            None => return self.err(sp, format!("no Lean type given for the Rust type `{name}` (use --type {name}=<LeanType>)")),
        };
        if self.opts.transparent.iter().any(|t| *t == name) {
            if s.fields.len() != 1 || fields.len() != 1 {
                return self.unsupported(sp, "literal of a transparent struct");
            }
            let ft = self.ty(&fields[0].1)?;
            let (v, vt) = self.expr(&s.fields[0].expr, env)?;
            if !assignable(&ft, &vt) {
                return self.err(sp, format!("type of the value given for the field `{}`", fields[0].0));
            }
            return Ok((v, ty));
        }
        let mut items: Vec<String> = vec![];
        for fv in &s.fields {
            let f = match &fv.member {
                syn::Member::Named(id) => id.to_string(),
                _ => return self.unsupported(sp, "struct literal"),
            };
            let fty = match fields.iter().find(|(n, _)| *n == f) {
                Some((_, t)) => t.clone(),
                None => return self.err(sp, format!("`{name}` has no field `{f}`")),
            };
            if let Some(u) = self.union_of(&fty) {
                // `f: U { m: e }` — one member initialised, the others get the values given by --inactive
                let ul = match self.strip(&fv.expr)? {
                    Expr::Struct(ul) if ul.path.segments.len() == 1 && ul.path.segments[0].ident == u.as_str() && ul.fields.len() == 1 && ul.rest.is_none() => ul,
                    _ => return self.unsupported(fv.expr.span(), format!("value of the union-typed field `{f}` (only `{u} {{ member: e }}`)")),
                };
                let m = match &ul.fields[0].member {
                    syn::Member::Named(id) => id.to_string(),
                    _ => return self.unsupported(sp, "union literal"),
                };
                let members: Vec<(String, Type)> = self.defs[&u].fields.clone();
                let mty = match members.iter().find(|(n, _)| *n == m) {
                    Some((_, t)) => self.ty(t)?,
                    None => return self.err(sp, format!("union `{u}` has no member `{m}`")),
                };
                let (v, vt) = self.expr(&ul.fields[0].expr, env)?;
                if !assignable(&mty, &vt) {
                    return self.err(sp, format!("type of the value given for the union member `{m}`"));
                }
                items.push(format!("{} := {}", lean_ident(&self.lean_field(&format!("{name}.{f}.{m}"), format!("{f}_{m}"))), v.s));
                for (other, _) in members.iter().filter(|(n, _)| *n != m) {
                    let d = match self.opts.inactive.iter().find(|(k, _)| *k == format!("{u}.{other}")) {
                        Some((_, d)) => d.clone(),
                        None => return self.err(sp, format!("outside the supported subset: the union literal leaves `{u}.{other}` unset and no value is given for it (use --inactive {u}.{other}=<LeanTerm>)")),
                    };
                    note!(self, unions, format!("line {}: the literal `{}` initialises `{m}`; the field of the inactive member `{other}` is set to `{d}`", line_of(ul.span()), self.short_text(ul.span())));
                    items.push(format!("{} := {}", lean_ident(&self.lean_field(&format!("{name}.{f}.{other}"), format!("{f}_{other}"))), d));
                }
                continue;
            }
            let ft = self.ty(&fty)?;
            if ft == Ty::Phantom {
                continue;
            }
            let (v, vt) = self.expr(&fv.expr, env)?;
            if !assignable(&ft, &vt) {
                return self.err(sp, format!("type of the value given for the field `{f}`"));
            }
            items.push(format!("{} := {}", lean_ident(&self.lean_field(&format!("{name}.{f}"), f.clone())), v.s));
        }
        Ok((L::atom(format!("({{ {} }} : {})", items.join(", "), ty.lean())), ty))
    }

    fn call(&mut self, c: &syn::ExprCall, env: &Env) -> Res<(L, Ty)> {
        let sp = c.span();
        let p = match &*c.func {
            Expr::Path(p) if p.qself.is_none() => p,
            _ => return self.unsupported(sp, "function call"),
        };
        let segs: Vec<String> = p.path.segments.iter().map(|s| s.ident.to_string()).collect();
        if p.path.segments.iter().any(|s| !s.arguments.is_none()) {
            return self.unsupported(sp, "turbofish");
        }
        if segs.len() == 1 {
            if segs[0] == "Some" && c.args.len() == 1 {
                let (l, t) = self.expr(&c.args[0], env)?;
                return Ok((L::comp(format!("some {}", l.arg())), Ty::Opt(Box::new(t))));
            }
            // a closure parameter
            if let Some(v) = self.lookup(env, &segs[0]) {
                if let Ty::Fn(params, ret) = v.ty.clone() {
                    let args = self.args(&c.args, env)?;
                    if args.len() != params.len() || !args.iter().zip(&params).all(|((_, t), p)| assignable(p, t)) {
                        return self.err(sp, format!("argument types of the call of `{}`", segs[0]));
                    }
                    return Ok((L::comp(format!("{} {}", lean_ident(&segs[0]), args.iter().map(|(l, _)| l.arg()).collect::<Vec<_>>().join(" "))), *ret));
                }
            }
            // a free function translated earlier in this run
            if let Some(sg) = self.sigs.iter().find(|x| x.ty.is_empty() && x.name == segs[0]).cloned() {
                let args = self.args_expected(&c.args, &sg.params, env, &format!("`{}`", segs[0]), sp)?;
                self.use_sig(&sg);
                return Ok((L::comp(format!("{} {}", self.sig_lean_name(&sg), args.iter().map(|a| a.arg()).collect::<Vec<_>>().join(" "))), sg.ret.clone()));
            }
            // a tuple-struct constructor given by --prim `::Name(T) -> R`
            if let Some(pr) = self.find_prim("", &segs[0]) {
                if pr.args.is_some() && !pr.method {
                    let want = self.prim_arg_tys(&pr, sp)?;
                    let args = self.args_expected(&c.args, &want, env, &format!("`{}`", segs[0]), sp)?;
                    return self.apply_prim(&pr, args, sp);
                }
            }
            return self.unsupported(sp, "function call");
        }
        let fname = segs[segs.len() - 1].clone();
        let tname = self.type_name(&segs[segs.len() - 2]);
        // ---- built-in
        if tname == "ManuallyDrop" && fname == "new" && c.args.len() == 1 {
            let (l, t) = self.expr(&c.args[0], env)?;
            note!(self, cells, "`ManuallyDrop<T>` is `Option T`: `ManuallyDrop::new(v)` is `some v`, `ManuallyDrop::take(&mut c)` yields the content and leaves `none`".to_string());
            return Ok((L::comp(format!("some {}", l.arg())), Ty::Cell(Box::new(t))));
        }
        if tname == "ManuallyDrop" && fname == "take" && c.args.len() == 1 {
            return self.cell_take(&c.args[0], env, sp);
        }
        if tname == "mem" && fname == "replace" && c.args.len() == 2 {
            return self.mem_replace(&c.args[0], &c.args[1], env, sp);
        }
        if segs.len() != 2 {
            return self.unsupported(sp, "function call");
        }
        // ---- a variant of an enum of this file with fields
        if let Some(Ok(vs)) = self.enum_variants(&tname) {
            if let Some((_, ftys)) = vs.iter().find(|(v, _)| *v == fname) {
                let ty = match self.named(&tname) {
                    Some(ty) => ty,
                    None => return self.err(sp, format!("no Lean type given for the Rust type `{tname}` (use --type {tname}=<LeanType>)")),
                };
                let mut want = vec![];
                for t in ftys {
                    want.push(self.ty(t)?);
                }
                let args = self.args_expected(&c.args, &want, env, &format!("`{tname}::{fname}`"), sp)?;
                let l = self.lean_variant(&tname, &fname, &args.iter().map(|a| a.arg()).collect::<Vec<_>>());
                return Ok((L::comp(l), ty));
            }
        }
        // ---- translated earlier in this run
        if let Some(s) = self.sigs.iter().find(|s| s.ty == tname && s.name == fname).cloned() {
            if s.has_self || s.has_panic {
                return self.unsupported(sp, "call of a translated function that has a receiver or can panic:");
            }
            let args = self.args(&c.args, env)?;
            if args.len() != s.params.len() || !args.iter().zip(&s.params).all(|((_, t), p)| assignable(p, t)) {
                return self.err(sp, format!("argument types of the call of `{tname}::{fname}`"));
            }
            self.use_sig(&s);
            let name = self.sig_lean_name(&s);
            let l = if args.is_empty() { L::atom(name) } else { L::comp(format!("{name} {}", args.iter().map(|(l, _)| l.arg()).collect::<Vec<_>>().join(" "))) };
            return Ok((l, s.ret.clone()));
        }
        // ---- given
        if let Some(pr) = self.find_prim(&tname, &fname) {
            if let (Some(pa), false) = (&pr.args, pr.method) {
                let args = self.args(&c.args, env)?;
                if args.len() != pa.len() {
                    return self.err(sp, format!("--prim `{}`: number of arguments", pr.spec));
                }
                for ((_, t), a) in args.iter().zip(pa.clone()) {
                    let want = self.prim_ty(&a, sp)?;
                    if !assignable(&want, t) {
                        return self.err(sp, format!("--prim `{}`: argument types", pr.spec));
                    }
                }
                return self.apply_prim(&pr, args.into_iter().map(|(l, _)| l).collect(), sp);
            }
        }
        if self.opts.fns.iter().any(|f| *f == format!("{tname}::{fname}") || (tname == self.opts.impl_type && *f == fname)) {
            return self.err(sp, format!("`{tname}::{fname}` is called before it is translated (list it earlier)"));
        }
        self.err(sp, format!("outside the supported subset: call of `{tname}::{fname}`, which is neither translated earlier in this run nor given by --prim: `{}`", self.short_text(sp)))
    }

    /// the writable place under `&mut P` / `P`: rooted at `self` (in a `&mut self` method) or at a mutable borrow
    pub(crate) fn writable(&mut self, e: &Expr, env: &Env) -> Res<PlaceInfo> {
        let sp = e.span();
        let pl = match self.place(e, env)? {
            Some(p) => p,
            None => return self.unsupported(sp, "assigned place (only `self.f…`, `x.f…` for a mutable borrow `x`)"),
        };
        if pl.base == "self" {
            if !self.self_mut {
                return self.unsupported(sp, "field update in a method that does not take `&mut self`");
            }
        } else if self.is_state_var(&pl.base) {
        } else {
            match self.lookup(env, &pl.base).map(|v| v.kind.clone()) {
                Some(Kind::MutBorrow(_)) | Some(Kind::ElemMut) => {}
                _ => return self.unsupported(sp, "assignment through a local that is not a mutable borrow of a Vec element:"),
            }
        }
        Ok(pl)
    }

    /// the `let`s that store `v` at the place: the update of the base, and the write-back when the base is a mutable borrow
    pub(crate) fn store(&mut self, pl: &PlaceInfo, v: &str, env: &Env) -> Vec<(String, String)> {
        let mut out = vec![(lean_ident(&pl.base), pl.update(v))];
        if let Some(Kind::MutBorrow(b)) = self.lookup(env, &pl.base).map(|v| v.kind.clone()) {
            out.push(self.write_back(&b, &lean_ident(&pl.base)));
        }
        out
    }

    pub(crate) fn write_back(&mut self, b: &Borrow, value: &str) -> (String, String) {
        (lean_ident(&b.vec.base), b.vec.update(&format!("{} {} {} {}", b.setter, b.vec.read(), b.idx, value)))
    }

    /// the statement's value expression must not read the state an effect inside it changes anywhere but in the effectful call
    /// itself (the hoisted effect is evaluated first)
    pub(crate) fn check_effect_order(&self, value: &Expr) -> Res<()> {
        for (base, n) in &self.effect_info {
            if count_mentions(value, base) != *n {
                return self.unsupported(value.span(), format!("effect inside an expression that reads `{base}` elsewhere too (evaluation order):"));
            }
        }
        Ok(())
    }

    fn effect_pre(&mut self, lets: Vec<(String, String)>, sp: Span, bases: &[&str], call: &[&Expr]) -> Res<()> {
        for b in bases {
            let n = call.iter().map(|e| count_mentions(e, b)).sum();
            if !self.effect_info.iter().any(|(x, _)| x == b) {
                self.effect_info.push((b.to_string(), n));
            }
        }
        for (pat, rhs) in lets {
            self.push_pre(Pre::Let { pat, rhs, line: line_of(sp) }, sp)?;
        }
        if self.effect_seen {
            return self.unsupported(sp, "second effect in one statement:");
        }
        self.effect_seen = true;
        Ok(())
    }

    /// `ManuallyDrop::take(&mut P)`: yields the content (the function returns `None` when the cell is empty), leaves `none`
    fn cell_take(&mut self, arg: &Expr, env: &Env, sp: Span) -> Res<(L, Ty)> {
        let inner = match self.strip(arg)? {
            Expr::Reference(r) if r.mutability.is_some() => &*r.expr,
            _ => return self.unsupported(sp, "argument of `ManuallyDrop::take` (only `&mut place`)"),
        };
        let pl = self.writable(inner, env)?;
        let t = match &pl.ty {
            Ty::Cell(t) => (**t).clone(),
            _ => return self.unsupported(sp, "`ManuallyDrop::take` of a place that is not a `ManuallyDrop`:"),
        };
        note!(self, cells, "`ManuallyDrop<T>` is `Option T`: `ManuallyDrop::new(v)` is `some v`, `ManuallyDrop::take(&mut c)` yields the content and leaves `none`".to_string());
        note!(self, cells, format!("line {}: `{}` of an empty cell (in Rust: the union's other member is active, or the value was taken before — undefined behaviour) makes the function return `None` here", line_of(sp), self.src_text(sp)));
        let v = self.bind("v", pl.read(), t, sp, format!("`{}`", self.short_text(sp)))?;
        let lets = self.store(&pl, "none", env);
        self.effect_pre(lets, sp, &[&pl.base.clone(), "self"], &[arg])?;
        Ok(v)
    }

    /// `mem::replace(dest, v)`: yields the old value, stores `v`
    fn mem_replace(&mut self, dest: &Expr, val: &Expr, env: &Env, sp: Span) -> Res<(L, Ty)> {
        let (nv, nt) = self.expr(val, env)?;
        let d = self.strip(dest)?;
        // dest = a mutable borrow `x` of a Vec element
        if let Some((b, segs)) = self.as_place(d) {
            if segs.is_empty() {
                if let Some(Var { kind: Kind::MutBorrow(bor), ty, .. }) = self.lookup(env, &b).cloned() {
                    if !assignable(&ty, &nt) {
                        return self.err(sp, "type of the value stored by `mem::replace`");
                    }
                    let old = self.fresh("old");
                    self.push_pre(Pre::Let { pat: old.clone(), rhs: lean_ident(&b), line: line_of(sp) }, sp)?;
                    let wb = self.write_back(&bor, &lean_ident(&b));
                    self.effect_pre(vec![(lean_ident(&b), nv.s.clone()), wb], sp, &[&b, "self"], &[dest, val])?;
                    return Ok((L::atom(old), ty));
                }
            }
        }
        // dest = `&mut P`
        if let Expr::Reference(r) = d {
            if r.mutability.is_some() {
                let pl = self.writable(&r.expr, env)?;
                if matches!(pl.ty, Ty::Cell(_)) || !assignable(&pl.ty, &nt) {
                    return self.err(sp, "type of the value stored by `mem::replace`");
                }
                let old = self.fresh("old");
                self.push_pre(Pre::Let { pat: old.clone(), rhs: pl.read(), line: line_of(sp) }, sp)?;
                let lets = self.store(&pl, &nv.s, env);
                self.effect_pre(lets, sp, &[&pl.base.clone(), "self"], &[dest, val])?;
                return Ok((L::atom(old), pl.ty));
            }
        }
        // dest = an anonymous mutable borrow: `V.get_mut(i)?`, `V.get_unchecked_mut(i)`
        let (dl, dt) = self.expr(d, env)?;
        match self.last_borrow.take().filter(|b| b.value == dl.s) {
            Some(bor) => {
                if !assignable(&dt, &nt) {
                    return self.err(sp, "type of the value stored by `mem::replace`");
                }
                let wb = self.write_back(&bor, &nv.arg());
                self.effect_pre(vec![wb], sp, &["self"], &[dest, val])?;
                Ok((dl, dt))
            }
            None => self.unsupported(sp, "destination of `mem::replace` (only a mutable borrow of a Vec element or `&mut place`)"),
        }
    }

    /// `V.get_mut(i)` / `V.get_unchecked_mut(i)`: the index is frozen, the borrow is remembered for whoever binds the value
    fn vec_borrow(&mut self, vec: &PlaceInfo, idx: &L, sp: Span, env: &Env) -> Res<String> {
        let elem_mut = matches!(self.lookup(env, &vec.base), Some(Var { kind: Kind::ElemMut, .. }));
        if !self.is_state_var(&vec.base) && !elem_mut {
            return self.unsupported(sp, "mutable borrow of an element of a Vec that is not a field of `&mut self`:");
        }
        let at = self.fresh("at");
        self.push_pre(Pre::Let { pat: at.clone(), rhs: idx.s.clone(), line: line_of(sp) }, sp)?;
        Ok(at)
    }

    /// a method call used for its value
    pub(crate) fn method_value(&mut self, m: &syn::ExprMethodCall, env: &Env) -> Res<(L, Ty)> {
        let sp = m.span();
        if m.turbofish.is_some() {
            return self.unsupported(sp, "turbofish");
        }
        let name = m.method.to_string();
        // V.iter().position(|&p| p == x)
        if name == "position" && m.args.len() == 1 {
            if let Expr::MethodCall(inner) = &*m.receiver {
                if inner.method == "iter" && inner.args.is_empty() && inner.turbofish.is_none() {
                    if let Some(pl) = self.place(&inner.receiver, env)? {
                        let elem = match &pl.ty {
                            Ty::Vec(t) => (**t).clone(),
                            _ => return self.unsupported(sp, "`iter().position` on a field that is not a Vec"),
                        };
                        let needle = self.position_needle(&m.args[0], env)?;
                        let (nl, nt) = self.expr(needle, env)?;
                        if nt != elem {
                            return self.err(sp, "the value searched for does not have the Vec's element type");
                        }
                        self.note_eq(&elem, sp);
                        return Ok((L::comp(format!("vecPosition {} {}", pl.read(), nl.arg())), Ty::Opt(Box::new(Ty::usize()))));
                    }
                }
            }
        }
        let mut recv = self.strip(&m.receiver)?;
        // `x.part_mut()` given by --prim as the identity (`&mut self`): the part is modelled as the whole
        while let Expr::MethodCall(inner) = recv {
            match self.prims.iter().find(|p| p.method && p.self_mut && p.lean == "_" && p.name == inner.method.to_string() && inner.args.is_empty()).cloned() {
                Some(pr) => {
                    note!(self, prims, format!("`{}` is taken as the identity (the part borrowed is modelled as the whole value)", pr.spec));
                    recv = self.strip(&inner.receiver)?;
                }
                None => break,
            }
        }
        // methods of a Vec place
        if let Some(pl) = self.place(recv, env)? {
            if let Ty::Map { rust, val, .. } = &pl.ty {
                if (name == "get" || name == "get_mut") && m.args.len() == 1 {
                    let (getter, setter) = match self.opts.maps.iter().find(|(n, _, _)| n == rust) {
                        Some((_, g, st)) => (g.clone(), st.clone()),
                        None => return self.unsupported(sp, "method call used as a value"),
                    };
                    let (k, _) = self.expr(&m.args[0], env)?;
                    let mutable = name == "get_mut";
                    let key = if mutable { L::atom(self.vec_borrow(&pl, &k, sp, env)?) } else { k };
                    let v = format!("{getter} {} {}", pl.read(), key.arg());
                    if mutable {
                        self.last_borrow = Some(Borrow { vec: pl.clone(), idx: key.s.clone(), value: v.clone(), setter });
                    }
                    return Ok((L::comp(v), Ty::Opt(val.clone())));
                }
            }
            if let Ty::Vec(elem) = &pl.ty {
                let elem = (**elem).clone();
                let is_index = |t: &Ty| matches!(t, Ty::Int(64, _) | Ty::Int(0, _));
                match (name.as_str(), m.args.len()) {
                    ("len", 0) => return Ok((L::comp(format!("vecLen {}", pl.read())), Ty::usize())),
                    ("iter", 0) => return Ok((L::atom(pl.read()), Ty::Iter(Box::new(elem)))),
                    ("get", 1) | ("get_mut", 1) | ("get_unchecked", 1) | ("get_unchecked_mut", 1) => {
                        let (i, it) = self.expr(&m.args[0], env)?;
                        if !is_index(&it) {
                            return self.err(sp, format!("argument type of `Vec::{name}`"));
                        }
                        let mutable = name.ends_with("_mut");
                        let idx = if mutable { L::atom(self.vec_borrow(&pl, &i, sp, env)?) } else { i };
                        let opt = format!("vecGet {} {}", pl.read(), idx.arg());
                        let (v, t) = if name.starts_with("get_unchecked") {
                            note!(self, unchecked, format!("line {}: `{}` is a checked lookup here: out of range (undefined behaviour in Rust) the function returns `None`", line_of(sp), self.src_text(sp)));
                            self.bind("v", opt, elem.clone(), sp, format!("`{}`", self.short_text(sp)))?
                        } else {
                            (L::comp(opt), Ty::Opt(Box::new(elem.clone())))
                        };
                        if mutable {
                            self.last_borrow = Some(Borrow { vec: pl.clone(), idx: idx.s.clone(), value: v.s.clone(), setter: "vecSet".into() });
                        }
                        return Ok((v, t));
                    }
                    ("swap_remove", 1) => {
                        if !self.is_state_var(&pl.base) {
                            return self.unsupported(sp, "`swap_remove` on a Vec that is not a field of `&mut self`:");
                        }
                        let (i, it) = self.expr(&m.args[0], env)?;
                        if !is_index(&it) {
                            return self.err(sp, "argument type of `Vec::swap_remove`");
                        }
                        note!(self, vecs, format!("line {}: `{}` panics in Rust when the index is ≥ len; here the function returns `None` in that case", line_of(sp), self.src_text(sp)));
                        let v = self.bind("v", format!("vecGet {} {}", pl.read(), i.arg()), elem, sp, format!("`{}`", self.short_text(sp)))?;
                        self.effect_pre(vec![(lean_ident(&pl.base), pl.update(&format!("vecSwapRemove {} {}", pl.read(), i.arg())))], sp, &["self"], &[&m.receiver, &m.args[0]])?;
                        return Ok(v);
                    }
                    _ => return self.unsupported(sp, "method call used as a value"),
                }
            }
        }
        let is_self = matches!(recv, Expr::Path(p) if p.path.is_ident("self"));
        let (r, rt) = match (is_self, self.lookup(env, "self")) {
            (true, Some(v)) => (L::atom("self"), v.ty.clone()),
            _ => self.expr(recv, env)?,
        };
        match (&rt, name.as_str(), m.args.len()) {
            (Ty::Int(bits, tn), "wrapping_add", 1) | (Ty::Int(bits, tn), "wrapping_sub", 1) if *bits > 0 => {
                let (a, at) = self.expr(&m.args[0], env)?;
                if !matches!(at, Ty::Int(..)) {
                    return self.err(sp, format!("argument type of `{name}`"));
                }
                let modulus: u128 = 1u128 << *bits;
                note!(self, wrapping, format!("line {}: `{}` on `{tn}` is arithmetic modulo {modulus}", line_of(sp), self.src_text(sp)));
                let l = if name == "wrapping_add" { format!("({} + {}) % {modulus}", r.arg(), a.arg()) } else { format!("({} + {modulus} - {} % {modulus}) % {modulus}", r.arg(), a.arg()) };
                Ok((L::comp(l), rt.clone()))
            }
            (Ty::Int(bits, tn), "get", 0) if tn.starts_with("NonZero") => Ok((r, Ty::Int(*bits, if *bits == 32 { "u32".into() } else { "u64".into() }))),
            (Ty::Opt(inner), "unwrap", 0) | (Ty::Opt(inner), "unwrap_unchecked", 0) => {
                let what = if name == "unwrap" { "panics" } else { "is undefined behaviour" };
                note!(self, unwraps, format!("line {}: `{}` {what} in Rust when the value is `None`; here it is `optUnwrap` (`default` for `None`): the functions describe the runs in which the value is `Some`", line_of(sp), self.src_text(sp)));
                if let Ty::Named { tyvar: true, lean, .. } = &**inner {
                    self.inh.insert(lean.clone());
                }
                Ok((L::comp(format!("optUnwrap {}", r.arg())), (**inner).clone()))
            }
            (Ty::Vec(elem), "iter", 0) => Ok((r, Ty::Iter(elem.clone()))),
            (Ty::Vec(_), "len", 0) => Ok((L::comp(format!("vecLen {}", r.arg())), Ty::usize())),
            (Ty::Iter(_), "cloned", 0) | (Ty::Iter(_), "copied", 0) => Ok((r, rt.clone())),
            (Ty::Iter(elem), "collect", 0) => Ok((r, Ty::Vec(elem.clone()))),
            (Ty::Iter(elem), "zip", 1) => {
                let (o, ot) = self.expr(&m.args[0], env)?;
                match ot {
                    Ty::Iter(oe) => Ok((L::comp(format!("List.zip {} {}", r.arg(), o.arg())), Ty::Iter(Box::new(Ty::Tuple(vec![(**elem).clone(), *oe]))))),
                    _ => self.unsupported(sp, "argument of `zip` (only another iterator)"),
                }
            }
            (Ty::Iter(elem), "sum", 0) if matches!(**elem, Ty::Int(..)) => {
                note!(self, arith, format!("line {}: `{}` (the sum is unbounded here)", line_of(sp), self.short_text(sp)));
                Ok((L::comp(format!("List.sum {}", r.arg())), (**elem).clone()))
            }
            (Ty::Bits(_), "count_ones", 0) => Ok((L::comp(format!("(BitVec.cpop {}).toNat", r.arg())), Ty::Int(32, "u32".into()))),
            (Ty::Iter(elem), "chain", 1) => {
                let (o, ot) = self.expr(&m.args[0], env)?;
                if !matches!(&ot, Ty::Iter(oe) if assignable(elem, oe)) {
                    return self.unsupported(sp, "argument of `chain` (only another iterator over the same element type)");
                }
                Ok((L::comp(format!("{} ++ {}", r.arg(), o.arg())), rt.clone()))
            }
            (Ty::Iter(elem), "any", 1) | (Ty::Iter(elem), "all", 1) | (Ty::Iter(elem), "map", 1) => {
                let (f, bt) = self.iter_closure(&m.args[0], elem, env)?;
                match name.as_str() {
                    "map" => Ok((L::comp(format!("List.map ({f}) {}", r.arg())), Ty::Iter(Box::new(bt)))),
                    _ => {
                        if bt != Ty::Bool && bt != Ty::Unknown {
                            return self.err(sp, format!("the closure given to `{name}` does not yield a bool"));
                        }
                        Ok((L::comp(format!("List.{name} {} ({f})", r.arg())), Ty::Bool))
                    }
                }
            }
            (Ty::Opt(inner), "map", 1) => {
                let (f, bt) = self.iter_closure(&m.args[0], inner, env)?;
                Ok((L::comp(format!("Option.map ({f}) {}", r.arg())), Ty::Opt(Box::new(bt))))
            }
            (Ty::Opt(inner), "map_or", 2) => {
                // o.map_or(d, f) with `f` an enum constructor `E::V` or a closure `|x| e`
                let inner = (**inner).clone();
                let (d, dt) = self.expr(&m.args[0], env)?;
                let x = self.fresh("x");
                let f = match &m.args[1] {
                    Expr::Path(p) if p.qself.is_none() && p.path.segments.len() == 2 => {
                        let en = self.type_name(&p.path.segments[0].ident.to_string());
                        let v = p.path.segments[1].ident.to_string();
                        match self.enum_variants(&en) {
                            Some(Ok(vs)) if vs.iter().any(|(n, f)| *n == v && f.len() == 1) => format!("fun {x} => {}", self.lean_variant(&en, &v, &[x.clone()])),
                            _ => return self.unsupported(sp, "second argument of `map_or` (only a one-field enum constructor or a closure)"),
                        }
                    }
                    c @ Expr::Closure(_) => self.iter_closure(c, &inner, env)?.0,
                    _ => return self.unsupported(sp, "second argument of `map_or` (only a one-field enum constructor or a closure)"),
                };
                Ok((L::comp(format!("Option.elim {} {} ({f})", r.arg(), d.arg())), dt))
            }
            (_, "into", 0) if matches!(recv, Expr::Path(p) if p.path.get_ident().map(|i| self.into_var(env, &i.to_string())).unwrap_or(false)) => Ok((r, rt.clone())),
            (Ty::Opt(_), "is_some", 0) => Ok((L::comp(format!("Option.isSome {}", r.arg())), Ty::Bool)),
            (Ty::Opt(_), "is_none", 0) => Ok((L::comp(format!("Option.isNone {}", r.arg())), Ty::Bool)),
            (Ty::Named { rust, .. } | Ty::Map { rust, .. }, _, _) => {
                let rust = rust.clone();
                if let Some(s) = self.sigs.iter().find(|s| s.ty == rust && s.name == name).cloned() {
                    if !s.has_self || (s.mut_params > 0 && !s.self_mut) {
                        return self.unsupported(sp, "call of a translated function without receiver as a method:");
                    }
                    self.call_mut_idx = s.mut_idx.clone();
                    self.use_sig(&s);
                    let what = format!("`{rust}::{name}`");
                    if s.self_mut {
                        let (q, qt) = self.mut_call(m, recv, env, &self.sig_lean_name(&s), &s.params, &s.ret, s.has_panic, &what)?;
                        if let Some((path, elem)) = &s.ret_borrow {
                            // the callee returned the index of the element it borrows: a checked read, and a borrow for
                            // whoever binds the value
                            let base = match self.as_place(recv) {
                                Some((b, segs)) if segs.is_empty() => b,
                                _ => return self.unsupported(sp, "call of a function that returns a mutable borrow, on a receiver that is not a variable:"),
                            };
                            let vec = PlaceInfo { base, lean_path: path.clone(), ty: Ty::Vec(Box::new(elem.clone())) };
                            if let Ty::Named { tyvar: true, lean, .. } = elem {
                                self.inh.insert(lean.clone());
                            }
                            let v = format!("optUnwrap (vecGet {} {})", vec.read(), q.s);
                            self.last_borrow = Some(Borrow { vec, idx: q.s.clone(), value: v.clone(), setter: "vecSet".into() });
                            return Ok((L::comp(v), elem.clone()));
                        }
                        return Ok((q, qt));
                    }
                    if s.has_panic {
                        return self.unsupported(sp, "call of a translated `&self` method that can panic:");
                    }
                    let args = self.args_expected(&m.args, &s.params, env, &what, sp)?;
                    let mut all = vec![r.arg()];
                    all.extend(args.iter().map(|l| l.arg()));
                    return Ok((L::comp(format!("{} {}", self.sig_lean_name(&s), all.join(" "))), s.ret.clone()));
                }
                if let Some(pr) = self.find_prim(&rust, &name) {
                    if pr.args.is_some() && pr.method {
                        let want = self.prim_arg_tys(&pr, sp)?;
                        let what = format!("`{rust}::{name}`");
                        if pr.self_mut || pr.panics {
                            if !pr.self_mut {
                                return self.unsupported(sp, "--prim of a `&self` method that can panic:");
                            }
                            let ret = self.prim_ty(&pr.ret.clone(), sp)?;
                            note!(self, prims, format!("`{}` is taken as `{}`", pr.spec, pr.lean));
                            return self.mut_call(m, recv, env, &pr.lean.clone(), &want, &ret, pr.panics, &what);
                        }
                        let args = self.args_expected(&m.args, &want, env, &what, sp)?;
                        let mut all = vec![r];
                        all.extend(args);
                        return self.apply_prim(&pr, all, sp);
                    }
                }
                if self.opts.fns.iter().any(|f| *f == format!("{rust}::{name}") || (rust == self.opts.impl_type && *f == name)) {
                    return self.err(sp, format!("`{rust}::{name}` is called before it is translated (list it earlier)"));
                }
                self.err(sp, format!("outside the supported subset: call of `{rust}::{name}`, which is neither translated earlier in this run nor given by --prim: `{}`", self.short_text(sp)))
            }
            _ => self.unsupported(sp, "method call used as a value"),
        }
    }

    /// the closure must be `|&p| p == x`, `|&p| x == p`, `|p| *p == x` or `|p| x == *p` with `x` not mentioning `p`
    fn position_needle<'e>(&self, clos: &'e Expr, _env: &Env) -> Res<&'e Expr> {
        let c = match clos {
            Expr::Closure(c) => c,
            _ => return self.unsupported(clos.span(), "argument of `position` (only a closure `|&p| p == x`)"),
        };
        if c.inputs.len() != 1 || c.capture.is_some() || c.asyncness.is_some() || !matches!(c.output, ReturnType::Default) {
            return self.unsupported(clos.span(), "closure (only `|&p| p == x`)");
        }
        let (pname, by_ref) = match &c.inputs[0] {
            Pat::Reference(r) if r.mutability.is_none() => match &*r.pat {
                Pat::Ident(i) if i.by_ref.is_none() && i.mutability.is_none() && i.subpat.is_none() => (i.ident.to_string(), false),
                _ => return self.unsupported(clos.span(), "closure parameter"),
            },
            Pat::Ident(i) if i.by_ref.is_none() && i.mutability.is_none() && i.subpat.is_none() => (i.ident.to_string(), true),
            _ => return self.unsupported(clos.span(), "closure parameter"),
        };
        let b = match &*c.body {
            Expr::Binary(b) if matches!(b.op, BinOp::Eq(_)) => b,
            _ => return self.unsupported(clos.span(), "closure body (only `p == x`)"),
        };
        let is_param = |e: &Expr| -> bool {
            let e = if by_ref {
                match e {
                    Expr::Unary(u) if matches!(u.op, UnOp::Deref(_)) => &*u.expr,
                    _ => return false,
                }
            } else {
                e
            };
            matches!(e, Expr::Path(p) if p.path.is_ident(&pname))
        };
        let needle = if is_param(&b.left) {
            &*b.right
        } else if is_param(&b.right) {
            &*b.left
        } else {
            return self.unsupported(clos.span(), "closure body (only `p == x`)");
        };
        if mentions(needle, &pname) {
            return self.unsupported(clos.span(), "closure body (the value compared with must not mention the parameter)");
        }
        Ok(needle)
    }

    pub(crate) fn note_eq(&mut self, t: &Ty, sp: Span) {
        if let Ty::Named { rust, lean, tyvar } = t {
            if *tyvar {
                self.deceq.insert(lean.clone());
            }
            let n = format!("`==` on `{rust}` (its `PartialEq` impl) is equality of `{lean}`");
            if !self.notes.eqs.contains(&n) {
                self.notes.eqs.push(n);
            }
        }
        let _ = sp;
    }

    /// a bool expression as a Lean proposition (for `if`)
    pub(crate) fn cond(&mut self, e: &Expr, env: &Env) -> Res<String> {
        let e = self.strip(e)?;
        match e {
            Expr::Binary(b) => match b.op {
                BinOp::Lt(_) | BinOp::Le(_) | BinOp::Gt(_) | BinOp::Ge(_) | BinOp::Eq(_) | BinOp::Ne(_) => {
                    let (l, lt) = self.expr(&b.left, env)?;
                    let saved = self.bits_ctx;
                    if let Ty::Bits(w) = lt {
                        self.bits_ctx = Some(w);
                    }
                    let r = self.expr(&b.right, env);
                    self.bits_ctx = saved;
                    let (r, rt) = r?;
                    let ordered = !matches!(b.op, BinOp::Eq(_) | BinOp::Ne(_));
                    match (&lt, &rt) {
                        (Ty::Int(..), Ty::Int(..)) => {}
                        (Ty::Bits(a), Ty::Bits(c)) if a == c && !ordered => {}
                        (Ty::Bool, Ty::Bool) if !ordered => {}
                        (Ty::Named { .. }, Ty::Named { .. }) if !ordered && lt == rt => self.note_eq(&lt, e.span()),
                        _ => return self.unsupported(e.span(), "comparison (integers; `==`/`!=` also on bools and on named types)"),
                    }
                    let op = match b.op {
                        BinOp::Lt(_) => "<",
                        BinOp::Le(_) => "≤",
                        BinOp::Gt(_) => ">",
                        BinOp::Ge(_) => "≥",
                        BinOp::Eq(_) => "=",
                        _ => "≠",
                    };
                    Ok(format!("{} {op} {}", l.arg(), r.arg()))
                }
                BinOp::And(_) | BinOp::Or(_) => {
                    let l = self.cond(&b.left, env)?;
                    self.no_hoist += 1;
                    let r = self.cond(&b.right, env);
                    self.no_hoist -= 1;
                    let r = r?;
                    let op = if matches!(b.op, BinOp::And(_)) { "∧" } else { "∨" };
                    Ok(format!("({l}) {op} ({r})"))
                }
                _ => self.unsupported(e.span(), "condition"),
            },
            Expr::Unary(u) if matches!(u.op, UnOp::Not(_)) => {
                let c = self.cond(&u.expr, env)?;
                Ok(format!("¬ ({c})"))
            }
            _ => {
                let (l, t) = self.expr(e, env)?;
                if t != Ty::Bool {
                    return self.unsupported(e.span(), "condition that is not a bool");
                }
                Ok(format!("{} = true", l.arg()))
            }
        }
    }
}
