#!/usr/bin/env python3
"""Confirms every seeded change in a scratch worktree of /repo (outside /repo and /verif):
   the patch applies, the crate's test suite still passes with it, the demonstration fails with it and passes without it.
   Writes seeded/<id>/verified.json.  usage: verify_seeded.py [id ...]"""
import json, os, shutil, subprocess, sys, time

ROOT = os.path.abspath(os.path.join(os.path.dirname(os.path.abspath(__file__)), ".."))
WT = "/tmp/seeded_verify_wt"
ENV = dict(os.environ, CARGO_NET_OFFLINE="true")


def sh(cmd, cwd=None, timeout=3600):
    p = subprocess.run(cmd, cwd=cwd, capture_output=True, text=True, timeout=timeout, env=ENV)
    return p.returncode, (p.stdout + p.stderr)


def run_demo(name, rayon=False, hooks=False, release=False, no_run=False):
    feats = []
    if rayon:
        feats.append("rayon")
    if hooks:
        feats.append("verif-hooks")
    cmd = ["cargo", "test", "--offline", "--test", name] + (["--release"] if release else []) + (["--no-run"] if no_run else []) + (["--features", ",".join(feats)] if feats else [])
    return sh(cmd, cwd=WT)


def main():
    ids = sys.argv[1:] or sorted(os.listdir(os.path.join(ROOT, "seeded")))
    if os.path.exists(WT):
        sh(["git", "-C", "/repo", "worktree", "remove", "--force", WT])
    rc, out = sh(["git", "-C", "/repo", "worktree", "add", "--detach", WT, "HEAD"])
    if rc != 0:
        print(out)
        sys.exit(1)
    if os.path.exists("/repo/Cargo.lock"):
        shutil.copy("/repo/Cargo.lock", os.path.join(WT, "Cargo.lock"))
    try:
        for i in ids:
            d = os.path.join(ROOT, "seeded", i)
            if not os.path.exists(os.path.join(d, "patch.diff")):
                continue
            t0 = time.time()
            res = {"id": i}
            sh(["git", "checkout", "--", "."], cwd=WT)
            sh(["git", "clean", "-fd", "tests"], cwd=WT)
            rc, out = sh(["git", "apply", os.path.join(d, "patch.diff")], cwd=WT)
            res["applies"] = rc == 0
            if rc != 0:
                res["error"] = out[-300:]
                json.dump(res, open(os.path.join(d, "verified.json"), "w"), indent=1)
                print(i, res, flush=True)
                continue
            rc, out = sh(["cargo", "nextest", "run", "--workspace", "--no-fail-fast", "--offline"], cwd=WT)
            res["suite_passes_with_patch"] = rc == 0
            res["suite_summary"] = [l.strip() for l in out.split("\n") if "Summary" in l][-1:] or [out[-200:]]
            demo = os.path.join(d, "demo.rs")
            is_c18 = i.startswith("C18")
            if os.path.exists(demo):
                os.makedirs(os.path.join(WT, "tests"), exist_ok=True)
                name = "demo_" + i.lower()
                shutil.copy(demo, os.path.join(WT, "tests", name + ".rs"))
                text = open(demo).read()
                rayon = "rayon" in text
                hooks = "verif_" in text
                rc_with, out_with = run_demo(name, rayon, hooks, no_run=is_c18)
                release = False
                if rc_with == 0 and not is_c18:
                    # some changes only show without debug assertions
                    release = True
                    rc_with, out_with = run_demo(name, rayon, hooks, release=True)
                    res["demo_profile"] = "release"
                sh(["git", "checkout", "--", "src", "evenio_macros", "Cargo.toml"], cwd=WT)
                rc_without, out_without = run_demo(name, rayon, hooks, release=release, no_run=is_c18)
                if is_c18:
                    # compile-time property: the demo compiles only with the change
                    res["demo_compiles_with_patch"] = rc_with == 0
                    res["demo_compiles_without_patch"] = rc_without == 0
                    res["confirmed"] = res["suite_passes_with_patch"] and rc_with == 0 and rc_without != 0
                else:
                    res["demo_fails_with_patch"] = rc_with != 0
                    res["demo_passes_without_patch"] = rc_without == 0
                    res["confirmed"] = res["suite_passes_with_patch"] and rc_with != 0 and rc_without == 0
                    if rc_without != 0:
                        res["without_tail"] = out_without[-400:]
            else:
                res["confirmed"] = False
                res["error"] = "no demo.rs"
            res["wall_s"] = round(time.time() - t0)
            json.dump(res, open(os.path.join(d, "verified.json"), "w"), indent=1)
            print(i, {k: v for k, v in res.items() if k not in ("suite_summary", "without_tail")}, flush=True)
    finally:
        sh(["git", "-C", "/repo", "worktree", "remove", "--force", WT])


if __name__ == "__main__":
    main()
