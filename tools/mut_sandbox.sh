#!/bin/bash
# Creates (or refreshes) a sandbox for testing seeded changes without touching /repo or /verif's build directories:
#   /root/scratch/mut/repo   git worktree of /repo HEAD
#   /root/scratch/mut/verif  git worktree of /verif HEAD, harness path dependency and cargo target dir pointed into the sandbox
# usage: tools/mut_sandbox.sh          (then: EVENIO_REPO=/root/scratch/mut/repo /root/scratch/mut/verif/check Cxx)
set -e
S=${MUT_SANDBOX:-/root/scratch/mut}
mkdir -p $S
git -C /repo worktree remove --force $S/repo 2>/dev/null || true
git -C /verif worktree remove --force $S/verif 2>/dev/null || true
rm -rf $S/repo $S/verif
git -C /repo worktree add --detach $S/repo HEAD >/dev/null
git -C /verif worktree add --detach $S/verif HEAD >/dev/null
cp /repo/Cargo.lock $S/repo/Cargo.lock 2>/dev/null || true
sed -i "s|path = \"/repo\"|path = \"$S/repo\"|" $S/verif/harness/Cargo.toml

cp /repo/Cargo.lock $S/verif/harness/Cargo.lock
echo "sandbox ready: $S"
