import Evenio.Model.Types
import Evenio.Generated.AccessTables
import Evenio.Generated.Gates
import Evenio.Generated.Sites
import Evenio.Model.Access
import Evenio.Model.Query
import Evenio.Proofs.AccessSem
