-- The library root imports the executable model (what the driver runs). The proof modules are built per property
-- (`lake build Evenio.Props.Cxx`, see lean/obligations.json); `Evenio.All` imports every property module into one
-- environment (helper-name clashes between independently written files were resolved, see lean/DEDUPE_CHANGES.md).
import Evenio.Model.Types
import Evenio.Generated.AccessTables
import Evenio.Generated.Gates
import Evenio.Generated.Sites
import Evenio.Model.Access
import Evenio.Model.Query
import Evenio.Model.SlotMap
import Evenio.Model.HandlerList
import Evenio.Model.SparseMap
import Evenio.Model.Storage
import Evenio.Model.StoragePure
import Evenio.Model.Script
import Evenio.Model.World
import Evenio.Model.Step
import Evenio.Model.Gates
import Evenio.Model.Inv
import Evenio.Model.ParIter
import Evenio.Model.InvPlus
import Evenio.Model.BitSet
