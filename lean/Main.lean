import Evenio.Driver.Parse
import Evenio.Model.Gates
import Evenio.Model.InvPlus
import Evenio.Driver.Probe
import Evenio.Driver.BitSetScript
/-! Driver: reads histories on stdin (`=== id` starts a fresh world; `>`-lines and `#`-lines are ignored; every
    other line is one operation), prints each operation followed by the model's observation lines. -/
open Evenio

partial def loop (h : IO.FS.Stream) (w : World) (debug snap : Bool) (dead : Bool) (inv : Bool := false) : IO Unit := do
  let line ← h.getLine
  if line.isEmpty then return ()
  let line := line.trimAscii.toString
  if line.isEmpty || line.startsWith ">" || line.startsWith "#" then
    loop h w debug snap dead inv
  else if line.startsWith "===" then
    IO.println line
    loop h { debug := debug } debug snap false inv
  else if line.startsWith "gate " then
    -- C18: the model's verdict on `Q: ReadOnlyQuery`
    IO.println line
    match Parse.parseQuery (line.drop 5).toString with
    | some q => IO.println s!"> readonly={q.readOnlyGate}"
    | none => IO.println "> bad-op"
    loop h w debug snap dead inv
  else if dead then
    loop h w debug snap dead inv
  else
    IO.println line
    match Parse.parseOp line with
    | none =>
      IO.println "> bad-op"
      loop h w debug snap dead inv
    | some op =>
      let (w', lines) := step w op snap
      for l in lines do IO.println ("> " ++ l)
      if !(line == "drop") then IO.println s!"> pr {w'.probeCount}"
      if inv && !(line == "drop") then
        let r := w'.invPlusReport
        IO.println (if r.isEmpty then "> inv ok" else "> inv FAIL:" ++ ",".intercalate r)
      -- after a UB marker the model state is meaningless: stop this history (a failed debug assertion unwinds like a panic)
      let dead' := lines.any fun l => l.startsWith "ub "
      loop h w' debug snap dead' inv

/-- `--bitset`: scripts for the bit-set model (`=== name` starts a script with two empty registers; one output line
    per operation line), the counterpart of `hx --bitset` -/
partial def bitsetLoop (h : IO.FS.Stream) (cur : List String) : IO Unit := do
  let flush (cur : List String) : IO Unit := do
    for l in BitSetScript.run cur.reverse do IO.println l
  let line ← h.getLine
  if line.isEmpty then flush cur
  else
    let line := (line.dropEndWhile (· == '\n')).toString
    if line.startsWith "===" then
      flush cur
      IO.println line
      bitsetLoop h []
    else if line.trimAscii.toString.isEmpty then bitsetLoop h cur
    else bitsetLoop h (line :: cur)

def main (args : List String) : IO Unit := do
  if args.contains "--bitset" then
    bitsetLoop (← IO.getStdin) []
    return
  let debug := !(args.contains "--release")
  loop (← IO.getStdin) { debug := debug } debug (args.contains "--snap") false (args.contains "--inv")
