import Evenio.Driver.Parse
/-! Driver: reads histories on stdin (`=== id` starts a fresh world; `>`-lines and `#`-lines are ignored; every
    other line is one operation), prints each operation followed by the model's observation lines. -/
open Evenio

partial def loop (h : IO.FS.Stream) (w : World) (debug snap : Bool) (dead : Bool) : IO Unit := do
  let line ← h.getLine
  if line.isEmpty then return ()
  let line := line.trimAscii.toString
  if line.isEmpty || line.startsWith ">" || line.startsWith "#" then
    loop h w debug snap dead
  else if line.startsWith "===" then
    IO.println line
    loop h { debug := debug } debug snap false
  else if dead then
    loop h w debug snap dead
  else
    IO.println line
    match Parse.parseOp line with
    | none =>
      IO.println "> bad-op"
      loop h w debug snap dead
    | some op =>
      let (w', lines) := step w op snap
      for l in lines do IO.println ("> " ++ l)
      -- after a UB marker the model state is meaningless: stop this history (a failed debug assertion unwinds like a panic)
      let dead' := lines.any fun l => l.startsWith "ub "
      loop h w' debug snap dead'

def main (args : List String) : IO Unit := do
  let debug := !(args.contains "--release")
  loop (← IO.getStdin) { debug := debug } debug (args.contains "--snap") false
