import Evenio.Proofs.Edges
/-! The archetype graph as a whole: the graph part of the invariant on the slab (`GraphOK`), "same archetype up to
    cached edges" (`SameButEdges`, `Extends`), and small partial-correctness helpers for reasoning about model
    functions with the slab of archetypes fixed (`fun w => w.archs = A`).  Used by Props/C14 and Props/C17. -/
namespace Evenio

/-- the edge property of an archetype only depends on ITS component set and edge tables and on the component sets
    of the live archetypes; it is monotone in the edge tables -/
theorem EdgesOK.congr {get get' : Nat → Option Arch} {a a' : Arch}
    (hget : ∀ d b, get d = some b → ∃ b', get' d = some b' ∧ b'.comps = b.comps)
    (hc : a'.comps = a.comps) (hi : ∀ e, e ∈ a'.insEdges → e ∈ a.insEdges)
    (hr : ∀ e, e ∈ a'.remEdges → e ∈ a.remEdges) (h : EdgesOK get a) : EdgesOK get' a' := by
  refine ⟨fun c d hcd => ?_, fun c d hcd => ?_⟩
  · obtain ⟨b, hb, h1, h2⟩ := h.1 c d (hi _ hcd)
    obtain ⟨b', hb', hbc⟩ := hget d b hb
    exact ⟨b', hb', hc ▸ h1, by rw [hbc, h2, hc]⟩
  · obtain ⟨b, hb, h1, h2⟩ := h.2 c d (hr _ hcd)
    obtain ⟨b', hb', hbc⟩ := hget d b hb
    exact ⟨b', hb', hc ▸ h1, by rw [hbc, h2, hc]⟩

namespace Graph

/-- the edge conjunct, on the slab -/
def EdgesInv (A : Slab Arch) : Prop := ∀ i a, A.get i = some a → EdgesOK A.get a

theorem invEdges_iff_edgesInv (w : World) : w.invEdges = true ↔ EdgesInv w.archs := invEdges_iff w

/-- the part of the invariant that only concerns the archetype graph: the slab's vacant list is well-formed,
    archetypes are stored under their own index, have strictly sorted, pairwise distinct component sets, and all
    cached transitions are correct -/
structure GraphOK (A : Slab Arch) : Prop where
  wf : Slab.WF A
  idx : IndexOK A
  sorted : ∀ i a, A.get i = some a → a.comps.Pairwise (· < ·)
  distinct : ∀ i j a b, A.get i = some a → A.get j = some b → a.comps = b.comps → i = j
  edges : EdgesInv A

theorem GraphOK.invEdges {w : World} (h : GraphOK w.archs) : w.invEdges = true := (invEdges_iff w).2 h.edges

/-- `a'` is `a` with possibly more cached transitions -/
structure SameButEdges (a a' : Arch) : Prop where
  index : a'.index = a.index
  comps : a'.comps = a.comps
  cols : a'.cols = a.cols
  ids : a'.ids = a.ids
  cap : a'.cap = a.cap
  epoch : a'.epoch = a.epoch
  refresh : a'.refresh = a.refresh
  listeners : a'.listeners = a.listeners

theorem SameButEdges.refl (a : Arch) : SameButEdges a a := ⟨rfl, rfl, rfl, rfl, rfl, rfl, rfl, rfl⟩

/-- every archetype of `A` is still there in `A'`, with the same rows, columns, capacity, epoch and listeners -/
def Extends (A A' : Slab Arch) : Prop := ∀ j x, A.get j = some x → ∃ x', A'.get j = some x' ∧ SameButEdges x x'

theorem extends_refl (A : Slab Arch) : Extends A A := fun _ x hx => ⟨x, hx, SameButEdges.refl x⟩


/-! ### triples with the slab fixed -/

theorem ubErr_archs {α : Type} (A : Slab Arch) (s : String) : Keeps (fun w => w.archs = A) (ubErr s : M α) := by
  unfold ubErr; keeps
theorem dbgAssert_archs (A : Slab Arch) (c : Bool) (s : String) : Keeps (fun w => w.archs = A) (dbgAssert c s) := by
  unfold dbgAssert; keeps
theorem handlerRefresh_archs (A : Slab Arch) (hk : Key) (a : Arch) :
    Keeps (fun w => w.archs = A) (handlerRefresh hk a) := by
  unfold handlerRefresh
  keeps
  · exact ubErr_archs A _
  · exact dbgAssert_archs A _ _

theorem hoare_and_const {α : Type} {P : World → Prop} {C : Prop} {m : M α} {Q : α → World → Prop}
    (h : C → HoareOk P m Q) : HoareOk (fun w => P w ∧ C) m Q :=
  ⟨fun w hw a w' hr => (h hw.2).run w hw.1 a w' hr⟩

theorem hoare_exists {α ι : Type} {P : ι → World → Prop} {m : M α} {Q : α → World → Prop}
    (h : ∀ x, HoareOk (P x) m Q) : HoareOk (fun w => ∃ x, P x w) m Q :=
  ⟨fun w hw a w' hr => by obtain ⟨x, hx⟩ := hw; exact (h x).run w hx a w' hr⟩

theorem hoare_const_and {α : Type} {P : World → Prop} {C : Prop} {m : M α} {Q : α → World → Prop}
    (h : C → HoareOk P m Q) : HoareOk (fun w => C ∧ P w) m Q :=
  ⟨fun w hw a w' hr => (h hw.1).run w hw.2 a w' hr⟩

theorem getArch_spec (A : Slab Arch) (i : Nat) (s : String) :
    HoareOk (fun w => w.archs = A) (getArch i s) (fun a w => w.archs = A ∧ A.get i = some a) := by
  unfold getArch
  refine HoareOk.get_bind fun w hw => ?_
  split
  · next a ha => exact HoareOk.pure fun w' hw' => ⟨hw', hw ▸ ha⟩
  · exact HoareOk.ubErr _

theorem setArch_spec (A : Slab Arch) (a : Arch) :
    HoareOk (fun w => w.archs = A) (setArch a) (fun _ w => w.archs = A.set a.index a) := by
  refine ⟨fun w hw u w' hr => ?_⟩
  unfold setArch at hr
  rw [run_modify] at hr
  cases hr
  exact hw ▸ rfl

/-! ### steps that do not touch the slab keep every property of the slab -/

theorem ubErr_keeps_archs {α : Type} (J : Slab Arch → Prop) (s : String) :
    Keeps (fun w => J w.archs) (ubErr s : M α) := by
  unfold ubErr; keeps
theorem dbgAssert_keeps_archs (J : Slab Arch → Prop) (c : Bool) (s : String) :
    Keeps (fun w => J w.archs) (dbgAssert c s) := by
  unfold dbgAssert; keeps
theorem dropCell_keeps_archs (J : Slab Arch → Prop) (ty : Nat) (c : Cell) :
    Keeps (fun w => J w.archs) (dropCell ty c) := by
  unfold dropCell; keeps
theorem handlerRemoveArch_keeps_archs (J : Slab Arch → Prop) (hk : Key) (a : Arch) :
    Keeps (fun w => J w.archs) (handlerRemoveArch hk a) := by
  unfold handlerRemoveArch
  keeps
  exact ubErr_keeps_archs J _

/-! ### dropping cached edges -/

/-- `x'` is `x` with a subset of its cached transitions -/
structure Thinner (x x' : Arch) : Prop where
  same : SameButEdges x x'
  ins : ∀ e, e ∈ x'.insEdges → e ∈ x.insEdges
  rem : ∀ e, e ∈ x'.remEdges → e ∈ x.remEdges

theorem SameButEdges.trans {a b c : Arch} (h1 : SameButEdges a b) (h2 : SameButEdges b c) : SameButEdges a c :=
  ⟨h2.index.trans h1.index, h2.comps.trans h1.comps, h2.cols.trans h1.cols, h2.ids.trans h1.ids,
   h2.cap.trans h1.cap, h2.epoch.trans h1.epoch, h2.refresh.trans h1.refresh, h2.listeners.trans h1.listeners⟩

theorem Thinner.refl (x : Arch) : Thinner x x := ⟨SameButEdges.refl x, fun _ h => h, fun _ h => h⟩

theorem Thinner.trans {a b c : Arch} (h1 : Thinner a b) (h2 : Thinner b c) : Thinner a c :=
  ⟨h1.same.trans h2.same, fun e h => h1.ins e (h2.ins e h), fun e h => h1.rem e (h2.rem e h)⟩

/-- `T` is `S` with some cached edges dropped: the same live keys, every archetype the same up to a subset of its
    edges -/
structure Thinned (S T : Slab Arch) : Prop where
  live : ∀ j, (T.get j).isSome = (S.get j).isSome
  same : ∀ j x', T.get j = some x' → ∃ x, S.get j = some x ∧ Thinner x x'

theorem Thinned.refl (S : Slab Arch) : Thinned S S := ⟨fun _ => rfl, fun _ x' h => ⟨x', h, Thinner.refl x'⟩⟩

/-- the invariant of the unlinking loops: a well-formed, index-consistent thinning of `S1` -/
structure ThinOf (S1 T : Slab Arch) : Prop where
  wf : Slab.WF T
  idx : IndexOK T
  thin : Thinned S1 T

/-- writing back a thinner version of an archetype of `S1` under its index keeps `ThinOf S1` -/
theorem setArch_thinOf (S1 : Slab Arch) (oa' : Arch) (h : ∃ orig, S1.get oa'.index = some orig ∧ Thinner orig oa') :
    Keeps (fun w => ThinOf S1 w.archs) (setArch oa') := by
  unfold setArch
  refine Keeps.modify fun w hw => ?_
  obtain ⟨orig, ho, hth⟩ := h
  refine ⟨Slab.set_wf hw.wf _ _, hw.idx.set oa', ⟨fun j => ?_, fun j x' hj => ?_⟩⟩
  · dsimp only
    rw [Slab.get_set]
    split
    · next hj => subst hj; rw [← hw.thin.live]; cases w.archs.get oa'.index <;> rfl
    · exact hw.thin.live j
  · dsimp only at hj
    rw [Slab.get_set] at hj
    split at hj
    · next hjo =>
      subst hjo
      cases hg : w.archs.get oa'.index with
      | none => rw [hg] at hj; cases hj
      | some y => rw [hg] at hj; cases hj; exact ⟨orig, ho, hth⟩
    · exact hw.thin.same j x' hj

/-- the witness needed by `setArch_thinOf`, from the state the archetype was read in -/
theorem ThinOf.witness {S1 T : Slab Arch} (h : ThinOf S1 T) {other : Nat} {oa oa' : Arch} (hoa : T.get other = some oa)
    (hth : Thinner oa oa') : ∃ orig, S1.get oa'.index = some orig ∧ Thinner orig oa' := by
  obtain ⟨orig, ho, hto⟩ := h.thin.same other oa hoa
  have : oa'.index = other := hth.same.index.trans (h.idx other oa hoa)
  exact ⟨orig, this ▸ ho, hto.trans hth⟩

/-! ### a loop whose steps are relations between slabs -/

/-- the composition of the step relation along a list -/
def ChainR {γ : Type} (R : γ → Slab Arch → Slab Arch → Prop) : List γ → Slab Arch → Slab Arch → Prop
  | [], S, S' => S' = S
  | x :: l, S, S' => ∃ S1, R x S S1 ∧ ChainR R l S1 S'

theorem forIn_chain {γ : Type} {Good : Slab Arch → Prop} {R : γ → Slab Arch → Slab Arch → Prop}
    {body : γ → PUnit → M (ForInStep PUnit)}
    (hbody : ∀ x S, Good S → HoareOk (fun w => w.archs = S) (body x PUnit.unit)
      (fun r w' => r = ForInStep.yield PUnit.unit ∧ Good w'.archs ∧ R x S w'.archs)) :
    ∀ (l : List γ) (S : Slab Arch), Good S →
      HoareOk (fun w => w.archs = S) (forIn l PUnit.unit body) (fun _ w' => Good w'.archs ∧ ChainR R l S w'.archs) := by
  intro l
  induction l with
  | nil =>
    intro S hS
    exact HoareOk.pure fun w hw => ⟨hw ▸ hS, hw⟩
  | cons x l ih =>
    intro S hS
    rw [List.forIn_cons]
    refine HoareOk.bind (hbody x S hS) fun r => ?_
    refine hoare_const_and fun hr => ?_
    subst hr
    dsimp only
    refine ⟨fun w hw u w' hrun => ?_⟩
    obtain ⟨hg, hR⟩ := hw
    obtain ⟨hg', hc⟩ := (ih w.archs hg).run w rfl u w' hrun
    exact ⟨hg', w.archs, hR, hc⟩

end Graph
end Evenio
