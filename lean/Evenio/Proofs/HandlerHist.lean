import Evenio.Props.ReachLists
import Evenio.Props.C03History
/-! # Removed handlers along whole histories: the list a delivery walks, and the site invariant

`Props/C15.lean` / `Props/ReachLists.lean` prove "a removed handler is in no list" for ONE world (the world right after
the removal; a reachable world).  Deliveries do not start in reachable worlds: they start in the middle of a flush, which
starts in the middle of an operation (`add_handler` runs up to a dozen flushes: one per registration notification).  This
file supplies the pieces that carry the statement to EVERY delivery:

* `runList w it` — the handler list `deliverOne it` walks when it is run in `w` (`deliverOne_runs_runList`: the run IS the
  lookups followed by `deliverBody it info (runList w it) loc`; nothing outside the list is invoked:
  `deliverOne_poisoned`);
* `HSite k` — the SITE INVARIANT: `GW` (the guarded world invariant `Small w → WInv w ∧ ReservedSome w`) together with
  `RegInv [('h', k)]` (the four registries are well formed, every id recorded as removed is dead, and `('h', k)` is
  recorded).  A one-state predicate;
* the `KS` table: every model function that can run between the start of an operation and a delivery keeps `HSite k` on
  normal return and after a panic (`KS.of`: from the `glue_*` theorem of the function and its `_ri` lemma);
* `site_in_no_list` / `site_not_in_runList` — in a world satisfying the site invariant `k` is in no list, so not in the
  list any delivery would walk;
* `dfsLog_site` / `dfsPanic_site` / `flush_site_ok` / `flush_site_error` — a flush started at a site: every delivery of
  the propagation (the completed ones AND the one that failed) starts at a site. -/
namespace Evenio
open ReachLists

/-! ## the list a delivery walks -/

/-- the handler list `deliverOne it` hands to its handler loop when run in `w`: the global list of the event's index, or
    the listener list the target's CURRENT archetype holds for it (`[]` when the lookups fail or the target is gone: no
    handler loop is run then) -/
def runList (w : World) (it : QItem) : List Key :=
  if it.ty.targeted then
    match w.entities.get it.target with
    | none => []
    | some loc =>
      match w.archs.get loc.arch with
      | none => []
      | some a => a.listenersFor it.idx
  else
    match w.byGlobal[it.idx]? with
    | none => []
    | some l => l.entries

@[simp] theorem runList_queue (w : World) (q : List QItem) (it : QItem) :
    runList { w with queue := q } it = runList w it := rfl

/-- **`runList` is the list of the handler loop.**  `deliverOne it`, run in `w`, is one of: a lookup failed (marker
    exit, nothing ran); the target does not exist (the event is dropped, no handler runs); or — with the registry entry
    `info` and the location `loc` it looked up — exactly `deliverBody it info (runList w it) loc`, whose handler loop is
    `for hk in runList w it` (`deliverBodyWith`, `Proofs/Listeners.lean`). -/
theorem deliverOne_runs_runList (it : QItem) (w : World) :
    (∃ s, (deliverOne it).run.run w = (.error (.ub s), w)) ∨
    (runList w it = [] ∧ ∃ info : EvInfo,
      (deliverOne it).run.run w = (if info.needsDrop then dropEvent it else pure ()).run.run w) ∨
    (∃ info loc, (deliverOne it).run.run w = (deliverBody it info (runList w it) loc).run.run w) := by
  by_cases ht : it.ty.targeted = true
  · cases hev : w.tevs.getByIndex it.idx with
    | none =>
      refine .inl ⟨"world.rs:flush:targeted_events.get_by_index", ?_⟩
      unfold deliverOne ubErr
      simp only [run_bind, run_get, ht, hev, if_true]
      rfl
    | some p =>
      obtain ⟨tk, info⟩ := p
      cases hloc : w.entities.get it.target with
      | none =>
        refine .inr (.inl ⟨?_, info, deliverOne_target_missing it w tk info ht hev hloc⟩)
        unfold runList; rw [if_pos ht, hloc]
      | some loc =>
        cases ha : w.archs.get loc.arch with
        | none =>
          refine .inl ⟨"world.rs:flush:archetypes.get", ?_⟩
          unfold deliverOne ubErr getArch
          simp only [run_bind, run_get, ht, hev, hloc, ha, if_true]
          rfl
        | some a =>
          refine .inr (.inr ⟨info, loc, ?_⟩)
          have : runList w it = a.listenersFor it.idx := by unfold runList; rw [if_pos ht, hloc]; simp only [ha]
          rw [this]
          exact deliverOne_target_live it w tk info loc a ht hev hloc ha
  · have ht' : it.ty.targeted = false := by simpa using ht
    cases hev : w.gevs.getByIndex it.idx with
    | none =>
      refine .inl ⟨"world.rs:flush:global_events.get_by_index", ?_⟩
      unfold deliverOne ubErr
      simp only [run_bind, run_get, ht', hev, Bool.false_eq_true, if_false]
      rfl
    | some p =>
      obtain ⟨gk, info⟩ := p
      cases hl : w.byGlobal[it.idx]? with
      | none =>
        refine .inl ⟨"world.rs:flush:get_global_list", ?_⟩
        unfold deliverOne ubErr
        simp only [run_bind, run_get, ht', hev, hl, Bool.false_eq_true, if_false]
        rfl
      | some l =>
        refine .inr (.inr ⟨info, Loc.NULL, ?_⟩)
        have : runList w it = l.entries := by unfold runList; rw [if_neg ht, hl]
        rw [this]
        exact deliverOne_global it w gk info l ht' hev hl

/-- **nothing outside `runList` is invoked**: if `k` is not in the list, the delivery is the same whatever the code of
    handler `k` is replaced by (`bad`) — in every case of `deliverOne_runs_runList` -/
theorem deliverOne_poisoned (it : QItem) (w : World) (k : Key) (hk : k ∉ runList w it)
    (bad : QItem → Loc → M Bool) :
    (∃ s, (deliverOne it).run.run w = (.error (.ub s), w)) ∨
    (∃ info : EvInfo, (deliverOne it).run.run w = (if info.needsDrop then dropEvent it else pure ()).run.run w) ∨
    (∃ info loc, (deliverOne it).run.run w =
      (deliverBodyWith (fun hk => if hk = k then bad else runHandler hk) it info (runList w it) loc).run.run w) := by
  rcases deliverOne_runs_runList it w with h | ⟨-, info, h⟩ | ⟨info, loc, h⟩
  · exact .inl h
  · exact .inr (.inl ⟨info, h⟩)
  · refine .inr (.inr ⟨info, loc, ?_⟩)
    rw [h, absent_handler_never_invoked it info (runList w it) loc k hk bad]

/-! ## the site invariant -/

/-- **the site invariant for the removed id `p`** (`('h', k)`: handler `k`; `('g', k)` / `('t', k)`: global / targeted
    event `k`; `('c', k)`: component `k`): the guarded world invariant, the registry invariant, and `p` is recorded as
    removed -/
def SiteP (p : Char × Key) (w : World) : Prop := GW w ∧ RegInv [p] w

/-- the site invariant for the removed handler id `k` -/
abbrev HSite (k : Key) : World → Prop := SiteP ('h', k)

theorem SiteP.removed {p : Char × Key} {w : World} (h : SiteP p w) : p ∈ w.removedIds :=
  h.2.sub _ (List.mem_singleton.2 rfl)

theorem HSite.removed {k : Key} {w : World} (h : HSite k w) : ('h', k) ∈ w.removedIds :=
  h.2.sub _ (List.mem_singleton.2 rfl)

theorem HSite.dead {k : Key} {w : World} (h : HSite k w) : w.handlers.contains k = false :=
  h.2.not_valid h.removed

theorem HSite.get_none {k : Key} {w : World} (h : HSite k w) : w.handlers.get k = none := by
  have := h.dead
  unfold SlotMap.contains at this
  cases hg : w.handlers.get k with
  | none => rfl
  | some _ => rw [hg] at this; cases this

theorem siteP_queueBlind (p : Char × Key) : QueueBlind (SiteP p) := fun w q n h =>
  ⟨guarded_winvMid_queueBlind w q n h.1, ri_queueBlind w q n h.2⟩

/-- the registry invariant along `ReachP` (no resource bound) -/
theorem regInv_reachP {w : World} (hr : ReachP w) : RegInv [] w := by
  induction hr with
  | init => exact regInv_init
  | step op _ _ _ ih => exact step_regInv op false ih
  | panic op _ _ _ _ ih => exact step_regInv op false ih

/-- a reachable world in which `p` is recorded is a site -/
theorem siteP_of_reachP {p : Char × Key} {w : World} (hr : ReachP w) (hk : p ∈ w.removedIds) : SiteP p w := by
  have hri : RegInv [] w := regInv_reachP hr
  refine ⟨fun hs => ?_, hri.track (fun p hp => by rw [List.mem_singleton.1 hp]; exact hk)⟩
  obtain ⟨h1, h2⟩ := reachableP_WInv w hr hs
  exact ⟨h1, h2.reservedSome⟩

/-- … and so is the world `step` runs the next operation in -/
theorem siteP_stepInit {p : Char × Key} {w : World} (h : SiteP p w) : SiteP p (stepInit w) := by
  refine ⟨fun hs => ?_, h.2⟩
  have hs' : Small w := hs
  exact (h.1 hs').frame (stepInit_relEq w) rfl rfl

/-- **in a world satisfying the site invariant (within the resource bound) `k` is in no list**: its id is invalid, it
    is not in the insertion-order index (from which a new archetype registers its listeners), in no global list, in no
    refresh set, in no listener table -/
theorem site_in_no_list {k : Key} {w : World} (h : HSite k w) (hs : Small w) :
    w.handlers.contains k = false ∧ k ∉ w.byInsertOrder ∧ (∀ l ∈ w.byGlobal, k ∉ l.entries) ∧
    (∀ i a, w.archs.get i = some a →
      k ∉ a.refresh ∧ (∀ t l, a.listeners.get t = some l → k ∉ l.entries) ∧ ∀ t, k ∉ a.listenersFor t) := by
  have hdead := h.dead
  obtain ⟨h1, h2, h3⟩ := lists_hold_only_live_handlers_of_winv (h.1 hs).1
  have no : ∀ {P : Prop}, (P → w.handlers.contains k = true) → ¬ P := fun f hp => by
    rw [f hp] at hdead; cases hdead
  exact ⟨hdead, no (h1 k), fun l hl => no (h2 l hl k), fun i a ha =>
    ⟨no ((h3 i a ha).1 k), fun t l hl => no ((h3 i a ha).2.1 t l hl k), fun t => no ((h3 i a ha).2.2 t k)⟩⟩

/-- **… so it is not in the list a delivery of ANY event would walk there** -/
theorem site_not_in_runList {k : Key} {w : World} (h : HSite k w) (hs : Small w) (it : QItem) : k ∉ runList w it := by
  obtain ⟨-, -, hG, hA⟩ := site_in_no_list h hs
  unfold runList
  split
  · split
    · exact List.not_mem_nil
    · split
      · exact List.not_mem_nil
      · rename_i loc _ a ha
        exact (hA _ a ha).2.2 it.idx
  · split
    · exact List.not_mem_nil
    · rename_i l hl
      exact hG l (List.mem_of_getElem? hl)

/-- in the model, `Handler::run` through a removed id does not run anything: the registry lookup fails (marker exit) -/
theorem runHandler_removed {k : Key} {w : World} (h : HSite k w) (it : QItem) (loc : Loc) :
    (runHandler k it loc).run.run w = (.error (.ub "handler-ptr:run"), w) := by
  unfold runHandler ubErr
  simp only [run_bind, run_get, h.get_none]
  rfl

/-! ## every model function keeps the site invariant (normal return and panic) -/

/-- `m` keeps the site invariant on normal return and after a panic -/
abbrev KS {α : Type} (p : Char × Key) (m : M α) : Prop := Hoare (SiteP p) m (fun _ => SiteP p) (PanicOnly (SiteP p))

theorem KS.of {α : Type} {p : Char × Key} {m : M α} (hw : KeepsW m) (hr : Keeps (RegInv [p]) m) : KS p m := by
  refine ⟨fun w h => ?_⟩
  have h1 := hw.run w h.1
  have h2 := hr.run w h.2
  generalize m.run.run w = r at h1 h2
  obtain ⟨(e|a), w'⟩ := r
  · exact fun hp => ⟨h1 hp, h2⟩
  · exact ⟨h1, h2⟩

variable (p : Char × Key)

theorem push_ks (it : QItem) : KS p (push it) := .of (glue_push it) (push_ri it)
theorem senderPush_ks (h : HInfo) (it : QItem) : KS p (senderPush h it) :=
  .of (glue_senderPush h it) (senderPush_ri h it)
theorem runAct_ks (hk : Key) (it : QItem) (loc : Loc) (act : Act) : KS p (runAct hk it loc act) :=
  .of (pieces.glue_runAct hk it loc act) (runAct_ri hk it loc act)
theorem runHandler_ks (hk : Key) (it : QItem) (loc : Loc) : KS p (runHandler hk it loc) :=
  .of (pieces.glue_runHandler hk it loc) (runHandler_ri hk it loc)
theorem dropQueued_ks : KS p dropQueued := .of glue_dropQueued dropQueued_ri
theorem deliverOne_ks (it : QItem) : KS p (deliverOne it) := .of (pieces.glue_deliverOne it) (deliverOne_ri it)
theorem flush_ks (fuel : Nat) : KS p (flush fuel) := .of (pieces.glue_flush fuel) (flush_ri fuel)
theorem ensureAddG_ks : KS p ensureAddG := .of pieces.glue_ensureAddG ensureAddG_ri
theorem addGlobalEvent_ks (ty : EvTy) : KS p (addGlobalEvent ty) :=
  .of (pieces.glue_addGlobalEvent ty) (addGlobalEvent_ri ty)
theorem sendGlobal_ks (ty : EvTy) (pay : Payload) : KS p (sendGlobal ty pay) :=
  .of (pieces.glue_sendGlobal ty pay) (sendGlobal_ri ty pay)
theorem addComponent_ks (ty : Nat) : KS p (addComponent ty) := .of (pieces.glue_addComponent ty) (addComponent_ri ty)
theorem addTargetedEvent_ks (ty : EvTy) (ht : ty.targeted = true) : KS p (addTargetedEvent ty) :=
  .of (pieces.glue_addTargetedEvent ty ht) (addTargetedEvent_ri ty)
theorem addEvent_ks (ty : EvTy) : KS p (addEvent ty) := .of (pieces.glue_addEvent ty) (addEvent_ri ty)
theorem sendTargeted_ks (ty : EvTy) (tg : Key) (pay : Payload) (ht : ty.targeted = true) :
    KS p (sendTargeted ty tg pay) := .of (pieces.glue_sendTargeted ty tg pay ht) (sendTargeted_ri ty tg pay)
theorem initQuery_ks (q : Query) (cfg : Config) : KS p (initQuery q cfg) :=
  .of (pieces.glue_initQuery q cfg) (initQuery_ri q cfg)
theorem initParam_ks (ps : PSpec) (cfg : Config) : KS p (initParam ps cfg) :=
  .of (pieces.glue_initParam ps cfg) (initParam_ri ps cfg)
theorem addHandler_ks (hs : HSpec) (hv : hs.Valid) : KS p (addHandler hs) :=
  .of (pieces.glue_addHandler hs hv) (addHandler_ri hs)
theorem removeHandler_ks (k' : Key) : KS p (removeHandler k') :=
  .of (pieces.glue_removeHandler k') (removeHandler_ri k')

/-- the site invariant with nothing queued and nothing reserved: what holds BETWEEN operations -/
def SiteQ (p : Char × Key) (w : World) : Prop := GQA AuxInv w ∧ RegInv [p] w

theorem SiteQ.site {p : Char × Key} {w : World} (h : SiteQ p w) : SiteP p w :=
  ⟨fun hs => ⟨(h.1 hs).1, (h.1 hs).2.1.reservedSome⟩, h.2⟩

/-- **every valid top-level operation**, from a quiescent site: on normal return a quiescent site again; after a panic a
    site (reservations may stay pending: F8) -/
theorem execOp_ks (op : Op) (hv : op.Valid) :
    Hoare (SiteQ p) (execOp op) (fun _ => SiteQ p) (PanicOnly (SiteP p)) := by
  refine ⟨fun w h => ?_⟩
  have h1 := (execOp_keeps_invariant op hv).run w h.1
  have h2 := (execOp_ri (D := [p]) op).run w h.2
  generalize (execOp op).run.run w = r at h1 h2
  obtain ⟨(e|a), w'⟩ := r
  · exact fun hp => ⟨fun hs => ⟨(h1 hp hs).1.1, (h1 hp hs).1.2⟩, h2⟩
  · exact ⟨h1, h2⟩

/-! ## a flush started at a site: every delivery starts at a site -/

variable {p}

/-- one completed delivery, run with the rest of the stack set aside -/
theorem Step.site {w : World} {e : QItem} {w1 : World} {seg : List QItem} (hs : Step deliverOne w e w1 seg)
    (hw : SiteP p w) : SiteP p w1 := by
  obtain ⟨w'', hrun, -, rfl⟩ := hs
  have h0 : SiteP p { w with queue := [] } := siteP_queueBlind p w [] w.arenaEpoch hw
  have h1 := (deliverOne_ks p e).run _ h0
  rw [hrun] at h1
  exact siteP_queueBlind p w'' [] w''.arenaEpoch h1

/-- along a depth-first propagation started at a site, every delivery starts at a site, and so does whatever follows -/
theorem dfsLog_site {w wd : World} {es : List QItem} {log : List Delivery} (h : DfsLog deliverOne w es wd log)
    (hw : SiteP p w) : (∀ d ∈ log, SiteP p d.pre) ∧ SiteP p wd := by
  induction h with
  | nil w => exact ⟨fun d hd => (nomatch hd), hw⟩
  | @cons w e w1 seg w2 es w3 l1 l2 hstep _ _ ih1 ih2 =>
    obtain ⟨a1, b1⟩ := ih1 (hstep.site hw)
    obtain ⟨a2, b2⟩ := ih2 b1
    refine ⟨fun d hd => ?_, b2⟩
    rcases List.mem_cons.1 hd with rfl | hd
    · exact hw
    · rcases List.mem_append.1 hd with hd | hd
      · exact a1 d hd
      · exact a2 d hd

/-- a propagation cut short by a failing delivery: the completed deliveries start at sites, and the delivery of `x` that
    failed started at a site `wx` too -/
theorem dfsPanic_site {w : World} {es : List QItem} {err : Err} {log : List Delivery} {x : QItem} {wl : World}
    {P : List QItem} (h : DfsPanic deliverOne w es err log x wl P) (hw : SiteP p w) :
    (∀ d ∈ log, SiteP p d.pre) ∧
    ∃ wx, SiteP p wx ∧ (deliverOne x).run.run { wx with queue := [] } = (.error err, wl) := by
  induction h with
  | @here w e es err wl hd => exact ⟨fun d hd' => (nomatch hd'), w, hw, hd⟩
  | @child w e w1 seg es err l x wl P hs _ ih =>
    obtain ⟨a1, b1⟩ := ih (hs.site hw)
    refine ⟨fun d hd => ?_, b1⟩
    rcases List.mem_cons.1 hd with rfl | hd
    · exact hw
    · exact a1 d hd
  | @sibling w e w1 seg w2 es err l1 l2 x wl P hs hc _ ih =>
    obtain ⟨a1, b1⟩ := dfsLog_site hc (hs.site hw)
    obtain ⟨a2, b2⟩ := ih b1
    refine ⟨fun d hd => ?_, b2⟩
    rcases List.mem_cons.1 hd with rfl | hd
    · exact hw
    · rcases List.mem_append.1 hd with hd | hd
      · exact a1 d hd
      · exact a2 d hd

/-- **a flush that returns**, started at a site with any stack `q`: it was a depth-first propagation `log`, and every
    delivery of it started at a site -/
theorem flush_site_ok {w0 w' : World} {q : List QItem} {fuel : Nat} (hw : SiteP p w0)
    (h : (flush fuel).run.run { w0 with queue := q } = (.ok (), w')) :
    ∃ wd log, DfsLog deliverOne { w0 with queue := [] } q.reverse wd log ∧
      w' = { wd with arenaEpoch := wd.arenaEpoch + 1 } ∧ ∀ d ∈ log, SiteP p d.pre := by
  obtain ⟨wd, log, hlog, rfl⟩ := flushWith_ok_log (deliver := deliverOne) h
  exact ⟨wd, log, hlog, rfl, (dfsLog_site hlog (siteP_queueBlind p w0 [] w0.arenaEpoch hw)).1⟩

/-- **a flush that does not return** (a handler panicked, a documented panic of the library, a marker), started at a
    site: unless the model's fuel ran out, it was a depth-first propagation cut short by the failing delivery of `x`;
    every completed delivery started at a site, and so did the failing one -/
theorem flush_site_error {w0 w' : World} {q : List QItem} {fuel : Nat} {e : Err} (hw : SiteP p w0)
    (h : (flush fuel).run.run { w0 with queue := q } = (.error e, w')) :
    e = .panic "model:fuel" ∨
    ∃ err log x wl P, DfsPanic deliverOne { w0 with queue := [] } q.reverse err log x wl P ∧
      (∀ d ∈ log, SiteP p d.pre) ∧
      ∃ wx, SiteP p wx ∧ (deliverOne x).run.run { wx with queue := [] } = (.error err, wl) := by
  rcases flushWith_error_log (deliver := deliverOne) h with hf | ⟨err, log, x, wl, P, hp, -⟩
  · exact .inl hf
  · obtain ⟨a, b⟩ := dfsPanic_site hp (siteP_queueBlind p w0 [] w0.arenaEpoch hw)
    exact .inr ⟨err, log, x, wl, P, hp, a, b⟩

/-! ## removed event ids

A queued event carries the INDEX of its registry slot, not the id; "the delivery is for the event id `k`" means: the
registry lookup `deliverOne` starts with yields the entry registered under `k`. -/

/-- the id of the registry entry the lookup of `deliverOne it` yields in `w` -/
def deliveredKey (w : World) (it : QItem) : Option Key :=
  (if it.ty.targeted then w.tevs.getByIndex it.idx else w.gevs.getByIndex it.idx).map (·.1)

@[simp] theorem deliveredKey_queue (w : World) (q : List QItem) (it : QItem) :
    deliveredKey { w with queue := q } it = deliveredKey w it := rfl

/-- the entry a delivery looks up is live -/
theorem deliveredKey_live {w : World} {it : QItem} {k : Key} (h : deliveredKey w it = some k) :
    (if it.ty.targeted then w.tevs.contains k else w.gevs.contains k) = true := by
  unfold deliveredKey at h
  split at h
  · cases hg : w.tevs.getByIndex it.idx with
    | none => rw [hg] at h; cases h
    | some p =>
      obtain ⟨k', info⟩ := p
      rw [hg] at h
      cases h
      rw [if_pos ‹_›]
      simp [SlotMap.contains, (SlotMap.getByIndex_get hg).1]
  · cases hg : w.gevs.getByIndex it.idx with
    | none => rw [hg] at h; cases h
    | some p =>
      obtain ⟨k', info⟩ := p
      rw [hg] at h
      cases h
      rw [if_neg ‹_›]
      simp [SlotMap.contains, (SlotMap.getByIndex_get hg).1]

/-- when the lookup yields nothing the delivery is a marker exit: nothing is delivered -/
theorem deliverOne_no_key {w : World} {it : QItem} (h : deliveredKey w it = none) :
    ∃ s, (deliverOne it).run.run w = (.error (.ub s), w) := by
  unfold deliveredKey at h
  by_cases ht : it.ty.targeted = true
  · rw [if_pos ht] at h
    have hev : w.tevs.getByIndex it.idx = none := by simpa using h
    refine ⟨"world.rs:flush:targeted_events.get_by_index", ?_⟩
    unfold deliverOne ubErr
    simp only [run_bind, run_get, ht, hev, if_true]
    rfl
  · rw [if_neg ht] at h
    have ht' : it.ty.targeted = false := by simpa using ht
    have hev : w.gevs.getByIndex it.idx = none := by simpa using h
    refine ⟨"world.rs:flush:global_events.get_by_index", ?_⟩
    unfold deliverOne ubErr
    simp only [run_bind, run_get, ht', hev, Bool.false_eq_true, if_false]
    rfl

/-- **in a world satisfying the registry invariant with the event id `k` of kind `ty` recorded as removed, no delivery of
    an event of that kind is for `k`** (whatever index the queued item carries — the index of `k` may have been reused).
    No resource bound, no world invariant: `RegInv` is kept by every model function on EVERY exit. -/
theorem removed_event_not_delivered {w : World} {ty : EvTy} {k : Key} (h : RegInv [(evTag ty, k)] w) (it : QItem)
    (ht : it.ty.targeted = ty.targeted) : deliveredKey w it ≠ some k := by
  intro hd
  have hlive := deliveredKey_live hd
  have hdead := h.not_valid (h.sub _ (List.mem_singleton.2 rfl))
  unfold evTag at hdead
  rw [ht] at hlive
  cases htt : ty.targeted with
  | true =>
    rw [htt] at hlive hdead
    simp only [if_true] at hlive hdead
    rw [hlive] at hdead; cases hdead
  | false =>
    rw [htt] at hlive hdead
    simp only [Bool.false_eq_true, if_false] at hlive hdead
    rw [hlive] at hdead; cases hdead

/-- **… and no live handler receives it** (within the resource bound: the registry component of the world invariant) -/
theorem site_no_handler_receives {w : World} {ty : EvTy} {k : Key} (h : SiteP (evTag ty, k) w) (hs : Small w)
    {hk : Key} {hi : HInfo} (hg : w.handlers.get hk = some hi) :
    ¬ (hi.recv.targeted = ty.targeted ∧ hi.recvKey = k) := by
  rintro ⟨ht, rfl⟩
  have hdead := h.2.not_valid h.removed
  have r := (h.1 hs).1.registry.handlerRefs hk hi hg
  unfold evTag at hdead
  cases htt : ty.targeted with
  | true =>
    rw [htt] at ht hdead
    obtain ⟨info, hinfo, -⟩ := r.recvT ht
    simp [SlotMap.contains, hinfo] at hdead
  | false =>
    rw [htt] at ht hdead
    obtain ⟨info, hinfo, -⟩ := r.recvG ht
    simp [SlotMap.contains, hinfo] at hdead

end Evenio
