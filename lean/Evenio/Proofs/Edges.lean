import Evenio.Model.Inv
import Evenio.Proofs.Slab
import Evenio.Proofs.HoareOk
/-! The archetype graph: sorted component lists (`insertSorted`, `filter (· != c)`), the `BTreeMap` edge tables
    (`edgeGet` / `edgeInsert` / `edgeRemove`), the edge conjunct of the invariant as logic (`invEdges_iff`), and the
    final sweep of `Archetypes::remove_component` (the F4 repair) as a pure function on the slab.  Core Lean only. -/
namespace Evenio

/-! ### strictly sorted component lists -/

theorem strictlySorted_iff : ∀ l : List Nat, strictlySorted l = true ↔ l.Pairwise (· < ·)
  | [] => by simp [strictlySorted]
  | [x] => by simp [strictlySorted]
  | x :: y :: r => by
    rw [strictlySorted, Bool.and_eq_true, strictlySorted_iff (y :: r), List.pairwise_cons (a := x)]
    simp only [decide_eq_true_eq]
    constructor
    · rintro ⟨hxy, hp⟩
      refine ⟨fun z hz => ?_, hp⟩
      rcases List.mem_cons.1 hz with rfl | hz
      · exact hxy
      · exact Nat.lt_trans hxy ((List.pairwise_cons.1 hp).1 z hz)
    · rintro ⟨h, hp⟩
      exact ⟨h y (List.mem_cons_self ..), hp⟩

theorem mem_insertSorted_edges (l : List Nat) (c x : Nat) : x ∈ insertSorted l c ↔ x = c ∨ x ∈ l := by
  induction l with
  | nil => simp [insertSorted]
  | cons y ys ih =>
    unfold insertSorted
    split
    · simp
    · split
      · next h => subst h; simp
      · simp only [List.mem_cons, ih]
        constructor
        · rintro (h | h | h) <;> simp [h]
        · rintro (h | h | h) <;> simp [h]

/-- `insertSorted_mem` of the task statement -/
theorem insertSorted_mem (l : List Nat) (c : Nat) : c ∈ insertSorted l c := (mem_insertSorted_edges l c c).2 (.inl rfl)

theorem insertSorted_sorted {l : List Nat} (h : l.Pairwise (· < ·)) (c : Nat) :
    (insertSorted l c).Pairwise (· < ·) := by
  induction l with
  | nil => simp [insertSorted]
  | cons y ys ih =>
    rw [List.pairwise_cons] at h
    unfold insertSorted
    split
    · next hlt =>
      refine List.pairwise_cons.2 ⟨fun z hz => ?_, List.pairwise_cons.2 h⟩
      rcases List.mem_cons.1 hz with rfl | hz
      · exact hlt
      · exact Nat.lt_trans hlt (h.1 z hz)
    · split
      · exact List.pairwise_cons.2 h
      · next hnlt hne =>
        refine List.pairwise_cons.2 ⟨fun z hz => ?_, ih h.2⟩
        rcases (mem_insertSorted_edges ys c z).1 hz with rfl | hz
        · omega
        · exact h.1 z hz

/-- inserting a component that is already there is a no-op (on a strictly sorted list) -/
theorem insertSorted_of_mem {l : List Nat} (h : l.Pairwise (· < ·)) {c : Nat} (hc : c ∈ l) : insertSorted l c = l := by
  induction l with
  | nil => cases hc
  | cons y ys ih =>
    rw [List.pairwise_cons] at h
    unfold insertSorted
    split
    · next hlt =>
      rcases List.mem_cons.1 hc with rfl | hc
      · omega
      · have := h.1 c hc; omega
    · split
      · rfl
      · next hnlt hne =>
        rcases List.mem_cons.1 hc with rfl | hc
        · exact absurd rfl hne
        · rw [ih h.2 hc]

theorem insertSorted_length_of_not_mem {l : List Nat} {c : Nat} (hc : c ∉ l) :
    (insertSorted l c).length = l.length + 1 := by
  induction l with
  | nil => rfl
  | cons y ys ih =>
    rw [List.mem_cons, not_or] at hc
    unfold insertSorted
    split
    · rfl
    · rw [if_neg hc.1, List.length_cons, ih hc.2, List.length_cons]

/-- a new component gives a different component set -/
theorem insertSorted_ne_of_not_mem {l : List Nat} {c : Nat} (hc : c ∉ l) : insertSorted l c ≠ l := by
  intro h
  exact hc (h ▸ insertSorted_mem l c)

theorem filter_ne_sorted {l : List Nat} (h : l.Pairwise (· < ·)) (c : Nat) : (l.filter (· != c)).Pairwise (· < ·) :=
  h.filter _

theorem mem_filter_ne (l : List Nat) (c x : Nat) : x ∈ l.filter (· != c) ↔ x ∈ l ∧ x ≠ c := by
  simp [List.mem_filter]

theorem filter_ne_of_not_mem {l : List Nat} {c : Nat} (hc : c ∉ l) : l.filter (· != c) = l := by
  rw [List.filter_eq_self]
  intro x hx
  simp only [bne_iff_ne, ne_eq]
  rintro rfl
  exact hc hx

/-- removing the component that was just inserted gives the original set back -/
theorem filter_insertSorted {l : List Nat} {c : Nat} (hc : c ∉ l) : (insertSorted l c).filter (· != c) = l := by
  induction l with
  | nil => simp [insertSorted]
  | cons y ys ih =>
    rw [List.mem_cons, not_or] at hc
    have hy : (y != c) = true := by simp [bne_iff_ne, Ne.symm hc.1]
    unfold insertSorted
    split
    · rw [List.filter_cons, if_neg (by simp), List.filter_cons, if_pos hy, filter_ne_of_not_mem hc.2]
    · rw [if_neg hc.1, List.filter_cons, if_pos hy, ih hc.2]

/-- inserting the component that was just removed gives the original (strictly sorted) set back -/
theorem insertSorted_filter {l : List Nat} (h : l.Pairwise (· < ·)) {c : Nat} (hc : c ∈ l) :
    insertSorted (l.filter (· != c)) c = l := by
  induction l with
  | nil => cases hc
  | cons y ys ih =>
    rw [List.pairwise_cons] at h
    by_cases hy : y = c
    · subst hy
      have hnot : y ∉ ys := fun hm => Nat.lt_irrefl _ (h.1 y hm)
      rw [List.filter_cons, if_neg (by simp), filter_ne_of_not_mem hnot]
      cases ys with
      | nil => rfl
      | cons z zs =>
        have := h.1 z (List.mem_cons_self ..)
        unfold insertSorted
        rw [if_pos this]
    · have hc' : c ∈ ys := by
        rcases List.mem_cons.1 hc with rfl | hc
        · exact absurd rfl hy
        · exact hc
      have hlt := h.1 c hc'
      rw [List.filter_cons, if_pos (by simp [bne_iff_ne, hy])]
      unfold insertSorted
      rw [if_neg (by omega), if_neg (by omega), ih h.2 hc']

/-! ### the edge tables -/

theorem edgeGet_edgeInsert_same (m : List (Nat × Nat)) (k v : Nat) : edgeGet (edgeInsert m k v) k = some v := by
  induction m with
  | nil => simp [edgeInsert, edgeGet]
  | cons x m ih =>
    obtain ⟨k', v'⟩ := x
    unfold edgeInsert
    split
    · simp [edgeGet]
    · split
      · simp [edgeGet]
      · next h1 h2 =>
        have : (k' == k) = false := by simp; omega
        unfold edgeGet at ih ⊢
        rw [List.find?_cons, this]
        exact ih

theorem edgeGet_edgeInsert_other (m : List (Nat × Nat)) (k v : Nat) {k2 : Nat} (h : k2 ≠ k) :
    edgeGet (edgeInsert m k v) k2 = edgeGet m k2 := by
  have hk : (k == k2) = false := by simp; exact Ne.symm h
  induction m with
  | nil => simp [edgeInsert, edgeGet, hk]
  | cons x m ih =>
    obtain ⟨k', v'⟩ := x
    unfold edgeInsert
    split
    · unfold edgeGet
      rw [List.find?_cons, hk]
    · split
      · next h1 h2 =>
        subst h2
        unfold edgeGet
        rw [List.find?_cons, List.find?_cons, hk]
      · unfold edgeGet at ih ⊢
        rw [List.find?_cons, List.find?_cons]
        split
        · rfl
        · exact ih

theorem mem_edgeRemove (m : List (Nat × Nat)) (k : Nat) (x : Nat × Nat) : x ∈ edgeRemove m k ↔ x ∈ m ∧ x.1 ≠ k := by
  simp [edgeRemove, List.mem_filter]

theorem edgeGet_edgeRemove_same (m : List (Nat × Nat)) (k : Nat) : edgeGet (edgeRemove m k) k = none := by
  unfold edgeGet edgeRemove
  rw [Option.map_eq_none_iff, List.find?_eq_none]
  intro x hx
  rw [List.mem_filter] at hx
  simpa using hx.2

theorem edgeGet_edgeRemove_other (m : List (Nat × Nat)) (k : Nat) {k2 : Nat} (h : k2 ≠ k) :
    edgeGet (edgeRemove m k) k2 = edgeGet m k2 := by
  unfold edgeGet edgeRemove
  rw [List.find?_filter]
  congr 2
  funext x
  by_cases hx : x.1 = k2
  · simp [hx, h]
  · simp [hx]

theorem edgeGet_mem {m : List (Nat × Nat)} {k v : Nat} (h : edgeGet m k = some v) : (k, v) ∈ m := by
  unfold edgeGet at h
  rw [Option.map_eq_some_iff] at h
  obtain ⟨⟨k', v'⟩, hf, hv⟩ := h
  have h1 := List.mem_of_find?_eq_some hf
  have h2 := List.find?_some hf
  simp only [beq_iff_eq] at h2 hv
  subst h2 hv
  exact h1

/-- no edge labelled `k` is left -/
theorem edgeRemove_no_label (m : List (Nat × Nat)) (k d : Nat) : (k, d) ∉ edgeRemove m k := by
  rw [mem_edgeRemove]
  exact fun h => h.2 rfl

theorem mem_edgeInsert {m : List (Nat × Nat)} {k v : Nat} {x : Nat × Nat} (h : x ∈ edgeInsert m k v) :
    x = (k, v) ∨ x ∈ m := by
  induction m with
  | nil => simpa [edgeInsert] using h
  | cons y m ih =>
    obtain ⟨k', v'⟩ := y
    unfold edgeInsert at h
    split at h
    · rcases List.mem_cons.1 h with h | h
      · exact .inl h
      · exact .inr h
    · split at h
      · rcases List.mem_cons.1 h with h | h
        · exact .inl h
        · exact .inr (List.mem_cons_of_mem _ h)
      · rcases List.mem_cons.1 h with h | h
        · exact .inr (h ▸ List.mem_cons_self ..)
        · rcases ih h with h | h
          · exact .inl h
          · exact .inr (List.mem_cons_of_mem _ h)

theorem mem_edgeInsert_self (m : List (Nat × Nat)) (k v : Nat) : (k, v) ∈ edgeInsert m k v :=
  edgeGet_mem (edgeGet_edgeInsert_same m k v)

theorem mem_edgeInsert_of_mem {m : List (Nat × Nat)} {x : Nat × Nat} (k v : Nat) (hx : x ∈ m) (hk : x.1 ≠ k) :
    x ∈ edgeInsert m k v := by
  induction m with
  | nil => cases hx
  | cons y m ih =>
    obtain ⟨k', v'⟩ := y
    unfold edgeInsert
    split
    · exact List.mem_cons_of_mem _ hx
    · split
      · next h1 h2 =>
        rcases List.mem_cons.1 hx with rfl | hx
        · exact absurd h2.symm hk
        · exact List.mem_cons_of_mem _ hx
      · rcases List.mem_cons.1 hx with rfl | hx
        · exact List.mem_cons_self ..
        · exact List.mem_cons_of_mem _ (ih hx)

/-- the labels after `edgeInsert` are the sorted insertion of the new label -/
theorem edgeInsert_keys (m : List (Nat × Nat)) (k v : Nat) :
    (edgeInsert m k v).map (·.1) = insertSorted (m.map (·.1)) k := by
  induction m with
  | nil => rfl
  | cons y m ih =>
    obtain ⟨k', v'⟩ := y
    unfold edgeInsert
    simp only [List.map_cons]
    unfold insertSorted
    split
    · rfl
    · split
      · next h1 h2 => subst h2; rfl
      · simp only [List.map_cons, ih]

theorem edgeInsert_sorted {m : List (Nat × Nat)} (h : (m.map (·.1)).Pairwise (· < ·)) (k v : Nat) :
    ((edgeInsert m k v).map (·.1)).Pairwise (· < ·) := by
  rw [edgeInsert_keys]; exact insertSorted_sorted h k

theorem edgeRemove_sorted {m : List (Nat × Nat)} (h : (m.map (·.1)).Pairwise (· < ·)) (k : Nat) :
    ((edgeRemove m k).map (·.1)).Pairwise (· < ·) := by
  rw [List.pairwise_map] at h ⊢
  exact h.filter _

/-- with distinct labels, membership and lookup coincide -/
theorem edgeGet_of_mem {m : List (Nat × Nat)} (h : (m.map (·.1)).Pairwise (· < ·)) {k v : Nat} (hm : (k, v) ∈ m) :
    edgeGet m k = some v := by
  induction m with
  | nil => cases hm
  | cons y m ih =>
    obtain ⟨k', v'⟩ := y
    rw [List.map_cons, List.pairwise_cons] at h
    unfold edgeGet at ih ⊢
    rw [List.find?_cons]
    rcases List.mem_cons.1 hm with he | hm
    · cases he; simp
    · have : k' < k := h.1 k (List.mem_map.2 ⟨(k, v), hm, rfl⟩)
      have hne : (k' == k) = false := by simp; omega
      simp only [hne]
      exact ih h.2 hm

/-! ### the edge conjunct of the invariant, as logic -/

/-- an insert-edge `a --ins c--> d` is correct: `d` is live, `a` lacks `c`, and `d`'s set is `a`'s plus `c` -/
def InsEdgeOK (get : Nat → Option Arch) (a : Arch) (c d : Nat) : Prop :=
  ∃ b, get d = some b ∧ c ∉ a.comps ∧ b.comps = insertSorted a.comps c

/-- a remove-edge `a --rem c--> d` is correct: `d` is live, `a` has `c`, and `d`'s set is `a`'s minus `c` -/
def RemEdgeOK (get : Nat → Option Arch) (a : Arch) (c d : Nat) : Prop :=
  ∃ b, get d = some b ∧ c ∈ a.comps ∧ b.comps = a.comps.filter (· != c)

/-- both edge tables of `a` are correct -/
def EdgesOK (get : Nat → Option Arch) (a : Arch) : Prop :=
  (∀ c d, (c, d) ∈ a.insEdges → InsEdgeOK get a c d) ∧ (∀ c d, (c, d) ∈ a.remEdges → RemEdgeOK get a c d)

theorem invEdges_iff (w : World) :
    w.invEdges = true ↔ ∀ i a, w.archs.get i = some a → EdgesOK w.archs.get a := by
  unfold World.invEdges EdgesOK InsEdgeOK RemEdgeOK
  rw [List.all_eq_true]
  constructor
  · intro h i a hia
    have := h (i, a) ((Slab.mem_toList_iff _ _ _).2 hia)
    simp only [Bool.and_eq_true, List.all_eq_true] at this
    refine ⟨fun c d hcd => ?_, fun c d hcd => ?_⟩
    · have h1 := this.1 (c, d) hcd
      dsimp only at h1
      split at h1
      · next b hb =>
        simp only [Bool.and_eq_true, Bool.not_eq_true', List.contains_eq_mem, decide_eq_false_iff_not,
          beq_iff_eq] at h1
        exact ⟨b, hb, h1.1, h1.2⟩
      · cases h1
    · have h1 := this.2 (c, d) hcd
      dsimp only at h1
      split at h1
      · next b hb =>
        simp only [Bool.and_eq_true, List.contains_eq_mem, decide_eq_true_eq, beq_iff_eq] at h1
        exact ⟨b, hb, h1.1, h1.2⟩
      · cases h1
  · intro h x hx
    obtain ⟨i, a⟩ := x
    obtain ⟨h1, h2⟩ := h i a ((Slab.mem_toList_iff _ _ _).1 hx)
    simp only [Bool.and_eq_true, List.all_eq_true]
    refine ⟨fun y hy => ?_, fun y hy => ?_⟩
    · obtain ⟨c, d⟩ := y
      obtain ⟨b, hb, hc, hbc⟩ := h1 c d hy
      simp [hb, hc, hbc]
    · obtain ⟨c, d⟩ := y
      obtain ⟨b, hb, hc, hbc⟩ := h2 c d hy
      simp [hb, hc, hbc]

/-! ### the graph-theoretic fact behind the F4 repair -/

/-- an insert-edge from a set without `r` into a set with `r` is labelled `r` -/
theorem ins_edge_into_removed_is_labelled {src dst : List Nat} {c r : Nat} (hd : dst = insertSorted src c)
    (hs : r ∉ src) (hr : r ∈ dst) : c = r := by
  subst hd
  rcases (mem_insertSorted_edges src c r).1 hr with h | h
  · exact h.symm
  · exact absurd h hs

/-- a remove-edge from a set without `r` never leads into a set with `r` -/
theorem rem_edge_never_into_removed {src dst : List Nat} {c r : Nat} (hd : dst = src.filter (· != c))
    (hs : r ∉ src) : r ∉ dst := by
  subst hd
  exact fun h => hs ((mem_filter_ne src c r).1 h).1

/-! ### the final sweep of `Archetypes::remove_component` -/

/-- what the sweep does to one archetype -/
def Arch.dropIns (a : Arch) (removed : Nat) : Arch := { a with insEdges := edgeRemove a.insEdges removed }

@[simp] theorem Arch.dropIns_index (a : Arch) (r : Nat) : (a.dropIns r).index = a.index := rfl
@[simp] theorem Arch.dropIns_comps (a : Arch) (r : Nat) : (a.dropIns r).comps = a.comps := rfl
@[simp] theorem Arch.dropIns_cols (a : Arch) (r : Nat) : (a.dropIns r).cols = a.cols := rfl
@[simp] theorem Arch.dropIns_ids (a : Arch) (r : Nat) : (a.dropIns r).ids = a.ids := rfl
@[simp] theorem Arch.dropIns_cap (a : Arch) (r : Nat) : (a.dropIns r).cap = a.cap := rfl
@[simp] theorem Arch.dropIns_epoch (a : Arch) (r : Nat) : (a.dropIns r).epoch = a.epoch := rfl
@[simp] theorem Arch.dropIns_remEdges (a : Arch) (r : Nat) : (a.dropIns r).remEdges = a.remEdges := rfl
@[simp] theorem Arch.dropIns_refresh (a : Arch) (r : Nat) : (a.dropIns r).refresh = a.refresh := rfl
@[simp] theorem Arch.dropIns_listeners (a : Arch) (r : Nat) : (a.dropIns r).listeners = a.listeners := rfl
@[simp] theorem Arch.dropIns_insEdges (a : Arch) (r : Nat) : (a.dropIns r).insEdges = edgeRemove a.insEdges r := rfl

/-- the last loop of `archsRemoveComponent`, on the slab: the list of archetypes is taken once, then every one of
    them is written back (under ITS OWN `index` field, like `setArch`) without its insert-edge labelled `removed` -/
def sweepEdges (archs : Slab Arch) (removed : Nat) : Slab Arch :=
  archs.toList.foldl (fun s x => s.set x.2.index (x.2.dropIns removed)) archs

/-- every live archetype is stored under its own index (a conjunct of `World.invArch`) -/
def IndexOK (archs : Slab Arch) : Prop := ∀ i a, archs.get i = some a → a.index = i

theorem foldl_set_get (f : Arch → Arch) (l : List (Nat × Arch)) (s : Slab Arch)
    (hnd : (l.map (·.1)).Nodup) (hl : ∀ i a, (i, a) ∈ l → s.get i = some a ∧ a.index = i) (j : Nat) :
    (l.foldl (fun s x => s.set x.2.index (f x.2)) s).get j
      = if j ∈ l.map (·.1) then (s.get j).map f else s.get j := by
  induction l generalizing s with
  | nil => simp
  | cons x l ih =>
    obtain ⟨i, a⟩ := x
    rw [List.map_cons, List.nodup_cons] at hnd
    obtain ⟨hsi, hai⟩ := hl i a (List.mem_cons_self ..)
    rw [List.foldl_cons]
    dsimp only
    rw [hai, ih (s.set i (f a)) hnd.2]
    · by_cases hj : j = i
      · subst hj
        rw [if_neg hnd.1, Slab.get_set_same hsi, List.map_cons, if_pos (List.mem_cons_self ..), hsi]
        rfl
      · rw [Slab.get_set_other _ hj, List.map_cons]
        simp only [List.mem_cons, hj, false_or]
    · intro i' a' hm
      have hne : i' ≠ i := by
        rintro rfl
        exact hnd.1 (List.mem_map.2 ⟨(i', a'), hm, rfl⟩)
      rw [Slab.get_set_other _ hne]
      exact hl i' a' (List.mem_cons_of_mem _ hm)

/-- the sweep is the pointwise map `dropIns` over the live archetypes -/
theorem sweepEdges_get {archs : Slab Arch} (hi : IndexOK archs) (removed j : Nat) :
    (sweepEdges archs removed).get j = (archs.get j).map (·.dropIns removed) := by
  unfold sweepEdges
  rw [foldl_set_get (fun a => a.dropIns removed) archs.toList archs (Slab.toList_keys_nodup archs)]
  · split
    · rfl
    · next h =>
      rw [Slab.mem_toList_keys_iff] at h
      cases hg : archs.get j with
      | none => rfl
      | some a => rw [hg] at h; exact absurd rfl h
  · intro i a hm
    rw [Slab.mem_toList_iff] at hm
    exact ⟨hm, hi i a hm⟩

theorem sweepEdges_indexOK {archs : Slab Arch} (hi : IndexOK archs) (removed : Nat) :
    IndexOK (sweepEdges archs removed) := by
  intro j a h
  rw [sweepEdges_get hi] at h
  cases hg : archs.get j with
  | none => rw [hg] at h; cases h
  | some b =>
    rw [hg] at h
    cases h
    exact hi j b hg

theorem sweepEdges_wf {archs : Slab Arch} (hw : Slab.WF archs) (removed : Nat) :
    Slab.WF (sweepEdges archs removed) := by
  unfold sweepEdges
  generalize archs.toList = l
  induction l generalizing archs with
  | nil => exact hw
  | cons x l ih => exact ih (Slab.set_wf hw _ _)

/-! ### `IndexOK` along the slab operations -/

theorem IndexOK.set {archs : Slab Arch} (h : IndexOK archs) (a : Arch) : IndexOK (archs.set a.index a) := by
  intro j b hb
  rw [Slab.get_set] at hb
  split at hb
  · next hj =>
    cases hg : archs.get a.index with
    | none => rw [hg] at hb; cases hb
    | some c => rw [hg] at hb; cases hb; exact hj.symm
  · exact h j b hb

theorem IndexOK.remove {archs archs' : Slab Arch} {i : Nat} {a : Arch} (h : IndexOK archs)
    (hr : archs.remove i = some (a, archs')) : IndexOK archs' := by
  intro j b hb
  by_cases hj : j = i
  · subst hj; rw [Slab.get_remove_same hr] at hb; cases hb
  · rw [Slab.get_remove_other hr hj] at hb; exact h j b hb

theorem IndexOK.insert {archs : Slab Arch} (hw : Slab.WF archs) (h : IndexOK archs) {a : Arch}
    (ha : a.index = archs.vacantKey) : IndexOK (archs.insert a) := by
  intro j b hb
  by_cases hj : j = archs.vacantKey
  · subst hj; rw [Slab.get_insert_vacantKey hw] at hb; cases hb; exact ha
  · rw [Slab.get_insert_other _ _ hj] at hb; exact h j b hb

theorem setArch_indexOK (a : Arch) : Keeps (fun w => IndexOK w.archs) (setArch a) := by
  unfold setArch
  exact Keeps.modify fun w h => h.set a

/-! ### the monadic loop is the pure sweep -/

/-- the last loop of `archsRemoveComponent` (verbatim) -/
def sweepM (removed : Nat) : M Unit := do
  for (_, a) in (← get).archs.toList do
    setArch { a with insEdges := edgeRemove a.insEdges removed }

/-- a loop whose body writes one archetype back and continues is the fold of the writes -/
theorem run_set_loop (g : Arch → Arch) (body : Nat × Arch → PUnit → M (ForInStep PUnit))
    (hbody : ∀ x u w, (body x u).run.run w
      = (.ok (ForInStep.yield PUnit.unit), { w with archs := w.archs.set x.2.index (g x.2) }))
    (l : List (Nat × Arch)) (w : World) :
    (forIn l PUnit.unit body).run.run w
      = (.ok PUnit.unit, { w with archs := l.foldl (fun s x => s.set x.2.index (g x.2)) w.archs }) := by
  induction l generalizing w with
  | nil => rfl
  | cons x l ih =>
    rw [List.forIn_cons, run_bind, hbody]
    dsimp only
    rw [ih]
    rfl

theorem run_sweepM (removed : Nat) (w : World) :
    (sweepM removed).run.run w = (.ok (), { w with archs := sweepEdges w.archs removed }) := by
  unfold sweepM
  rw [run_bind, run_get]
  dsimp only
  rw [run_bind, run_set_loop (fun a => a.dropIns removed)]
  · rfl
  · rintro ⟨i, a⟩ u w
    rfl

end Evenio
