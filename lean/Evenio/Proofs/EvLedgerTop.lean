import Evenio.Proofs.EvLedger
/-! # The event ledger along whole WORLD histories, part 2: registration, removal, the top-level operations -/
namespace Evenio
namespace EvLedger

variable {Z : List Nat}

/-- **the shape of this file**: `I` holds again on normal return and after a panic; nothing is claimed after a marker -/
abbrev KP {α : Type} (I : World → Prop) (m : M α) : Prop := Hoare I m (fun _ => I) (PanicOnly I)

theorem KP.of_keeps {α : Type} {I : World → Prop} {m : M α} (h : Keeps I m) : KP I m :=
  Hoare.of_keeps h fun _ _ h _ => h

/-- an event value in hand is queued -/
theorem push_ledL (x : QItem) {Y : List Nat} (hY : ledgerOf x = Y) :
    Hoare (Led (Y ++ Z)) (push x) (fun _ => Led Z) (PanicOnly (Led Z)) :=
  ⟨fun w hw => ((push_led (b := w.inflightOwned) x hY).run w ⟨rfl, hw⟩).2⟩

/-- an event value in hand is destroyed -/
theorem dropEvent_ledL (x : QItem) {Y : List Nat} (hY : ledgerOf x = Y) :
    Hoare (Led (Y ++ Z)) (dropEvent x) (fun _ => Led Z) (PanicOnly (Led Z)) := by
  subst hY
  refine ⟨fun w hw => ?_⟩
  rw [run_dropEvent]
  exact dropEventW_led hw

/-- queueing an event of a built-in type -/
theorem push_kp0 (x : QItem) (hY : ledgerOf x = []) : KP (Led Z) (push x) := push_ledL x hY

/-- a fresh serial is in hand -/
theorem freshE_ledL : Hoare (Led Z) freshE (fun s => Led (s :: Z)) (PanicOnly (Led Z)) :=
  ⟨fun w hw => ((freshE_led (b := w.inflightOwned)).run w ⟨rfl, hw⟩).2⟩

/-- leaves `KP (Led Z) f`; extended with `macro_rules` -/
syntax "kpl_leaf" : tactic
macro_rules | `(tactic| kpl_leaf) => `(tactic| fail "no leaf lemma")
syntax "kpl_special" : tactic
macro_rules | `(tactic| kpl_special) => `(tactic| fail "no special step")

/-- one structural step for `KP (Led Z) m` -/
syntax "kpl_step" : tactic
macro_rules
  | `(tactic| kpl_step) => `(tactic| first
      | ((with_reducible refine Hoare.pure ?_); exact fun _ h => h)
      | ((with_reducible refine Hoare.throw ?_); exact fun _ h _ => h)
      | ((with_reducible refine Hoare.ubErr ?_); exact fun _ h _ => h)
      | with_reducible kpl_leaf
      | kpl_special
      | ((with_reducible refine KP.of_keeps ?_); with_reducible led_leaf)
      | ((with_reducible refine KP.of_keeps (Keeps.set ?_)); first | assumption | (simp only []; assumption))
      | ((with_reducible refine KP.of_keeps (Keeps.modify (fun _ h => ?_))); first | exact h | (simp only []; exact h))
      | ((with_reducible refine KP.of_keeps (Keeps.modifyGet (fun _ h => ?_))); first | exact h | (simp only []; exact h))
      | (with_reducible refine Hoare.get_bind (fun _ _ => ?_))
      | (with_reducible refine Hoare.bind_inv ?_ (fun _ => ?_))
      | (with_reducible refine Hoare.forIn_list_inv (fun _ _ => ?_))
      | (with_reducible refine Hoare.forIn_range_inv (fun _ _ => ?_))
      | (with_reducible refine Hoare.ite ?_ ?_)
      | dsimp only
      | split)
macro "kpl" : tactic => `(tactic| repeat' kpl_step)

macro_rules | `(tactic| kpl_leaf) => `(tactic| exact flush_led _)
macro_rules | `(tactic| kpl_special) => `(tactic| (with_reducible refine push_kp0 _ ?hY); (case hY => rfl))

theorem ensureAddG_led : KP (Led Z) ensureAddG := by unfold ensureAddG; kpl
macro_rules | `(tactic| kpl_leaf) => `(tactic| exact ensureAddG_led)
theorem addGlobalEvent_led (ty : EvTy) : KP (Led Z) (addGlobalEvent ty) := by unfold addGlobalEvent; kpl
macro_rules | `(tactic| kpl_leaf) => `(tactic| exact addGlobalEvent_led _)


/-- the unwinding handlers of `sendGlobal` / `sendTargeted` rethrow -/
theorem dropRethrow_led (x : QItem) {Y : List Nat} (hY : ledgerOf x = Y) (e : Err) :
    Hoare (PanicOnly (Led (Y ++ Z)) e) (do dropEvent x; throw e : M Key) (fun _ => Led (Y ++ Z)) (PanicOnly (Led Z)) := by
  subst hY
  refine ⟨fun w hw => ?_⟩
  simp only [run_bind, run_dropEvent, run_throw]
  exact fun hp => dropEventW_led (hw hp)

/-- **`World::send`** with the event value in hand: registration may unwind (the value is dropped on the way out),
    otherwise the value is queued and the queue flushed -/
theorem sendGlobal_led (ty : EvTy) (pay : Payload) {Y : List Nat} (hY : ledgerOf { ty, idx := 0, pay } = Y) :
    Hoare (Led (Y ++ Z)) (sendGlobal ty pay) (fun _ => Led Z) (PanicOnly (Led Z)) := by
  unfold sendGlobal
  refine Hoare.bind (R := fun _ => Led (Y ++ Z))
    (Hoare.tryCatch (addGlobalEvent_led ty) fun e => dropRethrow_led _ hY e) fun k => ?_
  refine Hoare.bind (push_ledL _ (by exact hY)) fun _ => flush_led _

/-- `World::send` of an event of a built-in type -/
theorem sendGlobal_kp (ty : EvTy) (pay : Payload) (hY : ledgerOf { ty, idx := 0, pay } = []) :
    KP (Led Z) (sendGlobal ty pay) := sendGlobal_led ty pay hY
macro_rules | `(tactic| kpl_special) => `(tactic| (with_reducible refine sendGlobal_kp _ _ ?hY); (case hY => rfl))

theorem addComponent_led (ty : Nat) : KP (Led Z) (addComponent ty) := by unfold addComponent; kpl
macro_rules | `(tactic| kpl_leaf) => `(tactic| exact addComponent_led _)
theorem addTargetedEvent_led (ty : EvTy) : KP (Led Z) (addTargetedEvent ty) := by unfold addTargetedEvent; kpl
macro_rules | `(tactic| kpl_leaf) => `(tactic| exact addTargetedEvent_led _)
theorem addEvent_led (ty : EvTy) : KP (Led Z) (addEvent ty) := by unfold addEvent; kpl
macro_rules | `(tactic| kpl_leaf) => `(tactic| exact addEvent_led _)

/-- **`World::send_to`** with the event value in hand -/
theorem sendTargeted_led (ty : EvTy) (tg : Key) (pay : Payload) {Y : List Nat}
    (hY : ledgerOf { ty, idx := 0, pay } = Y) :
    Hoare (Led (Y ++ Z)) (sendTargeted ty tg pay) (fun _ => Led Z) (PanicOnly (Led Z)) := by
  unfold sendTargeted
  refine Hoare.bind (R := fun _ => Led (Y ++ Z))
    (Hoare.tryCatch (addTargetedEvent_led ty) fun e => dropRethrow_led _ hY e) fun k => ?_
  refine Hoare.bind (push_ledL _ (by exact hY)) fun _ => flush_led _

theorem sendTargeted_kp (ty : EvTy) (tg : Key) (pay : Payload) (hY : ledgerOf { ty, idx := 0, pay } = []) :
    KP (Led Z) (sendTargeted ty tg pay) := sendTargeted_led ty tg pay hY
macro_rules | `(tactic| kpl_special) => `(tactic| (with_reducible refine sendTargeted_kp _ _ _ ?hY); (case hY => rfl))

theorem initQuery_led (q : Query) (cfg : Config) : KP (Led Z) (initQuery q cfg) := by unfold initQuery; kpl
macro_rules | `(tactic| kpl_leaf) => `(tactic| exact initQuery_led _ _)
theorem initParam_led (ps : PSpec) (cfg : Config) : KP (Led Z) (initParam ps cfg) := by unfold initParam; kpl
macro_rules | `(tactic| kpl_leaf) => `(tactic| exact initParam_led _ _)
theorem addHandler_led (hs : HSpec) : KP (Led Z) (addHandler hs) := by unfold addHandler; kpl
macro_rules | `(tactic| kpl_leaf) => `(tactic| exact addHandler_led _)
theorem removeHandler_led (k : Key) : KP (Led Z) (removeHandler k) := by unfold removeHandler; kpl
macro_rules | `(tactic| kpl_leaf) => `(tactic| exact removeHandler_led _)
theorem removeEvent_led (ty : EvTy) (k : Key) : KP (Led Z) (removeEvent ty k) := by unfold removeEvent; kpl
macro_rules | `(tactic| kpl_leaf) => `(tactic| exact removeEvent_led _ _)
theorem removeComponent_led (k : Key) : KP (Led Z) (removeComponent k) := by unfold removeComponent; kpl
macro_rules | `(tactic| kpl_leaf) => `(tactic| exact removeComponent_led _)
theorem opSpawn_led : KP (Led Z) opSpawn := by unfold opSpawn; kpl
macro_rules | `(tactic| kpl_leaf) => `(tactic| exact opSpawn_led)

/-- **every top-level operation** (no side condition: `drop` and the generation hook never touch the event ledger):
    on normal return and after a panic the ledger invariant holds again -/
theorem execOp_led (op : Op) : KP (Led Z) (execOp op) := by
  unfold execOp
  cases op with
  | send g =>
    dsimp only
    refine Hoare.bind freshE_ledL fun s => ?_
    refine Hoare.bind (sendGlobal_led (Y := [s]) _ _ rfl) fun _ => Hoare.pure fun _ h => h
  | sendto t n =>
    dsimp only
    refine Hoare.bind freshE_ledL fun s => ?_
    refine Hoare.get_bind fun w hw => ?_
    refine Hoare.bind (sendTargeted_led (Y := [s]) _ _ _ rfl) fun _ => Hoare.pure fun _ h => h
  | _ => kpl

end EvLedger
end Evenio
