import Evenio.Proofs.Merge
import Evenio.Proofs.QuerySem
import Evenio.Model.World
/-! Exactness of the conflict check (C05).

    Abstraction: the *access level* of a component in a case / in a list of handed-out references:
    `z` none, `sh` shared only, `ex` one exclusive reference, `cf` an exclusive reference next to
    another reference.  `Lvl.comb` is what both `combine` (on literals) and `++` (on reference lists)
    compute; `Lvl.le` is the order `z ≤ sh, ex ≤ cf` (`sh`, `ex` incomparable).

    * Lemma A (`lemA`): every case of `init q` satisfied by `S` is `≤` the references handed out on `S`.
    * Lemma B (`lemB`): if `q` matches `S`, some satisfied case is `≥` the references handed out.
    * a sorted case is satisfied by its canonical archetype (`sat_canon`), so a `Conflict` literal
      is always witnessed by a real archetype. -/
namespace Evenio

inductive Lvl | z | sh | ex | cf
deriving DecidableEq, Repr

namespace Lvl

def le (a b : Lvl) : Prop := a = z ∨ a = b ∨ b = cf
instance (a b : Lvl) : Decidable (le a b) := by unfold le; exact inferInstance

def comb : Lvl → Lvl → Lvl
  | z, b => b
  | a, z => a
  | sh, sh => sh
  | _, _ => cf

theorem le_refl (a : Lvl) : le a a := Or.inr (Or.inl rfl)
theorem z_le (a : Lvl) : le z a := Or.inl rfl
theorem le_trans {a b c : Lvl} : le a b → le b c → le a c := by
  cases a <;> cases b <;> cases c <;> decide
theorem cf_le {b : Lvl} : le cf b → b = cf := by cases b <;> decide
theorem comb_mono {a a' b b' : Lvl} : le a a' → le b b' → le (comb a b) (comb a' b') := by
  cases a <;> cases a' <;> cases b <;> cases b' <;> decide
theorem le_comb_left (a b : Lvl) : le a (comb a b) := by cases a <;> cases b <;> decide
theorem le_comb_right (a b : Lvl) : le b (comb a b) := by cases a <;> cases b <;> decide
@[simp] theorem comb_z_left (b : Lvl) : comb z b = b := by cases b <;> rfl
@[simp] theorem comb_z_right (a : Lvl) : comb a z = a := by cases a <;> rfl
theorem comb_assoc (a b c : Lvl) : comb (comb a b) c = comb a (comb b c) := by
  cases a <;> cases b <;> cases c <;> rfl

end Lvl

/-! ### level of a case at a component -/

def litLvl : CaseAccess → Lvl
  | .wth => .z
  | .rd => .sh
  | .rw => .ex
  | .nt => .z
  | .cf => .cf

def optLvl : Option CaseAccess → Lvl
  | none => .z
  | some a => litLvl a

def Case.lvl (cs : Case) (c : Nat) : Lvl := optLvl (cs.look c)

/-- `combine` computes `Lvl.comb` (all 25 cells of the generated table) -/
theorem combine_lvl {a b x : CaseAccess} (h : combine a b = some x) :
    litLvl x = (litLvl a).comb (litLvl b) := by
  cases a <;> cases b <;> simp [combine] at h <;> subst h <;> rfl

theorem merge_lvl {l r cs : Case} (hl : l.sorted) (hr : r.sorted) (h : mergeCase l r = some cs)
    (c : Nat) : cs.lvl c = (l.lvl c).comb (r.lvl c) := by
  unfold Case.lvl
  rw [mergeCase_look hl hr h c]
  cases ha : l.look c with
  | none => simp [combO, optLvl]
  | some a =>
    cases hb : r.look c with
    | none => simp [combO, optLvl]
    | some b =>
      obtain ⟨x, hx⟩ := mergeCase_combine_some hl hr h ha hb
      simp [combO, optLvl, hx, combine_lvl hx]

@[simp] theorem lvl_nil (c : Nat) : Case.lvl [] c = .z := rfl

theorem lvl_singleton (i : Nat) (a : CaseAccess) (c : Nat) :
    Case.lvl [(i, a)] c = if i = c then litLvl a else .z := by
  unfold Case.lvl
  rw [look_cons]
  split <;> simp [optLvl]

/-- a case without access: every literal is `With` or `Not` -/
def Case.free (cs : Case) : Prop := ∀ c, cs.lvl c = .z
def CA.free (ca : CA) : Prop := ∀ cs ∈ ca, Case.free cs

theorem free_tt : CA.free CA.tt := by
  intro cs h; simp [CA.tt] at h; subst h; intro c; rfl

theorem free_and {a b : CA} (wa : a.WF) (wb : b.WF) (ha : a.free) (hb : b.free) : (a.and b).free := by
  intro cs hcs c
  obtain ⟨l, hl, r, hr, h⟩ := mem_and.mp hcs
  rw [merge_lvl (wa l hl) (wb r hr) h, ha l hl c, hb r hr c]; rfl

theorem litLvl_negate (a : CaseAccess) : litLvl (negate a) = .z := by cases a <;> rfl
theorem litLvl_clearLit (a : CaseAccess) : litLvl (clearLit a) = .z := by cases a <;> rfl

theorem free_negCase (c : Case) : CA.free (c.map negLit) := by
  intro x hx k
  simp only [List.mem_map] at hx
  obtain ⟨⟨i, a⟩, _, rfl⟩ := hx
  simp only [negLit, lvl_singleton, litLvl_negate]
  split <;> rfl

theorem free_not_aux (ca acc : CA) (hw : acc.WF) (hf : acc.free) :
    (ca.foldl (fun acc c => acc.and (c.map negLit)) acc).free := by
  induction ca generalizing acc with
  | nil => exact hf
  | cons c ca ih => exact ih _ (wf_and hw (wf_negCase c)) (free_and hw (wf_negCase c) hf (free_negCase c))

/-- the cases of a negation carry no access -/
theorem free_not (ca : CA) : ca.not.free := free_not_aux ca CA.tt wf_tt free_tt

theorem look_map_snd (f : CaseAccess → CaseAccess) (cs : Case) (c : Nat) :
    Case.look (cs.map fun (i, a) => (i, f a)) c = (cs.look c).map f := by
  induction cs with
  | nil => rfl
  | cons p cs ih =>
    obtain ⟨k, x⟩ := p
    simp only [List.map_cons, look_cons, ih]
    split <;> simp

/-- the cases of `clear_access` carry no access -/
theorem free_clearAccess (ca : CA) : ca.clearAccess.free := by
  intro cs hcs c
  simp only [CA.clearAccess, List.mem_map] at hcs
  obtain ⟨cs', _, rfl⟩ := hcs
  unfold Case.lvl
  rw [look_map_snd clearLit]
  cases cs'.look c with
  | none => rfl
  | some a => exact litLvl_clearLit a

theorem sat_clear (cs : Case) (S : Nat → Bool) :
    Case.sat (cs.map fun (i, a) => (i, clearLit a)) S = cs.sat S := by
  simp only [Case.sat, List.all_map]
  congr 1
  funext p
  obtain ⟨i, a⟩ := p
  exact clearLit_lit S i a

/-! ### level of a reference list at a component -/

def refLvl : Bool → Lvl
  | false => .sh
  | true => .ex

def refsLvl (c : Nat) : List (Nat × Bool) → Lvl
  | [] => .z
  | (c', m) :: l => if c' = c then (refLvl m).comb (refsLvl c l) else refsLvl c l

@[simp] theorem refsLvl_nil (c : Nat) : refsLvl c [] = .z := rfl

theorem refsLvl_append (c : Nat) (x y : List (Nat × Bool)) :
    refsLvl c (x ++ y) = (refsLvl c x).comb (refsLvl c y) := by
  induction x with
  | nil => simp
  | cons p x ih =>
    obtain ⟨c', m⟩ := p
    simp only [List.cons_append, refsLvl]
    split <;> simp [ih, Lvl.comb_assoc]

theorem refsLvl_singleton (i : Nat) (m : Bool) (c : Nat) :
    refsLvl c [(i, m)] = if i = c then refLvl m else .z := by
  simp only [refsLvl]
  split <;> simp

/-- level of a list of references all to the same component -/
def lvlAll : List (Nat × Bool) → Lvl
  | [] => .z
  | (_, m) :: xs => (refLvl m).comb (lvlAll xs)

theorem refsLvl_eq_lvlAll (c : Nat) (l : List (Nat × Bool)) :
    refsLvl c l = lvlAll (l.filter (·.1 == c)) := by
  induction l with
  | nil => rfl
  | cons p l ih =>
    obtain ⟨c', m⟩ := p
    by_cases h : c' = c
    · simp [refsLvl, lvlAll, h, ih]
    · simp [refsLvl, h, ih]

theorem lvlAll_eq (xs : List (Nat × Bool)) :
    lvlAll xs = if xs.length = 0 then .z else if xs.any (·.2) = false then .sh
      else if xs.length = 1 then .ex else .cf := by
  induction xs with
  | nil => rfl
  | cons p xs ih =>
    obtain ⟨k, m⟩ := p
    simp only [lvlAll, ih]
    cases xs with
    | nil => cases m <;> simp [refLvl, Lvl.comb]
    | cons y ys =>
      have e1 : ((k, m) :: y :: ys).any (·.2) = (m || (y :: ys).any (·.2)) := rfl
      have e2 : ((k, m) :: y :: ys).length = (y :: ys).length + 1 := rfl
      rw [e1, e2]
      generalize (y :: ys).any (·.2) = b
      have : (y :: ys).length ≠ 0 := by simp
      generalize (y :: ys).length = n at *
      by_cases hn : n = 1 <;> cases m <;> cases b <;> simp [refLvl, Lvl.comb, this, hn]

theorem lvlAll_cf_iff (xs : List (Nat × Bool)) :
    lvlAll xs = .cf ↔ xs.any (·.2) = true ∧ 2 ≤ xs.length := by
  rw [lvlAll_eq]
  generalize xs.any (·.2) = b
  generalize xs.length = n
  cases b <;> simp <;> split <;> simp <;> try omega

/-- a list of references aliases mutably iff it is at level `cf` for some component -/
theorem any_alias_iff (l : List (Nat × Bool)) :
    (l.any fun (c, m) => m && decide (2 ≤ (l.filter (·.1 == c)).length)) = true ↔
      ∃ c, refsLvl c l = .cf := by
  simp only [refsLvl_eq_lvlAll, lvlAll_cf_iff, List.any_eq_true]
  constructor
  · rintro ⟨⟨c, m⟩, hm, h⟩
    simp only [Bool.and_eq_true, decide_eq_true_eq] at h
    refine ⟨c, ⟨(c, m), ?_, h.1⟩, h.2⟩
    simp [hm]
  · rintro ⟨c, ⟨⟨c', m⟩, hm, hx⟩, hlen⟩
    simp only [List.mem_filter, beq_iff_eq] at hm
    obtain ⟨hm, rfl⟩ := hm
    refine ⟨(c', m), hm, ?_⟩
    simp only [Bool.and_eq_true, decide_eq_true_eq]
    exact ⟨hx, hlen⟩

/-! ### `and` on levels -/

theorem and_A {a b : CA} (wa : a.WF) (wb : b.WF) {cs : Case} {S : Nat → Bool}
    (h : cs ∈ a.and b) (hs : cs.sat S = true) :
    ∃ l ∈ a, ∃ r ∈ b, l.sat S = true ∧ r.sat S = true ∧ ∀ c, cs.lvl c = (l.lvl c).comb (r.lvl c) := by
  obtain ⟨l, hl, r, hr, hm⟩ := mem_and.mp h
  have := mergeCase_sat S l r
  rw [hm] at this
  simp only [hs] at this
  have h2 : l.sat S = true ∧ r.sat S = true := by simpa using this.symm
  exact ⟨l, hl, r, hr, h2.1, h2.2, merge_lvl (wa l hl) (wb r hr) hm⟩

theorem and_B {a b : CA} (wa : a.WF) (wb : b.WF) {l r : Case} {S : Nat → Bool}
    (hl : l ∈ a) (hr : r ∈ b) (sl : l.sat S = true) (sr : r.sat S = true) :
    ∃ cs ∈ a.and b, cs.sat S = true ∧ ∀ c, cs.lvl c = (l.lvl c).comb (r.lvl c) := by
  have := mergeCase_sat S l r
  cases hm : mergeCase l r with
  | none => simp [hm, sl, sr] at this
  | some cs =>
    simp only [hm, sl, sr] at this
    exact ⟨cs, mem_and.mpr ⟨l, hl, r, hr, hm⟩, by simpa using this, merge_lvl (wa l hl) (wb r hr) hm⟩

theorem matches_of_mem {ca : CA} {cs : Case} {S : Nat → Bool} (h : cs ∈ ca) (hs : cs.sat S = true) :
    ca.matches S = true := by
  simp only [CA.matches, List.any_eq_true]; exact ⟨cs, h, hs⟩

theorem mem_of_matches {ca : CA} {S : Nat → Bool} (h : ca.matches S = true) :
    ∃ cs ∈ ca, cs.sat S = true := by
  simpa only [CA.matches, List.any_eq_true] using h

/-- a satisfied case of `init q` shows that the fetcher has an arch state -/
theorem archState_of_sat {q : Query} {cs : Case} {S : Nat → Bool} (h : cs ∈ q.init)
    (hs : cs.sat S = true) : ∃ st, q.archState S = some st := by
  rw [archState_eq_some, ← init_matches]; exact matches_of_mem h hs

/-- a satisfied case of `(init q).not` shows that the fetcher has no arch state -/
theorem archState_none_of_sat_not {q : Query} {cs : Case} {S : Nat → Bool} (h : cs ∈ q.init.not)
    (hs : cs.sat S = true) : q.archState S = none := by
  rw [archState_eq_none, ← init_matches]
  have := matches_of_mem h hs
  rw [not_matches] at this
  simpa using this

theorem sat_not_of_archState_none {q : Query} {S : Nat → Bool} (h : q.archState S = none) :
    ∃ cs ∈ q.init.not, cs.sat S = true := by
  apply mem_of_matches
  rw [not_matches, init_matches, (archState_eq_none S q).mp h]; rfl

/-! ### Lemma A -/

theorem lemA (q : Query) (S : Nat → Bool) :
    ∀ cs st, cs ∈ q.init → cs.sat S = true → q.archState S = some st →
      ∀ c, Lvl.le (cs.lvl c) (refsLvl c st.refs) := by
  induction q with
  | ref k =>
    intro cs st hcs _ hst c
    simp only [Query.init, CA.var, List.mem_singleton] at hcs
    simp only [Query.archState] at hst
    split at hst <;> simp at hst
    subst hcs; subst hst
    simp only [lvl_singleton, AS.refs, refsLvl_singleton]
    split <;> exact Lvl.le_refl _
  | «mut» k =>
    intro cs st hcs _ hst c
    simp only [Query.init, CA.var, List.mem_singleton] at hcs
    simp only [Query.archState] at hst
    split at hst <;> simp at hst
    subst hcs; subst hst
    simp only [lvl_singleton, AS.refs, refsLvl_singleton]
    split <;> exact Lvl.le_refl _
  | unit =>
    intro cs st hcs _ _ c
    simp only [Query.init, CA.tt, List.mem_singleton] at hcs
    subst hcs; exact Lvl.z_le _
  | snoc t q iht ihq =>
    intro cs st hcs hs hst c
    obtain ⟨l, hl, r, hr, sl, sr, hlvl⟩ := and_A (wf_init t) (wf_init q) hcs hs
    simp only [Query.archState] at hst
    cases ht : Query.archState S t <;> cases hq : Query.archState S q <;> simp [ht, hq] at hst
    subst hst
    rw [hlvl, AS.refs, refsLvl_append]
    exact Lvl.comb_mono (iht l _ hl sl ht c) (ihq r _ hr sr hq c)
  | opt q ih =>
    intro cs st hcs hs hst c
    simp only [Query.init, CA.or, CA.tt, List.cons_append, List.nil_append, List.mem_cons] at hcs
    rcases hcs with rfl | hcs
    · exact Lvl.z_le _
    · obtain ⟨a, ha⟩ := archState_of_sat hcs hs
      simp only [Query.archState, ha, Option.some.injEq] at hst
      subst hst
      exact ih cs a hcs hs ha c
  | or l r ihl ihr =>
    intro cs st hcs hs hst c
    simp only [Query.init, CA.or, List.mem_append] at hcs
    simp only [Query.archState] at hst
    rcases hcs with (hcs | hcs) | hcs
    · obtain ⟨a, ha⟩ := archState_of_sat hcs hs
      have := ihl cs a hcs hs ha c
      cases hr : Query.archState S r <;> simp [ha, hr] at hst <;> subst hst
      · exact this
      · rw [AS.refs, refsLvl_append]; exact Lvl.le_trans this (Lvl.le_comb_left _ _)
    · obtain ⟨b, hb⟩ := archState_of_sat hcs hs
      have := ihr cs b hcs hs hb c
      cases hl : Query.archState S l <;> simp [hb, hl] at hst <;> subst hst
      · exact this
      · rw [AS.refs, refsLvl_append]; exact Lvl.le_trans this (Lvl.le_comb_right _ _)
    · obtain ⟨x, hx, y, hy, sx, sy, hlvl⟩ := and_A (wf_init l) (wf_init r) hcs hs
      obtain ⟨a, ha⟩ := archState_of_sat hx sx
      obtain ⟨b, hb⟩ := archState_of_sat hy sy
      simp [ha, hb] at hst; subst hst
      rw [hlvl, AS.refs, refsLvl_append]
      exact Lvl.comb_mono (ihl x a hx sx ha c) (ihr y b hy sy hb c)
  | xor l r ihl ihr =>
    intro cs st hcs hs hst c
    simp only [Query.init, CA.or, List.mem_append] at hcs
    simp only [Query.archState] at hst
    rcases hcs with hcs | hcs
    · obtain ⟨x, hx, y, hy, sx, sy, hlvl⟩ := and_A (wf_init l) (wf_not _) hcs hs
      obtain ⟨a, ha⟩ := archState_of_sat hx sx
      have hb := archState_none_of_sat_not hy sy
      simp [ha, hb] at hst; subst hst
      rw [hlvl, free_not _ y hy c, Lvl.comb_z_right]
      exact ihl x a hx sx ha c
    · obtain ⟨x, hx, y, hy, sx, sy, hlvl⟩ := and_A (wf_init r) (wf_not _) hcs hs
      obtain ⟨b, hb⟩ := archState_of_sat hx sx
      have ha := archState_none_of_sat_not hy sy
      simp [ha, hb] at hst; subst hst
      rw [hlvl, free_not _ y hy c, Lvl.comb_z_right]
      exact ihr x b hx sx hb c
  | not q ih =>
    intro cs st hcs _ _ c
    rw [free_not _ cs hcs c]; exact Lvl.z_le _
  | wth q ih =>
    intro cs st hcs _ _ c
    rw [free_clearAccess _ cs hcs c]; exact Lvl.z_le _
  | has q ih =>
    intro cs st hcs _ _ c
    simp only [Query.init, CA.tt, List.mem_singleton] at hcs
    subst hcs; exact Lvl.z_le _
  | eid =>
    intro cs st hcs _ _ c
    simp only [Query.init, CA.tt, List.mem_singleton] at hcs
    subst hcs; exact Lvl.z_le _
  | phantom =>
    intro cs st hcs _ _ c
    simp only [Query.init, CA.tt, List.mem_singleton] at hcs
    subst hcs; exact Lvl.z_le _

/-! ### Lemma B -/

theorem lemB (q : Query) (S : Nat → Bool) :
    ∀ st, q.archState S = some st →
      ∃ cs ∈ q.init, cs.sat S = true ∧ ∀ c, Lvl.le (refsLvl c st.refs) (cs.lvl c) := by
  induction q with
  | ref k =>
    intro st hst
    simp only [Query.archState] at hst
    split at hst <;> simp at hst
    subst hst
    refine ⟨[(k, .rd)], by simp [Query.init, CA.var, varLit], by simpa [Case.sat, lit, positive], fun c => ?_⟩
    simp only [lvl_singleton, AS.refs, refsLvl_singleton]
    split <;> exact Lvl.le_refl _
  | «mut» k =>
    intro st hst
    simp only [Query.archState] at hst
    split at hst <;> simp at hst
    subst hst
    refine ⟨[(k, .rw)], by simp [Query.init, CA.var, varLit], by simpa [Case.sat, lit, positive], fun c => ?_⟩
    simp only [lvl_singleton, AS.refs, refsLvl_singleton]
    split <;> exact Lvl.le_refl _
  | unit =>
    intro st hst
    simp only [Query.archState, Option.some.injEq] at hst; subst hst
    exact ⟨[], by simp [Query.init, CA.tt], rfl, fun c => Lvl.z_le _⟩
  | snoc t q iht ihq =>
    intro st hst
    simp only [Query.archState] at hst
    cases ht : Query.archState S t <;> cases hq : Query.archState S q <;> simp [ht, hq] at hst
    subst hst
    obtain ⟨l, hl, sl, hla⟩ := iht _ ht
    obtain ⟨r, hr, sr, hra⟩ := ihq _ hq
    obtain ⟨cs, hcs, hs, hlvl⟩ := and_B (wf_init t) (wf_init q) hl hr sl sr
    refine ⟨cs, hcs, hs, fun c => ?_⟩
    rw [hlvl, AS.refs, refsLvl_append]
    exact Lvl.comb_mono (hla c) (hra c)
  | opt q ih =>
    intro st hst
    simp only [Query.archState] at hst
    cases hq : Query.archState S q <;> simp [hq] at hst <;> subst hst
    · exact ⟨[], by simp [Query.init, CA.or, CA.tt], rfl, fun c => Lvl.z_le _⟩
    · obtain ⟨cs, hcs, hs, hle⟩ := ih _ hq
      exact ⟨cs, by simp [Query.init, CA.or, CA.tt, hcs], hs, hle⟩
  | or l r ihl ihr =>
    intro st hst
    simp only [Query.archState] at hst
    cases hl : Query.archState S l <;> cases hr : Query.archState S r <;> simp [hl, hr] at hst <;> subst hst
    · obtain ⟨cs, hcs, hs, hle⟩ := ihr _ hr
      exact ⟨cs, by simp [Query.init, CA.or, hcs], hs, hle⟩
    · obtain ⟨cs, hcs, hs, hle⟩ := ihl _ hl
      exact ⟨cs, by simp [Query.init, CA.or, hcs], hs, hle⟩
    · obtain ⟨x, hx, sx, hxa⟩ := ihl _ hl
      obtain ⟨y, hy, sy, hya⟩ := ihr _ hr
      obtain ⟨cs, hcs, hs, hlvl⟩ := and_B (wf_init l) (wf_init r) hx hy sx sy
      refine ⟨cs, by simp [Query.init, CA.or, hcs], hs, fun c => ?_⟩
      rw [hlvl, AS.refs, refsLvl_append]
      exact Lvl.comb_mono (hxa c) (hya c)
  | xor l r ihl ihr =>
    intro st hst
    simp only [Query.archState] at hst
    cases hl : Query.archState S l <;> cases hr : Query.archState S r <;> simp [hl, hr] at hst <;> subst hst
    · obtain ⟨x, hx, sx, hxa⟩ := ihr _ hr
      obtain ⟨y, hy, sy⟩ := sat_not_of_archState_none hl
      obtain ⟨cs, hcs, hs, hlvl⟩ := and_B (wf_init r) (wf_not _) hx hy sx sy
      refine ⟨cs, by simp [Query.init, CA.or, hcs], hs, fun c => ?_⟩
      rw [hlvl, free_not _ y hy c, Lvl.comb_z_right]
      exact hxa c
    · obtain ⟨x, hx, sx, hxa⟩ := ihl _ hl
      obtain ⟨y, hy, sy⟩ := sat_not_of_archState_none hr
      obtain ⟨cs, hcs, hs, hlvl⟩ := and_B (wf_init l) (wf_not _) hx hy sx sy
      refine ⟨cs, by simp [Query.init, CA.or, hcs], hs, fun c => ?_⟩
      rw [hlvl, free_not _ y hy c, Lvl.comb_z_right]
      exact hxa c
  | not q ih =>
    intro st hst
    simp only [Query.archState] at hst
    cases hq : Query.archState S q <;> simp [hq] at hst
    subst hst
    obtain ⟨cs, hcs, hs⟩ := sat_not_of_archState_none hq
    exact ⟨cs, hcs, hs, fun c => Lvl.z_le _⟩
  | wth q ih =>
    intro st hst
    simp only [Query.archState, Option.map_eq_some_iff] at hst
    obtain ⟨a, ha, rfl⟩ := hst
    obtain ⟨cs, hcs, hs, _⟩ := ih _ ha
    refine ⟨cs.map fun (i, a) => (i, clearLit a), ?_, ?_, fun c => Lvl.z_le _⟩
    · simp only [Query.init, CA.clearAccess, List.mem_map]; exact ⟨cs, hcs, rfl⟩
    · rw [sat_clear]; exact hs
  | has q ih =>
    intro st hst
    simp only [Query.archState, Option.some.injEq] at hst; subst hst
    exact ⟨[], by simp [Query.init, CA.tt], rfl, fun c => Lvl.z_le _⟩
  | eid =>
    intro st hst
    simp only [Query.archState, Option.some.injEq] at hst; subst hst
    exact ⟨[], by simp [Query.init, CA.tt], rfl, fun c => Lvl.z_le _⟩
  | phantom =>
    intro st hst
    simp only [Query.archState, Option.some.injEq] at hst; subst hst
    exact ⟨[], by simp [Query.init, CA.tt], rfl, fun c => Lvl.z_le _⟩

/-! ### conflicts -/

theorem litLvl_cf {a : CaseAccess} (h : litLvl a = .cf) : a = .cf := by cases a <;> simp [litLvl] at h <;> rfl

theorem hasConflict_iff_lvl {ca : CA} (w : ca.WF) :
    ca.hasConflict = true ↔ ∃ cs ∈ ca, ∃ c, cs.lvl c = .cf := by
  simp only [CA.hasConflict, List.any_eq_true]
  constructor
  · rintro ⟨cs, hcs, ⟨i, a⟩, hp, ha⟩
    have : a = .cf := by simpa using ha
    subst this
    exact ⟨cs, hcs, i, by simp [Case.lvl, look_of_mem (w cs hcs) hp, optLvl, litLvl]⟩
  · rintro ⟨cs, hcs, c, h⟩
    unfold Case.lvl at h
    cases hl : cs.look c with
    | none => simp [hl, optLvl] at h
    | some a =>
      simp only [hl, optLvl] at h
      have := litLvl_cf h; subst this
      exact ⟨cs, hcs, (c, .cf), mem_of_look hl, by simp⟩

/-- the conflict check of a single query is exact: a `Conflict` literal appears iff some archetype
    makes the query hand out mutably aliasing references -/
theorem hasConflict_init_iff (q : Query) :
    q.init.hasConflict = true ↔ ∃ S st c, q.archState S = some st ∧ refsLvl c st.refs = .cf := by
  rw [hasConflict_iff_lvl (wf_init q)]
  constructor
  · rintro ⟨cs, hcs, c, h⟩
    have hs := sat_canon (wf_init q cs hcs)
    obtain ⟨st, hst⟩ := archState_of_sat hcs hs
    have := lemA q cs.canon cs st hcs hs hst c
    rw [h] at this
    exact ⟨cs.canon, st, c, hst, Lvl.cf_le this⟩
  · rintro ⟨S, st, c, hst, h⟩
    obtain ⟨cs, hcs, _, hle⟩ := lemB q S st hst
    have := hle c
    rw [h] at this
    exact ⟨cs, hcs, c, Lvl.cf_le this⟩

/-! ### the handler acceptance check is the conflict check of a tuple of `Option`s -/

/-- `(Option<P0>, …, Option<Pn>)` -/
def optTuple (ps : List Query) : Query := ps.foldl (fun t p => .snoc t (.opt p)) .unit

theorem acceptAccess_aux (ps : List Query) (t : Query) :
    (ps.map Query.init).foldl (fun acc a => acc.and (CA.tt.or a)) t.init
      = (ps.foldl (fun t p => Query.snoc t (.opt p)) t).init := by
  induction ps generalizing t with
  | nil => rfl
  | cons p ps ih => simpa [Query.init] using ih (.snoc t (.opt p))

theorem acceptAccess_eq_init (ps : List Query) :
    acceptAccess (ps.map Query.init) = (optTuple ps).init := by
  simpa [acceptAccess, optTuple, Query.init] using acceptAccess_aux ps .unit

theorem optTuple_archState_aux (S : Nat → Bool) (ps : List Query) (t : Query) (st : AS)
    (h : t.archState S = some st) :
    ∃ st', (ps.foldl (fun t p => Query.snoc t (.opt p)) t).archState S = some st' ∧
      st'.refs = st.refs ++ (ps.filterMap fun q => (q.archState S).map AS.refs).flatten := by
  induction ps generalizing t st with
  | nil => exact ⟨st, h, by simp⟩
  | cons p ps ih =>
    simp only [List.foldl_cons]
    cases hp : p.archState S with
    | none =>
      obtain ⟨st', h', hr⟩ := ih (.snoc t (.opt p)) (.snoc st .optNone) (by simp [Query.archState, h, hp])
      exact ⟨st', h', by simp [hr, AS.refs, hp]⟩
    | some a =>
      obtain ⟨st', h', hr⟩ := ih (.snoc t (.opt p)) (.snoc st (.optSome a)) (by simp [Query.archState, h, hp])
      exact ⟨st', h', by simp [hr, AS.refs, hp]⟩

/-- on every archetype the tuple of `Option`s matches and hands out exactly the references of the
    parameters that match -/
theorem optTuple_archState (S : Nat → Bool) (ps : List Query) :
    ∃ st, (optTuple ps).archState S = some st ∧
      st.refs = (ps.filterMap fun q => (q.archState S).map AS.refs).flatten := by
  obtain ⟨st, h, hr⟩ := optTuple_archState_aux S ps .unit .triv rfl
  exact ⟨st, h, by simpa [AS.refs] using hr⟩

/-! ### `conflicts` vs `hasConflict` -/

theorem eraseDups_isEmpty {α : Type} [BEq α] (l : List α) : l.eraseDups.isEmpty = l.isEmpty := by
  cases l with
  | nil => simp
  | cons a l => simp [List.eraseDups_cons]

theorem hasConflict_eq (ca : CA) : ca.hasConflict = !ca.conflicts.isEmpty := by
  unfold CA.conflicts
  rw [eraseDups_isEmpty, Bool.eq_iff_iff]
  simp only [CA.hasConflict, List.any_eq_true, Bool.not_eq_true', List.isEmpty_eq_false_iff_exists_mem,
    List.mem_flatMap, List.mem_filterMap]
  constructor
  · rintro ⟨cs, hcs, ⟨i, a⟩, hp, ha⟩
    have : a = .cf := by simpa using ha
    subst this
    exact ⟨i, cs, hcs, (i, .cf), hp, by simp⟩
  · rintro ⟨i, cs, hcs, ⟨j, a⟩, hp, ha⟩
    refine ⟨cs, hcs, (j, a), hp, ?_⟩
    by_cases h : a = .cf
    · simp [h]
    · simp [h] at ha
end Evenio
