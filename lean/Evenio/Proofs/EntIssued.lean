import Evenio.Proofs.EntHistory
/-! # Issued and dead keys; a reservation followed to its materialisation

* `SlotMap.Issued sm k` — the slot of `k` exists and its rank is at least `k.gen`: `k` is valid, or was valid earlier, or
  can never be handed out; `SlotMap.Dead sm k` — … strictly above `k.gen`: `k` is not valid and never will be.  Both are
  monotone along `SlotMap.Le` (`Proofs/EntHistory.lean`), hence along every history of the world.
* `dead_get_none`, `dead_of_get_of_not_get` ("valid, later not valid ⇒ dead"), `not_issued_of_not_covers`,
  `issued_insertWith` (the key `insert_with` returns is issued afterwards), `insertWith_not_issued` (… and was not
  issued before).
* `IC id` (the entity map is well formed and `id` is issued) is kept by every model function, on every exit — a
  corollary of the `EI` table.
* `IR id` follows ONE reservation: `id` is issued already, or a reservation is pending (`resCount ≠ 0`) and `id` is the
  key the next `insert_with` returns (`NextIs`).  It is kept by every function `World::send` reaches (the whole
  delivery path, arbitrary handler programs included): `reserve` only counts up, `spawn_all` materialises `id` in its
  first iteration, and the only `remove` of the delivery path (`remove_entity`) runs after a `spawn_all` that returned,
  i.e. with `id` issued (the F2 repair; `removeEntity` alone does NOT keep `IR`, see `despawnEff_ir`).
  Consequence `opSpawn_issued`: when `World::spawn` returns `id` and no reservation is left pending, `id` has been
  issued (it is valid, or some handler has despawned it already). -/
namespace Evenio

namespace SlotMap
variable {α : Type}

/-- the slot of `k` exists at a rank `≥ k.gen`: `k` is valid, or was valid at some earlier time, or can never be issued -/
def Issued (sm : SlotMap α) (k : Key) : Prop := ∃ s : Slot α, sm.slots[k.idx]? = some s ∧ k.gen ≤ s.rank

/-- the slot of `k` exists at a rank `> k.gen`: `k` was valid at some earlier time or can never be issued -/
def Dead (sm : SlotMap α) (k : Key) : Prop := ∃ s : Slot α, sm.slots[k.idx]? = some s ∧ k.gen < s.rank

theorem Dead.issued {sm : SlotMap α} {k : Key} (h : Dead sm k) : Issued sm k := by
  obtain ⟨s, hs, hr⟩ := h
  exact ⟨s, hs, Nat.le_of_lt hr⟩

theorem Dead.idx_lt {sm : SlotMap α} {k : Key} (h : Dead sm k) : k.idx < sm.slots.length := by
  obtain ⟨s, hs, -⟩ := h
  exact getElem?_lt hs

theorem Issued.mono {a b : SlotMap α} {k : Key} (h : Issued a k) (hle : Le a b) : Issued b k := by
  obtain ⟨s, hs, hr⟩ := h
  obtain ⟨s', hs', hr'⟩ := hle.2 _ s hs
  exact ⟨s', hs', Nat.le_trans hr hr'⟩

theorem Dead.mono {a b : SlotMap α} {k : Key} (h : Dead a k) (hle : Le a b) : Dead b k := by
  obtain ⟨s, hs, hr⟩ := h
  obtain ⟨s', hs', hr'⟩ := hle.2 _ s hs
  exact ⟨s', hs', Nat.lt_of_lt_of_le hr hr'⟩

/-- a dead key is not valid (in a well-formed map: the retired generation `0` carries no value) -/
theorem dead_get_none {sm : SlotMap α} (wf : WF sm) {k : Key} (h : Dead sm k) : sm.get k = none := by
  obtain ⟨s, hs, hr⟩ := h
  unfold get
  rw [hs]
  dsimp only
  split
  · rename_i hg
    by_cases h0 : s.gen = 0
    · have hv := wf.valIff _ _ hs
      cases hval : s.val with
      | none => rfl
      | some v => rw [hval, h0] at hv; simp at hv
    · rw [Slot.rank_of_ne h0] at hr; omega
  · rfl

/-- … or, in ANY map, if the key's generation is not `0` (no `Key` the library hands out has generation `0`) -/
theorem dead_get_none_of_gen_ne {sm : SlotMap α} {k : Key} (h : Dead sm k) (hk : k.gen ≠ 0) : sm.get k = none := by
  obtain ⟨s, hs, hr⟩ := h
  unfold get
  rw [hs]
  dsimp only
  split
  · rename_i hg
    rw [Slot.rank_of_ne (by omega)] at hr; omega
  · rfl

/-- one of the two hypotheses is needed: in an ill-formed map a retired slot may carry a value, and the key of
    generation `0` reads it although it is `Dead` -/
theorem dead_get_needs_wf :
    let sm : SlotMap Unit := { slots := [⟨0, U32MAX, some ()⟩], nextFree := U32MAX, len := 0 }
    Dead sm ⟨0, 0⟩ ∧ sm.get ⟨0, 0⟩ = some () :=
  ⟨⟨_, rfl, by decide⟩, rfl⟩

theorem dead_contains_false {sm : SlotMap α} (wf : WF sm) {k : Key} (h : Dead sm k) : sm.contains k = false := by
  unfold contains; rw [dead_get_none wf h]; rfl

/-- a valid key is issued and not dead -/
theorem issued_of_get {sm : SlotMap α} (wf : WF sm) {k : Key} {v : α} (h : sm.get k = some v) :
    Issued sm k ∧ ¬ Dead sm k := by
  obtain ⟨s, hs, hg, hv⟩ := get_eq_some h
  have hodd : s.gen % 2 = 1 := (wf.valIff _ _ hs).1 (by rw [hv]; rfl)
  have hr : s.rank = k.gen := by rw [Slot.rank_of_ne (by omega), hg]
  refine ⟨⟨s, hs, by omega⟩, ?_⟩
  rintro ⟨s', hs', hlt⟩
  rw [hs] at hs'; cases hs'
  omega

/-- **a key that was valid and is not valid later is dead**: the only way out of validity is a higher rank -/
theorem dead_of_get_of_not_get {a b : SlotMap α} (wfa : WF a) (wfb : WF b) (hle : Le a b) {k : Key} {v : α}
    (h : a.get k = some v) (h' : b.get k = none) : Dead b k := by
  obtain ⟨s, hs, hg, hv⟩ := get_eq_some h
  have hodd : s.gen % 2 = 1 := (wfa.valIff _ _ hs).1 (by rw [hv]; rfl)
  have hlt := wfa.genLt _ _ hs
  obtain ⟨s', hs', hr⟩ := hle.2 _ s hs
  rw [Slot.rank_of_ne (by omega), hg] at hr
  refine ⟨s', hs', Nat.lt_of_le_of_ne hr fun he => ?_⟩
  -- equal rank: the same odd generation, so the slot is occupied and `k` is valid in `b`
  have hg' : s'.gen = k.gen := by
    by_cases h0 : s'.gen = 0
    · rw [Slot.rank_of_zero h0] at he; omega
    · rw [Slot.rank_of_ne h0] at he; exact he.symm
  have hval : s'.val.isSome = true := (wfb.valIff _ _ hs').2 (by omega)
  unfold get at h'
  rw [hs'] at h'
  simp only [hg', if_true] at h'
  rw [h'] at hval
  cases hval

/-- `Issued` implies the older notion `Covers` (they agree for generations `≤ 2^32`) -/
theorem Issued.covers {sm : SlotMap α} {k : Key} (h : Issued sm k) : Covers sm k := by
  obtain ⟨s, hs, hr⟩ := h
  refine ⟨s, hs, ?_⟩
  by_cases h0 : s.gen = 0
  · exact .inl h0
  · rw [Slot.rank_of_ne h0] at hr; exact .inr hr

theorem not_issued_of_not_covers {sm : SlotMap α} {k : Key} (h : ¬ Covers sm k) : ¬ Issued sm k :=
  fun hi => h hi.covers

theorem issued_of_covers {sm : SlotMap α} {k : Key} (h : Covers sm k) (hk : k.gen ≤ GENMOD) : Issued sm k := by
  obtain ⟨s, hs, hc⟩ := h
  refine ⟨s, hs, ?_⟩
  by_cases h0 : s.gen = 0
  · rw [Slot.rank_of_zero h0]; exact hk
  · rw [Slot.rank_of_ne h0]
    rcases hc with hc | hc
    · exact absurd hc h0
    · exact hc

/-- the key `insert_with` returns is issued afterwards … -/
theorem issued_insertWith {sm sm' : SlotMap α} (wf : WF sm) {f : Key → α} {k : Key}
    (h : sm.insertWith f = some (k, sm')) : Issued sm' k := by
  obtain ⟨-, hlt, -, hc, -, -⟩ := insertWith_key wf h
  exact issued_of_covers hc (Nat.le_of_lt hlt)

/-- … and was not issued before: it is new with respect to every key that is valid, or was valid, or is dead -/
theorem insertWith_not_issued {sm sm' : SlotMap α} (wf : WF sm) {f : Key → α} {k : Key}
    (h : sm.insertWith f = some (k, sm')) : ¬ Issued sm k := by
  intro hi
  have := (insertWith_key wf h).2.2.2.2.2 k hi.covers rfl
  exact Nat.lt_irrefl _ this

/-! ### the key the next `insert_with` returns -/

/-- `id` is the key the next `insert_with` returns (if it returns one): the head of the free list at its next
    generation, or the first never-allocated index at generation 1 -/
def NextIs (sm : SlotMap α) (id : Key) : Prop :=
  (∃ s : Slot α, sm.slots[sm.nextFree]? = some s ∧ id = ⟨sm.nextFree, s.gen + 1⟩) ∨
  (sm.slots[sm.nextFree]? = none ∧ id = ⟨sm.slots.length, 1⟩)

theorem NextIs.key {sm sm' : SlotMap α} {id : Key} (h : NextIs sm id) {f : Key → α} {k : Key}
    (hi : sm.insertWith f = some (k, sm')) : k = id := by
  unfold insertWith at hi
  rcases h with ⟨s, hs, rfl⟩ | ⟨hn, rfl⟩
  · rw [hs] at hi
    simp only [Option.some.injEq, Prod.mk.injEq] at hi
    exact hi.1.symm
  · rw [hn] at hi
    dsimp only at hi
    split at hi
    · cases hi
    · simp only [Option.some.injEq, Prod.mk.injEq] at hi
      exact hi.1.symm

theorem nextIs_of_insertWith {sm sm' : SlotMap α} {f : Key → α} {k : Key}
    (hi : sm.insertWith f = some (k, sm')) : NextIs sm k := by
  unfold insertWith at hi
  cases hs : sm.slots[sm.nextFree]? with
  | some s =>
    rw [hs] at hi
    simp only [Option.some.injEq, Prod.mk.injEq] at hi
    exact .inl ⟨s, hs, hi.1.symm⟩
  | none =>
    rw [hs] at hi
    dsimp only at hi
    split at hi
    · cases hi
    · simp only [Option.some.injEq, Prod.mk.injEq] at hi
      exact .inr ⟨hs, hi.1.symm⟩

/-- `set` (`get_mut`) touches neither the free list nor a generation -/
theorem NextIs.set {sm : SlotMap α} {id : Key} (h : NextIs sm id) (k : Key) (v : α) : NextIs (sm.set k v) id := by
  unfold NextIs
  rw [set_nextFree, set_slots_length, set_slot]
  rcases h with ⟨s, hs, rfl⟩ | ⟨hn, rfl⟩
  · left
    rw [hs]
    dsimp only
    split
    · exact ⟨_, rfl, rfl⟩
    · exact ⟨_, rfl, rfl⟩
  · right
    rw [hn]
    exact ⟨rfl, rfl⟩

end SlotMap

/-! ## world level -/

/-- `id` has been issued in `w` (it is valid, or it was valid earlier, or it can never be handed out) -/
def EntIssued (w : World) (k : Key) : Prop := w.entities.Issued k

/-- **`DeadIssued w k`**: `k.idx < slots.length` and the slot is at a rank above `k.gen` — `k` was valid at some earlier
    time (or can never be issued), and is not valid now -/
def DeadIssued (w : World) (k : Key) : Prop := w.entities.Dead k

theorem DeadIssued.iff (w : World) (k : Key) :
    DeadIssued w k ↔ k.idx < w.entities.slots.length ∧ ∀ s, w.entities.slots[k.idx]? = some s → k.gen < s.rank := by
  constructor
  · rintro ⟨s, hs, hr⟩
    exact ⟨SlotMap.getElem?_lt hs, fun s' hs' => by rw [hs] at hs'; cases hs'; exact hr⟩
  · rintro ⟨hlt, h⟩
    exact ⟨w.entities.slots[k.idx], List.getElem?_eq_getElem hlt, h _ (List.getElem?_eq_getElem hlt)⟩

/-- the entity map is well formed and `id` is issued -/
abbrev IC (id : Key) : World → Prop := fun w => w.entities.WF ∧ w.entities.Issued id

/-- whatever keeps every `EI sm0` keeps `IC id` -/
theorem Keeps.ic_of_ei {α : Type} {m : M α} (h : ∀ sm0, Keeps (EI sm0) m) (id : Key) : Keeps (IC id) m :=
  ⟨fun w hw => by
    obtain ⟨wf, hle⟩ := (h w.entities).run w ⟨hw.1, SlotMap.Le.refl _⟩
    exact ⟨wf, hw.2.mono hle⟩⟩

/-- a reservation followed to its materialisation: `id` is issued, or a reservation is pending and `id` is the key
    the next `insert_with` returns -/
abbrev IR (id : Key) : World → Prop := fun w =>
  w.entities.WF ∧ (w.entities.Issued id ∨ (w.resCount ≠ 0 ∧ w.entities.NextIs id))

theorem IC.ir {id : Key} {w : World} (h : IC id w) : IR id w := ⟨h.1, .inl h.2⟩

theorem IR.ic_of_count {id : Key} {w : World} (h : IR id w) (hc : w.resCount = 0) : IC id w := by
  refine ⟨h.1, ?_⟩
  rcases h.2 with hi | ⟨hne, -⟩
  · exact hi
  · exact absurd hc hne

variable {id : Key}

/-- the first `insert_with` after the reservation issues `id` -/
theorem IR.insertWith {w : World} (h : IR id w) {f : Key → Loc} {k : Key} {ents : SlotMap Loc}
    (hi : w.entities.insertWith f = some (k, ents)) : IC id { w with entities := ents } := by
  refine ⟨h.1.insertWith hi, ?_⟩
  rcases h.2 with hiss | ⟨-, hn⟩
  · exact hiss.mono (SlotMap.le_insertWith h.1 hi)
  · have := hn.key hi
    subst this
    exact SlotMap.issued_insertWith h.1 hi

theorem IR.set_live {w : World} (h : IR id w) {k : Key} {l : Loc} (hg : w.entities.get k = some l) (v : Loc) :
    IR id { w with entities := w.entities.set k v } :=
  ⟨h.1.set hg v, h.2.imp (fun hi => hi.mono (SlotMap.le_set _ _ _)) fun hn => ⟨hn.1, hn.2.set _ _⟩⟩

/-! ### the `IC` table (from the `EI` table) -/

theorem archSpawn_ic (k : Key) : Keeps (IC id) (archSpawn k) := Keeps.ic_of_ei (fun _ => archSpawn_ei k) id
theorem removeEntity_ic (loc : Loc) : Keeps (IC id) (removeEntity loc) := Keeps.ic_of_ei (fun _ => removeEntity_ei loc) id
theorem resRefresh_ic : Keeps (IC id) resRefresh := Keeps.ic_of_ei (fun _ => resRefresh_ei) id
theorem execOp_ic (op : Op) (hv : op.Valid) : Keeps (IC id) (execOp op) := Keeps.ic_of_ei (fun _ => execOp_ei op hv) id

/-! ### `spawn_all` -/

/-- one iteration: it fails before touching anything (no index left), or `id` is issued afterwards -/
theorem spawnBody_ir {w : World} (h : IR id w) :
    IR id (spawnBody.run.run w).2 ∧ ∀ r, (spawnBody.run.run w).1 = .ok r → IC id (spawnBody.run.run w).2 := by
  unfold spawnBody
  rw [run_bind, run_get]
  dsimp only
  cases hins : w.entities.insertWith (fun _ => Loc.NULL) with
  | none =>
    dsimp only
    rw [run_bind, run_throw]
    exact ⟨h, fun r hr => by cases hr⟩
  | some p =>
    obtain ⟨k, ents⟩ := p
    dsimp only
    rw [run_bind, run_set]
    dsimp only
    have h1 : IC id { w with entities := ents } := h.insertWith hins
    have hk : k.gen % 2 = 1 := (SlotMap.insertWith_key h.1 hins).1
    have hm : Keeps (IC id) (do
        let loc ← archSpawn k
        modify fun w => { w with entities := w.entities.set k loc }
        pure (ForInStep.yield PUnit.unit) : M (ForInStep PUnit)) := by
      refine Keeps.bind (archSpawn_ic k) fun loc => Keeps.bind (Keeps.modify fun w hw => ?_) fun _ => Keeps.pure _
      exact ⟨hw.1.set_reserve hk loc, hw.2.mono (SlotMap.le_set _ _ _)⟩
    have := hm.run _ h1
    exact ⟨this.ir, fun _ _ => this⟩

/-- the loop: if it makes at least one iteration (or `id` is issued already), `id` is issued when it returns -/
theorem spawnLoop_ir (l : List Nat) {w : World} (h : IR id w) (hl : l ≠ [] ∨ IC id w) :
    IR id ((forIn l PUnit.unit (fun _ _ => spawnBody)).run.run w).2 ∧
    ∀ u, ((forIn l PUnit.unit (fun _ _ => spawnBody)).run.run w).1 = .ok u →
      IC id ((forIn l PUnit.unit (fun _ _ => spawnBody)).run.run w).2 := by
  induction l generalizing w with
  | nil =>
    rcases hl with hl | hl
    · exact absurd rfl hl
    · exact ⟨h, fun _ _ => hl⟩
  | cons a l ih =>
    rw [List.forIn_cons, run_bind]
    obtain ⟨h1, h2⟩ := spawnBody_ir h
    generalize spawnBody.run.run w = r at h1 h2
    obtain ⟨(e | s), w1⟩ := r
    · exact ⟨h1, fun u hu => by cases hu⟩
    · have hic : IC id w1 := h2 s rfl
      cases s with
      | done b => exact ⟨hic.ir, fun _ _ => hic⟩
      | yield b => exact ih hic.ir (.inr hic)

/-- **`spawn_all` keeps `IR`** (and ends, on normal return, with `id` issued) -/
theorem spawnAll_ir : Keeps (IR id) spawnAll := by
  refine ⟨fun w h => ?_⟩
  rw [spawnAll_eq, run_bind, run_get]
  dsimp only
  rw [run_bind]
  have hl : List.range' 0 w.resCount ≠ [] ∨ IC id w := by
    by_cases hc : w.resCount = 0
    · exact .inr (h.ic_of_count hc)
    · left
      intro he
      have := congrArg List.length he
      simp at this
      exact hc this
  obtain ⟨h1, h2⟩ := spawnLoop_ir (List.range' 0 w.resCount) h hl
  generalize (forIn (List.range' 0 w.resCount) PUnit.unit (fun _ _ => spawnBody)).run.run w = r at h1 h2
  obtain ⟨(e | u), w1⟩ := r
  · exact h1
  · have hic := h2 u rfl
    simp only [run_modify]
    exact IC.ir ⟨hic.1, hic.2⟩

/-- **the `Despawn` effect keeps `IR`** — as a unit: `remove_entity` changes the head of the free list, so it keeps
    `IR` only once `id` is issued, which is what the `spawn_all` in front of it (F2 repair) guarantees -/
theorem despawnEff_ir (loc : Loc) : Keeps (IR id) (do spawnAll; removeEntity loc; resRefresh) := by
  refine ⟨fun w h => ?_⟩
  rw [run_bind]
  have h1 := (spawnAll_ir (id := id)).run w h
  generalize hr : spawnAll.run.run w = r at h1
  obtain ⟨(e | u), w1⟩ := r
  · exact h1
  · have hic : IC id w1 := h1.ic_of_count (spawnAll_resCount hr).1
    have hm : Keeps (IC id) (do removeEntity loc; resRefresh) :=
      Keeps.bind (removeEntity_ic loc) fun _ => resRefresh_ic
    exact (hm.run w1 hic).ir

/-- without the `spawn_all` in front, `remove_entity` breaks `IR`: the freed slot becomes the head of the free list, and
    the reserved key is no longer the next one (finding F2, on the slot map of `Props/C03.lean`) -/
theorem remove_breaks_nextIs :
    let sm : SlotMap Unit := { slots := [⟨1, U32MAX, some ()⟩], nextFree := U32MAX, len := 1 }
    sm.NextIs ⟨1, 1⟩ ∧ ∃ v sm', sm.remove ⟨0, 1⟩ = some (v, sm') ∧ ¬ sm'.NextIs ⟨1, 1⟩ ∧ sm'.NextIs ⟨0, 3⟩ := by
  refine ⟨.inr ⟨rfl, rfl⟩, (), _, rfl, ?_, .inl ⟨_, rfl, rfl⟩⟩
  rintro (⟨s, hs, he⟩ | ⟨hn, -⟩)
  · cases he
  · cases hn

/-! ### the `IR` table: every function `World::send` reaches -/

macro_rules | `(tactic| ent_leaf) => `(tactic| exact spawnAll_ir)
macro_rules | `(tactic| ent_leaf) => `(tactic| exact despawnEff_ir _)

theorem logT_ir (s : String) : Keeps (IR id) (logT s) := by unfold logT; ent_keeps
macro_rules | `(tactic| ent_leaf) => `(tactic| exact logT_ir _)
theorem ubErr_ir {α : Type} (s : String) : Keeps (IR id) ((ubErr s : M α)) := by unfold ubErr; ent_keeps
macro_rules | `(tactic| ent_leaf) => `(tactic| exact ubErr_ir _)
theorem dbgAssert_ir (c : Bool) (s : String) : Keeps (IR id) (dbgAssert c s) := by unfold dbgAssert; ent_keeps
macro_rules | `(tactic| ent_leaf) => `(tactic| exact dbgAssert_ir _ _)
theorem dropCell_ir (ty : Nat) (c : Cell) : Keeps (IR id) (dropCell ty c) := by unfold dropCell; ent_keeps
macro_rules | `(tactic| ent_leaf) => `(tactic| exact dropCell_ir _ _)
theorem dropCellIdx_ir (ty : Nat) (c : Cell) : Keeps (IR id) (dropCellIdx ty c) := by unfold dropCellIdx; ent_keeps
macro_rules | `(tactic| ent_leaf) => `(tactic| exact dropCellIdx_ir _ _)
theorem dropEvent_ir (it : QItem) : Keeps (IR id) (dropEvent it) := by unfold dropEvent; ent_keeps
macro_rules | `(tactic| ent_leaf) => `(tactic| exact dropEvent_ir _)
theorem handlerRefresh_ir (hk : Key) (a : Arch) : Keeps (IR id) (handlerRefresh hk a) := by unfold handlerRefresh; ent_keeps
macro_rules | `(tactic| ent_leaf) => `(tactic| exact handlerRefresh_ir _ _)
theorem handlerRemoveArch_ir (hk : Key) (a : Arch) : Keeps (IR id) (handlerRemoveArch hk a) := by unfold handlerRemoveArch; ent_keeps
macro_rules | `(tactic| ent_leaf) => `(tactic| exact handlerRemoveArch_ir _ _)
theorem getArch_ir (i : Nat) (s : String) : Keeps (IR id) (getArch i s) := by unfold getArch; ent_keeps
macro_rules | `(tactic| ent_leaf) => `(tactic| exact getArch_ir _ _)
theorem setArch_ir (a : Arch) : Keeps (IR id) (setArch a) := by unfold setArch; ent_keeps
macro_rules | `(tactic| ent_leaf) => `(tactic| exact setArch_ir _)
theorem freshEpoch_ir : Keeps (IR id) (freshEpoch) := by unfold freshEpoch; ent_keeps
macro_rules | `(tactic| ent_leaf) => `(tactic| exact freshEpoch_ir)
theorem registerHandler_ir (a : Arch) (h : HInfo) : Keeps (IR id) (a.registerHandler h) := by unfold Arch.registerHandler; ent_keeps
macro_rules | `(tactic| ent_leaf) => `(tactic| exact registerHandler_ir _ _)
/-- `reserve` only counts up -/
theorem reserve_ir : Keeps (IR id) (reserve) := by
  unfold reserve; ent_keeps
  refine Keeps.set ?_
  have h := ‹IR id _›
  exact ⟨h.1, h.2.imp (fun x => x) fun hn => ⟨Nat.succ_ne_zero _, hn.2⟩⟩
macro_rules | `(tactic| ent_leaf) => `(tactic| exact reserve_ir)
theorem resRefresh_ir : Keeps (IR id) (resRefresh) := by unfold resRefresh; ent_keeps
macro_rules | `(tactic| ent_leaf) => `(tactic| exact resRefresh_ir)
theorem setLoc_ir (k : Key) (s : String) (f : Loc → Loc) : Keeps (IR id) (setLoc k s f) := by
  unfold setLoc; ent_keeps
  exact Keeps.set (IR.set_live ‹IR id _› ‹_› _)
macro_rules | `(tactic| ent_leaf) => `(tactic| exact setLoc_ir _ _ _)
theorem newArch_ir (cs : List Nat) (a b : Option (Nat × Nat)) : Keeps (IR id) (newArch cs a b) := by unfold newArch; ent_keeps
macro_rules | `(tactic| ent_leaf) => `(tactic| exact newArch_ir _ _ _)
theorem traverseInsert_ir (src c : Nat) : Keeps (IR id) (traverseInsert src c) := by unfold traverseInsert; ent_keeps
macro_rules | `(tactic| ent_leaf) => `(tactic| exact traverseInsert_ir _ _)
theorem traverseRemove_ir (src c : Nat) : Keeps (IR id) (traverseRemove src c) := by unfold traverseRemove; ent_keeps
macro_rules | `(tactic| ent_leaf) => `(tactic| exact traverseRemove_ir _ _)
theorem moveEntity_ir (src : Loc) (dst : Nat) (new : List (Nat × Cell)) : Keeps (IR id) (moveEntity src dst new) := by unfold moveEntity; ent_keeps
macro_rules | `(tactic| ent_leaf) => `(tactic| exact moveEntity_ir _ _ _)
theorem push_ir (it : QItem) : Keeps (IR id) (push it) := by unfold push; ent_keeps
macro_rules | `(tactic| ent_leaf) => `(tactic| exact push_ir _)
theorem takeBudget_ir : Keeps (IR id) (takeBudget) := by unfold takeBudget; ent_keeps
macro_rules | `(tactic| ent_leaf) => `(tactic| exact takeBudget_ir)
theorem freshE_ir : Keeps (IR id) (freshE) := by unfold freshE; ent_keeps
macro_rules | `(tactic| ent_leaf) => `(tactic| exact freshE_ir)
theorem freshC_ir : Keeps (IR id) (freshC) := by unfold freshC; ent_keeps
macro_rules | `(tactic| ent_leaf) => `(tactic| exact freshC_ir)
theorem senderPush_ir (h : HInfo) (it : QItem) : Keeps (IR id) (senderPush h it) := by unfold senderPush; ent_keeps
macro_rules | `(tactic| ent_leaf) => `(tactic| exact senderPush_ir _ _)
theorem paramRows_ir (p : Param) : Keeps (IR id) (paramRows p) := by unfold paramRows; ent_keeps
macro_rules | `(tactic| ent_leaf) => `(tactic| exact paramRows_ir _)
theorem itemAt_ir (st : AS) (a : Arch) (row : Nat) : Keeps (IR id) (itemAt st a row) := by unfold itemAt; ent_keeps
macro_rules | `(tactic| ent_leaf) => `(tactic| exact itemAt_ir _ _ _)
theorem paramGet_ir (p : Param) (k : Key) : Keeps (IR id) (paramGet p k) := by unfold paramGet; ent_keeps
macro_rules | `(tactic| ent_leaf) => `(tactic| exact paramGet_ir _ _)
theorem bumpCell_ir (ai row c : Nat) : Keeps (IR id) (bumpCell ai row c) := by unfold bumpCell; ent_keeps
macro_rules | `(tactic| ent_leaf) => `(tactic| exact bumpCell_ir _ _ _)
theorem getParam_ir (h : HInfo) (p : Nat) : Keeps (IR id) (getParam h p) := by unfold getParam; ent_keeps
macro_rules | `(tactic| ent_leaf) => `(tactic| exact getParam_ir _ _)
theorem runAct_ir (hk : Key) (it : QItem) (loc : Loc) (act : Act) : Keeps (IR id) (runAct hk it loc act) := by unfold runAct; ent_keeps
macro_rules | `(tactic| ent_leaf) => `(tactic| exact runAct_ir _ _ _ _)
theorem runHandler_ir (hk : Key) (it : QItem) (loc : Loc) : Keeps (IR id) (runHandler hk it loc) := by unfold runHandler; ent_keeps
macro_rules | `(tactic| ent_leaf) => `(tactic| exact runHandler_ir _ _ _)
/-- **one delivery**, whatever the handlers do and however it ends -/
theorem deliverOne_ir (it : QItem) : Keeps (IR id) (deliverOne it) := by unfold deliverOne; ent_keeps
macro_rules | `(tactic| ent_leaf) => `(tactic| exact deliverOne_ir _)
theorem dropQueued_ir : Keeps (IR id) (dropQueued) := by unfold dropQueued; ent_keeps
macro_rules | `(tactic| ent_leaf) => `(tactic| exact dropQueued_ir)
theorem ir_queueBlind : QueueBlind (IR id) := fun _ _ _ h => h
theorem flush_ir (fuel : Nat) : Keeps (IR id) (flush fuel) :=
  flushWith_keeps ir_queueBlind deliverOne_ir dropQueued_ir fuel
macro_rules | `(tactic| ent_leaf) => `(tactic| exact flush_ir _)
theorem ensureAddG_ir : Keeps (IR id) (ensureAddG) := by unfold ensureAddG; ent_keeps
macro_rules | `(tactic| ent_leaf) => `(tactic| exact ensureAddG_ir)
theorem addGlobalEvent_ir (ty : EvTy) : Keeps (IR id) (addGlobalEvent ty) := by unfold addGlobalEvent; ent_keeps
macro_rules | `(tactic| ent_leaf) => `(tactic| exact addGlobalEvent_ir _)
/-- **`World::send`** (any event, any handlers), on every exit -/
theorem sendGlobal_ir (ty : EvTy) (pay : Payload) : Keeps (IR id) (sendGlobal ty pay) := by unfold sendGlobal; ent_keeps

/-! ### `World::spawn` -/

/-- after `reserve` from a state in which nothing is reserved, the key it returned is the next one -/
theorem ir_of_reserved {w : World} {k : Key} (h : Reserved w [k]) : IR k w := by
  obtain ⟨sm', hm, -, -⟩ := reserved_predicts h [fun _ => Loc.NULL] rfl
  refine ⟨h.1, .inr ⟨by rw [h.2.1]; simp, ?_⟩⟩
  unfold SlotMap.insertMany at hm
  cases hi : w.entities.insertWith (fun _ => Loc.NULL) with
  | none => rw [hi] at hm; cases hm
  | some p =>
    obtain ⟨k', sm1⟩ := p
    rw [hi] at hm
    dsimp only at hm
    unfold SlotMap.insertMany at hm
    simp only [Option.some.injEq, Prod.mk.injEq, List.cons.injEq, and_true] at hm
    rw [← hm.1]
    exact SlotMap.nextIs_of_insertWith hi

/-- **`World::spawn` issues the id it returns**: from a state in which nothing is reserved, if the call returns `id`
    and leaves no reservation pending (in a reachable world: `Quiescent`), then `id` has been issued — it is valid, or
    a handler has despawned it before the call returned.  No hypothesis on the registered events or handlers. -/
theorem opSpawn_issued {w w' : World} (hres : Reserved w []) (h : opSpawn.run.run w = (.ok id, w'))
    (hc : w'.resCount = 0) : EntIssued w' id := by
  unfold opSpawn at h
  rw [run_bind] at h
  generalize hrs : reserve.run.run w = r at h
  obtain ⟨(e | k), w0⟩ := r
  · cases h
  · obtain ⟨hr0, -⟩ := reserve_spec hres hrs
    dsimp only at h
    rw [run_bind] at h
    have h3 := (sendGlobal_ir (id := k) .spawn { ent := k }).run w0 (ir_of_reserved (by simpa using hr0))
    generalize (sendGlobal .spawn { ent := k }).run.run w0 = r at h h3
    obtain ⟨(e | u), w3⟩ := r
    · cases h
    · simp only [run_bind, run_modify, run_pure] at h
      cases h
      exact (IR.ic_of_count (w := w3) h3 hc).2

end Evenio
