import Evenio.Proofs.DispositionFlush
import Evenio.Proofs.WInv
/-! # The event ledger along whole WORLD histories, part 1: the accounting predicate and the delivery path

`Props/C11.lean` / `Props/C13.lean` describe what ONE flush / ONE delivery writes to the event ledger `edrops`.  This
file and `Proofs/EvLedgerTop.lean` prove the invariant all model functions share, so that it can be iterated over
arbitrary histories of top-level operations (`Props/C11History.lean`):

* `ledgerOf x` (`Proofs/DispositionFlush.lean`) — the serial of `x` if `x` is a user event (`G n` / `T n`: the events
  whose destruction the model logs in `edrops`), nothing otherwise; `pend q` — the serials of the user events in a queue;
* `Acct n l` — the serials of `l` are pairwise distinct and all in `(0, n)`;
* `Led Z w := Acct w.nextESerial (Z ++ (pend w.queue ++ w.edrops))` — THE LEDGER INVARIANT: the serials that are
  pending in the queue, the serials destroyed so far, and a parameter list `Z` (serials destroyed by EARLIER operations —
  `step` clears `edrops` —, serials of the part of the queue `flushWith` has set aside, the serial of an event value
  that is in somebody's hand) are pairwise distinct and have all been allocated;
* `LIn it Z b` — the same while `it` is being delivered: the ownership flag `inflightOwned` is `b`, and the serial of `it`
  is accounted for as "in flight" exactly as long as the flag is clear (a `take` moves it to `edrops` and sets the flag in
  one step; the unwinding guard of `deliverOne` and the drop after the handler loop only act when the flag is clear).

Shapes.  Functions that never write `queue`, `edrops`, `nextESerial`, `inflightOwned` keep EVERY predicate on these four
fields on every exit (`Keeps (LP P) f`, the `_lp` leaves).  The others get triples `Hoare pre m post E`; from `deliverOne`
upwards the exceptional postcondition is `PanicOnly (Led Z)`: the invariant holds again after a PANIC (C13), nothing is
claimed after a `ub` / `assert` marker — and nothing can be: `dropQueued`, leaving with `ub` in the middle of its loop, has
destroyed a prefix of the queue and not yet cleared it (`dropQueued_marker_breaks_ledger`). -/
namespace Evenio
namespace EvLedger

/-! ## accounting -/

/-- the serials of `l` are pairwise distinct and all allocated (`0 < s < n`; serial `0` is never allocated: the counter
    starts at `1`) -/
def Acct (n : Nat) (l : List Nat) : Prop := 0 < n ∧ l.Nodup ∧ ∀ s ∈ l, 0 < s ∧ s < n

theorem Acct.perm {n : Nat} {l l' : List Nat} (h : Acct n l) (p : l.Perm l') : Acct n l' :=
  ⟨h.1, p.nodup_iff.1 h.2.1, fun s hs => h.2.2 s (p.mem_iff.2 hs)⟩

theorem Acct.sub {n : Nat} {l l' : List Nat} (h : Acct n l) (p : l'.Sublist l) : Acct n l' :=
  ⟨h.1, h.2.1.sublist p, fun s hs => h.2.2 s (p.subset hs)⟩

theorem Acct.mono {n n' : Nat} {l : List Nat} (h : Acct n l) (hn : n ≤ n') : Acct n' l :=
  ⟨Nat.lt_of_lt_of_le h.1 hn, h.2.1, fun s hs => ⟨(h.2.2 s hs).1, Nat.lt_of_lt_of_le (h.2.2 s hs).2 hn⟩⟩

/-- a freshly allocated serial is new -/
theorem Acct.fresh {n : Nat} {l : List Nat} (h : Acct n l) : Acct (n + 1) (n :: l) := by
  refine ⟨Nat.succ_pos _, List.nodup_cons.2 ⟨fun hm => Nat.lt_irrefl _ (h.2.2 n hm).2, h.2.1⟩, fun s hs => ?_⟩
  rcases List.mem_cons.1 hs with rfl | hs
  · exact ⟨h.1, Nat.lt_succ_self _⟩
  · exact ⟨(h.2.2 s hs).1, Nat.lt_succ_of_lt (h.2.2 s hs).2⟩

theorem Acct.nil {n : Nat} (hn : 0 < n) : Acct n [] := ⟨hn, List.nodup_nil, fun _ h => nomatch h⟩

/-- closes `List.Perm` goals between concatenations of the same lists -/
macro "perm_app" : tactic =>
  `(tactic| (simp only [List.perm_iff_count, List.count_append, List.count_nil]; intro a; omega))

/-- the serials of the user events of a queue -/
def pend (q : List QItem) : List Nat := q.flatMap ledgerOf

@[simp] theorem pend_nil : pend [] = [] := rfl
theorem pend_append (a b : List QItem) : pend (a ++ b) = pend a ++ pend b := List.flatMap_append ..
theorem pend_singleton (x : QItem) : pend [x] = ledgerOf x := by simp [pend]
theorem pend_cons (x : QItem) (q : List QItem) : pend (x :: q) = ledgerOf x ++ pend q := rfl

theorem pend_reverse (q : List QItem) : (pend q.reverse).Perm (pend q) := by
  induction q with
  | nil => exact .refl _
  | cons x q ih =>
    rw [List.reverse_cons, pend_append, pend_singleton, pend_cons]
    exact (List.perm_append_comm).trans (ih.append_left _)

theorem ledgerOf_idx (x : QItem) (i : Nat) : ledgerOf { x with idx := i } = ledgerOf x := rfl

/-! ## the predicates -/

/-- a predicate on the four fields the ledger invariant reads -/
abbrev LP (P : List QItem → List Nat → Nat → Bool → Prop) : World → Prop :=
  fun w => P w.queue w.edrops w.nextESerial w.inflightOwned

/-- **the ledger invariant** with the extra serials `Z` -/
abbrev Led (Z : List Nat) : World → Prop := LP fun q e n _ => Acct n (Z ++ (pend q ++ e))

/-- the ledger invariant with the ownership flag fixed -/
abbrev LZ (b : Bool) (Z : List Nat) : World → Prop := LP fun q e n f => f = b ∧ Acct n (Z ++ (pend q ++ e))

/-- what the event being delivered contributes while the ownership flag is `b` -/
def inFl (it : QItem) (b : Bool) : List Nat := if b then [] else ledgerOf it

/-- the ledger invariant during the delivery of `it`, flag `b` -/
abbrev LIn (it : QItem) (Z : List Nat) (b : Bool) : World → Prop :=
  LP fun q e n f => f = b ∧ Acct n ((inFl it b ++ Z) ++ (pend q ++ e))

/-- the ledger invariant during the delivery of `it`, whatever the flag -/
abbrev LedI (it : QItem) (Z : List Nat) : World → Prop := LP fun q e n f => Acct n ((inFl it f ++ Z) ++ (pend q ++ e))

theorem LZ.led {b : Bool} {Z : List Nat} {w : World} (h : LZ b Z w) : Led Z w := h.2
theorem LZ.ledI {it : QItem} {b : Bool} {Z : List Nat} {w : World} (h : LIn it Z b w) : LedI it Z w := by
  obtain ⟨hf, ha⟩ := h
  show Acct _ ((inFl it w.inflightOwned ++ Z) ++ _)
  rw [hf]; exact ha
theorem Led.lz {Z : List Nat} {w : World} (h : Led Z w) : LZ w.inflightOwned Z w := ⟨rfl, h⟩

/-- weakening: serials may be forgotten -/
theorem Led.drop_left {Y Z : List Nat} {w : World} (h : Led (Y ++ Z) w) : Led Z w :=
  Acct.sub h (by rw [List.append_assoc]; exact List.sublist_append_right _ _)

theorem LedI.led {it : QItem} {Z : List Nat} {w : World} (h : LedI it Z w) : Led Z w :=
  Acct.sub h (by rw [List.append_assoc]; exact List.sublist_append_right _ _)

/-! ## leaves: functions that write none of the four fields keep every `LP P` on every exit -/

/-- leaf lemmas `Keeps (LP P) f`; extended with `macro_rules` -/
syntax "led_leaf" : tactic
/-- one structural step (`keeps_step` with `led_leaf`) -/
syntax "led_step" : tactic

macro_rules | `(tactic| led_leaf) => `(tactic| fail "no leaf lemma")

macro_rules
  | `(tactic| led_step) => `(tactic| first
      | with_reducible exact Keeps.pure _
      | with_reducible exact Keeps.throw _
      | with_reducible exact Keeps.get
      | with_reducible led_leaf
      | ((with_reducible refine Keeps.set ?_); first | assumption | (simp only []; assumption))
      | ((with_reducible refine Keeps.modify (fun _ h => ?_)); first | exact h | (simp only []; exact h))
      | ((with_reducible refine Keeps.modifyGet (fun _ h => ?_)); first | exact h | (simp only []; exact h))
      | (with_reducible refine Keeps.get_bind (fun _ _ => ?_))
      | (with_reducible refine Keeps.bind ?_ (fun _ => ?_))
      | (with_reducible refine Keeps.forIn_list (fun _ _ => ?_))
      | (with_reducible refine Keeps.forIn_range (fun _ _ => ?_))
      | (with_reducible refine Keeps.ite ?_ ?_)
      | dsimp only
      | split)

/-- prove `Keeps I m` structurally, with the leaves of `led_leaf` -/
macro "led_keeps" : tactic => `(tactic| repeat' led_step)

section leaves
variable {P : List QItem → List Nat → Nat → Bool → Prop}

theorem logT_lp (s : String) : Keeps (LP P) (logT s) := by unfold logT; led_keeps
macro_rules | `(tactic| led_leaf) => `(tactic| exact logT_lp _)
theorem ubErr_lp {α : Type} (s : String) : Keeps (LP P) ((ubErr s : M α)) := by unfold ubErr; led_keeps
macro_rules | `(tactic| led_leaf) => `(tactic| exact ubErr_lp _)
theorem dbgAssert_lp (c : Bool) (s : String) : Keeps (LP P) (dbgAssert c s) := by unfold dbgAssert; led_keeps
macro_rules | `(tactic| led_leaf) => `(tactic| exact dbgAssert_lp _ _)
theorem dropCell_lp (ty : Nat) (c : Cell) : Keeps (LP P) (dropCell ty c) := by unfold dropCell; led_keeps
macro_rules | `(tactic| led_leaf) => `(tactic| exact dropCell_lp _ _)
theorem dropCellIdx_lp (ty : Nat) (c : Cell) : Keeps (LP P) (dropCellIdx ty c) := by unfold dropCellIdx; led_keeps
macro_rules | `(tactic| led_leaf) => `(tactic| exact dropCellIdx_lp _ _)
theorem handlerRefresh_lp (hk : Key) (a : Arch) : Keeps (LP P) (handlerRefresh hk a) := by unfold handlerRefresh; led_keeps
macro_rules | `(tactic| led_leaf) => `(tactic| exact handlerRefresh_lp _ _)
theorem handlerRemoveArch_lp (hk : Key) (a : Arch) : Keeps (LP P) (handlerRemoveArch hk a) := by unfold handlerRemoveArch; led_keeps
macro_rules | `(tactic| led_leaf) => `(tactic| exact handlerRemoveArch_lp _ _)
theorem getArch_lp (i : Nat) (s : String) : Keeps (LP P) (getArch i s) := by unfold getArch; led_keeps
macro_rules | `(tactic| led_leaf) => `(tactic| exact getArch_lp _ _)
theorem setArch_lp (a : Arch) : Keeps (LP P) (setArch a) := by unfold setArch; led_keeps
macro_rules | `(tactic| led_leaf) => `(tactic| exact setArch_lp _)
theorem freshEpoch_lp : Keeps (LP P) (freshEpoch) := by unfold freshEpoch; led_keeps
macro_rules | `(tactic| led_leaf) => `(tactic| exact freshEpoch_lp)
theorem registerHandler_lp (a : Arch) (h : HInfo) : Keeps (LP P) (a.registerHandler h) := by unfold Arch.registerHandler; led_keeps
macro_rules | `(tactic| led_leaf) => `(tactic| exact registerHandler_lp _ _)
theorem archSpawn_lp (id : Key) : Keeps (LP P) (archSpawn id) := by unfold archSpawn; led_keeps
macro_rules | `(tactic| led_leaf) => `(tactic| exact archSpawn_lp _)
theorem reserve_lp : Keeps (LP P) (reserve) := by unfold reserve; led_keeps
macro_rules | `(tactic| led_leaf) => `(tactic| exact reserve_lp)
theorem spawnAll_lp : Keeps (LP P) (spawnAll) := by unfold spawnAll; led_keeps
macro_rules | `(tactic| led_leaf) => `(tactic| exact spawnAll_lp)
theorem resRefresh_lp : Keeps (LP P) (resRefresh) := by unfold resRefresh; led_keeps
macro_rules | `(tactic| led_leaf) => `(tactic| exact resRefresh_lp)
theorem setLoc_lp (id : Key) (s : String) (f : Loc → Loc) : Keeps (LP P) (setLoc id s f) := by unfold setLoc; led_keeps
macro_rules | `(tactic| led_leaf) => `(tactic| exact setLoc_lp _ _ _)
theorem newArch_lp (cs : List Nat) (a b : Option (Nat × Nat)) : Keeps (LP P) (newArch cs a b) := by unfold newArch; led_keeps
macro_rules | `(tactic| led_leaf) => `(tactic| exact newArch_lp _ _ _)
theorem traverseInsert_lp (src c : Nat) : Keeps (LP P) (traverseInsert src c) := by unfold traverseInsert; led_keeps
macro_rules | `(tactic| led_leaf) => `(tactic| exact traverseInsert_lp _ _)
theorem traverseRemove_lp (src c : Nat) : Keeps (LP P) (traverseRemove src c) := by unfold traverseRemove; led_keeps
macro_rules | `(tactic| led_leaf) => `(tactic| exact traverseRemove_lp _ _)
theorem moveEntity_lp (src : Loc) (dst : Nat) (new : List (Nat × Cell)) : Keeps (LP P) (moveEntity src dst new) := by unfold moveEntity; led_keeps
macro_rules | `(tactic| led_leaf) => `(tactic| exact moveEntity_lp _ _ _)
theorem removeEntity_lp (loc : Loc) : Keeps (LP P) (removeEntity loc) := by unfold removeEntity; led_keeps
macro_rules | `(tactic| led_leaf) => `(tactic| exact removeEntity_lp _)
theorem takeBudget_lp : Keeps (LP P) (takeBudget) := by unfold takeBudget; led_keeps
macro_rules | `(tactic| led_leaf) => `(tactic| exact takeBudget_lp)
theorem freshC_lp : Keeps (LP P) (freshC) := by unfold freshC; led_keeps
macro_rules | `(tactic| led_leaf) => `(tactic| exact freshC_lp)
theorem paramRows_lp (p : Param) : Keeps (LP P) (paramRows p) := by unfold paramRows; led_keeps
macro_rules | `(tactic| led_leaf) => `(tactic| exact paramRows_lp _)
theorem itemAt_lp (st : AS) (a : Arch) (row : Nat) : Keeps (LP P) (itemAt st a row) := by unfold itemAt; led_keeps
macro_rules | `(tactic| led_leaf) => `(tactic| exact itemAt_lp _ _ _)
theorem paramGet_lp (p : Param) (id : Key) : Keeps (LP P) (paramGet p id) := by unfold paramGet; led_keeps
macro_rules | `(tactic| led_leaf) => `(tactic| exact paramGet_lp _ _)
theorem bumpCell_lp (ai row c : Nat) : Keeps (LP P) (bumpCell ai row c) := by unfold bumpCell; led_keeps
macro_rules | `(tactic| led_leaf) => `(tactic| exact bumpCell_lp _ _ _)
theorem getParam_lp (h : HInfo) (p : Nat) : Keeps (LP P) (getParam h p) := by unfold getParam; led_keeps
macro_rules | `(tactic| led_leaf) => `(tactic| exact getParam_lp _ _)
theorem assertQueueEmpty_lp : Keeps (LP P) (assertQueueEmpty) := by unfold assertQueueEmpty; led_keeps
macro_rules | `(tactic| led_leaf) => `(tactic| exact assertQueueEmpty_lp)
theorem archsRemoveComponent_lp (info : CompInfo) : Keeps (LP P) (archsRemoveComponent info) := by
  unfold archsRemoveComponent; led_keeps
  all_goals (refine Keeps.modify fun w h => ?_; split <;> exact h)
macro_rules | `(tactic| led_leaf) => `(tactic| exact archsRemoveComponent_lp _)
theorem lookupPhase_lp (it : QItem) (w : World) : Keeps (LP P) (lookupPhase it w) := by unfold lookupPhase; led_keeps
macro_rules | `(tactic| led_leaf) => `(tactic| exact lookupPhase_lp _ _)

end leaves


/-! ## the delivery path: triples -/


variable {b : Bool} {Z : List Nat}

theorem dropEventW_queue' (it : QItem) (w : World) : (dropEventW it w).queue = w.queue := by
  obtain ⟨ty, idx, tgt, pay⟩ := it
  cases ty <;> try rfl
  rename_i k
  simp only [dropEventW, dropCellW]
  split <;> rfl
theorem dropEventW_next (it : QItem) (w : World) : (dropEventW it w).nextESerial = w.nextESerial := by
  obtain ⟨ty, idx, tgt, pay⟩ := it
  cases ty <;> try rfl
  rename_i k
  simp only [dropEventW, dropCellW]
  split <;> rfl

/-! ### generic in the accounting predicate

The handler-level triples only use that the accounting predicate is invariant under permutation and that a freshly
allocated serial may be added; they are proved once, for every such predicate: `Acct` (no serial twice, this file) and
`Cover` (no serial missing, `Proofs/EvLedgerCons.lean`). -/

/-- an accounting predicate `A n l` (`n` the next serial, `l` the serials accounted for) -/
structure Accounting (A : Nat → List Nat → Prop) : Prop where
  perm : ∀ {n : Nat} {l l' : List Nat}, A n l → l.Perm l' → A n l'
  fresh : ∀ {n : Nat} {l : List Nat}, A n l → A (n + 1) (n :: l)

theorem acct_accounting : Accounting Acct := ⟨Acct.perm, Acct.fresh⟩

/-- `Led`, `LZ`, `LIn`, `LedI` for an arbitrary accounting predicate -/
abbrev LedA (A : Nat → List Nat → Prop) (Z : List Nat) : World → Prop := LP fun q e n _ => A n (Z ++ (pend q ++ e))
abbrev LZA (A : Nat → List Nat → Prop) (b : Bool) (Z : List Nat) : World → Prop :=
  LP fun q e n f => f = b ∧ A n (Z ++ (pend q ++ e))
abbrev LInA (A : Nat → List Nat → Prop) (it : QItem) (Z : List Nat) (b : Bool) : World → Prop :=
  LP fun q e n f => f = b ∧ A n ((inFl it b ++ Z) ++ (pend q ++ e))
abbrev LedIA (A : Nat → List Nat → Prop) (it : QItem) (Z : List Nat) : World → Prop :=
  LP fun q e n f => A n ((inFl it f ++ Z) ++ (pend q ++ e))

section generic
variable {A : Nat → List Nat → Prop}

theorem LZA.ledI {it : QItem} {b : Bool} {Z : List Nat} {w : World} (h : LInA A it Z b w) : LedIA A it Z w := by
  obtain ⟨hf, ha⟩ := h
  show A _ ((inFl it w.inflightOwned ++ Z) ++ _)
  rw [hf]; exact ha

theorem Hoare.set_ok {P Q : World → Prop} {E : Err → World → Prop} {w' : World} (h : Q w') :
    Hoare P (set w' : M PUnit) (fun _ => Q) E := ⟨fun _ _ => h⟩

/-- a fresh serial -/
theorem freshE_ledA (hA : Accounting A) : Hoare (LZA A b Z) freshE (fun s => LZA A b (s :: Z)) (fun _ => LZA A b Z) := by
  refine ⟨fun w hw => ?_⟩
  show _ ∧ A (w.nextESerial + 1) ((w.nextESerial :: Z) ++ _)
  exact ⟨hw.1, hA.fresh hw.2⟩

/-- an event value in hand is queued -/
theorem push_ledA (hA : Accounting A) (x : QItem) {Y : List Nat} (hY : ledgerOf x = Y) :
    Hoare (LZA A b (Y ++ Z)) (push x) (fun _ => LZA A b Z) (fun _ => LZA A b Z) := by
  subst hY
  refine ⟨fun w hw => ?_⟩
  show _ ∧ A _ (Z ++ (pend (w.queue ++ [x]) ++ w.edrops))
  refine ⟨hw.1, hA.perm hw.2 ?_⟩
  rw [pend_append, pend_singleton]
  perm_app

/-- an event value in hand is destroyed -/
theorem dropEvent_ledA (hA : Accounting A) (x : QItem) {Y : List Nat} (hY : ledgerOf x = Y) :
    Hoare (LZA A b (Y ++ Z)) (dropEvent x) (fun _ => LZA A b Z) (fun _ => LZA A b Z) := by
  subst hY
  refine ⟨fun w hw => ?_⟩
  rw [run_dropEvent]
  show _ ∧ A _ (Z ++ (pend (dropEventW x w).queue ++ (dropEventW x w).edrops))
  rw [dropEventW_queue', dropEventW_edrops, dropEventW_next, dropEventW_flag, dropE_eq]
  refine ⟨hw.1, hA.perm hw.2 ?_⟩
  perm_app

theorem senderPush_ledA (hA : Accounting A) (h : HInfo) (x : QItem) {Y : List Nat} (hY : ledgerOf x = Y) :
    Hoare (LZA A b (Y ++ Z)) (senderPush h x) (fun _ => LZA A b Z) (fun _ => LZA A b Z) := by
  unfold senderPush
  split
  · exact Hoare.bind (dropEvent_ledA hA x hY) fun _ => Hoare.throw fun _ h => h
  · exact push_ledA hA _ hY

/-- special steps of the walk below; extended with `macro_rules` -/
syntax "ledh_special" : tactic
macro_rules | `(tactic| ledh_special) => `(tactic| fail "no special step")

/-- one structural step for triples whose precondition is kept by every step and whose exceptional postcondition is the
    precondition (`hoare2_inv_step` with the `led_leaf` table) -/
syntax "ledh_step" : tactic
/-- closes `P w → E e w` (given as `h`) -/
syntax "ledh_err" ident : tactic
macro_rules | `(tactic| ledh_err $h) => `(tactic| exact $h)
macro_rules
  | `(tactic| ledh_step) => `(tactic| first
      | ((with_reducible refine Hoare.pure ?_); exact fun _ h => h)
      | ((with_reducible refine Hoare.throw (fun _ h => ?_)); ledh_err h)
      | ((with_reducible refine Hoare.ubErr (fun _ h => ?_)); ledh_err h)
      | ledh_special
      | ((with_reducible refine Hoare.of_keeps ?k (fun _ _ h => ?e)); (case k => with_reducible led_leaf); (case e => ledh_err h))
      | ((with_reducible refine Hoare.of_keeps (Keeps.set ?k) (fun _ _ h => ?e)); (case k => first | assumption | (simp only []; assumption)); (case e => ledh_err h))
      | ((with_reducible refine Hoare.of_keeps (Keeps.modify (fun _ h => ?k)) (fun _ _ h => ?e)); (case k => first | exact h | (simp only []; exact h)); (case e => ledh_err h))
      | (with_reducible refine Hoare.get_bind (fun _ _ => ?_))
      | (with_reducible refine Hoare.bind_inv ?_ (fun _ => ?_))
      | (with_reducible refine Hoare.forIn_list_inv (fun _ _ => ?_))
      | (with_reducible refine Hoare.forIn_range_inv (fun _ _ => ?_))
      | (with_reducible refine Hoare.ite ?_ ?_)
      | dsimp only
      | split)
macro "ledh" : tactic => `(tactic| repeat' ledh_step)

theorem senderPush_ledA1 (hA : Accounting A) (h : HInfo) (x : QItem) {s : Nat} (hY : ledgerOf x = [s]) :
    Hoare (LZA A b (s :: Z)) (senderPush h x) (fun _ => LZA A b Z) (fun _ => LZA A b Z) := senderPush_ledA hA h x hY
theorem senderPush_ledA0 (hA : Accounting A) (h : HInfo) (x : QItem) (hY : ledgerOf x = []) :
    Hoare (LZA A b Z) (senderPush h x) (fun _ => LZA A b Z) (fun _ => LZA A b Z) := senderPush_ledA hA h x hY
theorem push_ledA0 (hA : Accounting A) (x : QItem) (hY : ledgerOf x = []) :
    Hoare (LZA A b Z) (push x) (fun _ => LZA A b Z) (fun _ => LZA A b Z) := push_ledA hA x hY

local macro_rules
  | `(tactic| ledh_special) => `(tactic| first
      | (with_reducible refine Hoare.bind (freshE_ledA ‹Accounting _›) (fun s => ?_))
      | ((with_reducible refine Hoare.bind (senderPush_ledA1 ‹Accounting _› _ _ ?hY) (fun _ => ?_)); (case hY => rfl))
      | ((with_reducible refine Hoare.bind (senderPush_ledA0 ‹Accounting _› _ _ ?hY) (fun _ => ?_)); (case hY => rfl))
      | ((with_reducible refine Hoare.bind (push_ledA0 ‹Accounting _› _ ?hY) (fun _ => ?_)); (case hY => rfl)))

/-- **one handler action**: it returns `true` iff it took the event, which it can only do while the flag is clear; taking
    moves the serial from "in flight" to the ledger and sets the flag, in one step; a send allocates a serial and queues
    the event under it, or — rejected by the event-set lookup — destroys it at once -/
theorem runAct_ledA (hA : Accounting A) (hk : Key) (it : QItem) (loc : Loc) (act : Act) :
    Hoare (LInA A it Z b) (runAct hk it loc act) (fun r => LInA A it Z (r || b)) (fun _ => LInA A it Z b) := by
  unfold runAct
  refine Hoare.get_bind fun w hw => ?_
  split
  · split
    all_goals try (ledh; done)
    · -- `take`
      dsimp only
      split
      · rename_i hc
        have hb : b = false := by
          have : w.inflightOwned = false := by
            cases hf : w.inflightOwned
            · rfl
            · rw [hf] at hc; simp at hc
          exact hw.1.symm.trans this
        subst hb
        refine ⟨fun w2 hw2 => ?_⟩
        simp only [logT, run_bind, run_modify, run_dropEvent, run_pure]
        refine ⟨rfl, ?_⟩
        show A (dropEventW it _).nextESerial ((inFl it true ++ Z) ++ (pend (dropEventW it _).queue ++ (dropEventW it _).edrops))
        rw [dropEventW_next, dropEventW_queue', dropEventW_edrops, dropE_eq]
        refine hA.perm hw2.2 ?_
        show ((ledgerOf it ++ Z) ++ (pend w2.queue ++ w2.edrops)).Perm (([] ++ Z) ++ (pend w2.queue ++ (ledgerOf it ++ w2.edrops)))
        perm_app
      · exact Hoare.pure fun _ h => h
    · -- `alloc`: a serial is in hand across the write to `arenaCount`
      ledh
      exact Hoare.set_ok (by assumption)
  · ledh

theorem LInA.bool {it : QItem} {b1 b2 : Bool} {w : World} (hb : b1 = b2) (h : LInA A it Z b1 w) : LInA A it Z b2 w :=
  hb ▸ h

/-- the body loop of `runHandler`: the flag after the loop is the flag before or-ed with "some action took" -/
theorem bodyLoop_ledA {γ : Type} {acts : List γ} {rd : Bool} {sd : List Nat}
    {f : γ → Bool × Bool × List Nat → M (ForInStep (Bool × Bool × List Nat))} {it : QItem}
    (h0 : ∀ a o rd sd, Hoare (LInA A it Z (o || b)) (f a (o, rd, sd)) (fun r => LInA A it Z (r.value.1 || b))
      (fun _ => LedIA A it Z)) :
    Hoare (LInA A it Z b) (forIn acts (false, rd, sd) f >>= fun s => pure s.1) (fun o => LInA A it Z (o || b))
      (fun _ => LedIA A it Z) := by
  refine Hoare.bind (R := fun (s : Bool × Bool × List Nat) => LInA A it Z (s.1 || b)) ?_
    (fun s => Hoare.pure fun _ h => h)
  refine Hoare.pre (Hoare.forIn_list (fun (s : Bool × Bool × List Nat) => LInA A it Z (s.1 || b)) ?_) (fun _ h => h)
  rintro a ⟨o, rd, sd⟩
  exact h0 a o rd sd

theorem runAct_ledIA (hA : Accounting A) (hk : Key) (it : QItem) (loc : Loc) (act : Act) :
    Hoare (LInA A it Z b) (runAct hk it loc act) (fun r => LInA A it Z (r || b)) (fun _ => LedIA A it Z) :=
  Hoare.post (runAct_ledA hA hk it loc act) (fun _ _ h => h) (fun _ _ h => LZA.ledI h)

local macro_rules | `(tactic| ledh_err $h) => `(tactic| exact LZA.ledI $h)

local macro_rules
  | `(tactic| ledh_special) => `(tactic| first
      | exact Hoare.bind (runAct_ledIA ‹Accounting _› _ _ _ _) (fun r => Hoare.pure fun _ h =>
          LInA.bool (by simp [Bool.or_assoc, Bool.or_comm, Bool.or_left_comm]) h)
      | refine bodyLoop_ledA (fun _ _ _ _ => ?_))

/-- **one handler run**: it returns `true` iff one of its actions took the event; the flag and the ledger follow -/
theorem runHandler_ledA (hA : Accounting A) (hk : Key) (it : QItem) (loc : Loc) :
    Hoare (LInA A it Z b) (runHandler hk it loc) (fun o => LInA A it Z (o || b)) (fun _ => LedIA A it Z) := by
  unfold runHandler
  refine Hoare.get_bind fun w hw => ?_
  split
  · refine Hoare.bind_inv (Hoare.of_keeps (logT_lp _) (fun _ _ h => LZA.ledI h)) fun _ => ?_
    dsimp only
    ledh
  · ledh

end generic

/-! ### the instances for `Acct` -/

theorem freshE_led : Hoare (LZ b Z) freshE (fun s => LZ b (s :: Z)) (fun _ => LZ b Z) := freshE_ledA acct_accounting
theorem push_led (x : QItem) {Y : List Nat} (hY : ledgerOf x = Y) :
    Hoare (LZ b (Y ++ Z)) (push x) (fun _ => LZ b Z) (fun _ => LZ b Z) := push_ledA acct_accounting x hY
theorem dropEvent_led (x : QItem) {Y : List Nat} (hY : ledgerOf x = Y) :
    Hoare (LZ b (Y ++ Z)) (dropEvent x) (fun _ => LZ b Z) (fun _ => LZ b Z) := dropEvent_ledA acct_accounting x hY
theorem runAct_led (hk : Key) (it : QItem) (loc : Loc) (act : Act) :
    Hoare (LIn it Z b) (runAct hk it loc act) (fun r => LIn it Z (r || b)) (fun _ => LIn it Z b) :=
  runAct_ledA acct_accounting hk it loc act
theorem LIn.bool {it : QItem} {b1 b2 : Bool} {w : World} (hb : b1 = b2) (h : LIn it Z b1 w) : LIn it Z b2 w := hb ▸ h
theorem runHandler_led (hk : Key) (it : QItem) (loc : Loc) :
    Hoare (LIn it Z b) (runHandler hk it loc) (fun o => LIn it Z (o || b)) (fun _ => LedI it Z) :=
  runHandler_ledA acct_accounting hk it loc

/-- dropping an event value whose serial is accounted for in `Y` -/
theorem dropEventW_led {x : QItem} {Y : List Nat} {w : World} (h : Led (ledgerOf x ++ Y) w) :
    Led Y (dropEventW x w) := by
  show Acct (dropEventW x w).nextESerial (Y ++ (pend (dropEventW x w).queue ++ (dropEventW x w).edrops))
  rw [dropEventW_next, dropEventW_queue', dropEventW_edrops, dropE_eq]
  refine Acct.perm h ?_
  perm_app

theorem LedI.cases {it : QItem} {w : World} (h : LedI it Z w) :
    (w.inflightOwned = false ∧ Led (ledgerOf it ++ Z) w) ∨ (w.inflightOwned = true ∧ Led Z w) := by
  cases hf : w.inflightOwned
  · left
    refine ⟨rfl, ?_⟩
    have : Acct _ ((inFl it w.inflightOwned ++ Z) ++ _) := h
    rw [hf] at this
    exact this
  · right
    refine ⟨rfl, ?_⟩
    have : Acct _ ((inFl it w.inflightOwned ++ Z) ++ _) := h
    rw [hf] at this
    exact this

/-- the unwinding guard of `deliverOne` (first half of `EventDropper::drop`) -/
theorem unwind_led (it : QItem) (info : EvInfo) (e : Err) (Q : Bool → World → Prop) :
    Hoare (LedI it Z)
      (do
        match e with
        | .panic _ => if !(← get).inflightOwned && info.needsDrop then dropEvent it
        | _ => pure ()
        throw e : M Bool) Q (fun _ => Led Z) := by
  refine ⟨fun w hw => ?_⟩
  have key : ((do
        match e with
        | .panic _ => if !(← get).inflightOwned && info.needsDrop then dropEvent it
        | _ => pure ()
        throw e : M Bool)).run.run w = _ := unwind_run it info e w
  rw [key]
  show Led Z _
  cases e with
  | ub s => exact hw.led
  | assert s => exact hw.led
  | panic c =>
    dsimp only
    rcases hw.cases with ⟨hf, h⟩ | ⟨hf, h⟩
    · rw [hf]
      cases info.needsDrop
      · exact h.drop_left
      · exact dropEventW_led h
    · rw [hf]
      exact h

/-- the handler loop of a delivery, started with the flag clear -/
theorem handlerLoop_led (it : QItem) (info : EvInfo) (loc : Loc) (hs : List Key) :
    Hoare (LIn it Z false) (handlerLoop it info loc hs) (fun o => LIn it Z o) (fun _ => Led Z) := by
  unfold handlerLoop
  refine Hoare.pre (Hoare.forIn_list (fun (o : Bool) => LIn it Z o) ?_) (fun _ h => h)
  intro hk o
  cases o
  · rw [if_pos (show (!false) = true from rfl)]
    refine Hoare.bind (R := fun r => LIn it Z r) ?_ (fun r => Hoare.pure fun _ h => h)
    refine Hoare.tryCatch (E1 := fun _ => LedI it Z)
      (Hoare.post (runHandler_led (b := false) hk it loc) (fun o w h => LIn.bool (Bool.or_false o) h) (fun _ _ h => h))
      (fun e => unwind_led it info e _)
  · rw [if_neg (show ¬ (!true) = true by decide)]
    exact Hoare.pure fun _ h => h

theorem Led.queue_reverse {w : World} (h : Led Z w) : Led Z { w with queue := w.queue.reverse } := by
  refine Acct.perm h ?_
  show (Z ++ (pend w.queue ++ w.edrops)).Perm (Z ++ (pend w.queue.reverse ++ w.edrops))
  exact ((pend_reverse _).symm.append_right _).append_left _

/-- **one delivery**: the serial of the delivered event goes from the caller's hand to the ledger (dead target, `take`,
    drop after the handler loop, unwinding guard) or is forgotten (no drop function, or a built-in effect) — never both
    in flight and in the ledger; whatever the handlers send is queued under fresh serials; on EVERY exit -/
theorem deliverOne_led (it : QItem) :
    Hoare (Led (ledgerOf it ++ Z)) (deliverOne it) (fun _ => Led Z) (fun _ => Led Z) := by
  rw [deliverOne_phases]
  refine Hoare.get_bind fun w hw => ?_
  refine Hoare.bind_inv (Hoare.of_keeps (lookupPhase_lp _ _) (fun _ _ h => Led.drop_left h)) fun r => ?_
  obtain ⟨info, hs, loc⟩ := r
  cases hs with
  | none =>
    dsimp only
    split
    · refine ⟨fun w hw => ?_⟩
      rw [run_dropEvent]
      exact dropEventW_led hw
    · exact Hoare.pure fun _ h => Led.drop_left h
  | some hs =>
    dsimp only
    refine Hoare.bind (R := fun _ => LIn it Z false) ⟨fun w hw => ⟨rfl, hw⟩⟩ fun _ => ?_
    refine Hoare.bind (handlerLoop_led it info loc hs) fun owned => ?_
    refine Hoare.bind (R := fun _ => LIn it Z owned) ⟨fun w hw => ⟨hw.1, (Led.queue_reverse (Z := inFl it owned ++ Z) hw.2)⟩⟩ fun _ => ?_
    cases owned with
    | true =>
      exact Hoare.pure fun _ h => h.2
    | false =>
      simp only [Bool.false_eq_true, if_false]
      refine Hoare.pre (P' := Led (ledgerOf it ++ Z)) ?_ (fun _ h => h.2)
      unfold effectPhase
      split
      · split
        · refine ⟨fun w hw => ?_⟩
          rw [run_dropEvent]
          exact dropEventW_led hw
        · exact Hoare.pure fun _ h => Led.drop_left h
      all_goals
        refine Hoare.post (Q := fun _ => Led (ledgerOf it ++ Z)) (E := fun _ => Led (ledgerOf it ++ Z)) ?_
          (fun _ _ h => Led.drop_left h) (fun _ _ h => Led.drop_left h)
        refine Hoare.of_keeps ?_ (fun _ _ h => h)
        led_keeps


/-! ## the unwinding path and the event loop -/

theorem dropEventW_of_needsDrop {x : QItem} {Y : List Nat} {w : World} (c : Bool)
    (h : Led (ledgerOf x ++ Y) w) : Led Y (if c then dropEventW x w else w) := by
  cases c
  · exact h.drop_left
  · exact dropEventW_led h

/-- the loop of `dropQueued`: the serials of the events it walks over go to the ledger (or are forgotten, without a drop
    function); it can only fail with `ub` -/
theorem dropLoop_led (l : List QItem) {Y : List Nat} {w : World} (h : Led (pend l ++ Y) { w with queue := [] }) :
    match dropLoop l w with
    | (.ok _, w') => Led Y { w' with queue := [] }
    | (.error e, _) => e.isPanic = false := by
  induction l generalizing w with
  | nil => exact h
  | cons q l ih =>
    simp only [dropLoop]
    cases hq : w.evInfo q with
    | none => rfl
    | some ei =>
      dsimp only
      refine ih ?_
      have h1 : Led (ledgerOf q ++ (pend l ++ Y)) { w with queue := [] } := by
        rw [pend_cons, List.append_assoc] at h; exact h
      have h2 := dropEventW_of_needsDrop ei.needsDrop h1
      cases hn : ei.needsDrop
      · rw [hn] at h2; exact h2
      · rw [hn] at h2
        simp only [if_true] at h2 ⊢
        have e1 : (dropEventW q w).edrops = (dropEventW q { w with queue := [] }).edrops := by
          rw [dropEventW_edrops, dropEventW_edrops]
        have e2 : (dropEventW q w).nextESerial = (dropEventW q { w with queue := [] }).nextESerial := by
          rw [dropEventW_next, dropEventW_next]
        show Acct (dropEventW q w).nextESerial ((pend l ++ Y) ++ (pend [] ++ (dropEventW q w).edrops))
        rw [e1, e2]
        have : Acct (dropEventW q { w with queue := [] }).nextESerial
            ((pend l ++ Y) ++ (pend (dropEventW q { w with queue := [] }).queue ++ (dropEventW q { w with queue := [] }).edrops)) := h2
        rw [dropEventW_queue'] at this
        exact this

/-- **`dropQueued`** (second half of `EventDropper::drop`): every pending serial goes to the ledger, the queue is
    cleared; nothing is claimed when it stops at a `ub` marker in the middle of its loop -/
theorem dropQueued_led : Hoare (Led Z) dropQueued (fun _ => Led Z) (PanicOnly (Led Z)) := by
  refine ⟨fun w hw => ?_⟩
  rw [dropQueued_run]
  have h0 : Led (pend w.queue ++ Z) { w with queue := [] } := by
    refine Acct.perm hw ?_
    show (Z ++ (pend w.queue ++ w.edrops)).Perm ((pend w.queue ++ Z) ++ (pend [] ++ w.edrops))
    rw [pend_nil]
    perm_app
  have := dropLoop_led w.queue h0
  generalize dropLoop w.queue w = r at this
  obtain ⟨(e|a), w'⟩ := r
  · intro hp
    rw [this] at hp
    cases hp
  · exact this

theorem queue_split {l : List QItem} {it : QItem} (h : l.getLast? = some it) : l = l.dropLast ++ [it] := by
  obtain ⟨ys, rfl⟩ := List.getLast?_eq_some_iff.1 h
  simp

/-- **the event loop**, for every per-event step that moves the serial of the event it is handed from the caller's hand
    into the ledger: the part of the queue set aside during a delivery is accounted for in the parameter list; when the
    delivery panics the guard puts it back and `dropQueued` moves every pending serial to the ledger -/
theorem flushWith_led {deliver : QItem → M Unit}
    (hd : ∀ it Y, Hoare (Led (ledgerOf it ++ Y)) (deliver it) (fun _ => Led Y) (PanicOnly (Led Y))) (fuel : Nat) :
    Hoare (Led Z) (flushWith deliver fuel) (fun _ => Led Z) (PanicOnly (Led Z)) := by
  induction fuel with
  | zero => exact Hoare.throw fun _ h _ => h
  | succ fuel ih =>
    rw [flushWith]
    refine Hoare.get_bind fun w hw => ?_
    split
    · exact Hoare.of_keeps (Keeps.set hw) (fun _ _ h _ => h)
    · rename_i it hlast
      have hq := queue_split hlast
      have hback : ∀ w1 : World, Led (pend w.queue.dropLast ++ Z) w1 →
          Led Z { w1 with queue := w.queue.dropLast ++ w1.queue } := fun w1 h1 => by
        refine Acct.perm h1 ?_
        show ((pend w.queue.dropLast ++ Z) ++ (pend w1.queue ++ w1.edrops)).Perm
          (Z ++ (pend (w.queue.dropLast ++ w1.queue) ++ w1.edrops))
        rw [pend_append]
        perm_app
      refine Hoare.bind (R := fun _ => Led (ledgerOf it ++ (pend w.queue.dropLast ++ Z))) ⟨fun w0 _ => ?_⟩ fun _ => ?_
      · have : Acct w.nextESerial (Z ++ (pend w.queue ++ w.edrops)) := hw
        rw [hq, pend_append, pend_singleton] at this
        refine Acct.perm this ?_
        show (Z ++ (pend w.queue.dropLast ++ ledgerOf it ++ w.edrops)).Perm
          ((ledgerOf it ++ (pend w.queue.dropLast ++ Z)) ++ (pend [] ++ w.edrops))
        rw [pend_nil]
        perm_app
      refine Hoare.bind (R := fun _ => Led (pend w.queue.dropLast ++ Z)) (Hoare.tryCatch (hd it _) fun e => ?_) fun _ => ?_
      · -- the unwinding guard
        cases e with
        | panic s =>
          refine Hoare.pre (P' := Led (pend w.queue.dropLast ++ Z)) ?_ (fun w h => h rfl)
          refine Hoare.bind (R := fun _ => Led Z) ⟨fun w1 h1 => hback w1 h1⟩ fun _ => ?_
          exact Hoare.bind_inv dropQueued_led fun _ => Hoare.throw fun _ h _ => h
        | ub s =>
          refine ⟨fun w _ => ?_⟩
          simp only [run_bind, run_modify, run_throw]
          exact fun hp => nomatch hp
        | assert s =>
          refine ⟨fun w _ => ?_⟩
          simp only [run_bind, run_modify, run_throw]
          exact fun hp => nomatch hp
      · exact Hoare.bind (R := fun _ => Led Z) ⟨fun w1 h1 => hback w1 h1⟩ fun _ => ih

/-- **`flush`** -/
theorem flush_led (fuel : Nat) : Hoare (Led Z) (flush fuel) (fun _ => Led Z) (PanicOnly (Led Z)) :=
  flushWith_led (fun it _ => Hoare.post (deliverOne_led it) (fun _ _ h => h) (fun _ _ h _ => h)) fuel


end EvLedger
end Evenio
