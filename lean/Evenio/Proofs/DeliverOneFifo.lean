import Evenio.Proofs.DeliverOne
/-! What one `deliverOne` leaves queued: exactly what its handlers appended, reversed. -/
namespace Evenio

/-- the queue is `q` -/
abbrev QU (q : List QItem) : World → Prop := fun w => w.queue = q

theorem Keeps.qu_of_ef {α : Type} {m : M α} (h : ∀ ef, Keeps (EF ef) m) (q : List QItem) : Keeps (QU q) m :=
  ⟨fun w hw => by
    have := (h w.effFrame).run w rfl
    have e : (m.run.run w).2.queue = w.queue := congrArg EffFrame.queue this
    exact e.trans hw⟩

theorem dropEvent_qu (q : List QItem) (it : QItem) : Keeps (QU q) (dropEvent it) := by
  unfold dropEvent dropCell; keeps

/-- the built-in effect of a delivery sends nothing -/
theorem effectPhase_qu (q : List QItem) (it : QItem) (info : EvInfo) (loc : Loc) :
    Keeps (QU q) (effectPhase it info loc) := by
  unfold effectPhase
  split
  · split
    · exact dropEvent_qu q it
    · exact Keeps.pure _
  all_goals exact Keeps.qu_of_ef (fun ef => by keeps) q

/-- for the kinds other than `normal`, the built-in effect leaves the whole `EffFrame` alone: it sends nothing,
    destroys no event value, logs nothing -/
theorem effectPhase_ef {ef : EffFrame} (it : QItem) (info : EvInfo) (loc : Loc) (hk : info.kind ≠ .normal) :
    Keeps (EF ef) (effectPhase it info loc) := by
  unfold effectPhase
  split
  · exact absurd ‹_› hk
  all_goals keeps

theorem lookupPhase_qu (q : List QItem) (it : QItem) (w : World) : Keeps (QU q) (lookupPhase it w) :=
  Keeps.qu_of_ef (fun _ => lookupPhase_ef it w) q

/-- **The segment a delivery leaves.** If `deliverOne it`, started on an empty segment, returns normally leaving
    `seg` queued, then either the target was dead (no handler ran, `seg = []`), or the handler loop ran — from a world
    `w1` with empty queue to a world `wh` — and `seg` is exactly the queue `wh.queue` the handlers built, reversed.
    Since handlers only append (`runHandler_pfx`, `handlerPhase_pfx`), `wh.queue` lists the events in the order they
    were sent, and that is the order `seg.reverse` in which the loop pops them. -/
theorem deliverOne_segment {w : World} {it : QItem} {w' : World} {seg : List QItem}
    (h : Step deliverOne w it w' seg) :
    seg = [] ∨
    ∃ info hs loc w1 owned wh,
      (lookupPhase it { w with queue := [] }).run.run { w with queue := [] } = (.ok (info, some hs, loc), w1) ∧
      w1.queue = [] ∧
      (handlerPhase it info loc hs).run.run w1 = (.ok owned, wh) ∧
      seg.reverse = wh.queue := by
  obtain ⟨w'', hd, rfl, rfl⟩ := h
  rw [deliverOne_run] at hd
  have hq1 := (lookupPhase_qu [] it { w with queue := [] }).run { w with queue := [] } rfl
  generalize hl : (lookupPhase it { w with queue := [] }).run.run { w with queue := [] } = r at hd hq1
  obtain ⟨(e|⟨info, hs, loc⟩), w1⟩ := r
  · cases hd
  · simp only at hd hq1
    cases hs with
    | none =>
      left
      simp only at hd
      have : Keeps (QU []) (if info.needsDrop = true then dropEvent it else pure ()) := by
        split
        · exact dropEvent_qu [] it
        · exact Keeps.pure _
      have := this.run w1 hq1
      rw [hd] at this
      exact this
    | some hs =>
      right
      simp only at hd
      generalize hh : (handlerPhase it info loc hs).run.run w1 = r at hd
      obtain ⟨(e|owned), wh⟩ := r
      · cases hd
      · refine ⟨info, hs, loc, w1, owned, wh, rfl, hq1, hh, ?_⟩
        simp only at hd
        cases owned with
        | true =>
          simp only [if_true] at hd
          cases hd
          simp
        | false =>
          simp only [Bool.false_eq_true, if_false] at hd
          have := (effectPhase_qu wh.queue.reverse it info loc).run { wh with queue := wh.queue.reverse } rfl
          rw [hd] at this
          simp only [QU] at this
          rw [this]
          simp

/-- each handler run only appends to the queue -/
theorem runHandler_appends (hk : Key) (it : QItem) (loc : Loc) (w : World) :
    w.queue <+: ((runHandler hk it loc).run.run w).2.queue :=
  (runHandler_pfx (q := w.queue) hk it loc).run w (List.prefix_refl _)

/-- the handler loop only appends to the queue -/
theorem handlerPhase_appends (it : QItem) (info : EvInfo) (loc : Loc) (hs : List Key) (w : World) :
    w.queue <+: ((handlerPhase it info loc hs).run.run w).2.queue :=
  (handlerPhase_pfx (q := w.queue) it info loc hs).run w (List.prefix_refl _)

end Evenio
