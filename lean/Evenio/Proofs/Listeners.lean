import Evenio.Model.Inv
import Evenio.Proofs.HoareOk
import Evenio.Proofs.Frame
import Evenio.Proofs.SparseMap
import Evenio.Proofs.SlotMap
import Evenio.Proofs.HandlerList
import Evenio.Proofs.AccessSem
import Evenio.Proofs.Slab
/-! Helpers for C08 / C15: the listener filter as a conjunction, the pure core of `Arch.registerHandler`, the pure
    core of `removeHandler`, slab lookups, the shape of `deliverOne`. Core Lean only. -/
namespace Evenio

-- `Key`'s derived `==` is equality
deriving instance ReflBEq, LawfulBEq for Key

/-! ### the listener filter (`Config.setFilter`, F7 repair) -/

theorem foldl_setFilter_set (cas : List CA) (cfg : Config) (hs : cfg.filterSet = true) (S : Nat → Bool) :
    (cas.foldl Config.setFilter cfg).filterSet = true ∧
    (cas.foldl Config.setFilter cfg).filter.matches S = (cfg.filter.matches S && cas.all (·.matches S)) := by
  induction cas generalizing cfg with
  | nil => simp [hs]
  | cons c cas ih =>
    have h1 : (cfg.setFilter c).filterSet = true := rfl
    have h2 : (cfg.setFilter c).filter = cfg.filter.and c := by simp [Config.setFilter, hs]
    obtain ⟨i1, i2⟩ := ih (cfg.setFilter c) h1
    refine ⟨i1, ?_⟩
    rw [List.foldl_cons, i2, h2, and_matches, List.all_cons, Bool.and_assoc]

theorem foldl_setFilter_unset (c : CA) (cas : List CA) (cfg : Config) (hs : cfg.filterSet = false) (S : Nat → Bool) :
    ((c :: cas).foldl Config.setFilter cfg).filter.matches S = (c :: cas).all (·.matches S) := by
  have h1 : (cfg.setFilter c).filterSet = true := rfl
  have h2 : (cfg.setFilter c).filter = c := by simp [Config.setFilter, hs]
  rw [List.foldl_cons, (foldl_setFilter_set cas _ h1 S).2, h2, List.all_cons]

/-! ### `Archetype::register_handler` -/

/-- `refresh_listeners.insert(info.ptr())` when the archetype filter matches -/
def Arch.addRefresh (a : Arch) (h : HInfo) : Arch :=
  if h.archFilter.matches a.S then
    { a with refresh := if a.refresh.contains h.key then a.refresh else a.refresh ++ [h.key] }
  else a

/-- the listener-table half of `Archetype::register_handler` -/
def Arch.addListener (a : Arch) (h : HInfo) : Arch :=
  if h.recv.targeted && h.filter.matches a.S then
    { a with listeners := a.listeners.insert h.recvIdx (((a.listeners.get h.recvIdx).getD {}).insert h.key h.prio) }
  else a

/-- the archetype `Archetype::register_handler` returns -/
def Arch.registerPure (a : Arch) (h : HInfo) : Arch := (a.addRefresh h).addListener h

/-- the handler a `handlerRefresh` leaves behind -/
def HInfo.refreshed (h : HInfo) (a : Arch) : HInfo := { h with params := h.params.map (fun p => Param.refreshArch p a) }

theorem dbgAssert_run (c : Bool) (s : String) (w : World) :
    (dbgAssert c s).run.run w = if w.debug && !c then (.error (.assert s), w) else (.ok (), w) := by
  unfold dbgAssert
  simp only [run_bind, run_get]
  split <;> rfl

theorem handlerRefresh_run (hk : Key) (a : Arch) (w : World) :
    (handlerRefresh hk a).run.run w =
      match w.handlers.get hk with
      | none => (.error (.ub "handler-ptr:refresh"), w)
      | some h =>
        if w.debug && !(a.ids.length != 0) then (.error (.assert "fetch.rs:refresh_archetype:empty"), w)
        else (.ok (), { w with handlers := w.handlers.set hk (h.refreshed a) }) := by
  unfold handlerRefresh
  simp only [run_bind, run_get]
  cases w.handlers.get hk with
  | none => rfl
  | some h =>
    simp only [run_bind, dbgAssert_run]
    by_cases hc : (w.debug && !(a.ids.length != 0)) = true
    · simp only [hc, if_true]
    · simp only [hc]; rfl

theorem registerHandler_run (a : Arch) (h : HInfo) (w : World) :
    (a.registerHandler h).run.run w =
      if h.archFilter.matches a.S = true ∧ a.ids.length > 0 then
        match (handlerRefresh h.key a).run.run w with
        | (.ok _, w') => (.ok (a.registerPure h), w')
        | (.error e, w') => (.error e, w')
      else (.ok (a.registerPure h), w) := by
  have hS : ∀ r, ({ a with refresh := r } : Arch).S = a.S := fun _ => rfl
  unfold Arch.registerHandler Arch.registerPure Arch.addRefresh Arch.addListener
  by_cases h1 : h.archFilter.matches a.S = true <;> by_cases h2 : a.ids.length > 0 <;>
    by_cases h3 : h.recv.targeted = true <;> by_cases h4 : h.filter.matches a.S = true <;>
    simp only [h1, h2, h3, h4, hS, run_bind, if_true, if_false, and_self, and_true, and_false, Bool.false_and,
      Bool.and_self, Bool.and_false, Bool.false_eq_true] <;>
    (try generalize (handlerRefresh h.key a).run.run w = r) <;>
    (try obtain ⟨(e|u), w'⟩ := r) <;>
    cases a.listeners.get h.recvIdx <;> rfl

/-! ### the `slab` crate: lookups, iteration -/
namespace Slab
variable {α : Type}

-- `Slab.mem_toList_iff` and `Slab.toList_keys_nodup` come from `Evenio.Proofs.Slab` (same statements; the copies that
-- used to live here were deleted when the proof modules were merged into one environment)

theorem get_set_listeners (s : Slab α) (i j : Nat) (a : α) :
    (s.set i a).get j = if j = i ∧ (s.get i).isSome then some a else s.get j := by
  unfold set get
  cases he : s.entries[i]? with
  | none => simp
  | some e =>
    cases e with
    | vacant n => simp
    | occ b =>
      simp only [List.getElem?_set, Option.isSome_some, and_true]
      by_cases hji : j = i
      · subst hji
        have : j < s.entries.length := by
          rcases Nat.lt_or_ge j s.entries.length with h | h
          · exact h
          · rw [List.getElem?_eq_none h] at he; cases he
        simp [this]
      · have : ¬ i = j := fun h => hji h.symm
        simp [hji, this]

/-- rewriting every occupied entry through its own index: the result, entry by entry -/
theorem get_foldl_set (g : Nat × α → α) (l : List (Nat × α)) (s : Slab α)
    (hnd : (l.map (·.1)).Nodup) (hget : ∀ p ∈ l, (s.get p.1).isSome) (j : Nat) :
    (l.foldl (fun acc p => acc.set p.1 (g p)) s).get j =
      match l.find? (·.1 == j) with
      | some p => some (g p)
      | none => s.get j := by
  induction l generalizing s with
  | nil => rfl
  | cons p l ih =>
    simp only [List.map_cons, List.nodup_cons] at hnd
    rw [List.foldl_cons, ih _ hnd.2]
    · simp only [List.find?_cons]
      by_cases hj : p.1 = j
      · subst hj
        have hnone : l.find? (·.1 == p.1) = none := by
          rw [List.find?_eq_none]
          intro q hq hqj
          simp only [beq_iff_eq] at hqj
          exact hnd.1 (List.mem_map.2 ⟨q, hq, hqj⟩)
        have := hget p (List.mem_cons_self)
        simp [hnone, get_set_listeners, this]
      · have hj' : ¬ j = p.1 := fun h => hj h.symm
        have hb : (p.1 == j) = false := by simp [hj]
        rw [hb]
        cases l.find? (·.1 == j) with
        | some q => rfl
        | none => simp [get_set_listeners, hj']
    · intro q hq
      rw [get_set_listeners]
      split
      · rfl
      · exact hget q (List.mem_cons_of_mem _ hq)

theorem get_foldl_toList (f : α → α) (s : Slab α) (j : Nat) :
    (s.toList.foldl (fun acc p => acc.set p.1 (f p.2)) s).get j = (s.get j).map f := by
  rw [get_foldl_set (fun p => f p.2) s.toList s s.toList_keys_nodup]
  · cases hf : s.toList.find? (·.1 == j) with
    | some p =>
      have hm := List.mem_of_find?_eq_some hf
      have hp := List.find?_some hf
      simp only [beq_iff_eq] at hp
      obtain ⟨i, a⟩ := p
      simp only at hp; subst hp
      rw [(mem_toList_iff s i a).1 hm]; rfl
    | none =>
      cases hg : s.get j with
      | none => rfl
      | some a =>
        have := (mem_toList_iff s j a).2 hg
        rw [List.find?_eq_none] at hf
        exact absurd (by simp) (hf _ this)
  · rintro ⟨i, a⟩ hp
    rw [(mem_toList_iff s i a).1 hp]; rfl

end Slab

/-! ### the archetype `register_handler` returns, field by field -/

/-- the handler list `deliverOne` iterates for a targeted event with index `t` whose target lives in `a` -/
def Arch.listenersFor (a : Arch) (t : Nat) : List Key := ((a.listeners.get t).map (·.entries)).getD []

section registerPure
variable (a : Arch) (h : HInfo)

theorem registerPure_index : (a.registerPure h).index = a.index := by
  unfold Arch.registerPure Arch.addListener Arch.addRefresh; repeat' split
  all_goals rfl
theorem registerPure_comps : (a.registerPure h).comps = a.comps := by
  unfold Arch.registerPure Arch.addListener Arch.addRefresh; repeat' split
  all_goals rfl
theorem registerPure_cols : (a.registerPure h).cols = a.cols := by
  unfold Arch.registerPure Arch.addListener Arch.addRefresh; repeat' split
  all_goals rfl
theorem registerPure_ids : (a.registerPure h).ids = a.ids := by
  unfold Arch.registerPure Arch.addListener Arch.addRefresh; repeat' split
  all_goals rfl
theorem registerPure_cap : (a.registerPure h).cap = a.cap := by
  unfold Arch.registerPure Arch.addListener Arch.addRefresh; repeat' split
  all_goals rfl
theorem registerPure_epoch : (a.registerPure h).epoch = a.epoch := by
  unfold Arch.registerPure Arch.addListener Arch.addRefresh; repeat' split
  all_goals rfl
theorem registerPure_insEdges : (a.registerPure h).insEdges = a.insEdges := by
  unfold Arch.registerPure Arch.addListener Arch.addRefresh; repeat' split
  all_goals rfl
theorem registerPure_remEdges : (a.registerPure h).remEdges = a.remEdges := by
  unfold Arch.registerPure Arch.addListener Arch.addRefresh; repeat' split
  all_goals rfl
theorem registerPure_S : (a.registerPure h).S = a.S := by
  unfold Arch.S; rw [registerPure_comps]

theorem registerPure_refresh :
    (a.registerPure h).refresh =
      if h.archFilter.matches a.S then (if a.refresh.contains h.key then a.refresh else a.refresh ++ [h.key])
      else a.refresh := by
  unfold Arch.registerPure Arch.addListener Arch.addRefresh; repeat' split
  all_goals rfl

theorem addRefresh_listeners : (a.addRefresh h).listeners = a.listeners := by
  unfold Arch.addRefresh; split <;> rfl
theorem addRefresh_S : (a.addRefresh h).S = a.S := by
  unfold Arch.addRefresh; split <;> rfl

theorem registerPure_listeners :
    (a.registerPure h).listeners =
      if h.recv.targeted && h.filter.matches a.S then
        a.listeners.insert h.recvIdx (((a.listeners.get h.recvIdx).getD {}).insert h.key h.prio)
      else a.listeners := by
  unfold Arch.registerPure Arch.addListener
  rw [addRefresh_S, addRefresh_listeners]
  split
  · rfl
  · exact addRefresh_listeners a h

theorem mem_registerPure_refresh (x : Key) :
    x ∈ (a.registerPure h).refresh ↔ x ∈ a.refresh ∨ (x = h.key ∧ h.archFilter.matches a.S = true) := by
  rw [registerPure_refresh]
  by_cases h1 : h.archFilter.matches a.S = true
  · by_cases h2 : h.key ∈ a.refresh
    · simp only [h1, List.contains_eq_mem, h2, decide_true, if_true, and_true]
      constructor
      · exact .inl
      · rintro (hx | rfl)
        · exact hx
        · exact h2
    · simp [h1, h2]
  · simp [h1]

theorem registerPure_refresh_nodup (hn : a.refresh.Nodup) : (a.registerPure h).refresh.Nodup := by
  rw [registerPure_refresh]
  split
  · split
    · exact hn
    · rename_i hc
      simp only [List.contains_eq_mem, decide_eq_true_eq] at hc
      exact List.nodup_append.2 ⟨hn, by simp, by rintro x hx y hy rfl; simp at hy; exact hc (hy ▸ hx)⟩
  · exact hn

/-- well-formedness of the listener table is kept as long as event indices stay below a bound `N < u32::MAX` -/
theorem registerPure_listeners_wf (hw : SparseMap.WF a.listeners) {N : Nat} (hN : N < U32MAX)
    (hb : ∀ k ∈ a.listeners.keys, k < N) (hi : h.recvIdx < N) :
    SparseMap.WF (a.registerPure h).listeners ∧ ∀ k ∈ (a.registerPure h).listeners.keys, k < N := by
  rw [registerPure_listeners]
  split
  · refine ⟨SparseMap.insert_wf_of_bound hw hN hb hi _, fun k hk => ?_⟩
    rcases SparseMap.mem_keys_insert _ _ _ _ hk with rfl | hk
    · exact hi
    · exact hb k hk
  · exact ⟨hw, hb⟩

/-- the table of the received event: the new handler is inserted by priority into the old list (or a fresh one) -/
theorem registerPure_get_same (hw : SparseMap.WF a.listeners) (ht : h.recv.targeted = true)
    (hm : h.filter.matches a.S = true) :
    (a.registerPure h).listeners.get h.recvIdx =
      some (((a.listeners.get h.recvIdx).getD {}).insert h.key h.prio) := by
  rw [registerPure_listeners]
  simp only [ht, hm, Bool.and_self, if_true]
  exact SparseMap.get_insert_same hw _ _

/-- every other table is left alone -/
theorem registerPure_get_other (hw : SparseMap.WF a.listeners) {t : Nat} (hne : t ≠ h.recvIdx) :
    (a.registerPure h).listeners.get t = a.listeners.get t := by
  rw [registerPure_listeners]
  split
  · exact SparseMap.get_insert_other hw hne _
  · rfl

/-- a handler that receives a global event, or whose filter does not match, leaves all tables alone -/
theorem registerPure_listeners_of_not (hn : ¬ (h.recv.targeted = true ∧ h.filter.matches a.S = true)) :
    (a.registerPure h).listeners = a.listeners := by
  rw [registerPure_listeners]
  split
  · rename_i hc; simp only [Bool.and_eq_true] at hc; exact absurd hc hn
  · rfl

theorem listenersFor_registerPure (hw : SparseMap.WF a.listeners) (t : Nat) :
    (a.registerPure h).listenersFor t =
      if h.recv.targeted = true ∧ t = h.recvIdx ∧ h.filter.matches a.S = true then
        (((a.listeners.get t).getD {}).insert h.key h.prio).entries
      else a.listenersFor t := by
  unfold Arch.listenersFor
  by_cases hc : h.recv.targeted = true ∧ h.filter.matches a.S = true
  · by_cases ht : t = h.recvIdx
    · subst ht
      rw [registerPure_get_same a h hw hc.1 hc.2]
      simp [hc.1, hc.2]
    · rw [registerPure_get_other a h hw ht]
      simp [ht]
  · rw [registerPure_listeners_of_not a h hc]
    have : ¬ (h.recv.targeted = true ∧ t = h.recvIdx ∧ h.filter.matches a.S = true) := fun hh => hc ⟨hh.1, hh.2.2⟩
    simp only [this, if_false]

theorem mem_listenersFor_registerPure (hw : SparseMap.WF a.listeners) (t : Nat) (x : Key) :
    x ∈ (a.registerPure h).listenersFor t ↔
      x ∈ a.listenersFor t ∨ (x = h.key ∧ h.recv.targeted = true ∧ t = h.recvIdx ∧ h.filter.matches a.S = true) := by
  rw [listenersFor_registerPure a h hw]
  split
  · rename_i hc
    rw [HandlerList.mem_insert]
    unfold Arch.listenersFor
    cases a.listeners.get t <;> simp [hc, or_comm]
  · rename_i hc
    simp [hc]

end registerPure


/-! ### the pure core of `World::remove_handler` -/

/-- what `Archetypes::remove_handler` does to one archetype -/
def Arch.dropHandler (a : Arch) (k : Key) (h : HInfo) : Arch :=
  let a := { a with refresh := a.refresh.filter (· != k) }
  if h.recv.targeted then
    match a.listeners.get h.recvIdx with
    | some l => { a with listeners := a.listeners.insert h.recvIdx (l.remove k) }
    | none => a
  else a

/-- `Handlers::remove`: the slot map, the global list of the received event, the insertion-order index -/
def World.dropHandlerRegs (w : World) (k : Key) (h : HInfo) : World :=
  { w with
    handlers := (match w.handlers.remove k with | some (_, hs) => hs | none => w.handlers),
    byGlobal := (if h.recv.targeted then w.byGlobal else
      match w.byGlobal[h.recvIdx]? with
      | some l => w.byGlobal.set h.recvIdx (l.remove k)
      | none => w.byGlobal),
    byInsertOrder := w.byInsertOrder.filter (· != k),
    removedIds := ('h', k) :: w.removedIds }

/-- `Archetypes::remove_handler`: every archetype is rewritten in place, in index order -/
def World.dropHandlerArchs (w : World) (k : Key) (h : HInfo) : World :=
  w.archs.toList.foldl
    (fun w p => { w with archs := w.archs.set (p.2.dropHandler k h).index (p.2.dropHandler k h) }) w

/-- the state update `removeHandler k` performs after the announcement (`h` is the removed handler's info) -/
def removeHandlerPure (w : World) (k : Key) (h : HInfo) : World := (w.dropHandlerRegs k h).dropHandlerArchs k h

/-- the `==` that `HandlerList.remove` searches with (from `DecidableEq`) and `Key`'s derived `==` select alike -/
theorem filter_bne_inst (l : List Key) (k : Key) :
    l.filter (fun x => @bne Key instBEqOfDecidableEq x k) = l.filter (· != k) := by
  apply List.filter_congr
  intro x _
  rw [Bool.eq_iff_iff, @bne_iff_ne Key instBEqOfDecidableEq _ x k, bne_iff_ne]

/-- under `Nodup`, `HandlerList.remove` filters the vector -/
theorem remove_entries_filter {l : HandlerList Key} (hn : l.entries.Nodup) (k : Key) :
    (l.remove k).entries = l.entries.filter (· != k) := by
  rw [HandlerList.remove_entries, @List.Nodup.erase_eq_filter Key instBEqOfDecidableEq _ _ hn k, filter_bne_inst]

section dropHandler
variable (a : Arch) (k : Key) (h : HInfo)

theorem dropHandler_index : (a.dropHandler k h).index = a.index := by
  unfold Arch.dropHandler; dsimp only; repeat' split
  all_goals rfl
theorem dropHandler_comps : (a.dropHandler k h).comps = a.comps := by
  unfold Arch.dropHandler; dsimp only; repeat' split
  all_goals rfl
theorem dropHandler_cols : (a.dropHandler k h).cols = a.cols := by
  unfold Arch.dropHandler; dsimp only; repeat' split
  all_goals rfl
theorem dropHandler_ids : (a.dropHandler k h).ids = a.ids := by
  unfold Arch.dropHandler; dsimp only; repeat' split
  all_goals rfl
theorem dropHandler_cap : (a.dropHandler k h).cap = a.cap := by
  unfold Arch.dropHandler; dsimp only; repeat' split
  all_goals rfl
theorem dropHandler_epoch : (a.dropHandler k h).epoch = a.epoch := by
  unfold Arch.dropHandler; dsimp only; repeat' split
  all_goals rfl
theorem dropHandler_insEdges : (a.dropHandler k h).insEdges = a.insEdges := by
  unfold Arch.dropHandler; dsimp only; repeat' split
  all_goals rfl
theorem dropHandler_remEdges : (a.dropHandler k h).remEdges = a.remEdges := by
  unfold Arch.dropHandler; dsimp only; repeat' split
  all_goals rfl
theorem dropHandler_refresh : (a.dropHandler k h).refresh = a.refresh.filter (· != k) := by
  unfold Arch.dropHandler; dsimp only; repeat' split
  all_goals rfl

theorem dropHandler_listeners :
    (a.dropHandler k h).listeners =
      if h.recv.targeted then
        match a.listeners.get h.recvIdx with
        | some l => a.listeners.insert h.recvIdx (l.remove k)
        | none => a.listeners
      else a.listeners := by
  unfold Arch.dropHandler; dsimp only; repeat' split
  all_goals rfl

/-- the handler's own table loses `k`; no other table is touched -/
theorem dropHandler_get' (hw : SparseMap.WF a.listeners) (t : Nat) :
    (a.dropHandler k h).listeners.get t =
      if h.recv.targeted = true ∧ t = h.recvIdx then (a.listeners.get t).map (·.remove k) else a.listeners.get t := by
  rw [dropHandler_listeners]
  by_cases ht : h.recv.targeted = true
  · simp only [ht, if_true, true_and]
    by_cases hi : t = h.recvIdx
    · subst hi
      simp only [if_true]
      cases hg : a.listeners.get h.recvIdx with
      | none => simp [hg]
      | some l => simp only [Option.map_some]; exact SparseMap.get_insert_same hw _ _
    · simp only [hi, if_false]
      cases hg : a.listeners.get h.recvIdx with
      | none => rfl
      | some l => exact SparseMap.get_insert_other hw hi _
  · simp [ht]

theorem dropHandler_wf (hw : SparseMap.WF a.listeners) (hi : h.recvIdx < U32MAX) :
    SparseMap.WF (a.dropHandler k h).listeners := by
  rw [dropHandler_listeners]
  split
  · split
    · rename_i l hg
      exact SparseMap.insert_wf hw hi _ (fun hn => by rw [hg] at hn; cases hn)
    · exact hw
  · exact hw

/-- if `k` is only in the table of the event it receives, EVERY table `l` becomes `l.remove k` -/
theorem dropHandler_get (hw : SparseMap.WF a.listeners)
    (honly : ∀ t l, a.listeners.get t = some l → k ∈ l.entries → h.recv.targeted = true ∧ t = h.recvIdx) (t : Nat) :
    (a.dropHandler k h).listeners.get t = (a.listeners.get t).map (·.remove k) := by
  rw [dropHandler_get' a k h hw]
  split
  · rfl
  · rename_i hn
    cases hg : a.listeners.get t with
    | none => rfl
    | some l =>
      have : k ∉ l.entries := fun hk => hn (honly t l hg hk)
      rw [Option.map_some, HandlerList.remove_of_not_mem this]

theorem listenersFor_dropHandler (hw : SparseMap.WF a.listeners)
    (honly : ∀ t l, a.listeners.get t = some l → k ∈ l.entries → h.recv.targeted = true ∧ t = h.recvIdx)
    (hnd : ∀ t l, a.listeners.get t = some l → l.entries.Nodup) (t : Nat) :
    (a.dropHandler k h).listenersFor t = (a.listenersFor t).filter (· != k) := by
  unfold Arch.listenersFor
  rw [dropHandler_get a k h hw honly]
  cases hg : a.listeners.get t with
  | none => rfl
  | some l => simp only [Option.map_some, Option.getD_some]; exact remove_entries_filter (hnd t l hg) k

end dropHandler

/-! ### the world after the removal -/

theorem foldl_setArch_eq (g : Nat × Arch → Arch) (l : List (Nat × Arch)) (w : World) :
    l.foldl (fun w p => { w with archs := w.archs.set (g p).index (g p) }) w =
      { w with archs := l.foldl (fun s p => s.set (g p).index (g p)) w.archs } := by
  induction l generalizing w with
  | nil => rfl
  | cons p l ih => rw [List.foldl_cons, ih]; rfl

theorem foldl_congr_mem {α β : Type} (f g : β → α → β) (l : List α) (b : β) (hfg : ∀ b, ∀ x ∈ l, f b x = g b x) :
    l.foldl f b = l.foldl g b := by
  induction l generalizing b with
  | nil => rfl
  | cons x l ih =>
    rw [List.foldl_cons, List.foldl_cons, hfg b x List.mem_cons_self]
    exact ih _ fun b y hy => hfg b y (List.mem_cons_of_mem _ hy)

/-- the slab `Archetypes::remove_handler` leaves -/
def dropHandlerSlab (s : Slab Arch) (k : Key) (h : HInfo) : Slab Arch :=
  s.toList.foldl (fun s p => s.set (p.2.dropHandler k h).index (p.2.dropHandler k h)) s

theorem dropHandlerArchs_eq (w : World) (k : Key) (h : HInfo) :
    w.dropHandlerArchs k h = { w with archs := dropHandlerSlab w.archs k h } :=
  foldl_setArch_eq (fun p => p.2.dropHandler k h) _ w

/-- archetype by archetype (the slab keeps every archetype under its own index) -/
theorem dropHandlerArchs_get (w : World) (k : Key) (h : HInfo)
    (hidx : ∀ i a, w.archs.get i = some a → a.index = i) (i : Nat) :
    (w.dropHandlerArchs k h).archs.get i = (w.archs.get i).map (·.dropHandler k h) := by
  rw [dropHandlerArchs_eq]
  show (List.foldl _ w.archs w.archs.toList).get i = _
  rw [foldl_congr_mem _ (fun s p => s.set p.1 (p.2.dropHandler k h)) _ _ ?_]
  · exact Slab.get_foldl_toList (fun x => x.dropHandler k h) w.archs i
  · rintro s ⟨j, a⟩ hp
    have := hidx j a ((Slab.mem_toList_iff _ _ _).1 hp)
    simp only [dropHandler_index, this]

section removeHandlerPure
variable (w : World) (k : Key) (h : HInfo)

theorem removeHandlerPure_handlers :
    (removeHandlerPure w k h).handlers = match w.handlers.remove k with | some (_, hs) => hs | none => w.handlers := by
  unfold removeHandlerPure; rw [dropHandlerArchs_eq]; rfl
theorem removeHandlerPure_byGlobal :
    (removeHandlerPure w k h).byGlobal = (w.dropHandlerRegs k h).byGlobal := by
  unfold removeHandlerPure; rw [dropHandlerArchs_eq]
theorem removeHandlerPure_byInsertOrder :
    (removeHandlerPure w k h).byInsertOrder = w.byInsertOrder.filter (· != k) := by
  unfold removeHandlerPure; rw [dropHandlerArchs_eq]; rfl
theorem removeHandlerPure_removedIds :
    (removeHandlerPure w k h).removedIds = ('h', k) :: w.removedIds := by
  unfold removeHandlerPure; rw [dropHandlerArchs_eq]; rfl
theorem removeHandlerPure_archs_get (hidx : ∀ i a, w.archs.get i = some a → a.index = i) (i : Nat) :
    (removeHandlerPure w k h).archs.get i = (w.archs.get i).map (·.dropHandler k h) := by
  unfold removeHandlerPure
  exact dropHandlerArchs_get (w.dropHandlerRegs k h) k h hidx i

/-- nothing else is assigned -/
theorem removeHandlerPure_frame :
    let w' := removeHandlerPure w k h
    w'.debug = w.debug ∧ w'.entities = w.entities ∧ w'.resIndex = w.resIndex ∧ w'.resCount = w.resCount ∧
    w'.comps = w.comps ∧ w'.gevs = w.gevs ∧ w'.tevs = w.tevs ∧ w'.insertCounter = w.insertCounter ∧
    w'.queue = w.queue ∧ w'.inflightOwned = w.inflightOwned ∧ w'.arenaEpoch = w.arenaEpoch ∧
    w'.arenaCount = w.arenaCount ∧ w'.epochCtr = w.epochCtr ∧ w'.ords = w.ords ∧
    w'.nextESerial = w.nextESerial ∧ w'.nextCSerial = w.nextCSerial ∧ w'.budget = w.budget ∧ w'.out = w.out ∧
    w'.edrops = w.edrops ∧ w'.cdrops = w.cdrops := by
  unfold removeHandlerPure; rw [dropHandlerArchs_eq]
  simp only [World.dropHandlerRegs, and_self]

/-- if `k` is only in the global list of the event it receives, EVERY global list `l` becomes `l.remove k` -/
theorem dropHandlerRegs_byGlobal
    (honly : ∀ i l, w.byGlobal[i]? = some l → k ∈ l.entries → h.recv.targeted = false ∧ i = h.recvIdx) :
    (w.dropHandlerRegs k h).byGlobal = w.byGlobal.map (·.remove k) := by
  apply List.ext_getElem?
  intro i
  rw [List.getElem?_map]
  have hid : ∀ l, w.byGlobal[i]? = some l → ¬ (h.recv.targeted = false ∧ i = h.recvIdx) → l.remove k = l :=
    fun l hl hn => HandlerList.remove_of_not_mem fun hk => hn (honly i l hl hk)
  show (if h.recv.targeted then w.byGlobal else _)[i]? = _
  by_cases ht : h.recv.targeted = true
  · simp only [ht, if_true]
    cases hl : w.byGlobal[i]? with
    | none => rfl
    | some l => rw [Option.map_some, hid l hl (by simp [ht])]
  · have ht' : h.recv.targeted = false := by simpa using ht
    simp only [ht', Bool.false_eq_true, if_false]
    cases hr : w.byGlobal[h.recvIdx]? with
    | none =>
      simp only
      cases hl : w.byGlobal[i]? with
      | none => rfl
      | some l => rw [Option.map_some, hid l hl (by rintro ⟨-, rfl⟩; rw [hr] at hl; cases hl)]
    | some l0 =>
      simp only
      rw [List.getElem?_set]
      by_cases hi : h.recvIdx = i
      · subst hi
        have : h.recvIdx < w.byGlobal.length := by
          rcases Nat.lt_or_ge h.recvIdx w.byGlobal.length with h' | h'
          · exact h'
          · rw [List.getElem?_eq_none h'] at hr; cases hr
        simp only [this, if_true, hr, Option.map_some]
      · simp only [hi, if_false]
        cases hl : w.byGlobal[i]? with
        | none => rfl
        | some l => rw [Option.map_some, hid l hl (by rintro ⟨-, rfl⟩; exact hi rfl)]

end removeHandlerPure


/-- What the removal of handler `k` (with registry entry `h`) relies on; every field is a consequence of the validated
    quiescent-point invariant (`invArch`: `a.index == i`; `invListeners`/`invGlobal`: the lists are duplicate free and
    a handler is only in the list of the event it receives — see `RemovalPre.of_inv`), of `SlotMap.WF` (C03) and
    of `SparseMap.WF` (C19). -/
structure RemovalPre (w : World) (k : Key) (h : HInfo) : Prop where
  wfH : SlotMap.WF w.handlers
  live : w.handlers.get k = some h
  archIdx : ∀ i a, w.archs.get i = some a → a.index = i
  wfL : ∀ i a, w.archs.get i = some a → SparseMap.WF a.listeners
  nodupG : ∀ l ∈ w.byGlobal, l.entries.Nodup
  nodupL : ∀ i a, w.archs.get i = some a → ∀ t l, a.listeners.get t = some l → l.entries.Nodup
  onlyG : ∀ i l, w.byGlobal[i]? = some l → k ∈ l.entries → h.recv.targeted = false ∧ i = h.recvIdx
  onlyL : ∀ i a, w.archs.get i = some a → ∀ t l, a.listeners.get t = some l → k ∈ l.entries →
    h.recv.targeted = true ∧ t = h.recvIdx

namespace RemovalPre
variable {w : World} {k : Key} {h : HInfo}

/-- every global list `l` becomes `l.remove k` -/
theorem byGlobal_eq (pre : RemovalPre w k h) :
    (removeHandlerPure w k h).byGlobal = w.byGlobal.map (·.remove k) := by
  rw [removeHandlerPure_byGlobal, dropHandlerRegs_byGlobal w k h pre.onlyG]

/-- the archetypes are the old ones, each with `k` dropped -/
theorem archs_get (pre : RemovalPre w k h) (i : Nat) :
    (removeHandlerPure w k h).archs.get i = (w.archs.get i).map (·.dropHandler k h) :=
  removeHandlerPure_archs_get w k h pre.archIdx i

/-- every listener table `l` of every archetype becomes `l.remove k` -/
theorem listeners_get (pre : RemovalPre w k h) {i : Nat} {a : Arch} (ha : w.archs.get i = some a) (t : Nat) :
    (a.dropHandler k h).listeners.get t = (a.listeners.get t).map (·.remove k) :=
  dropHandler_get a k h (pre.wfL i a ha) (pre.onlyL i a ha) t

theorem handlers_get (pre : RemovalPre w k h) (k' : Key) :
    (removeHandlerPure w k h).handlers.get k' = if k' = k then none else w.handlers.get k' := by
  rw [removeHandlerPure_handlers]
  cases hr : w.handlers.remove k with
  | none =>
    have := SlotMap.remove_eq_none_iff.1 hr
    rw [pre.live] at this; cases this
  | some p =>
    obtain ⟨v, hs⟩ := p
    exact SlotMap.get_remove pre.wfH hr k'

end RemovalPre


/-- `get_by_index` finds exactly entries of the iteration -/
theorem SlotMap.getByIndex_mem_toList {α : Type} {sm : SlotMap α} {i : Nat} {k : Key} {v : α}
    (hg : sm.getByIndex i = some (k, v)) : (k, v) ∈ sm.toList ∧ k.idx = i := by
  unfold SlotMap.getByIndex at hg
  unfold SlotMap.toList
  cases hs : sm.slots[i]? with
  | none => simp [hs] at hg
  | some s =>
    simp only [hs] at hg
    by_cases he : s.gen % 2 = 0
    · simp [he] at hg
    · simp only [he, if_false, Option.map_eq_some_iff] at hg
      obtain ⟨v', hv, heq⟩ := hg
      cases heq
      refine ⟨?_, rfl⟩
      simp only [List.mem_filterMap, List.mem_zipIdx_iff_getElem?, Prod.exists]
      exact ⟨s, i, hs, by simp [he, hv]⟩

/-- the Bool `invListeners` as a usable statement: for every live archetype and every live targeted event the
    listener list is exactly the selection `handlersWhere` computes from the registries -/
theorem invListeners_pick {w : World} (hinv : w.invListeners = true) {i : Nat} {a : Arch}
    (ha : w.archs.get i = some a) {tk : Key} {info : EvInfo} (ht : (tk, info) ∈ w.tevs.toList) :
    a.listenersFor tk.idx =
      w.handlersWhere (fun h => h.recv.targeted && h.recvKey == tk && h.filter.matches a.S) := by
  unfold World.invListeners at hinv
  rw [List.all_eq_true] at hinv
  have h1 := hinv (i, a) ((Slab.mem_toList_iff _ _ _).2 ha)
  simp only [Bool.and_eq_true, List.all_eq_true] at h1
  have h2 := h1.1 (tk, info) ht
  unfold Arch.listenersFor
  cases hg : a.listeners.get tk.idx with
  | none =>
    rw [hg] at h2
    simp only [List.isEmpty_iff] at h2
    simp [h2]
  | some l =>
    rw [hg] at h2
    simp only [Bool.and_eq_true, beq_iff_eq] at h2
    simp [h2.1.1]


theorem mem_live (w : World) (k : Key) (h : HInfo) :
    (k, h) ∈ (w.byInsertOrder.filterMap fun k => (w.handlers.get k).map fun h => (k, h)) ↔
      k ∈ w.byInsertOrder ∧ w.handlers.get k = some h := by
  simp only [List.mem_filterMap, Option.map_eq_some_iff, Prod.mk.injEq]
  constructor
  · rintro ⟨k', hk', h', hh', rfl, rfl⟩; exact ⟨hk', hh'⟩
  · rintro ⟨hk, hh⟩; exact ⟨k, hk, h, hh, rfl, rfl⟩

theorem mem_handlersWhere (w : World) (p : HInfo → Bool) (k : Key) :
    k ∈ w.handlersWhere p ↔ k ∈ w.byInsertOrder ∧ ∃ h, w.handlers.get k = some h ∧ p h = true := by
  unfold World.handlersWhere
  simp only [List.mem_append, List.mem_map, List.mem_filter, Prod.exists, exists_and_right, exists_eq_right,
    mem_live, Bool.and_eq_true, beq_iff_eq]
  constructor
  · rintro ((⟨h, ⟨hk, hh⟩, -, hp⟩ | ⟨h, ⟨hk, hh⟩, -, hp⟩) | ⟨h, ⟨hk, hh⟩, -, hp⟩) <;> exact ⟨hk, h, hh, hp⟩
  · rintro ⟨hk, h, hh, hp⟩
    cases hpr : h.prio
    · exact .inl (.inl ⟨h, ⟨hk, hh⟩, hpr, hp⟩)
    · exact .inl (.inr ⟨h, ⟨hk, hh⟩, hpr, hp⟩)
    · exact .inr ⟨h, ⟨hk, hh⟩, hpr, hp⟩


/-- live handlers of priority `pr` satisfying `p`, in insertion order -/
def World.sel (w : World) (p : HInfo → Bool) (pr : Priority) : List Key :=
  ((w.byInsertOrder.filterMap fun k => (w.handlers.get k).map fun h => (k, h)).filter
    fun (_, h) => h.prio == pr && p h).map (·.1)

theorem handlersWhere_eq (w : World) (p : HInfo → Bool) :
    w.handlersWhere p = w.sel p .high ++ w.sel p .medium ++ w.sel p .low := rfl

theorem sel_sublist (w : World) (q : Key × HInfo → Bool) (l : List Key) :
    List.Sublist (((l.filterMap fun k => (w.handlers.get k).map fun h => (k, h)).filter q).map (·.1)) l := by
  induction l with
  | nil => simp
  | cons k l ih =>
    cases hg : w.handlers.get k with
    | none => rw [List.filterMap_cons_none (by simp [hg])]; exact ih.cons _
    | some h =>
      rw [List.filterMap_cons_some (b := (k, h)) (by simp [hg]), List.filter_cons]
      split
      · exact ih.cons_cons _
      · exact ih.cons _

theorem mem_sel (w : World) (p : HInfo → Bool) (pr : Priority) (k : Key) :
    k ∈ w.sel p pr ↔ k ∈ w.byInsertOrder ∧ ∃ h, w.handlers.get k = some h ∧ h.prio = pr ∧ p h = true := by
  unfold World.sel
  simp only [List.mem_map, List.mem_filter, Prod.exists, exists_and_right, exists_eq_right, mem_live,
    Bool.and_eq_true, beq_iff_eq]
  constructor
  · rintro ⟨h, ⟨hk, hh⟩, hq⟩; exact ⟨hk, h, hh, hq⟩
  · rintro ⟨hk, h, hh, hq⟩; exact ⟨h, ⟨hk, hh⟩, hq⟩

theorem handlersWhere_nodup (w : World) (p : HInfo → Bool) (hn : w.byInsertOrder.Nodup) :
    (w.handlersWhere p).Nodup := by
  rw [handlersWhere_eq]
  have hs : ∀ pr, (w.sel p pr).Nodup := fun pr => (sel_sublist w _ w.byInsertOrder).nodup hn
  have hd : ∀ pr pr', pr ≠ pr' → ∀ a ∈ w.sel p pr, ∀ b ∈ w.sel p pr', a ≠ b := fun pr pr' hne a ha b hb hab => by
    rw [mem_sel] at ha hb
    obtain ⟨-, h1, hh1, hq1, -⟩ := ha
    obtain ⟨-, h2, hh2, hq2, -⟩ := hb
    subst hab
    rw [hh1] at hh2; cases hh2
    exact hne (hq1.symm.trans hq2)
  simp only [List.nodup_append, List.mem_append]
  refine ⟨⟨hs _, hs _, hd _ _ (by decide)⟩, hs _, ?_⟩
  rintro a (ha | ha) b hb
  · exact hd _ _ (by decide) a ha b hb
  · exact hd _ _ (by decide) a ha b hb


/-- second conjunct of `invListeners`: a non-empty table belongs to a live targeted event -/
theorem invListeners_dead {w : World} (hinv : w.invListeners = true) {i : Nat} {a : Arch}
    (ha : w.archs.get i = some a) (hw : SparseMap.WF a.listeners) {t : Nat} {l : HandlerList Key}
    (hl : a.listeners.get t = some l) (hne : l.entries ≠ []) : ∃ tk info, w.tevs.getByIndex t = some (tk, info) := by
  unfold World.invListeners at hinv
  rw [List.all_eq_true] at hinv
  have h1 := hinv (i, a) ((Slab.mem_toList_iff _ _ _).2 ha)
  simp only [Bool.and_eq_true, List.all_eq_true] at h1
  have h2 := h1.2 (t, l) ((SparseMap.keys_values_aligned hw t l).1 hl)
  simp only [Bool.or_eq_true, List.isEmpty_iff] at h2
  rcases h2 with h2 | h2
  · exact absurd h2 hne
  · cases hg : w.tevs.getByIndex t with
    | none => rw [hg] at h2; cases h2
    | some p => exact ⟨p.1, p.2, rfl⟩

/-- every listener table is either empty or exactly a `handlersWhere` selection for the event key at its index -/
theorem invListeners_table {w : World} (hinv : w.invListeners = true) {i : Nat} {a : Arch}
    (ha : w.archs.get i = some a) (hw : SparseMap.WF a.listeners) {t : Nat} {l : HandlerList Key}
    (hl : a.listeners.get t = some l) :
    l.entries = [] ∨ ∃ tk, tk.idx = t ∧
      l.entries = w.handlersWhere (fun h => h.recv.targeted && h.recvKey == tk && h.filter.matches a.S) := by
  by_cases hne : l.entries = []
  · exact .inl hne
  · obtain ⟨tk, info, hg⟩ := invListeners_dead hinv ha hw hl hne
    obtain ⟨hm, hidx⟩ := SlotMap.getByIndex_mem_toList hg
    refine .inr ⟨tk, hidx, ?_⟩
    have := invListeners_pick hinv ha hm
    unfold Arch.listenersFor at this
    rw [hidx, hl] at this
    exact this

theorem invGlobal_unfold {w : World} (hinv : w.invGlobal = true) :
    (∀ gk info, (gk, info) ∈ w.gevs.toList → ∃ l, w.byGlobal[gk.idx]? = some l ∧
      l.entries = w.handlersWhere (fun h => !h.recv.targeted && h.recvKey == gk)) ∧
    (∀ i l, w.byGlobal[i]? = some l → l.entries = [] ∨ ∃ gk info, w.gevs.getByIndex i = some (gk, info)) ∧
    w.byInsertOrder.length = w.handlers.len ∧
    (∀ k ∈ w.byInsertOrder, w.handlers.contains k = true) := by
  unfold World.invGlobal at hinv
  simp only [Bool.and_eq_true, List.all_eq_true, beq_iff_eq] at hinv
  obtain ⟨⟨⟨h1, h2⟩, h3⟩, h4⟩ := hinv
  refine ⟨fun gk info hm => ?_, fun i l hl => ?_, h3, h4⟩
  · have := h1 (gk, info) hm
    cases hg : w.byGlobal[gk.idx]? with
    | none => simp [hg] at this
    | some l => exact ⟨l, rfl, by simpa [hg] using this⟩
  · have := h2 (l, i) (by rw [List.mem_zipIdx_iff_getElem?]; exact hl)
    simp only [Bool.or_eq_true, List.isEmpty_iff] at this
    rcases this with h | h
    · exact .inl h
    · cases hg : w.gevs.getByIndex i with
      | none => rw [hg] at h; cases h
      | some p => exact .inr ⟨p.1, p.2, rfl⟩

/-- every global list is either empty or exactly a `handlersWhere` selection for the event key at its index -/
theorem invGlobal_table {w : World} (hinv : w.invGlobal = true) {i : Nat} {l : HandlerList Key}
    (hl : w.byGlobal[i]? = some l) :
    l.entries = [] ∨ ∃ gk, gk.idx = i ∧
      l.entries = w.handlersWhere (fun h => !h.recv.targeted && h.recvKey == gk) := by
  obtain ⟨h1, h2, -, -⟩ := invGlobal_unfold hinv
  rcases h2 i l hl with h | ⟨gk, info, hg⟩
  · exact .inl h
  · obtain ⟨hm, hidx⟩ := SlotMap.getByIndex_mem_toList hg
    obtain ⟨l', hl', he⟩ := h1 gk info hm
    rw [hidx, hl] at hl'
    cases hl'
    exact .inr ⟨gk, hidx, he⟩

theorem invArch_index {w : World} (hinv : w.invArch = true) {i : Nat} {a : Arch} (ha : w.archs.get i = some a) :
    a.index = i := by
  unfold World.invArch at hinv
  simp only [Bool.and_eq_true, List.all_eq_true] at hinv
  have := hinv.2 (i, a) ((Slab.mem_toList_iff _ _ _).2 ha)
  simp only [beq_iff_eq] at this
  exact this.1.1.1.1

/-- `RemovalPre` from the executable invariant: `invArch`, `invListeners`, `invGlobal`; plus what the invariant
    does not spell out — the insertion-order index is duplicate free, the slot map / sparse maps are well formed,
    and `recvIdx` is the index of `recvKey` (by construction in `addHandler`). -/
theorem RemovalPre.of_inv {w : World} {k : Key} {h : HInfo}
    (hA : w.invArch = true) (hL : w.invListeners = true) (hG : w.invGlobal = true)
    (hn : w.byInsertOrder.Nodup) (wfH : SlotMap.WF w.handlers)
    (wfL : ∀ i a, w.archs.get i = some a → SparseMap.WF a.listeners)
    (live : w.handlers.get k = some h) (hrk : h.recvIdx = h.recvKey.idx) : RemovalPre w k h where
  wfH := wfH
  live := live
  archIdx := fun _ _ ha => invArch_index hA ha
  wfL := wfL
  nodupG := fun l hl => by
    obtain ⟨i, hi⟩ := List.mem_iff_getElem?.1 hl
    rcases invGlobal_table hG hi with h | ⟨_, _, h⟩
    · rw [h]; exact List.nodup_nil
    · rw [h]; exact handlersWhere_nodup w _ hn
  nodupL := fun i a ha t l hl => by
    rcases invListeners_table hL ha (wfL i a ha) hl with h | ⟨_, _, h⟩
    · rw [h]; exact List.nodup_nil
    · rw [h]; exact handlersWhere_nodup w _ hn
  onlyG := fun i l hl hk => by
    rcases invGlobal_table hG hl with he | ⟨gk, hidx, he⟩
    · rw [he] at hk; cases hk
    · rw [he, mem_handlersWhere] at hk
      obtain ⟨-, h', hh', hp⟩ := hk
      rw [live] at hh'; cases hh'
      simp only [Bool.and_eq_true, Bool.not_eq_true', beq_iff_eq] at hp
      exact ⟨hp.1, by rw [hrk, hp.2, hidx]⟩
  onlyL := fun i a ha t l hl hk => by
    rcases invListeners_table hL ha (wfL i a ha) hl with he | ⟨tk, hidx, he⟩
    · rw [he] at hk; cases hk
    · rw [he, mem_handlersWhere] at hk
      obtain ⟨-, h', hh', hp⟩ := hk
      rw [live] at hh'; cases hh'
      simp only [Bool.and_eq_true, beq_iff_eq] at hp
      exact ⟨hp.1.1, by rw [hrk, hp.1.2, hidx]⟩


/-! ### the shape of `deliverOne` -/

/-- one iteration of the handler loop of `deliverOne` (`owned`: a previous handler took the event), with the
    handler invocation `run` (`runHandler` in the model) as a parameter -/
def handlerStep (run : Key → QItem → Loc → M Bool) (it : QItem) (info : EvInfo) (loc : Loc) (hk : Key) (owned : Bool) :
    M (ForInStep Bool) := do
  if !owned then
    let r ← tryCatch (run hk it loc) fun e => do
      -- `EventDropper::drop`, first half
      match e with
      | .panic _ => if !(← get).inflightOwned && info.needsDrop then dropEvent it
      | _ => pure ()
      throw e
    pure (.yield r)
  else pure (.yield owned)

/-- Everything `deliverOne` does after the lookup of the registry entry `info`, of the handler list `hs` and of the
    target's location `loc` — a copy of the rest of `deliverOne`: the handler loop is `for hk in hs`. -/
def deliverBodyWith (run : Key → QItem → Loc → M Bool) (it : QItem) (info : EvInfo) (hs : List Key) (loc : Loc) :
    M Unit := do
  modify fun w => { w with inflightOwned := false }
  let owned ← forIn hs false (handlerStep run it info loc)
  modify fun w => { w with queue := w.queue.reverse }
  if owned then return
  match info.kind with
  | .normal => if info.needsDrop then dropEvent it
  | .insert c =>
    dbgAssert (loc != Loc.NULL) "world.rs:flush:insert:location"
    let dst ← traverseInsert loc.arch c
    moveEntity loc dst [(c, it.pay.cell)]
  | .remove c =>
    let dst ← traverseRemove loc.arch c
    moveEntity loc dst []
  | .spawn => spawnAll
  | .despawn =>
    spawnAll
    removeEntity loc
    resRefresh

/-- the handler loop and disposition of `deliverOne` -/
def deliverBody (it : QItem) (info : EvInfo) (hs : List Key) (loc : Loc) : M Unit :=
  deliverBodyWith runHandler it info hs loc

/-- the target of a targeted event does not exist when the event is popped: no handler runs, the event is dropped -/
theorem deliverOne_target_missing (it : QItem) (w : World) (k : Key) (info : EvInfo)
    (ht : it.ty.targeted = true) (hev : w.tevs.getByIndex it.idx = some (k, info))
    (hno : w.entities.get it.target = none) :
    (deliverOne it).run.run w = (if info.needsDrop then dropEvent it else pure ()).run.run w := by
  unfold deliverOne
  simp only [run_bind, run_get, ht, hev, hno, if_true, run_pure]

/-- the target exists when the event is popped: the handler list is the one its archetype holds NOW -/
theorem deliverOne_target_live (it : QItem) (w : World) (k : Key) (info : EvInfo) (loc : Loc) (a : Arch)
    (ht : it.ty.targeted = true) (hev : w.tevs.getByIndex it.idx = some (k, info))
    (hloc : w.entities.get it.target = some loc) (ha : w.archs.get loc.arch = some a) :
    (deliverOne it).run.run w = (deliverBody it info (a.listenersFor it.idx) loc).run.run w := by
  unfold deliverOne deliverBody deliverBodyWith handlerStep Arch.listenersFor
  simp only [run_bind, run_get, ht, hev, hloc, if_true, getArch, ha, run_pure]
  rfl

theorem deliverOne_global (it : QItem) (w : World) (k : Key) (info : EvInfo) (l : HandlerList Key)
    (ht : it.ty.targeted = false) (hev : w.gevs.getByIndex it.idx = some (k, info))
    (hl : w.byGlobal[it.idx]? = some l) :
    (deliverOne it).run.run w = (deliverBody it info l.entries Loc.NULL).run.run w := by
  unfold deliverOne deliverBody deliverBodyWith handlerStep
  simp only [run_bind, run_get, ht, hev, hl, run_pure, Bool.false_eq_true, if_false]
  rfl

theorem forIn_congr_mem {m : Type → Type} [Monad m] {α β : Type} (l : List α) (b : β)
    (f g : α → β → m (ForInStep β)) (h : ∀ a ∈ l, ∀ b, f a b = g a b) : forIn l b f = forIn l b g := by
  induction l generalizing b with
  | nil => rfl
  | cons a l ih =>
    rw [List.forIn_cons, List.forIn_cons, h a List.mem_cons_self b]
    congr 1
    funext r
    cases r with
    | done b => rfl
    | yield b => exact ih b fun a ha b => h a (List.mem_cons_of_mem _ ha) b

/-- the delivery invokes handlers only through the looked-up list: its behaviour does not depend on what the
    invocation would do for any handler outside `hs` -/
theorem deliverBodyWith_congr (run run' : Key → QItem → Loc → M Bool) (it : QItem) (info : EvInfo) (hs : List Key)
    (loc : Loc) (h : ∀ hk ∈ hs, run hk it loc = run' hk it loc) :
    deliverBodyWith run it info hs loc = deliverBodyWith run' it info hs loc := by
  unfold deliverBodyWith
  rw [forIn_congr_mem hs false (handlerStep run it info loc) (handlerStep run' it info loc) ?_]
  intro hk hhk b
  unfold handlerStep
  rw [h hk hhk]


/-- a `for` loop whose every iteration is a pure state update -/
theorem run_forIn_yield {γ : Type} (l : List γ) (f : γ → PUnit → M (ForInStep PUnit)) (g : γ → World → World)
    (hf : ∀ x s w, (f x s).run.run w = (.ok (.yield PUnit.unit), g x w)) (w : World) :
    (forIn l PUnit.unit f).run.run w = (.ok PUnit.unit, l.foldl (fun w x => g x w) w) := by
  induction l generalizing w with
  | nil => rfl
  | cons x l ih =>
    rw [List.forIn_cons, run_bind, hf]
    exact ih _

/-- `World::remove_handler`, completely: the membership test, the announcement `RemoveHandler(k)` (a full `send`,
    run from the UNCHANGED world), then — from the world `w1` the announcement left — the `unwrap` of
    `handlers.remove`, the registry update, the debug assertion, and the archetype sweep. -/
theorem removeHandler_eq (k : Key) (w : World) :
    (removeHandler k).run.run w =
      if w.handlers.contains k = false then (.ok false, w) else
      match (sendGlobal .remH { id := k }).run.run w with
      | (.error e, w1) => (.error e, w1)
      | (.ok _, w1) =>
        match w1.handlers.remove k with
        | none => (.error (.panic "internal:unwrap on None (remove_handler)"), w1)
        | some (h, _) =>
          if w1.debug && !((w1.dropHandlerRegs k h).handlers.len == (w1.dropHandlerRegs k h).byInsertOrder.length) then
            (.error (.assert "handler.rs:remove:len"), w1.dropHandlerRegs k h)
          else (.ok true, removeHandlerPure w1 k h) := by
  unfold removeHandler
  simp only [run_bind, run_get]
  by_cases hc : w.handlers.contains k = false
  · simp only [hc, Bool.not_false, if_true, run_pure]
  · have hc' : w.handlers.contains k = true := by simpa using hc
    simp only [hc', Bool.not_true, Bool.false_eq_true, if_false, run_bind, Bool.true_eq_false]
    generalize (sendGlobal .remH { id := k }).run.run w = r
    obtain ⟨(e|u), w1⟩ := r
    · rfl
    · simp only [run_get]
      cases hr : w1.handlers.remove k with
      | none => rfl
      | some p =>
        obtain ⟨h, hs⟩ := p
        simp only [run_bind, run_set, run_get, dbgAssert_run]
        unfold removeHandlerPure World.dropHandlerArchs World.dropHandlerRegs
        simp only [hr]
        by_cases hd : (w1.debug && !hs.len == (List.filter (fun x => x != k) w1.byInsertOrder).length) = true
        · simp only [hd, if_true]
          rfl
        · simp only [hd, Bool.false_eq_true, if_false]
          rw [run_forIn_yield _ _
            (fun p w => { w with archs := w.archs.set (p.2.dropHandler k h).index (p.2.dropHandler k h) }) ?_]
          · rfl
          · intro x s w
            unfold Arch.dropHandler
            dsimp only
            by_cases ht : h.recv.targeted = true
            · simp only [ht, if_true]
              cases x.2.listeners.get h.recvIdx <;> rfl
            · simp only [ht]
              rfl


/-! ### `remove_targeted_event` / `remove_global_event`: which handlers go -/

/-- the handlers `remove_targeted_event(k)` removes: in insertion order, those that receive `k` or may send it -/
def targetedEventUsers (w : World) (k : Key) : List Key :=
  w.byInsertOrder.filter fun hk =>
    match w.handlers.get hk with
    | some h => (h.recv.targeted && h.recvKey == k) || h.sentT.contains k.idx
    | none => false

/-- the handlers `remove_global_event(k)` removes -/
def globalEventUsers (w : World) (k : Key) : List Key :=
  w.byInsertOrder.filter fun hk =>
    match w.handlers.get hk with
    | some h => (!h.recv.targeted && h.recvKey == k) || h.sentG.contains k.idx
    | none => false

/-- the `toRemove` list of `removeEvent ty k`, computed in the world the announcement left -/
def eventUsers (w : World) (ty : EvTy) (k : Key) : List Key :=
  if ty.targeted then targetedEventUsers w k else globalEventUsers w k

/-- `removeEvent` with the selection named -/
def removeEventSel (ty : EvTy) (k : Key) : M Bool := do
  assertQueueEmpty
  let w ← get
  if ty.targeted then
    if !w.tevs.contains k then return false
    sendGlobal .remT { id := k }
    let w ← get
    for hk in targetedEventUsers w k do let _ ← removeHandler hk
    let w ← get
    match w.tevs.remove k with
    | none => throw (.panic "internal:unwrap on None (remove_targeted_event)")
    | some (info, tevs) =>
      set { w with tevs, removedIds := ('t', k) :: w.removedIds }
      match info.kind with
      | .insert c =>
        let w ← get
        match w.comps.getByIndex c with
        | some (ck, ci) => set { w with comps := w.comps.set ck { ci with insEvents := ci.insEvents.filter (· != k) } }
        | none => pure ()
      | .remove c =>
        let w ← get
        match w.comps.getByIndex c with
        | some (ck, ci) => set { w with comps := w.comps.set ck { ci with remEvents := ci.remEvents.filter (· != k) } }
        | none => pure ()
      | _ => pure ()
      pure true
  else
    if !w.gevs.contains k then return false
    sendGlobal .remG { id := k }
    let w ← get
    for hk in globalEventUsers w k do let _ ← removeHandler hk
    let w ← get
    match w.gevs.remove k with
    | none => throw (.panic "internal:unwrap on None (remove_global_event)")
    | some (_, gevs) =>
      set { w with gevs, removedIds := ('g', k) :: w.removedIds }
      pure true

theorem removeEvent_eq_sel (ty : EvTy) (k : Key) : removeEvent ty k = removeEventSel ty k := rfl

theorem mem_targetedEventUsers (w : World) (k hk : Key) :
    hk ∈ targetedEventUsers w k ↔ hk ∈ w.byInsertOrder ∧ ∃ h, w.handlers.get hk = some h ∧
      ((h.recv.targeted = true ∧ h.recvKey = k) ∨ k.idx ∈ h.sentT) := by
  unfold targetedEventUsers
  rw [List.mem_filter]
  cases hg : w.handlers.get hk with
  | none => simp
  | some h => simp

theorem mem_globalEventUsers (w : World) (k hk : Key) :
    hk ∈ globalEventUsers w k ↔ hk ∈ w.byInsertOrder ∧ ∃ h, w.handlers.get hk = some h ∧
      ((h.recv.targeted = false ∧ h.recvKey = k) ∨ k.idx ∈ h.sentG) := by
  unfold globalEventUsers
  rw [List.mem_filter]
  cases hg : w.handlers.get hk with
  | none => simp
  | some h => simp

theorem targetedEventUsers_sublist (w : World) (k : Key) : (targetedEventUsers w k).Sublist w.byInsertOrder :=
  List.filter_sublist
theorem globalEventUsers_sublist (w : World) (k : Key) : (globalEventUsers w k).Sublist w.byInsertOrder :=
  List.filter_sublist

/-- the removals of `removeEvent`, in the order of the selection (= insertion order) -/
def removeAll (l : List Key) : M PUnit :=
  forIn l PUnit.unit fun hk _ => do
    let _ ← removeHandler hk
    pure (ForInStep.yield PUnit.unit)

/-- the registry update that ends `removeEvent` -/
def removeEventFinish (ty : EvTy) (k : Key) : M Bool := do
  if ty.targeted then
    let w ← get
    match w.tevs.remove k with
    | none => throw (.panic "internal:unwrap on None (remove_targeted_event)")
    | some (info, tevs) =>
      set { w with tevs, removedIds := ('t', k) :: w.removedIds }
      match info.kind with
      | .insert c =>
        let w ← get
        match w.comps.getByIndex c with
        | some (ck, ci) => set { w with comps := w.comps.set ck { ci with insEvents := ci.insEvents.filter (· != k) } }
        | none => pure ()
      | .remove c =>
        let w ← get
        match w.comps.getByIndex c with
        | some (ck, ci) => set { w with comps := w.comps.set ck { ci with remEvents := ci.remEvents.filter (· != k) } }
        | none => pure ()
      | _ => pure ()
      pure true
  else
    let w ← get
    match w.gevs.remove k with
    | none => throw (.panic "internal:unwrap on None (remove_global_event)")
    | some (_, gevs) =>
      set { w with gevs, removedIds := ('g', k) :: w.removedIds }
      pure true

/-- `removeEvent` on a live event type, from a quiescent world: FIRST the announcement (`RemoveTargetedEvent` /
    `RemoveGlobalEvent`, a full `send` from the unchanged world), THEN — in the world `w1` the announcement left —
    the selection `eventUsers w1 ty k`, one `removeHandler` per selected handler in insertion order, and last the
    registry entry of the event itself. -/
theorem removeEvent_run (ty : EvTy) (k : Key) (w : World) (hq : w.queue = [])
    (hlive : (if ty.targeted then w.tevs.contains k else w.gevs.contains k) = true) :
    (removeEvent ty k).run.run w =
      (do sendGlobal (if ty.targeted then .remT else .remG) { id := k }
          let w1 ← get
          removeAll (eventUsers w1 ty k)
          removeEventFinish ty k : M Bool).run.run w := by
  unfold removeEvent removeAll removeEventFinish eventUsers targetedEventUsers globalEventUsers assertQueueEmpty
  by_cases ht : ty.targeted = true
  · simp only [ht, if_true] at hlive
    simp only [run_bind, run_get, hq, List.isEmpty_nil, Bool.not_true, Bool.false_eq_true, if_false, ht, if_true,
      hlive, run_pure]
    rfl
  · have ht' : ty.targeted = false := by simpa using ht
    simp only [ht', Bool.false_eq_true, if_false] at hlive
    simp only [run_bind, run_get, hq, List.isEmpty_nil, Bool.not_true, Bool.false_eq_true, if_false, ht',
      hlive, run_pure]
    rfl


/-- every normal return of `removeHandler k`, taken apart -/
theorem removeHandler_ok {k : Key} {w : World} {b : Bool} {w' : World}
    (hr : (removeHandler k).run.run w = (.ok b, w')) :
    (b = false ∧ w.handlers.contains k = false ∧ w' = w) ∨
    (b = true ∧ w.handlers.contains k = true ∧ ∃ w1 h hs,
      (sendGlobal .remH { id := k }).run.run w = (.ok (), w1) ∧
      w1.handlers.remove k = some (h, hs) ∧ w1.handlers.get k = some h ∧ w' = removeHandlerPure w1 k h) := by
  rw [removeHandler_eq] at hr
  by_cases hc : w.handlers.contains k = false
  · rw [if_pos hc] at hr
    cases hr
    exact .inl ⟨rfl, hc, rfl⟩
  · rw [if_neg hc] at hr
    have hc' : w.handlers.contains k = true := by simpa using hc
    generalize hs : (sendGlobal .remH { id := k }).run.run w = r at hr
    obtain ⟨(e|u), w1⟩ := r
    · cases hr
    · simp only at hr
      cases hrm : w1.handlers.remove k with
      | none => rw [hrm] at hr; cases hr
      | some p =>
        obtain ⟨h, hs'⟩ := p
        rw [hrm] at hr
        simp only at hr
        split at hr
        · cases hr
        · cases hr
          exact .inr ⟨rfl, hc', w1, h, hs', rfl, hrm, SlotMap.get_of_remove hrm, rfl⟩


/-! ### event delivery never touches a handler's registry entry (only its fetcher caches) -/

theorem SlotMap.get_set_of_get {α : Type} {sm : SlotMap α} {k : Key} {v0 : α} (hg : sm.get k = some v0) (v : α)
    (k' : Key) : (sm.set k v).get k' = if k' = k then some v else sm.get k' := by
  unfold SlotMap.get at hg
  unfold SlotMap.set SlotMap.get
  cases hs : sm.slots[k.idx]? with
  | none => simp [hs] at hg
  | some s =>
    simp only [hs] at hg ⊢
    by_cases hgen : s.gen = k.gen
    · simp only [hgen, if_true] at hg ⊢
      simp only [List.getElem?_set]
      have hlt : k.idx < sm.slots.length := (List.getElem?_eq_some_iff.1 hs).1
      by_cases hi : k.idx = k'.idx
      · simp only [hi, if_true]
        rw [← hi]
        simp only [hlt, if_true]
        by_cases hk : k' = k
        · subst hk; simp
        · have : ¬ k.gen = k'.gen := fun e => hk (by cases k; cases k'; simp_all)
          have h2 : ¬ s.gen = k'.gen := fun e => this (hgen ▸ e)
          simp [hk, this, hs, h2]
      · have hk : ¬ k' = k := fun e => hi (by rw [e])
        simp [hi, hk]
    · simp [hgen] at hg

/-- a handler's registry entry without its fetcher caches -/
def HInfo.core (h : HInfo) : HInfo := { h with params := h.params.map fun p => { p with cache := {} } }

theorem Param.refreshArch_core (p : Param) (a : Arch) :
    ({ p.refreshArch a with cache := {} } : Param) = { p with cache := {} } := by
  unfold Param.refreshArch
  split
  · rfl
  · split <;> rfl

theorem Param.removeArch_core (p : Param) (a : Arch) :
    ({ p.removeArch a with cache := {} } : Param) = { p with cache := {} } := by
  unfold Param.removeArch
  split <;> rfl

theorem HInfo.core_map_refresh (h : HInfo) (a : Arch) :
    ({ h with params := h.params.map fun p => Param.refreshArch p a } : HInfo).core = h.core := by
  unfold HInfo.core
  simp only [List.map_map]
  congr 1
  apply List.map_congr_left
  intro p _
  exact Param.refreshArch_core p a

theorem HInfo.core_map_remove (h : HInfo) (a : Arch) :
    ({ h with params := h.params.map fun p => Param.removeArch p a } : HInfo).core = h.core := by
  unfold HInfo.core
  simp only [List.map_map]
  congr 1
  apply List.map_congr_left
  intro p _
  exact Param.removeArch_core p a

/-- the invariant: every handler id maps to the entry `reg` says, up to fetcher caches -/
abbrev HK (reg : Key → Option HInfo) : World → Prop := fun w => ∀ k, (w.handlers.get k).map HInfo.core = reg k

variable {reg : Key → Option HInfo}

theorem logT_hk (s : String) : Keeps (HK reg) (logT s) := by unfold logT; keeps
local macro_rules | `(tactic| keeps_leaf) => `(tactic| exact logT_hk _)
theorem ubErr_hk {α : Type} (s : String) : Keeps (HK reg) ((ubErr s : M α)) := by unfold ubErr; keeps
local macro_rules | `(tactic| keeps_leaf) => `(tactic| exact ubErr_hk _)
theorem dbgAssert_hk (c : Bool) (s : String) : Keeps (HK reg) (dbgAssert c s) := by unfold dbgAssert; keeps
local macro_rules | `(tactic| keeps_leaf) => `(tactic| exact dbgAssert_hk _ _)
theorem dropCell_hk (ty : Nat) (c : Cell) : Keeps (HK reg) (dropCell ty c) := by unfold dropCell; keeps
local macro_rules | `(tactic| keeps_leaf) => `(tactic| exact dropCell_hk _ _)
theorem dropCellIdx_hk (ty : Nat) (c : Cell) : Keeps (HK reg) (dropCellIdx ty c) := by unfold dropCellIdx; keeps
local macro_rules | `(tactic| keeps_leaf) => `(tactic| exact dropCellIdx_hk _ _)
theorem dropEvent_hk (it : QItem) : Keeps (HK reg) (dropEvent it) := by unfold dropEvent; keeps
local macro_rules | `(tactic| keeps_leaf) => `(tactic| exact dropEvent_hk _)
theorem handlerRefresh_hk (hk : Key) (a : Arch) : Keeps (HK reg) (handlerRefresh hk a) := by
  unfold handlerRefresh
  refine Keeps.get_bind fun w hw => ?_
  cases hg : w.handlers.get hk with
  | none => exact ubErr_hk _
  | some h =>
    refine Keeps.bind (dbgAssert_hk _ _) fun _ => Keeps.set fun k => ?_
    rw [← hw k]
    simp only [SlotMap.get_set_of_get hg]
    split
    · rename_i hk'; subst hk'; rw [hg]; simp only [Option.map_some, HInfo.core_map_refresh]
    · rfl
local macro_rules | `(tactic| keeps_leaf) => `(tactic| exact handlerRefresh_hk _ _)
theorem handlerRemoveArch_hk (hk : Key) (a : Arch) : Keeps (HK reg) (handlerRemoveArch hk a) := by
  unfold handlerRemoveArch
  refine Keeps.get_bind fun w hw => ?_
  cases hg : w.handlers.get hk with
  | none => exact ubErr_hk _
  | some h =>
    refine Keeps.set fun k => ?_
    rw [← hw k]
    simp only [SlotMap.get_set_of_get hg]
    split
    · rename_i hk'; subst hk'; rw [hg]; simp only [Option.map_some, HInfo.core_map_remove]
    · rfl
local macro_rules | `(tactic| keeps_leaf) => `(tactic| exact handlerRemoveArch_hk _ _)
theorem getArch_hk (i : Nat) (s : String) : Keeps (HK reg) (getArch i s) := by unfold getArch; keeps
local macro_rules | `(tactic| keeps_leaf) => `(tactic| exact getArch_hk _ _)
theorem setArch_hk (a : Arch) : Keeps (HK reg) (setArch a) := by unfold setArch; keeps
local macro_rules | `(tactic| keeps_leaf) => `(tactic| exact setArch_hk _)
theorem freshEpoch_hk  : Keeps (HK reg) (freshEpoch) := by unfold freshEpoch; keeps
local macro_rules | `(tactic| keeps_leaf) => `(tactic| exact freshEpoch_hk)
theorem registerHandler_hk (a : Arch) (h : HInfo) : Keeps (HK reg) (a.registerHandler h) := by unfold Arch.registerHandler; keeps
local macro_rules | `(tactic| keeps_leaf) => `(tactic| exact registerHandler_hk _ _)
theorem archSpawn_hk (id : Key) : Keeps (HK reg) (archSpawn id) := by unfold archSpawn; keeps
local macro_rules | `(tactic| keeps_leaf) => `(tactic| exact archSpawn_hk _)
theorem reserve_hk  : Keeps (HK reg) (reserve) := by unfold reserve; keeps
local macro_rules | `(tactic| keeps_leaf) => `(tactic| exact reserve_hk)
theorem spawnAll_hk  : Keeps (HK reg) (spawnAll) := by unfold spawnAll; keeps
local macro_rules | `(tactic| keeps_leaf) => `(tactic| exact spawnAll_hk)
theorem resRefresh_hk  : Keeps (HK reg) (resRefresh) := by unfold resRefresh; keeps
local macro_rules | `(tactic| keeps_leaf) => `(tactic| exact resRefresh_hk)
theorem setLoc_hk (id : Key) (s : String) (f : Loc → Loc) : Keeps (HK reg) (setLoc id s f) := by unfold setLoc; keeps
local macro_rules | `(tactic| keeps_leaf) => `(tactic| exact setLoc_hk _ _ _)
theorem newArch_hk (cs : List Nat) (a b : Option (Nat × Nat)) : Keeps (HK reg) (newArch cs a b) := by unfold newArch; keeps
local macro_rules | `(tactic| keeps_leaf) => `(tactic| exact newArch_hk _ _ _)
theorem traverseInsert_hk (src c : Nat) : Keeps (HK reg) (traverseInsert src c) := by unfold traverseInsert; keeps
local macro_rules | `(tactic| keeps_leaf) => `(tactic| exact traverseInsert_hk _ _)
theorem traverseRemove_hk (src c : Nat) : Keeps (HK reg) (traverseRemove src c) := by unfold traverseRemove; keeps
local macro_rules | `(tactic| keeps_leaf) => `(tactic| exact traverseRemove_hk _ _)
theorem moveEntity_hk (src : Loc) (dst : Nat) (new : List (Nat × Cell)) : Keeps (HK reg) (moveEntity src dst new) := by unfold moveEntity; keeps
local macro_rules | `(tactic| keeps_leaf) => `(tactic| exact moveEntity_hk _ _ _)
theorem removeEntity_hk (loc : Loc) : Keeps (HK reg) (removeEntity loc) := by unfold removeEntity; keeps
local macro_rules | `(tactic| keeps_leaf) => `(tactic| exact removeEntity_hk _)
theorem push_hk (it : QItem) : Keeps (HK reg) (push it) := by unfold push; keeps
local macro_rules | `(tactic| keeps_leaf) => `(tactic| exact push_hk _)
theorem takeBudget_hk  : Keeps (HK reg) (takeBudget) := by unfold takeBudget; keeps
local macro_rules | `(tactic| keeps_leaf) => `(tactic| exact takeBudget_hk)
theorem freshE_hk  : Keeps (HK reg) (freshE) := by unfold freshE; keeps
local macro_rules | `(tactic| keeps_leaf) => `(tactic| exact freshE_hk)
theorem freshC_hk  : Keeps (HK reg) (freshC) := by unfold freshC; keeps
local macro_rules | `(tactic| keeps_leaf) => `(tactic| exact freshC_hk)
theorem senderPush_hk (h : HInfo) (it : QItem) : Keeps (HK reg) (senderPush h it) := by unfold senderPush; keeps
local macro_rules | `(tactic| keeps_leaf) => `(tactic| exact senderPush_hk _ _)
theorem paramRows_hk (p : Param) : Keeps (HK reg) (paramRows p) := by unfold paramRows; keeps
local macro_rules | `(tactic| keeps_leaf) => `(tactic| exact paramRows_hk _)
theorem itemAt_hk (st : AS) (a : Arch) (row : Nat) : Keeps (HK reg) (itemAt st a row) := by unfold itemAt; keeps
local macro_rules | `(tactic| keeps_leaf) => `(tactic| exact itemAt_hk _ _ _)
theorem paramGet_hk (p : Param) (id : Key) : Keeps (HK reg) (paramGet p id) := by unfold paramGet; keeps
local macro_rules | `(tactic| keeps_leaf) => `(tactic| exact paramGet_hk _ _)
theorem bumpCell_hk (ai row c : Nat) : Keeps (HK reg) (bumpCell ai row c) := by unfold bumpCell; keeps
local macro_rules | `(tactic| keeps_leaf) => `(tactic| exact bumpCell_hk _ _ _)
theorem getParam_hk (h : HInfo) (p : Nat) : Keeps (HK reg) (getParam h p) := by unfold getParam; keeps
local macro_rules | `(tactic| keeps_leaf) => `(tactic| exact getParam_hk _ _)
theorem runAct_hk (hk : Key) (it : QItem) (loc : Loc) (act : Act) : Keeps (HK reg) (runAct hk it loc act) := by unfold runAct; keeps
local macro_rules | `(tactic| keeps_leaf) => `(tactic| exact runAct_hk _ _ _ _)
theorem runHandler_hk (hk : Key) (it : QItem) (loc : Loc) : Keeps (HK reg) (runHandler hk it loc) := by unfold runHandler; keeps
local macro_rules | `(tactic| keeps_leaf) => `(tactic| exact runHandler_hk _ _ _)
theorem deliverOne_hk (it : QItem) : Keeps (HK reg) (deliverOne it) := by unfold deliverOne; keeps
local macro_rules | `(tactic| keeps_leaf) => `(tactic| exact deliverOne_hk _)
theorem dropQueued_hk  : Keeps (HK reg) (dropQueued) := by unfold dropQueued; keeps
local macro_rules | `(tactic| keeps_leaf) => `(tactic| exact dropQueued_hk)
local macro_rules | `(tactic| keeps_leaf) => `(tactic| assumption)

theorem flushWith_hk (fuel : Nat) : Keeps (HK reg) (flushWith deliverOne fuel) := by
  induction fuel with
  | zero => unfold flushWith; keeps
  | succ n ih => unfold flushWith; keeps
local macro_rules | `(tactic| keeps_leaf) => `(tactic| exact flushWith_hk _)
theorem flush_hk (fuel : Nat) : Keeps (HK reg) (flush fuel) := flushWith_hk fuel
local macro_rules | `(tactic| keeps_leaf) => `(tactic| exact flush_hk _)
theorem ensureAddG_hk : Keeps (HK reg) ensureAddG := by unfold ensureAddG; keeps
local macro_rules | `(tactic| keeps_leaf) => `(tactic| exact ensureAddG_hk)
theorem addGlobalEvent_hk (ty : EvTy) : Keeps (HK reg) (addGlobalEvent ty) := by unfold addGlobalEvent; keeps
local macro_rules | `(tactic| keeps_leaf) => `(tactic| exact addGlobalEvent_hk _)
theorem sendGlobal_hk (ty : EvTy) (pay : Payload) : Keeps (HK reg) (sendGlobal ty pay) := by unfold sendGlobal; keeps
local macro_rules | `(tactic| keeps_leaf) => `(tactic| exact sendGlobal_hk _ _)

/-- however an event delivery ends, every handler id still maps to the same registry entry (up to fetcher caches) -/
theorem deliverOne_handlers (it : QItem) (w : World) (k : Key) :
    (((deliverOne it).run.run w).2.handlers.get k).map HInfo.core = (w.handlers.get k).map HInfo.core :=
  (deliverOne_hk (reg := fun k => (w.handlers.get k).map HInfo.core) it).run w (fun _ => rfl) k

/-- the same for a whole `send` of a global event (registration of the event type, the full propagation, and the
    unwinding guard when a handler panics) -/
theorem sendGlobal_handlers (ty : EvTy) (pay : Payload) (w : World) (k : Key) :
    (((sendGlobal ty pay).run.run w).2.handlers.get k).map HInfo.core = (w.handlers.get k).map HInfo.core :=
  (sendGlobal_hk (reg := fun k => (w.handlers.get k).map HInfo.core) ty pay).run w (fun _ => rfl) k

theorem sendGlobal_contains (ty : EvTy) (pay : Payload) (w : World) (k : Key) :
    ((sendGlobal ty pay).run.run w).2.handlers.contains k = w.handlers.contains k := by
  have := sendGlobal_handlers ty pay w k
  unfold SlotMap.contains
  cases h1 : ((sendGlobal ty pay).run.run w).2.handlers.get k <;> cases h2 : w.handlers.get k <;>
    simp [h1, h2] at this ⊢

/-! ### the announcement, delivery by delivery -/

theorem Step.hk {w : World} {it : QItem} {w' : World} {seg : List QItem} (h : Step deliverOne w it w' seg)
    (hw : HK reg w) : HK reg w' := by
  obtain ⟨w'', hd, _, rfl⟩ := h
  have := (deliverOne_hk (reg := reg) it).run { w with queue := [] } hw
  rw [hd] at this
  exact this

/-- along a depth-first propagation every delivery starts (and ends) with the same handler registry -/
theorem DfsLog.hk {w : World} {es : List QItem} {w' : World} {log : List Delivery}
    (h : DfsLog deliverOne w es w' log) (hw : HK reg w) : HK reg w' ∧ ∀ d ∈ log, HK reg d.pre ∧ HK reg d.post := by
  induction h with
  | nil w => exact ⟨hw, by simp⟩
  | cons hs _ _ ih1 ih2 =>
    have h1 := hs.hk hw
    obtain ⟨h2, l1⟩ := ih1 h1
    obtain ⟨h3, l2⟩ := ih2 h2
    refine ⟨h3, fun d hd => ?_⟩
    simp only [List.cons_append, List.mem_cons, List.mem_append] at hd
    rcases hd with rfl | hd | hd
    · exact ⟨hw, h1⟩
    · exact l1 d hd
    · exact l2 d hd

/-- a normal return of `World::send`, taken apart: the event type is registered (if it was not), the event is
    pushed, the queue is flushed -/
theorem sendGlobal_ok {ty : EvTy} {pay : Payload} {w w' : World}
    (h : (sendGlobal ty pay).run.run w = (.ok (), w')) :
    ∃ k w0, (addGlobalEvent ty).run.run w = (.ok k, w0) ∧
      (flush FUEL).run.run { w0 with queue := w0.queue ++ [{ ty, idx := k.idx, pay }] } = (.ok (), w') := by
  unfold sendGlobal at h
  rw [run_bind, run_tryCatch] at h
  generalize ha : (addGlobalEvent ty).run.run w = r at h
  obtain ⟨(e|k), w0⟩ := r
  · simp only [run_bind] at h
    generalize (dropEvent { ty := ty, idx := 0, pay := pay }).run.run w0 = r2 at h
    obtain ⟨(e2|u), w2⟩ := r2 <;> cases h
  · simp only [run_bind, push, run_modify] at h
    exact ⟨k, w0, rfl, h⟩


/-! ### what `try_add_handler` computes as listener filter -/

/-- a statement about the value a computation returns (whenever it returns normally) -/
def Ret {α : Type} (m : M α) (Q : α → Prop) : Prop := ∀ w a w', m.run.run w = (.ok a, w') → Q a

namespace Ret
variable {α β : Type}

theorem pure {a : α} {Q : α → Prop} (h : Q a) : Ret (Pure.pure a : M α) Q := fun _ _ _ hr => by cases hr; exact h
theorem throw (e : Err) {Q : α → Prop} : Ret (MonadExcept.throw e : M α) Q := fun _ _ _ hr => by cases hr
theorem bind {m : M α} {f : α → M β} {P : α → Prop} {Q : β → Prop} (hm : Ret m P) (hf : ∀ a, P a → Ret (f a) Q) :
    Ret (m >>= f) Q := by
  intro w b w' hr
  rw [run_bind] at hr
  generalize hm' : m.run.run w = r at hr
  obtain ⟨(e|a), w1⟩ := r
  · cases hr
  · exact hf a (hm w a w1 hm') w1 b w' hr
theorem any (m : M α) : Ret m (fun _ => True) := fun _ _ _ _ => trivial
theorem bind' {m : M α} {f : α → M β} {Q : β → Prop} (hf : ∀ a, Ret (f a) Q) : Ret (m >>= f) Q :=
  bind (any m) fun a _ => hf a
theorem forIn {γ : Type} {l : List γ} {b : β} {f : γ → β → M (ForInStep β)} (Inv : β → Prop) (hb : Inv b)
    (hf : ∀ a b, Inv b → Ret (f a b) (fun r => Inv r.value)) : Ret (forIn l b f) Inv := by
  induction l generalizing b with
  | nil => exact pure hb
  | cons a l ih =>
    rw [List.forIn_cons]
    refine bind (hf a b hb) fun r hr => ?_
    cases r with
    | done b => exact pure hr
    | yield b => exact ih hr
end Ret

/-- the fields of a `HandlerConfig` the listener filter depends on -/
def Config.SameFilter (c c' : Config) : Prop :=
  c'.filter = c.filter ∧ c'.filterSet = c.filterSet ∧ c'.recvEv = c.recvEv

theorem Config.SameFilter.refl (c : Config) : c.SameFilter c := ⟨rfl, rfl, rfl⟩

/-- `Q::init` resolves the query, returns its access expression, and leaves the filter alone -/
theorem initQuery_ret (q : Query) (cfg : Config) :
    Ret (initQuery q cfg) (fun r => r.2.1 = r.1.init ∧ cfg.SameFilter r.2.2) := by
  unfold initQuery
  refine Ret.bind (Ret.forIn (fun b => cfg.SameFilter b) (Config.SameFilter.refl cfg) fun c b hb => ?_) fun b hb => ?_
  · exact Ret.bind' fun k => Ret.pure ⟨hb.1, hb.2.1, hb.2.2⟩
  · exact Ret.bind' fun w => Ret.pure ⟨rfl, hb⟩

/-- a parameter that is a targeted receiver (`Receiver<E, Q>` / `ReceiverMut<E, Q>` with `E` targeted) -/
def Param.isTRecv (p : Param) : Bool := p.kind == .recv && p.hasQ

/-- What one `HandlerParam::init` does to the listener filter: a targeted receiver calls `set…component_access` once,
    with the access expression of its own (resolved) query; no other parameter touches the filter. And a targeted
    received event can only come from a targeted receiver. -/
def ParamStep (cfg : Config) (p : Param) (cfg' : Config) : Prop :=
  (if p.isTRecv then cfg'.filter = (cfg.setFilter p.q.init).filter ∧ cfg'.filterSet = true
   else cfg'.filter = cfg.filter ∧ cfg'.filterSet = cfg.filterSet) ∧
  (∀ ty k, cfg'.recvEv = some (some (ty, k)) → ty.targeted = true →
    p.isTRecv = true ∨ cfg.recvEv = some (some (ty, k)))

theorem setRecv_targeted {cfg : Config} {ev : EvTy} {k : Key} (hev : ev.targeted = false) {ty : EvTy} {k' : Key}
    (h : (cfg.setRecv ev k).recvEv = some (some (ty, k'))) : ty.targeted = false := by
  unfold Config.setRecv at h
  simp only at h
  split at h
  · cases h; exact hev
  · split at h
    · cases h; exact hev
    · cases h
  · cases h

theorem initParam_ret (ps : PSpec) (cfg : Config) : Ret (initParam ps cfg) (fun r => ParamStep cfg r.1 r.2) := by
  unfold initParam
  cases ps with
  | recv ev mutable q =>
    dsimp only
    split
    · refine Ret.bind' fun k => Ret.bind (initQuery_ret _ cfg) fun r hr => ?_
      obtain ⟨q', ca, cfg1⟩ := r
      obtain ⟨hca, hf, hs, hrv⟩ := hr
      simp only at hca hf hs hrv
      refine Ret.pure ⟨?_, fun _ _ _ _ => .inl rfl⟩
      simp only [Param.isTRecv, beq_self_eq_true, Bool.and_self, if_true, hca]
      refine ⟨?_, rfl⟩
      simp only [Config.setFilter, Config.setRecvAccess, Config.setRecv, hf, hs]
    · rename_i hev
      have hev' : ev.targeted = false := by simpa using hev
      refine Ret.bind' fun k => Ret.pure ⟨?_, fun ty k' h ht => ?_⟩
      · simp [Param.isTRecv, Config.setRecvAccess, Config.setRecv]
      · have := setRecv_targeted (cfg := cfg) hev' (ty := ty) (k' := k') h
        rw [this] at ht; cases ht
  | fetch q =>
    refine Ret.bind (initQuery_ret _ cfg) fun r hr => ?_
    obtain ⟨q', ca, cfg1⟩ := r
    obtain ⟨-, hf, hs, hrv⟩ := hr
    simp only at hf hs hrv
    exact Ret.pure ⟨by simp [Param.isTRecv, hf, hs], fun ty k h _ => .inr (by simpa [hrv] using h)⟩
  | single q =>
    refine Ret.bind (initQuery_ret _ cfg) fun r hr => ?_
    obtain ⟨q', ca, cfg1⟩ := r
    obtain ⟨-, hf, hs, hrv⟩ := hr
    simp only at hf hs hrv
    exact Ret.pure ⟨by simp [Param.isTRecv, hf, hs], fun ty k h _ => .inr (by simpa [hrv] using h)⟩
  | trySingle q =>
    refine Ret.bind (initQuery_ret _ cfg) fun r hr => ?_
    obtain ⟨q', ca, cfg1⟩ := r
    obtain ⟨-, hf, hs, hrv⟩ := hr
    simp only at hf hs hrv
    exact Ret.pure ⟨by simp [Param.isTRecv, hf, hs], fun ty k h _ => .inr (by simpa [hrv] using h)⟩
  | snd evs =>
    dsimp only
    refine Ret.bind' fun idxs => ?_
    refine Ret.bind (Ret.forIn (fun b => cfg.SameFilter b) (Config.SameFilter.refl cfg) fun x b hb => ?_) fun b hb => ?_
    · obtain ⟨ev, i⟩ := x
      dsimp only
      split
      · exact Ret.pure ⟨hb.1, hb.2.1, hb.2.2⟩
      · exact Ret.pure ⟨hb.1, hb.2.1, hb.2.2⟩
    · obtain ⟨hf, hs, hrv⟩ := hb
      exact Ret.pure ⟨by simp [Param.isTRecv, hf, hs], fun ty k h _ => .inr (by simpa [hrv] using h)⟩
  | ents =>
    exact Ret.pure ⟨by simp [Param.isTRecv], fun ty k h _ => .inr h⟩


/-- the access expressions of the targeted receivers among the parameters, in parameter order -/
def recvInits (ps : List Param) : List CA := (ps.filter Param.isTRecv).map (·.q.init)

theorem recvInits_append (ps : List Param) (p : Param) :
    recvInits (ps ++ [p]) = recvInits ps ++ (if p.isTRecv then [p.q.init] else []) := by
  unfold recvInits
  rw [List.filter_append, List.map_append]
  congr 1
  by_cases hp : p.isTRecv = true <;> simp [hp]

/-- loop invariant of the parameter loop of `try_add_handler` -/
def FilterRel (cfg : Config) (ps : List Param) : Prop :=
  cfg.filter = ((recvInits ps).foldl Config.setFilter {}).filter ∧
  cfg.filterSet = ((recvInits ps).foldl Config.setFilter {}).filterSet ∧
  (∀ ty k, cfg.recvEv = some (some (ty, k)) → ty.targeted = true → recvInits ps ≠ [])

theorem FilterRel.init : FilterRel {} [] := ⟨rfl, rfl, fun _ _ h => by cases h⟩

theorem FilterRel.step {cfg : Config} {ps : List Param} {p : Param} {cfg' : Config} (h : FilterRel cfg ps)
    (hp : ParamStep cfg p cfg') : FilterRel cfg' (ps ++ [p]) := by
  obtain ⟨h1, h2, h3⟩ := h
  obtain ⟨hp1, hp2⟩ := hp
  rw [FilterRel, recvInits_append]
  by_cases ht : p.isTRecv = true
  · simp only [ht, if_true] at hp1 ⊢
    rw [List.foldl_append, List.foldl_cons, List.foldl_nil]
    refine ⟨?_, hp1.2, fun _ _ _ _ => by simp⟩
    rw [hp1.1]
    simp only [Config.setFilter, h1, h2]
  · simp only [ht, Bool.false_eq_true, if_false, List.append_nil] at hp1 ⊢
    refine ⟨hp1.1.trans h1, hp1.2.trans h2, fun ty k hr htg => ?_⟩
    rcases hp2 ty k hr htg with h | h
    · exact absurd h ht
    · exact h3 ty k h htg

/-- the listener filter of a registry entry is what folding `setFilter` over the access expressions of its targeted
    receivers gives; a handler that receives a targeted event has at least one such receiver -/
def HInfo.FilterOk (h : HInfo) : Prop :=
  h.filter = ((recvInits h.params).foldl Config.setFilter {}).filter ∧
  (h.recv.targeted = true → recvInits h.params ≠ [])

theorem recvInits_core (h : HInfo) : recvInits h.core.params = recvInits h.params := by
  unfold recvInits HInfo.core
  simp only [List.filter_map, List.map_map]
  rfl

theorem HInfo.FilterOk_of_core {h h' : HInfo} (hc : h.core = h'.core) (hf : h'.FilterOk) : h.FilterOk := by
  have e1 : h.filter = h'.filter := (congrArg HInfo.filter hc : h.core.filter = h'.core.filter)
  have e2 : h.recv = h'.recv := (congrArg HInfo.recv hc : h.core.recv = h'.core.recv)
  have e3 : recvInits h.params = recvInits h'.params := by rw [← recvInits_core h, ← recvInits_core h', hc]
  unfold HInfo.FilterOk
  rw [e1, e2, e3]
  exact hf

/-- with `setFilter_matches` (C08): the filter of such an entry matches an archetype iff the access expressions of ALL
    its targeted receivers do -/
theorem HInfo.FilterOk.matches {h : HInfo} (hf : h.FilterOk) (ht : h.recv.targeted = true) (S : Nat → Bool) :
    h.filter.matches S = (recvInits h.params).all (·.matches S) := by
  rw [hf.1]
  cases hr : recvInits h.params with
  | nil => exact absurd hr (hf.2 ht)
  | cons c cas => exact foldl_setFilter_unset c cas {} rfl S


theorem SlotMap.get_insertWith_self {α : Type} {sm sm' : SlotMap α} {f : Key → α} {k : Key}
    (h : sm.insertWith f = some (k, sm')) : sm'.get k = some (f k) := by
  unfold SlotMap.insertWith at h
  cases hs : sm.slots[sm.nextFree]? with
  | some s =>
    simp only [hs, Option.some.injEq, Prod.mk.injEq] at h
    obtain ⟨rfl, rfl⟩ := h
    have hlt : sm.nextFree < sm.slots.length := (List.getElem?_eq_some_iff.1 hs).1
    simp [SlotMap.get, hlt]
  | none =>
    simp only [hs] at h
    split at h
    · cases h
    · simp only [Option.some.injEq, Prod.mk.injEq] at h
      obtain ⟨rfl, rfl⟩ := h
      simp [SlotMap.get]

/-- the entry under `k` is `c`, up to fetcher caches -/
abbrev HKat (k : Key) (c : Option HInfo) : World → Prop := fun w => (w.handlers.get k).map HInfo.core = c

theorem keeps_at_of_hk {α : Type} {m : M α} (h : ∀ reg, Keeps (HK reg) m) (k : Key) (c : Option HInfo) :
    Keeps (HKat k c) m := by
  refine ⟨fun w hw => ?_⟩
  have := (h (fun k' => (w.handlers.get k').map HInfo.core)).run w (fun _ => rfl) k
  show Option.map _ _ = c
  rw [this]
  exact hw

theorem HoareOk.bind_ret {α β : Type} {m : M α} {f : α → M β} {P : α → Prop} {Q : β → World → Prop}
    (hm : Ret m P) (hf : ∀ a, P a → HoareOk (fun _ => True) (f a) Q) : HoareOk (fun _ => True) (m >>= f) Q := by
  refine ⟨fun w _ b w' hr => ?_⟩
  rw [run_bind] at hr
  generalize hm' : m.run.run w = r at hr
  obtain ⟨(e|a), w1⟩ := r
  · cases hr
  · exact (hf a (hm w a w1 hm')).run w1 trivial b w' hr

section
variable {k : Key} {c : Option HInfo}
theorem dbgAssert_at (b : Bool) (s : String) : Keeps (HKat k c) (dbgAssert b s) :=
  keeps_at_of_hk (fun _ => dbgAssert_hk _ _) k c
theorem ubErr_at {α : Type} (s : String) : Keeps (HKat k c) (ubErr s : M α) :=
  keeps_at_of_hk (fun _ => ubErr_hk _) k c
theorem getArch_at (i : Nat) (s : String) : Keeps (HKat k c) (getArch i s) :=
  keeps_at_of_hk (fun _ => getArch_hk _ _) k c
theorem setArch_at (a : Arch) : Keeps (HKat k c) (setArch a) :=
  keeps_at_of_hk (fun _ => setArch_hk _) k c
theorem registerHandler_at (a : Arch) (h : HInfo) : Keeps (HKat k c) (a.registerHandler h) :=
  keeps_at_of_hk (fun _ => registerHandler_hk _ _) k c
theorem sendGlobal_at (ty : EvTy) (pay : Payload) : Keeps (HKat k c) (sendGlobal ty pay) :=
  keeps_at_of_hk (fun _ => sendGlobal_hk _ _) k c
end
local macro_rules | `(tactic| keeps_leaf) => `(tactic| exact dbgAssert_at _ _)
local macro_rules | `(tactic| keeps_leaf) => `(tactic| exact ubErr_at _)
local macro_rules | `(tactic| keeps_leaf) => `(tactic| exact getArch_at _ _)
local macro_rules | `(tactic| keeps_leaf) => `(tactic| exact setArch_at _)
local macro_rules | `(tactic| keeps_leaf) => `(tactic| exact registerHandler_at _ _)
local macro_rules | `(tactic| keeps_leaf) => `(tactic| exact sendGlobal_at _ _)

/-- Every registry entry `try_add_handler` creates has, as listener filter, the fold of `setFilter` over the access
    expressions of its own targeted receivers — and still has it when `addHandler` returns (the registration in the
    archetypes and the `AddHandler` announcement only touch fetcher caches). -/
theorem addHandler_filter (hs : HSpec) :
    HoareOk (fun _ => True) (addHandler hs)
      (fun r w' => ∀ k, r = .ok k → ∃ h, w'.handlers.get k = some h ∧ h.FilterOk) := by
  unfold addHandler
  extract_lets cfg0 params0 jp
  have herr : ∀ s : String, HoareOk (fun _ => True) (pure (AddResult.err s) : M AddResult)
      (fun r w' => ∀ k, r = .ok k → ∃ h, w'.handlers.get k = some h ∧ h.FilterOk) :=
    fun s => HoareOk.pure fun _ _ k hk => by cases hk
  have hjp : HoareOk (fun _ => True) (jp ())
      (fun r w' => ∀ k, r = .ok k → ∃ h, w'.handlers.get k = some h ∧ h.FilterOk) := by
    refine HoareOk.bind_ret (Ret.forIn (fun s => FilterRel s.1 s.2) FilterRel.init ?_) ?_
    · intro ps s hs
      refine Ret.bind (initParam_ret ps s.1) fun r hr => ?_
      obtain ⟨p, cfg'⟩ := r
      exact Ret.pure (hs.step hr)
    · rintro ⟨cfg, params⟩ hrel
      dsimp only
      split
      · exact herr _
      · exact herr _
      · rename_i recvTy recvKey hrecv
        split
        · exact herr _
        · split
          · exact HoareOk.get_bind fun _ _ => herr _
          · refine HoareOk.get_bind fun w _ => ?_
            split
            · exact HoareOk.throw _
            · rename_i k handlers hins
              obtain ⟨h0, hg0, hf0⟩ : ∃ h0, handlers.get k = some h0 ∧ h0.FilterOk :=
                ⟨_, SlotMap.get_insertWith_self hins, hrel.1, fun ht => hrel.2.2 recvTy recvKey hrecv ht⟩
              refine HoareOk.bind (R := fun _ => HKat k (some h0.core)) ⟨fun w0 _ a w1 hr => ?_⟩ fun _ => ?_
              · cases hr
                show Option.map _ (handlers.get k) = _
                rw [hg0]; rfl
              · refine HoareOk.get_bind fun _ _ => HoareOk.get_bind fun _ _ => ?_
                refine HoareOk.bind_inv (HoareOk.of_keeps (dbgAssert_at _ _)) fun _ => ?_
                refine HoareOk.get_bind fun _ _ => ?_
                refine HoareOk.bind_inv (HoareOk.of_keeps (by keeps)) fun _ => ?_
                refine HoareOk.bind_inv (HoareOk.of_keeps (sendGlobal_at _ _)) fun _ => ?_
                refine HoareOk.pure fun w1 hJ k' hk' => ?_
                cases hk'
                have hJ' : (w1.handlers.get k).map HInfo.core = some h0.core := hJ
                cases hg1 : w1.handlers.get k with
                | none => rw [hg1] at hJ'; cases hJ'
                | some h1 =>
                  rw [hg1] at hJ'
                  simp only [Option.map_some, Option.some.injEq] at hJ'
                  exact ⟨h1, rfl, HInfo.FilterOk_of_core hJ' hf0⟩
  split
  · refine HoareOk.get_bind fun w _ => ?_
    split
    · exact HoareOk.pure fun _ _ k hk => by cases hk
    · exact hjp
  · exact hjp

end Evenio
