import Evenio.Generated.EntityGen
import Evenio.Proofs.SlotMapGen
/-! The functions regenerated from `/repo/src/entity.rs` by `tools/rs2lean` (`Evenio.Gen.Entity.{reserve, spawn_all, refresh}`,
    `Entities.add_with`) against the slot-map hand model (`Evenio.SlotMap.nextKey`, `nextKeyIndex`, `insertWith`,
    `insertMany`), which is what the world model's `reserve` / `spawnAll` / `resRefresh` (`Model/World.lean`) execute on
    `w.entities`, `w.resIndex` (= `iter.index`) and `w.resCount` (= `count`).  The generated file is rewritten on every run of
    `tools/extract.py`; it calls the functions of `Generated/SlotMapGen.lean`, so the statements below go through
    `Proofs/SlotMapGen.lean`.

    * `reserve`: one step of the hand model's `nextKey` at the cursor; `count + 1`; a panic when the index space is
      exhausted or the cursor is in a bad state (the world model's `reserve` has the same three cases).
    * `refresh`: the cursor goes to `nextKeyIndex` (the world model's `resRefresh`).
    * `Entities::add_with`: the hand model's `insertWith`, a panic when it yields `none` (well-formed maps).
    * `spawn_all` (the `for _ in 0..self.count` loop is `forRangeO`): `count` successive `insertWith`s, i.e. the hand model's
      `insertMany` of `count` copies of the closure, then cursor := `nextKeyIndex`, `count := 0`; a panic when the index space
      runs out (well-formed maps).  The closure is a pure function here; in the world model it also spawns into the
      empty archetype (`archSpawn`), which is outside this file.
    Core Lean only. -/
namespace Evenio
namespace EntityGen
open Rs2Lean Gen.Entity

/-! ### the loop combinator -/

theorem foldl_fixed {β : Type} (step : β → Nat → β) (b : β) (h : ∀ i, step b i = b) (l : List Nat) :
    l.foldl step b = b := by
  induction l with
  | nil => rfl
  | cons a l ih => rw [List.foldl_cons, h, ih]

theorem foldl_map_ignore {β : Type} (step : β → Nat → β) (h : ∀ b i j, step b i = step b j) (l : List Nat) (b : β) :
    (l.map Nat.succ).foldl step b = l.foldl step b := by
  induction l generalizing b with
  | nil => rfl
  | cons a l ih => rw [List.map_cons, List.foldl_cons, List.foldl_cons, ih, h b (a.succ) a]

theorem forRangeO_zero {σ : Type} (s : σ) (body : Nat → σ → Outcome σ) : forRangeO 0 s body = .ok s := rfl

/-- a loop whose body does not look at the counter: one step, then the rest -/
theorem forRangeO_const_succ {σ : Type} (n : Nat) (s : σ) (g : σ → Outcome σ) :
    forRangeO (n + 1) s (fun _ => g) =
      match g s with
      | .ok s' => forRangeO n s' (fun _ => g)
      | .panic msg => .panic msg := by
  simp only [forRangeO, List.range_succ_eq_map, List.foldl_cons]
  rw [foldl_map_ignore _ (fun _ _ _ => rfl)]
  cases g s with
  | ok s' => rfl
  | panic msg => exact foldl_fixed _ _ (fun _ => rfl) _

theorem forRangeO_congr {σ : Type} (n : Nat) (s : σ) (b1 b2 : Nat → σ → Outcome σ) (h : ∀ i p, b1 i p = b2 i p) :
    forRangeO n s b1 = forRangeO n s b2 := by
  have : b1 = b2 := funext fun i => funext fun p => h i p
  rw [this]

/-! ### `refresh`, `reserve` -/

/-- the translated `ReservedEntities::refresh` moves the cursor to the hand model's `nextKeyIndex` and keeps `count` -/
theorem refresh_eq (r : ReservedEntities) (e : Entities) :
    refresh r e = { iter := ⟨e.locs.nextKeyIndex⟩, count := r.count } := rfl

/-- the hand model's outcome of a reservation as the translated function's `Outcome` -/
def reserveAsGen (r : ReservedEntities) : SlotMap.NextKey → Outcome (ReservedEntities × Key)
  | .key k i' => .ok ({ iter := ⟨i'⟩, count := r.count + 1 }, k)
  | .exhausted => .panic "too many entities"
  | .badState => .panic "incorrect state for next key iter"

/-- the translated `ReservedEntities::reserve` is one step of the hand model's `nextKey` at the cursor -/
theorem reserve_eq (r : ReservedEntities) (e : Entities) :
    reserve r e = reserveAsGen r (e.locs.nextKey r.iter.index) := by
  simp only [reserve, SlotMapGen.next_eq]
  cases e.locs.nextKey r.iter.index <;> rfl

/-! ### `add_with`, `spawn_all` -/

/-- the translated `Entities::add_with` is the hand model's `insertWith` (a panic for `none`) -/
theorem add_with_eq {e : Entities} (wf : e.locs.WF) (f : Key → Loc) :
    Entities.add_with e f =
      match e.locs.insertWith f with
      | some (k, sm') => .ok ({ locs := sm' }, k)
      | none => .panic "too many entities" := by
  have h := SlotMapGen.insertWith_eq_wf wf f
  simp only [Entities.add_with]
  have hf : (fun k => f k) = f := rfl
  rw [hf, h]
  cases e.locs.insertWith f with
  | none => rfl
  | some p => obtain ⟨k, sm'⟩ := p; rfl

/-- one round of the loop of `spawn_all`, written by hand -/
def spawnStep (f : Key → Loc) (p : ReservedEntities × Entities) : Outcome (ReservedEntities × Entities) :=
  match Entities.add_with p.2 f with
  | .panic msg => .panic msg
  | .ok (e', _) => .ok (p.1, e')

/-- `n` successive `add_with`s are the hand model's `insertMany` of `n` copies of the closure -/
theorem spawn_loop_eq (n : Nat) (r : ReservedEntities) {e : Entities} (wf : e.locs.WF) (f : Key → Loc) :
    forRangeO n (r, e) (fun _ => spawnStep f) =
      match e.locs.insertMany (List.replicate n f) with
      | some (_, sm') => .ok (r, { locs := sm' })
      | none => .panic "too many entities" := by
  induction n generalizing e with
  | zero => rfl
  | succ n ih =>
    rw [forRangeO_const_succ]
    simp only [spawnStep, add_with_eq wf, List.replicate_succ, SlotMap.insertMany]
    cases h1 : e.locs.insertWith f with
    | none => rfl
    | some p =>
      obtain ⟨k, sm1⟩ := p
      have wf1 : sm1.WF := wf.insertWith h1
      have := ih (e := { locs := sm1 }) wf1
      simp only []
      rw [this]
      cases sm1.insertMany (List.replicate n f) with
      | none => rfl
      | some q => rfl

/-- the translated `ReservedEntities::spawn_all`: `count` inserts (the hand model's `insertMany`), then the cursor goes to
    `nextKeyIndex` of the resulting map and `count` to 0; a panic when the index space runs out -/
theorem spawn_all_eq (r : ReservedEntities) {e : Entities} (wf : e.locs.WF) (f : Key → Loc) :
    spawn_all r e f =
      match e.locs.insertMany (List.replicate r.count f) with
      | some (_, sm') => .ok ({ iter := ⟨sm'.nextKeyIndex⟩, count := 0 }, { locs := sm' })
      | none => .panic "too many entities" := by
  simp only [spawn_all]
  rw [forRangeO_congr r.count (r, e) _ (fun _ => spawnStep f) ?hB, spawn_loop_eq r.count r wf f]
  case hB =>
    intro i p
    obtain ⟨a, b⟩ := p
    simp only [spawnStep]
    cases Entities.add_with b f with
    | panic msg => rfl
    | ok q => rfl
  cases e.locs.insertMany (List.replicate r.count f) with
  | none => rfl
  | some q => rfl

/-- … so after a successful `spawn_all` nothing is reserved and the cursor predicts the next key of the new map -/
theorem spawn_all_ok {r r' : ReservedEntities} {e e' : Entities} (wf : e.locs.WF) {f : Key → Loc}
    (h : spawn_all r e f = .ok (r', e')) :
    r'.count = 0 ∧ r'.iter.index = e'.locs.nextKeyIndex ∧ e'.locs.WF ∧
      ∃ ks, e.locs.insertMany (List.replicate r.count f) = some (ks, e'.locs) := by
  rw [spawn_all_eq r wf f] at h
  cases hm : e.locs.insertMany (List.replicate r.count f) with
  | none => simp [hm] at h
  | some q =>
    obtain ⟨ks, sm'⟩ := q
    simp only [hm, Outcome.ok.injEq, Prod.mk.injEq] at h
    obtain ⟨h1, h2⟩ := h
    subst h1; subst h2
    exact ⟨rfl, rfl, wf.insertMany hm, ks, rfl⟩

end EntityGen
end Evenio
