import Evenio.Proofs.Disposition
import Evenio.Proofs.FrameFlush
/-! The event ledger along a whole propagation of `flush`: every delivered user event (`G`/`T`) is destroyed exactly
    once by its delivery, events of the built-in types never touch `edrops`. -/
namespace Evenio

/-- what the destruction of `x` writes to the event ledger -/
def ledgerOf (x : QItem) : List Nat :=
  match x.ty with
  | .g _ | .t _ => [x.pay.serial]
  | _ => []

/-- `x` is a user event (`G n` / `T n`) -/
def QItem.isUser (x : QItem) : Bool :=
  match x.ty with
  | .g _ | .t _ => true
  | _ => false

theorem dropE_eq (x : QItem) (l : List Nat) : dropE x l = ledgerOf x ++ l := by
  obtain ⟨ty, idx, tgt, pay⟩ := x
  cases ty <;> rfl

theorem ledgerOf_reverse (x : QItem) : (ledgerOf x).reverse = ledgerOf x := by
  obtain ⟨ty, idx, tgt, pay⟩ := x
  cases ty <;> rfl

theorem ledgerOf_not_user {x : QItem} (h : x.isUser = false) : ledgerOf x = [] := by
  obtain ⟨ty, idx, tgt, pay⟩ := x
  cases ty <;> first | rfl | cases h

/-- registry well-formedness for one event: a user event's entry has a drop function and the normal kind (this is how
    `addGlobalEvent`/`addTargetedEvent` register `G n`/`T n`: `gevNeedsDrop`, `gevKind`) -/
def UserEntryOk (w : World) (x : QItem) : Prop :=
  x.isUser = true → ∃ info, w.evInfo x = some info ∧ info.needsDrop = true ∧ info.kind = .normal

/-- one normally returning delivery destroys the delivered event exactly once if it is a user event — whether its
    target was dead, a handler took it, or it was dropped after the handler loop — and writes nothing else to the
    event ledger -/
theorem deliverOne_ledger {it : QItem} {w w' : World} (h : (deliverOne it).run.run w = (.ok (), w'))
    (hok : UserEntryOk w it) : w'.edrops = ledgerOf it ++ w.edrops := by
  obtain ⟨info, hs, loc, w1, _, hinfo, hd⟩ := deliverOne_edrops h
  cases hu : it.isUser with
  | false =>
    have hl := ledgerOf_not_user hu
    have hde : dropE it w.edrops = w.edrops := by rw [dropE_eq, hl]; rfl
    rw [hl, List.nil_append]
    cases hs with
    | none => simp only at hd; rw [hd, hde]; split <;> rfl
    | some hs =>
      obtain ⟨owned, wh, _, _, hd⟩ := hd
      rw [hd, hde]
      split
      · rfl
      · split <;> rfl
  | true =>
    obtain ⟨info', hi', hn, hk⟩ := hok hu
    rw [hinfo] at hi'
    cases hi'
    rw [← dropE_eq]
    cases hs with
    | none => simp only at hd; rw [hd, if_pos hn]
    | some hs =>
      obtain ⟨owned, wh, _, _, hd⟩ := hd
      rw [hd]
      split
      · rfl
      · rw [if_pos ⟨hk, hn⟩]

/-- **Disposition on a panic.** When a delivery throws `panic c`, the in-flight event is written to the event ledger
    exactly once — by the `take` of a handler (flag set; the unwinding guard then leaves it alone) or by the unwinding
    guard (flag clear), never both — and the only other entry the delivery can have written is `rej`: the one event a
    failing `Sender::send` rejected and destroyed on its way out (at most one, since that send panics). -/
theorem deliverOne_panic_ledger {it : QItem} {w w' : World} {c : String}
    (h : (deliverOne it).run.run w = (.error (.panic c), w')) (hok : UserEntryOk w it) :
    ∃ rej : List Nat, rej.length ≤ 1 ∧
      ((w'.inflightOwned = true ∧ w'.edrops = rej ++ ledgerOf it ++ w.edrops) ∨
       (w'.inflightOwned = false ∧ w'.edrops = ledgerOf it ++ rej ++ w.edrops)) := by
  obtain ⟨info, hinfo, hd⟩ := deliverOne_panic_edrops h
  cases hu : it.isUser with
  | false =>
    have hl := ledgerOf_not_user hu
    have hde : ∀ l, dropE it l = l := fun l => by rw [dropE_eq, hl]; rfl
    rcases hd with ⟨rej, hr, hd⟩ | ⟨_, hf, he⟩
    · refine ⟨rej, hr, ?_⟩
      rw [hl]
      rcases hd with ⟨hf, he⟩ | ⟨hf, he⟩
      · exact .inl ⟨hf, by rw [he, hde]; simp⟩
      · refine .inr ⟨hf, ?_⟩
        rw [he, hde]
        split <;> simp
    · exact ⟨[], by simp, .inr ⟨hf, by rw [he, hl]; rfl⟩⟩
  | true =>
    obtain ⟨info', hi', hn, hk⟩ := hok hu
    rw [hinfo] at hi'
    cases hi'
    rcases hd with ⟨rej, hr, hd⟩ | ⟨hk', _, _⟩
    · refine ⟨rej, hr, ?_⟩
      rcases hd with ⟨hf, he⟩ | ⟨hf, he⟩
      · exact .inl ⟨hf, by rw [he, dropE_eq, List.append_assoc]⟩
      · exact .inr ⟨hf, by rw [he, if_pos hn, dropE_eq, List.append_assoc]⟩
    · exact absurd hk hk'

theorem Step.ledger {w it w' seg} (h : Step deliverOne w it w' seg) (hok : UserEntryOk w it) :
    w'.edrops = ledgerOf it ++ w.edrops := by
  obtain ⟨w'', hd, _, rfl⟩ := h
  have := deliverOne_ledger (w := { w with queue := [] }) hd hok
  exact this

theorem userEntryOk_of_frame {w1 w2 : World} (h : w1.frame = w2.frame) (x : QItem) :
    UserEntryOk w1 x ↔ UserEntryOk w2 x := by
  unfold UserEntryOk
  rw [evInfo_of_frame h]

/-- **The ledger of a completed propagation.** If every delivered user event has a well-formed registry entry in
    the world the propagation started in, the event ledger grows by exactly the delivered user events, each once, in
    delivery order (most recent first). -/
theorem DfsLog.ledger {w es w' log} (h : DfsLog deliverOne w es w' log)
    (hok : ∀ d ∈ log, UserEntryOk w d.ev) :
    w'.edrops = ((log.map (·.ev)).flatMap ledgerOf).reverse ++ w.edrops := by
  induction h with
  | nil w => simp
  | @cons w e w1 seg w2 es w3 l1 l2 hs hc hr ih1 ih2 =>
    have f1 : w1.frame = w.frame := hs.frame deliverOne_frameStable
    have f2 : w2.frame = w.frame := (hc.frame deliverOne_frameStable).trans f1
    have h0 := hs.ledger (hok ⟨w, e, w1, seg⟩ (by simp))
    have h1 := ih1 fun d hd => (userEntryOk_of_frame f1 d.ev).mpr (hok d (by simp [hd]))
    have h2 := ih2 fun d hd => (userEntryOk_of_frame f2 d.ev).mpr (hok d (by simp [hd]))
    rw [h2, h1, h0]
    simp [List.flatMap_append, List.append_assoc, ledgerOf_reverse]

end Evenio
