import Evenio.Proofs.Keeps
/-! The frame of a delivery: the fields of `World` that no function reachable from `deliverOne` (nor `dropQueued`)
    ever assigns — the arena epoch (C20), the event registries `gevs`/`tevs` (so an event type registered when an event
    was queued is still registered when the unwinding guard looks up its drop function, C13), the handler lists'
    skeleton and the debug switch. One `Keeps (FR fr) _` lemma per model function, each proved by the structural
    `keeps` tactic and registered as a leaf for its callers. -/
namespace Evenio

/-- the fields no delivery assigns -/
structure Frame where
  arenaEpoch : Nat
  debug : Bool
  gevs : SlotMap EvInfo
  tevs : SlotMap EvInfo
  byGlobal : List (HandlerList Key)
  byInsertOrder : List Key
  insertCounter : Nat
  removedIds : List (Char × Key)

def World.frame (w : World) : Frame :=
  ⟨w.arenaEpoch, w.debug, w.gevs, w.tevs, w.byGlobal, w.byInsertOrder, w.insertCounter, w.removedIds⟩

/-- the invariant: the frame is `c` -/
abbrev FR (fr : Frame) : World → Prop := fun w => w.frame = fr

variable {fr : Frame}

theorem logT_fr (s : String) : Keeps (FR fr) (logT s) := by unfold logT; keeps
macro_rules | `(tactic| keeps_leaf) => `(tactic| exact logT_fr _)
theorem ubErr_fr {α : Type} (s : String) : Keeps (FR fr) ((ubErr s : M α)) := by unfold ubErr; keeps
macro_rules | `(tactic| keeps_leaf) => `(tactic| exact ubErr_fr _)
theorem dbgAssert_fr (c : Bool) (s : String) : Keeps (FR fr) (dbgAssert c s) := by unfold dbgAssert; keeps
macro_rules | `(tactic| keeps_leaf) => `(tactic| exact dbgAssert_fr _ _)
theorem dropCell_fr (ty : Nat) (c : Cell) : Keeps (FR fr) (dropCell ty c) := by unfold dropCell; keeps
macro_rules | `(tactic| keeps_leaf) => `(tactic| exact dropCell_fr _ _)
theorem dropCellIdx_fr (ty : Nat) (c : Cell) : Keeps (FR fr) (dropCellIdx ty c) := by unfold dropCellIdx; keeps
macro_rules | `(tactic| keeps_leaf) => `(tactic| exact dropCellIdx_fr _ _)
theorem dropEvent_fr (it : QItem) : Keeps (FR fr) (dropEvent it) := by unfold dropEvent; keeps
macro_rules | `(tactic| keeps_leaf) => `(tactic| exact dropEvent_fr _)
theorem handlerRefresh_fr (hk : Key) (a : Arch) : Keeps (FR fr) (handlerRefresh hk a) := by unfold handlerRefresh; keeps
macro_rules | `(tactic| keeps_leaf) => `(tactic| exact handlerRefresh_fr _ _)
theorem handlerRemoveArch_fr (hk : Key) (a : Arch) : Keeps (FR fr) (handlerRemoveArch hk a) := by unfold handlerRemoveArch; keeps
macro_rules | `(tactic| keeps_leaf) => `(tactic| exact handlerRemoveArch_fr _ _)
theorem getArch_fr (i : Nat) (s : String) : Keeps (FR fr) (getArch i s) := by unfold getArch; keeps
macro_rules | `(tactic| keeps_leaf) => `(tactic| exact getArch_fr _ _)
theorem setArch_fr (a : Arch) : Keeps (FR fr) (setArch a) := by unfold setArch; keeps
macro_rules | `(tactic| keeps_leaf) => `(tactic| exact setArch_fr _)
theorem freshEpoch_fr  : Keeps (FR fr) (freshEpoch) := by unfold freshEpoch; keeps
macro_rules | `(tactic| keeps_leaf) => `(tactic| exact freshEpoch_fr)
theorem registerHandler_fr (a : Arch) (h : HInfo) : Keeps (FR fr) (a.registerHandler h) := by unfold Arch.registerHandler; keeps
macro_rules | `(tactic| keeps_leaf) => `(tactic| exact registerHandler_fr _ _)
theorem archSpawn_fr (id : Key) : Keeps (FR fr) (archSpawn id) := by unfold archSpawn; keeps
macro_rules | `(tactic| keeps_leaf) => `(tactic| exact archSpawn_fr _)
theorem reserve_fr  : Keeps (FR fr) (reserve) := by unfold reserve; keeps
macro_rules | `(tactic| keeps_leaf) => `(tactic| exact reserve_fr)
theorem spawnAll_fr  : Keeps (FR fr) (spawnAll) := by unfold spawnAll; keeps
macro_rules | `(tactic| keeps_leaf) => `(tactic| exact spawnAll_fr)
theorem resRefresh_fr  : Keeps (FR fr) (resRefresh) := by unfold resRefresh; keeps
macro_rules | `(tactic| keeps_leaf) => `(tactic| exact resRefresh_fr)
theorem setLoc_fr (id : Key) (s : String) (f : Loc → Loc) : Keeps (FR fr) (setLoc id s f) := by unfold setLoc; keeps
macro_rules | `(tactic| keeps_leaf) => `(tactic| exact setLoc_fr _ _ _)
theorem newArch_fr (cs : List Nat) (a b : Option (Nat × Nat)) : Keeps (FR fr) (newArch cs a b) := by unfold newArch; keeps
macro_rules | `(tactic| keeps_leaf) => `(tactic| exact newArch_fr _ _ _)
theorem traverseInsert_fr (src c : Nat) : Keeps (FR fr) (traverseInsert src c) := by unfold traverseInsert; keeps
macro_rules | `(tactic| keeps_leaf) => `(tactic| exact traverseInsert_fr _ _)
theorem traverseRemove_fr (src c : Nat) : Keeps (FR fr) (traverseRemove src c) := by unfold traverseRemove; keeps
macro_rules | `(tactic| keeps_leaf) => `(tactic| exact traverseRemove_fr _ _)
theorem moveEntity_fr (src : Loc) (dst : Nat) (new : List (Nat × Cell)) : Keeps (FR fr) (moveEntity src dst new) := by unfold moveEntity; keeps
macro_rules | `(tactic| keeps_leaf) => `(tactic| exact moveEntity_fr _ _ _)
theorem removeEntity_fr (loc : Loc) : Keeps (FR fr) (removeEntity loc) := by unfold removeEntity; keeps
macro_rules | `(tactic| keeps_leaf) => `(tactic| exact removeEntity_fr _)
theorem push_fr (it : QItem) : Keeps (FR fr) (push it) := by unfold push; keeps
macro_rules | `(tactic| keeps_leaf) => `(tactic| exact push_fr _)
theorem takeBudget_fr  : Keeps (FR fr) (takeBudget) := by unfold takeBudget; keeps
macro_rules | `(tactic| keeps_leaf) => `(tactic| exact takeBudget_fr)
theorem freshE_fr  : Keeps (FR fr) (freshE) := by unfold freshE; keeps
macro_rules | `(tactic| keeps_leaf) => `(tactic| exact freshE_fr)
theorem freshC_fr  : Keeps (FR fr) (freshC) := by unfold freshC; keeps
macro_rules | `(tactic| keeps_leaf) => `(tactic| exact freshC_fr)
theorem senderPush_fr (h : HInfo) (it : QItem) : Keeps (FR fr) (senderPush h it) := by unfold senderPush; keeps
macro_rules | `(tactic| keeps_leaf) => `(tactic| exact senderPush_fr _ _)
theorem paramRows_fr (p : Param) : Keeps (FR fr) (paramRows p) := by unfold paramRows; keeps
macro_rules | `(tactic| keeps_leaf) => `(tactic| exact paramRows_fr _)
theorem itemAt_fr (st : AS) (a : Arch) (row : Nat) : Keeps (FR fr) (itemAt st a row) := by unfold itemAt; keeps
macro_rules | `(tactic| keeps_leaf) => `(tactic| exact itemAt_fr _ _ _)
theorem paramGet_fr (p : Param) (id : Key) : Keeps (FR fr) (paramGet p id) := by unfold paramGet; keeps
macro_rules | `(tactic| keeps_leaf) => `(tactic| exact paramGet_fr _ _)
theorem bumpCell_fr (ai row c : Nat) : Keeps (FR fr) (bumpCell ai row c) := by unfold bumpCell; keeps
macro_rules | `(tactic| keeps_leaf) => `(tactic| exact bumpCell_fr _ _ _)
theorem getParam_fr (h : HInfo) (p : Nat) : Keeps (FR fr) (getParam h p) := by unfold getParam; keeps
macro_rules | `(tactic| keeps_leaf) => `(tactic| exact getParam_fr _ _)
theorem runAct_fr (hk : Key) (it : QItem) (loc : Loc) (act : Act) : Keeps (FR fr) (runAct hk it loc act) := by unfold runAct; keeps
macro_rules | `(tactic| keeps_leaf) => `(tactic| exact runAct_fr _ _ _ _)
theorem runHandler_fr (hk : Key) (it : QItem) (loc : Loc) : Keeps (FR fr) (runHandler hk it loc) := by unfold runHandler; keeps
macro_rules | `(tactic| keeps_leaf) => `(tactic| exact runHandler_fr _ _ _)
theorem deliverOne_fr (it : QItem) : Keeps (FR fr) (deliverOne it) := by unfold deliverOne; keeps
macro_rules | `(tactic| keeps_leaf) => `(tactic| exact deliverOne_fr _)
theorem dropQueued_fr  : Keeps (FR fr) (dropQueued) := by unfold dropQueued; keeps
macro_rules | `(tactic| keeps_leaf) => `(tactic| exact dropQueued_fr)

/-- whatever a delivery does and however it ends, the frame is unchanged -/
theorem deliverOne_frame (it : QItem) (w : World) : ((deliverOne it).run.run w).2.frame = w.frame :=
  (deliverOne_fr (fr := w.frame) it).run w rfl

theorem dropQueued_frame (w : World) : (dropQueued.run.run w).2.frame = w.frame :=
  (dropQueued_fr (fr := w.frame)).run w rfl

end Evenio
