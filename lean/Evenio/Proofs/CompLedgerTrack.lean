import Evenio.Proofs.Inv.TevTyped
import Evenio.Proofs.CompLedgerLeak
/-! # Registry typing of `Insert` events (auxiliary invariant for "no leak")

`InsShape w`: every entry of the targeted-event registry whose type is `Insert<K j>` has `needsDrop = compNeedsDrop j`
and the kind `.insert c` for some component index `c` — so the delivery of a queued `Insert` stores its payload
(`effectPhase`, arm `.insert`) or drops it through the drop function of ITS OWN type, never ignores it.  `tevs` is only
written by `addTargetedEvent` (which builds the entry from the type) and `removeEvent`; one `Keeps` lemma per model
function, in the style of `Inv/TevTyped.lean` (every exit, no hypothesis on the world, no validity of the operation). -/
namespace Evenio.CompLedger

/-- an `Insert` entry is shaped like `addTargetedEvent` builds it -/
def EntryOK (ei : EvInfo) : Prop :=
  ∀ j, ei.ty = .ins j → ei.needsDrop = compNeedsDrop j ∧ ∃ c, ei.kind = .insert c

/-- every `Insert` entry of the targeted-event registry has the drop function and the kind of its type -/
def InsShape (w : World) : Prop := ∀ k ei, w.tevs.get k = some ei → EntryOK ei

theorem insShape_init : InsShape {} := by
  intro k ei h
  simp [SlotMap.get] at h

/-- closes the goals `keeps` leaves: the writes to `tevs` -/
syntax "isfix" : tactic
local macro_rules | `(tactic| isfix) => `(tactic| first
  | (refine Keeps.set ?_; have h : InsShape _ := ‹InsShape _›; intro k' ei' hg'; first
      | (rcases InvV7.tt_get_insertWith ‹_› hg' with e | e
         · rw [e]; first
             | assumption
             | (intro j hj; cases hj; exact ⟨rfl, _, rfl⟩)
             | (intro j hj; cases hj)
         · exact h _ _ e)
      | exact h _ _ (InvV7.tt_get_remove ‹_› hg'))
  | (refine Keeps.modify fun w h => ?_; split <;> exact h))

theorem logT_is (s : String) : Keeps InsShape (logT s) := by unfold logT; keeps
local macro_rules | `(tactic| keeps_leaf) => `(tactic| exact logT_is _)
theorem ubErr_is {α : Type} (s : String) : Keeps InsShape ((ubErr s : M α)) := by unfold ubErr; keeps
local macro_rules | `(tactic| keeps_leaf) => `(tactic| exact ubErr_is _)
theorem dbgAssert_is (c : Bool) (s : String) : Keeps InsShape (dbgAssert c s) := by unfold dbgAssert; keeps
local macro_rules | `(tactic| keeps_leaf) => `(tactic| exact dbgAssert_is _ _)
theorem dropCell_is (ty : Nat) (c : Cell) : Keeps InsShape (dropCell ty c) := by unfold dropCell; keeps
local macro_rules | `(tactic| keeps_leaf) => `(tactic| exact dropCell_is _ _)
theorem dropCellIdx_is (ty : Nat) (c : Cell) : Keeps InsShape (dropCellIdx ty c) := by unfold dropCellIdx; keeps
local macro_rules | `(tactic| keeps_leaf) => `(tactic| exact dropCellIdx_is _ _)
theorem dropEvent_is (it : QItem) : Keeps InsShape (dropEvent it) := by unfold dropEvent; keeps
local macro_rules | `(tactic| keeps_leaf) => `(tactic| exact dropEvent_is _)
theorem handlerRefresh_is (hk : Key) (a : Arch) : Keeps InsShape (handlerRefresh hk a) := by unfold handlerRefresh; keeps
local macro_rules | `(tactic| keeps_leaf) => `(tactic| exact handlerRefresh_is _ _)
theorem handlerRemoveArch_is (hk : Key) (a : Arch) : Keeps InsShape (handlerRemoveArch hk a) := by unfold handlerRemoveArch; keeps
local macro_rules | `(tactic| keeps_leaf) => `(tactic| exact handlerRemoveArch_is _ _)
theorem getArch_is (i : Nat) (s : String) : Keeps InsShape (getArch i s) := by unfold getArch; keeps
local macro_rules | `(tactic| keeps_leaf) => `(tactic| exact getArch_is _ _)
theorem setArch_is (a : Arch) : Keeps InsShape (setArch a) := by unfold setArch; keeps
local macro_rules | `(tactic| keeps_leaf) => `(tactic| exact setArch_is _)
theorem freshEpoch_is : Keeps InsShape (freshEpoch) := by unfold freshEpoch; keeps
local macro_rules | `(tactic| keeps_leaf) => `(tactic| exact freshEpoch_is)
theorem freshE_is : Keeps InsShape (freshE) := by unfold freshE; keeps
local macro_rules | `(tactic| keeps_leaf) => `(tactic| exact freshE_is)
theorem freshC_is : Keeps InsShape (freshC) := by unfold freshC; keeps
local macro_rules | `(tactic| keeps_leaf) => `(tactic| exact freshC_is)
theorem registerHandler_is (a : Arch) (h : HInfo) : Keeps InsShape (a.registerHandler h) := by unfold Arch.registerHandler; keeps
local macro_rules | `(tactic| keeps_leaf) => `(tactic| exact registerHandler_is _ _)
theorem reserve_is : Keeps InsShape (reserve) := by unfold reserve; keeps
local macro_rules | `(tactic| keeps_leaf) => `(tactic| exact reserve_is)
theorem resRefresh_is : Keeps InsShape (resRefresh) := by unfold resRefresh; keeps
local macro_rules | `(tactic| keeps_leaf) => `(tactic| exact resRefresh_is)
theorem push_is (it : QItem) : Keeps InsShape (push it) := by unfold push; keeps
local macro_rules | `(tactic| keeps_leaf) => `(tactic| exact push_is _)
theorem assertQueueEmpty_is : Keeps InsShape (assertQueueEmpty) := by unfold assertQueueEmpty; keeps
local macro_rules | `(tactic| keeps_leaf) => `(tactic| exact assertQueueEmpty_is)
theorem archsRemoveComponent_is (info : CompInfo) : Keeps InsShape (archsRemoveComponent info) := by
  unfold archsRemoveComponent; keeps
  all_goals isfix
local macro_rules | `(tactic| keeps_leaf) => `(tactic| exact archsRemoveComponent_is _)

/-- a flush never changes the event registries (`flush_ev`) -/
theorem flush_is (fuel : Nat) : Keeps InsShape (flush fuel) :=
  ⟨fun w hw => by
    have h := (flush_ev (w.gevs, w.tevs) fuel).run w rfl
    have e : ((flush fuel).run.run w).2.tevs = w.tevs := congrArg Prod.snd h
    intro k ei hg
    rw [e] at hg
    exact hw k ei hg⟩
local macro_rules | `(tactic| keeps_leaf) => `(tactic| exact flush_is _)

theorem ensureAddG_is : Keeps InsShape ensureAddG := by unfold ensureAddG; keeps
local macro_rules | `(tactic| keeps_leaf) => `(tactic| exact ensureAddG_is)
theorem addGlobalEvent_is (ty : EvTy) : Keeps InsShape (addGlobalEvent ty) := by unfold addGlobalEvent; keeps
local macro_rules | `(tactic| keeps_leaf) => `(tactic| exact addGlobalEvent_is _)
theorem sendGlobal_is (ty : EvTy) (pay : Payload) : Keeps InsShape (sendGlobal ty pay) := by unfold sendGlobal; keeps
local macro_rules | `(tactic| keeps_leaf) => `(tactic| exact sendGlobal_is _ _)
theorem addComponent_is (ty : Nat) : Keeps InsShape (addComponent ty) := by unfold addComponent; keeps
local macro_rules | `(tactic| keeps_leaf) => `(tactic| exact addComponent_is _)
theorem addTargetedEvent_is (ty : EvTy) (hty : ty.targeted = true) : Keeps InsShape (addTargetedEvent ty) := by
  unfold addTargetedEvent
  cases ty <;> first | (cases hty; done) | skip
  all_goals simp only [bind_assoc, pure_bind]
  all_goals keeps
  all_goals isfix
local macro_rules | `(tactic| keeps_leaf) => `(tactic| first
  | exact addTargetedEvent_is _ ‹_›
  | exact addTargetedEvent_is _ rfl)
theorem addEvent_is (ty : EvTy) : Keeps InsShape (addEvent ty) := by
  unfold addEvent
  split
  · exact addTargetedEvent_is _ ‹_›
  · exact addGlobalEvent_is _
local macro_rules | `(tactic| keeps_leaf) => `(tactic| exact addEvent_is _)
theorem sendTargeted_is (ty : EvTy) (tg : Key) (pay : Payload) (hty : ty.targeted = true) :
    Keeps InsShape (sendTargeted ty tg pay) := by unfold sendTargeted; keeps
local macro_rules | `(tactic| keeps_leaf) => `(tactic| first
  | exact sendTargeted_is _ _ _ ‹_›
  | exact sendTargeted_is _ _ _ rfl)
theorem initQuery_is (q : Query) (cfg : Config) : Keeps InsShape (initQuery q cfg) := by unfold initQuery; keeps
local macro_rules | `(tactic| keeps_leaf) => `(tactic| exact initQuery_is _ _)
theorem initParam_is (ps : PSpec) (cfg : Config) : Keeps InsShape (initParam ps cfg) := by
  unfold initParam
  split
  · split <;> keeps   -- `.recv ev ..`: keep the `ev.targeted` hypothesis of the `if` (`Keeps.ite` would lose it)
  all_goals keeps
local macro_rules | `(tactic| keeps_leaf) => `(tactic| exact initParam_is _ _)
theorem addHandler_is (hs : HSpec) : Keeps InsShape (addHandler hs) := by unfold addHandler; keeps
local macro_rules | `(tactic| keeps_leaf) => `(tactic| exact addHandler_is _)
theorem removeHandler_is (k : Key) : Keeps InsShape (removeHandler k) := by unfold removeHandler; keeps
local macro_rules | `(tactic| keeps_leaf) => `(tactic| exact removeHandler_is _)
theorem removeEvent_is (ty : EvTy) (k : Key) : Keeps InsShape (removeEvent ty k) := by
  unfold removeEvent; keeps
  all_goals isfix
local macro_rules | `(tactic| keeps_leaf) => `(tactic| exact removeEvent_is _ _)
theorem removeComponent_is (k : Key) : Keeps InsShape (removeComponent k) := by unfold removeComponent; keeps
local macro_rules | `(tactic| keeps_leaf) => `(tactic| exact removeComponent_is _)
theorem opSpawn_is : Keeps InsShape opSpawn := by unfold opSpawn; keeps
local macro_rules | `(tactic| keeps_leaf) => `(tactic| exact opSpawn_is)

/-- every top-level operation -/
theorem execOp_is (op : Op) : Keeps InsShape (execOp op) := by
  unfold execOp
  cases op <;> keeps

end Evenio.CompLedger
