import Evenio.Proofs.Inv.GraphTraverse
/-! # G1, section B: `dropComp` (`Archetypes::remove_component`)

`GraphOK` afterwards is Props/C14.lean.  Here: the loop invariant for the other four fields of `GraphInv'`, in terms of
the VIEW `V j = (A.get j).map (·.comps)` of the slab (the unlinking loops and the final sweep do not change it), and the
absence of panics (`member_of` lists live archetypes only). -/
namespace Evenio
open Graph (GraphOK)
namespace InvV1

/-! ### `IndexSet::swap_remove` -/

/-- `member_of.swap_remove(&ai)` -/
def dropMember (l : List Nat) (ai : Nat) : List Nat :=
  match l.idxOf? ai with
  | some i => SparseMap.swapRemove l i
  | none => l

theorem dropMember_spec {l : List Nat} (hn : l.Nodup) (ai : Nat) :
    (dropMember l ai).Nodup ∧ ∀ i, i ∈ dropMember l ai ↔ i ∈ l ∧ i ≠ ai := by
  unfold dropMember
  cases h : l.idxOf? ai with
  | none =>
    have : ai ∉ l := by
      intro hm
      rw [List.idxOf?, List.findIdx?_eq_none_iff] at h
      have := h ai hm
      simp at this
    exact ⟨hn, fun i => ⟨fun hi => ⟨hi, fun e => this (e ▸ hi)⟩, fun hi => hi.1⟩⟩
  | some n =>
    have hget : l[n]? = some ai := by
      rw [List.idxOf?, List.findIdx?_eq_some_iff_getElem] at h
      obtain ⟨hlt, hb, -⟩ := h
      rw [List.getElem?_eq_getElem hlt]
      simp only [beq_iff_eq] at hb
      rw [hb]
    have hp := perm_swapRemove l n ai hget
    have hn' := hp.nodup_iff.1 hn
    rw [List.nodup_cons] at hn'
    refine ⟨hn'.2, fun i => ?_⟩
    rw [hp.mem_iff, List.mem_cons]
    constructor
    · intro hi
      exact ⟨.inr hi, fun e => hn'.1 (e ▸ hi)⟩
    · rintro ⟨rfl | hi, hne⟩
      · exact absurd rfl hne
      · exact hi

/-! ### the slab through its view -/

/-- `V` lists the component sets of the live archetypes of `A`; `A` is well formed -/
structure SlabView (V : Nat → Option (List Nat)) (A : Slab Arch) : Prop where
  wf : Slab.WF A
  idx : IndexOK A
  keys : ∀ i a, A.get i = some a → EdgeKeys a
  view : ∀ j, (A.get j).map (·.comps) = V j

theorem SlabView.of_get {V : Nat → Option (List Nat)} {A : Slab Arch} (h : SlabView V A) {j : Nat} {a : Arch}
    (ha : A.get j = some a) : V j = some a.comps := by
  rw [← h.view, ha]; rfl

theorem SlabView.to_get {V : Nat → Option (List Nat)} {A : Slab Arch} (h : SlabView V A) {j : Nat} {cs : List Nat}
    (hv : V j = some cs) : ∃ a, A.get j = some a ∧ a.comps = cs := by
  rw [← h.view] at hv
  cases ha : A.get j with
  | none => rw [ha] at hv; cases hv
  | some a => rw [ha] at hv; exact ⟨a, rfl, Option.some.inj hv⟩

/-- a live archetype is rewritten in its edge tables -/
theorem SlabView.setEdges {V : Nat → Option (List Nat)} {A : Slab Arch} (h : SlabView V A) {j : Nat} {oa oa' : Arch}
    (ha : A.get j = some oa) (hi : oa'.index = oa.index) (hc : oa'.comps = oa.comps) (hk : EdgeKeys oa') :
    SlabView V (A.set oa'.index oa') := by
  have hj : oa'.index = j := hi.trans (h.idx j oa ha)
  rw [hj]
  refine ⟨Slab.set_wf h.wf _ _, hj ▸ h.idx.set oa', fun i a hia => ?_, fun i => ?_⟩
  · rcases Slab.get_set_cases hia with ⟨-, rfl, -⟩ | ⟨-, hia'⟩
    · exact hk
    · exact h.keys i a hia'
  · rw [Slab.get_set, ← h.view]
    split
    · next e => subst e; rw [ha]; exact congrArg some hc
    · rfl

theorem SlabView.remove {V : Nat → Option (List Nat)} {A A1 : Slab Arch} (h : SlabView V A) {ai : Nat} {arch : Arch}
    (hr : A.remove ai = some (arch, A1)) : SlabView (fun j => if j = ai then none else V j) A1 := by
  refine ⟨Slab.remove_wf h.wf hr, h.idx.remove hr, fun i a hia => ?_, fun i => ?_⟩
  · by_cases e : i = ai
    · subst e; rw [Slab.get_remove_same hr] at hia; cases hia
    · rw [Slab.get_remove_other hr e] at hia; exact h.keys i a hia
  · split
    · next e => subst e; rw [Slab.get_remove_same hr]; rfl
    · next e => rw [Slab.get_remove_other hr e]; exact h.view i

/-! ### the loop invariant, on the view -/

/-- `R`: the archetypes still to be removed (exactly those with the component `r`); `ai`, `Rc`: the archetype just
    taken out of the slab and those of its components whose `member_of` still lists it -/
structure VI (r : Nat) (R : List Nat) (V : Nat → Option (List Nat)) (C : SlotMap CompInfo) (ai : Nat)
    (Rc : List Nat) : Prop where
  sorted : ∀ i cs, V i = some cs → cs.Pairwise (· < ·)
  nodup : R.Nodup
  rem : ∀ j, j ∈ R ↔ ∃ cs, V j = some cs ∧ r ∈ cs
  empty : V 0 = some []
  compsLive : ∀ i cs, V i = some cs → ∀ c ∈ cs, c ≠ r → (C.getByIndex c).isSome = true
  members : ∀ k ci, C.get k = some ci → ci.memberOf.Nodup ∧
    ∀ i, i ∈ ci.memberOf ↔ (∃ cs, V i = some cs ∧ k.idx ∈ cs) ∨ (i = ai ∧ k.idx ∈ Rc)
  noR : ∀ k ci, C.get k = some ci → k.idx ≠ r
  gone : Rc ≠ [] → V ai = none
  rcNodup : Rc.Nodup

theorem VI.change_ai {r : Nat} {R : List Nat} {V : Nat → Option (List Nat)} {C : SlotMap CompInfo} {ai : Nat}
    (h : VI r R V C ai []) (aj : Nat) : VI r R V C aj [] := by
  obtain ⟨h1, h2, h3, h4, h5, h6, h7, -, -⟩ := h
  refine ⟨h1, h2, h3, h4, h5, fun k ci hk => ?_, h7, fun hne => absurd rfl hne, List.nodup_nil⟩
  obtain ⟨g1, g2⟩ := h6 k ci hk
  refine ⟨g1, fun i => (g2 i).trans ⟨?_, ?_⟩⟩
  · rintro (hl | ⟨-, hm⟩)
    · exact .inl hl
    · cases hm
  · rintro (hl | ⟨-, hm⟩)
    · exact .inl hl
    · cases hm

/-- the archetype `ai` is taken out of the slab -/
theorem VI.remove {r : Nat} {R : List Nat} {V : Nat → Option (List Nat)} {C : SlotMap CompInfo} {ai a0 : Nat}
    {acs : List Nat} (h : VI r (ai :: R) V C a0 []) (hv : V ai = some acs) :
    VI r R (fun j => if j = ai then none else V j) C ai acs := by
  obtain ⟨h1, h2, h3, h4, h5, h6, h7, -, -⟩ := h
  rw [List.nodup_cons] at h2
  have hback : ∀ {i cs}, (if i = ai then none else V i) = some cs → i ≠ ai ∧ V i = some cs := by
    intro i cs hi
    split at hi
    · cases hi
    · next e => exact ⟨e, hi⟩
  refine ⟨fun i cs hi => h1 i cs (hback hi).2, h2.2, fun j => ⟨fun hj => ?_, ?_⟩, ?_,
    fun i cs hi => h5 i cs (hback hi).2, fun k ci hk => ?_, h7, fun _ => if_pos rfl, ?_⟩
  · have hne : j ≠ ai := fun e => h2.1 (e ▸ hj)
    obtain ⟨cs, hcs, hr⟩ := (h3 j).1 (List.mem_cons_of_mem _ hj)
    exact ⟨cs, by rw [if_neg hne]; exact hcs, hr⟩
  · rintro ⟨cs, hcs, hr⟩
    obtain ⟨hne, hcs'⟩ := hback hcs
    rcases List.mem_cons.1 ((h3 j).2 ⟨cs, hcs', hr⟩) with e | hj
    · exact absurd e hne
    · exact hj
  · have : (0 : Nat) ≠ ai := by
      intro e
      obtain ⟨cs, hcs, hr⟩ := (h3 ai).1 List.mem_cons_self
      rw [← e, h4] at hcs
      cases hcs
      cases hr
    rw [if_neg this]; exact h4
  · obtain ⟨g1, g2⟩ := h6 k ci hk
    refine ⟨g1, fun i => (g2 i).trans ⟨?_, ?_⟩⟩
    · rintro (⟨cs, hcs, hm⟩ | ⟨-, hm⟩)
      · by_cases e : i = ai
        · subst e
          rw [hv] at hcs
          cases hcs
          exact .inr ⟨rfl, hm⟩
        · exact .inl ⟨cs, by rw [if_neg e]; exact hcs, hm⟩
      · cases hm
    · rintro (⟨cs, hcs, hm⟩ | ⟨rfl, hm⟩)
      · exact .inl ⟨cs, (hback hcs).2, hm⟩
      · exact .inl ⟨acs, hv, hm⟩
  · rw [List.nodup_iff_pairwise_ne]
    exact (h1 ai acs hv).imp fun hlt => Nat.ne_of_lt hlt

/-- a component of the removed archetype that no live key has (the removed component itself) -/
theorem VI.skip {r : Nat} {R : List Nat} {V : Nat → Option (List Nat)} {C : SlotMap CompInfo} {ai c : Nat}
    {Rc : List Nat} (h : VI r R V C ai (c :: Rc)) (hc : ∀ k ci, C.get k = some ci → k.idx ≠ c) :
    VI r R V C ai Rc := by
  obtain ⟨h1, h2, h3, h4, h5, h6, h7, h8, h9⟩ := h
  refine ⟨h1, h2, h3, h4, h5, fun k ci hk => ?_, h7, fun _ => h8 (List.cons_ne_nil _ _), (List.nodup_cons.1 h9).2⟩
  obtain ⟨g1, g2⟩ := h6 k ci hk
  refine ⟨g1, fun i => (g2 i).trans ?_⟩
  simp only [List.mem_cons, hc k ci hk, false_or]

/-- `member_of.swap_remove(&ai)` of the component `c` of the removed archetype -/
theorem VI.step {r : Nat} {R : List Nat} {V : Nat → Option (List Nat)} {C : SlotMap CompInfo} {ai c : Nat}
    {Rc : List Nat} (h : VI r R V C ai (c :: Rc)) {ck : Key} {ci : CompInfo} (hg : C.getByIndex c = some (ck, ci)) :
    VI r R V (C.set ck { ci with memberOf := dropMember ci.memberOf ai }) ai Rc := by
  obtain ⟨h1, h2, h3, h4, h5, h6, h7, h8, h9⟩ := h
  obtain ⟨hg0, hi0⟩ := SlotMap.getByIndex_get hg
  rw [List.nodup_cons] at h9
  have hgone : V ai = none := h8 (List.cons_ne_nil _ _)
  refine ⟨h1, h2, h3, h4, fun i cs hi c' hc' hne => ?_, fun k ci' hk => ?_, fun k ci' hk => ?_,
    fun _ => hgone, h9.2⟩
  · rw [getByIndex_set_isSome hg0]; exact h5 i cs hi c' hc' hne
  · rw [SlotMap.get_set hg0] at hk
    split at hk
    · next e =>
      subst e
      cases hk
      obtain ⟨g1, g2⟩ := h6 k ci hg0
      obtain ⟨d1, d2⟩ := dropMember_spec g1 ai
      refine ⟨d1, fun i => ?_⟩
      show i ∈ dropMember ci.memberOf ai ↔ _
      rw [d2, g2, hi0]
      constructor
      · rintro ⟨hl | ⟨e, -⟩, hne⟩
        · exact .inl hl
        · exact absurd e hne
      · rintro (⟨cs, hcs, hm⟩ | ⟨-, hm⟩)
        · refine ⟨.inl ⟨cs, hcs, hm⟩, ?_⟩
          rintro rfl
          rw [hgone] at hcs; cases hcs
        · exact absurd hm h9.1
    · next e =>
      obtain ⟨g1, g2⟩ := h6 k ci' hk
      have hne : k.idx ≠ c := fun hc => e (key_eq_of_idx hk hg0 (hc.trans hi0.symm))
      refine ⟨g1, fun i => (g2 i).trans ?_⟩
      simp only [List.mem_cons, hne, false_or]
  · rw [SlotMap.get_set hg0] at hk
    split at hk
    · next e => subst e; exact h7 k ci hg0
    · exact h7 k ci' hk

/-- at the end: the four fields of `GraphInv'` other than `GraphOK` -/
theorem VI.gi0 {r : Nat} {V : Nat → Option (List Nat)} {C : SlotMap CompInfo} {ai : Nat} (h : VI r [] V C ai [])
    {A : Slab Arch} (hA : SlabView V A) : GI0 A C := by
  obtain ⟨-, -, h3, h4, h5, h6, -, -, -⟩ := h
  refine ⟨?_, fun i a ha c hc => ?_, hA.keys, fun k ci hk => ?_⟩
  · obtain ⟨a0, h0, hc⟩ := hA.to_get h4
    exact ⟨a0, h0, hc⟩
  · refine h5 i a.comps (hA.of_get ha) c hc ?_
    rintro rfl
    exact absurd ((h3 i).2 ⟨a.comps, hA.of_get ha, hc⟩) List.not_mem_nil
  · obtain ⟨g1, g2⟩ := h6 k ci hk
    refine ⟨g1, fun i => (g2 i).trans ⟨?_, ?_⟩⟩
    · rintro (⟨cs, hcs, hm⟩ | ⟨-, hm⟩)
      · obtain ⟨a, ha, hc⟩ := hA.to_get hcs
        exact ⟨a, ha, hc ▸ hm⟩
      · cases hm
    · rintro ⟨a, ha, hm⟩
      exact .inl ⟨a.comps, hA.of_get ha, hm⟩

end InvV1
end Evenio
