import Evenio.Proofs.Inv.ListsReg
/-! # Section E: `initParam` keeps the loop invariant `ConfigRel` of the parameter loop of `addHandler`

`Obl.initParam_configRel` is FALSE as stated (see `initParam_configRel_partial_v3`): `ConfigRel` lacks the conjunct
"`recvEv = none → recvMut = false`".  Here: the static half (`ConfigStatic`, with the missing conjunct) at the level of
returned values (`Ret`). -/
namespace Evenio
namespace InvV3

/-- `Q::init` only adds to `referenced` -/
theorem initQuery_ret' (q : Query) (cfg : Config) :
    Ret (initQuery q cfg) (fun r => r.2.1 = r.1.init ∧ ∃ refs, r.2.2 = { cfg with referenced := refs }) := by
  unfold initQuery
  refine Ret.bind (Ret.forIn (fun b => ∃ refs, b = { cfg with referenced := refs }) ⟨cfg.referenced, rfl⟩
    fun c b hb => ?_) fun b hb => ?_
  · obtain ⟨refs, rfl⟩ := hb
    exact Ret.bind' fun k => Ret.pure ⟨_, rfl⟩
  · exact Ret.bind' fun w => Ret.pure ⟨rfl, hb⟩

/-- the static half of `ConfigRel`, with the conjunct it lacks (`mutNone`) -/
structure ConfigStatic (cfg : Config) (params : List Param) : Prop where
  accesses : cfg.accesses = (params.filter (·.hasQ)).map fun p => p.q.init
  filter : FilterRel cfg params
  caches : ∀ p ∈ params, p.cache = {}
  spawnImm : ∀ k, cfg.recvEv = some (some (.spawn, k)) → cfg.recvMut = false
  mutNone : cfg.recvEv = none → cfg.recvMut = false

theorem setRecv_cases (cfg : Config) (ev : EvTy) (k : Key) :
    (cfg.setRecv ev k).recvEv ≠ none ∧
    ∀ ty k', (cfg.setRecv ev k).recvEv = some (some (ty, k')) →
      ty = ev ∧ k' = k ∧ (cfg.recvEv = none ∨ cfg.recvEv = some (some (ev, k))) := by
  unfold Config.setRecv
  dsimp only
  split
  · next h => exact ⟨by simp, fun ty k' he => by cases he; exact ⟨rfl, rfl, .inl h⟩⟩
  · next ty' k'' h =>
    split
    · next hc =>
      simp only [Bool.and_eq_true, beq_iff_eq] at hc
      refine ⟨by simp, fun ty k' he => ?_⟩
      cases he
      exact ⟨rfl, rfl, .inr (by rw [h, hc.1, hc.2])⟩
    · exact ⟨by simp, fun ty k' he => by cases he⟩
  · exact ⟨by simp, fun ty k' he => by cases he⟩

/-- what one `HandlerParam::init` does to the static part of the configuration -/
structure ParamOut (cfg : Config) (p : Param) (cfg' : Config) : Prop where
  cache : p.cache = {}
  accesses : cfg'.accesses = cfg.accesses ++ (if p.hasQ then [p.q.init] else [])

theorem initParam_out (ps : PSpec) (cfg : Config) : Ret (initParam ps cfg) (fun r => ParamOut cfg r.1 r.2) := by
  unfold initParam
  cases ps with
  | recv ev mutable q =>
    dsimp only
    split
    · refine Ret.bind' fun k => Ret.bind (initQuery_ret' _ cfg) fun r hr => ?_
      obtain ⟨q', ca, cfg1⟩ := r
      obtain ⟨hca, refs, hcfg⟩ := hr
      simp only at hca hcfg
      subst hcfg
      refine Ret.pure ⟨rfl, ?_⟩
      simp [Config.setRecvAccess, Config.setRecv, hca]
    · refine Ret.bind' fun k => Ret.pure ⟨rfl, ?_⟩
      simp [Config.setRecvAccess, Config.setRecv]
  | fetch q =>
    refine Ret.bind (initQuery_ret' _ cfg) fun r hr => ?_
    obtain ⟨q', ca, cfg1⟩ := r
    obtain ⟨hca, refs, hcfg⟩ := hr
    simp only at hca hcfg
    subst hcfg
    exact Ret.pure ⟨rfl, by simp [hca]⟩
  | single q =>
    refine Ret.bind (initQuery_ret' _ cfg) fun r hr => ?_
    obtain ⟨q', ca, cfg1⟩ := r
    obtain ⟨hca, refs, hcfg⟩ := hr
    simp only at hca hcfg
    subst hcfg
    exact Ret.pure ⟨rfl, by simp [hca]⟩
  | trySingle q =>
    refine Ret.bind (initQuery_ret' _ cfg) fun r hr => ?_
    obtain ⟨q', ca, cfg1⟩ := r
    obtain ⟨hca, refs, hcfg⟩ := hr
    simp only at hca hcfg
    subst hcfg
    exact Ret.pure ⟨rfl, by simp [hca]⟩
  | snd evs =>
    dsimp only
    refine Ret.bind' fun idxs => ?_
    refine Ret.bind (Ret.forIn (fun b => b.accesses = cfg.accesses) rfl fun x b hb => ?_) fun b hb => ?_
    · obtain ⟨ev, i⟩ := x
      dsimp only
      split
      · exact Ret.pure hb
      · exact Ret.pure hb
    · exact Ret.pure ⟨rfl, by simp [hb]⟩
  | ents => exact Ret.pure ⟨rfl, by simp⟩

/-- what one `HandlerParam::init` does to the received event and its mutability -/
def RecvOut (ps : PSpec) (cfg cfg' : Config) : Prop :=
  (cfg'.recvEv = cfg.recvEv ∧ cfg'.recvMut = cfg.recvMut) ∨
  ∃ ev mutable q k, ps = .recv ev mutable q ∧ cfg'.recvEv = (cfg.setRecv ev k).recvEv ∧
    cfg'.recvMut = (cfg.recvMut || mutable)

theorem initParam_recvOut (ps : PSpec) (cfg : Config) : Ret (initParam ps cfg) (fun r => RecvOut ps cfg r.2) := by
  unfold initParam
  cases ps with
  | recv ev mutable q =>
    dsimp only
    split
    · refine Ret.bind' fun k => Ret.bind (initQuery_ret' _ cfg) fun r hr => ?_
      obtain ⟨q', ca, cfg1⟩ := r
      obtain ⟨hca, refs, hcfg⟩ := hr
      simp only at hca hcfg
      subst hcfg
      exact Ret.pure (.inr ⟨ev, mutable, q, k, rfl, rfl, rfl⟩)
    · exact Ret.bind' fun k => Ret.pure (.inr ⟨ev, mutable, q, k, rfl, rfl, rfl⟩)
  | fetch q =>
    refine Ret.bind (initQuery_ret' _ cfg) fun r hr => ?_
    obtain ⟨q', ca, cfg1⟩ := r
    obtain ⟨hca, refs, hcfg⟩ := hr
    simp only at hca hcfg
    subst hcfg
    exact Ret.pure (.inl ⟨rfl, rfl⟩)
  | single q =>
    refine Ret.bind (initQuery_ret' _ cfg) fun r hr => ?_
    obtain ⟨q', ca, cfg1⟩ := r
    obtain ⟨hca, refs, hcfg⟩ := hr
    simp only at hca hcfg
    subst hcfg
    exact Ret.pure (.inl ⟨rfl, rfl⟩)
  | trySingle q =>
    refine Ret.bind (initQuery_ret' _ cfg) fun r hr => ?_
    obtain ⟨q', ca, cfg1⟩ := r
    obtain ⟨hca, refs, hcfg⟩ := hr
    simp only at hca hcfg
    subst hcfg
    exact Ret.pure (.inl ⟨rfl, rfl⟩)
  | snd evs =>
    dsimp only
    refine Ret.bind' fun idxs => ?_
    refine Ret.bind (Ret.forIn (fun b => b.recvEv = cfg.recvEv ∧ b.recvMut = cfg.recvMut) ⟨rfl, rfl⟩
      fun x b hb => ?_) fun b hb => ?_
    · obtain ⟨ev, i⟩ := x
      dsimp only
      split
      · exact Ret.pure hb
      · exact Ret.pure hb
    · exact Ret.pure (.inl hb)
  | ents => exact Ret.pure (.inl ⟨rfl, rfl⟩)

/-- **the static half of the loop invariant is kept by `initParam`** (for a parameter the Rust type system accepts:
    no `ReceiverMut<Spawn>`) -/
theorem initParam_static {ps : PSpec} {cfg : Config} {params : List Param} (hvalid : ∀ q, ps ≠ .recv .spawn true q)
    (hs : ConfigStatic cfg params) {w : World} {p : Param} {cfg' : Config} {w' : World}
    (hr : (initParam ps cfg).run.run w = (.ok (p, cfg'), w')) : ConfigStatic cfg' (params ++ [p]) := by
  have h1 : ParamOut cfg p cfg' := initParam_out ps cfg w (p, cfg') w' hr
  have h2 : ParamStep cfg p cfg' := initParam_ret ps cfg w (p, cfg') w' hr
  have h3 : RecvOut ps cfg cfg' := initParam_recvOut ps cfg w (p, cfg') w' hr
  refine ⟨?_, hs.filter.step h2, fun p' hp' => ?_, fun k hk => ?_, fun hn => ?_⟩
  · rw [h1.accesses, hs.accesses, List.filter_append, List.map_append]
    congr 1
    by_cases hq : p.hasQ = true <;> simp [hq]
  · rcases List.mem_append.1 hp' with hp' | hp'
    · exact hs.caches p' hp'
    · rw [List.mem_singleton] at hp'
      rw [hp']
      exact h1.cache
  · rcases h3 with ⟨e1, e2⟩ | ⟨ev, mutable, q, k0, rfl, e1, e2⟩
    · rw [e2]
      exact hs.spawnImm k (e1 ▸ hk)
    · rw [e1] at hk
      obtain ⟨hty, -, hold⟩ := (setRecv_cases cfg ev k0).2 _ _ hk
      subst hty
      have hm : mutable = false := by
        cases mutable with
        | false => rfl
        | true => exact absurd rfl (hvalid q)
      have hc : cfg.recvMut = false := by
        rcases hold with hold | hold
        · exact hs.mutNone hold
        · exact hs.spawnImm k0 hold
      rw [e2, hm, hc]
      rfl
  · rcases h3 with ⟨e1, e2⟩ | ⟨ev, mutable, q, k0, rfl, e1, e2⟩
    · rw [e2]
      exact hs.mutNone (e1 ▸ hn)
    · rw [e1] at hn
      exact absurd hn (setRecv_cases cfg ev k0).1

/-! ### the registries only grow along the `add_*` functions -/

open Obl (Grows)

/-- the registries are well formed and contain what `w0` contained -/
abbrev GRI (w0 : World) : World → Prop := fun w => RegInv [] w ∧ Grows w0 w

theorem grows_refl (w : World) : Grows w w :=
  ⟨fun _ ci h => ⟨ci, h, rfl⟩, fun _ _ h => h, fun _ _ h => h⟩

theorem Grows.trans {w0 w1 w2 : World} (h1 : Grows w0 w1) (h2 : Grows w1 w2) : Grows w0 w2 := by
  refine ⟨fun k ci h => ?_, fun k ei h => h2.2.1 k ei (h1.2.1 k ei h), fun k ei h => h2.2.2 k ei (h1.2.2 k ei h)⟩
  obtain ⟨ci1, g1, e1⟩ := h1.1 k ci h
  obtain ⟨ci2, g2, e2⟩ := h2.1 k ci1 g1
  exact ⟨ci2, g2, e2.trans e1⟩

variable {w0 : World}

/-- functions that write neither the component registry (up to `memberOf`) nor the event registries -/
theorem keeps_gri_of_frames {α : Type} {m : M α} (hri : Keeps (RegInv []) m) (hcc : ∀ c, Keeps (CC c) m)
    (hev : ∀ g, Keeps (EV g) m) : Keeps (GRI w0) m := by
  refine ⟨fun w hw => ⟨hri.run w hw.1, ?_⟩⟩
  have e1 : (m.run.run w).2.compsCore = w.compsCore := (hcc w.compsCore).run w rfl
  have e2 : ((m.run.run w).2.gevs, (m.run.run w).2.tevs) = (w.gevs, w.tevs) := (hev (w.gevs, w.tevs)).run w rfl
  have e3 : (m.run.run w).2.gevs = w.gevs := congrArg Prod.fst e2
  have e4 : (m.run.run w).2.tevs = w.tevs := congrArg Prod.snd e2
  refine Grows.trans hw.2 ⟨fun k ci h => ?_, fun k ei h => by rw [e3]; exact h, fun k ei h => by rw [e4]; exact h⟩
  have := congrArg (fun sm => SlotMap.get sm k) e1
  simp only [World.compsCore, SlotMap.get_mapVal, h, Option.map_some] at this
  cases hg : (m.run.run w).2.comps.get k with
  | none => rw [hg] at this; cases this
  | some ci' =>
    rw [hg] at this
    simp only [Option.map_some, Option.some.injEq] at this
    exact ⟨ci', rfl, (congrArg CompInfo.ty this : ci'.core.ty = ci.core.ty)⟩

theorem push_gri (it : QItem) : Keeps (GRI w0) (push it) :=
  keeps_gri_of_frames (push_ri it) (fun _ => push_cc it) (fun g => Keeps.ev_of_frame (fun _ => push_fr it) g)
theorem dropEvent_gri (it : QItem) : Keeps (GRI w0) (dropEvent it) :=
  keeps_gri_of_frames (dropEvent_ri it) (fun _ => dropEvent_cc it)
    (fun g => Keeps.ev_of_frame (fun _ => dropEvent_fr it) g)
theorem flush_gri (fuel : Nat) : Keeps (GRI w0) (flush fuel) :=
  keeps_gri_of_frames (flush_ri fuel) (fun _ => flush_cc fuel) (fun g => flush_ev g fuel)

theorem gri_insert_gevs {w : World} (h : GRI w0 w) {f : Key → EvInfo} {k : Key} {g' : SlotMap EvInfo}
    (hins : w.gevs.insertWith f = some (k, g')) (bg : List (HandlerList Key)) :
    GRI w0 { w with gevs := g', byGlobal := bg } := by
  refine ⟨RI.insert_gevs h.1 hins, h.2.1, fun k' ei hk' => ?_, h.2.2.2⟩
  obtain ⟨-, -, -, hother, hnc⟩ := SlotMap.insertWith_usable h.1.wfg hins
  have h1 := h.2.2.1 k' ei hk'
  have : k' ≠ k := by
    rintro rfl
    simp [SlotMap.contains, h1] at hnc
  show g'.get k' = some ei
  rw [hother k' this]
  exact h1

theorem gri_insert_tevs {w : World} (h : GRI w0 w) {f : Key → EvInfo} {k : Key} {t' : SlotMap EvInfo}
    (hins : w.tevs.insertWith f = some (k, t')) : GRI w0 { w with tevs := t' } := by
  refine ⟨RI.insert_tevs h.1 hins, h.2.1, h.2.2.1, fun k' ei hk' => ?_⟩
  obtain ⟨-, -, -, hother, hnc⟩ := SlotMap.insertWith_usable h.1.wft hins
  have h1 := h.2.2.2 k' ei hk'
  have : k' ≠ k := by
    rintro rfl
    simp [SlotMap.contains, h1] at hnc
  show t'.get k' = some ei
  rw [hother k' this]
  exact h1

theorem gri_insert_comps {w : World} (h : GRI w0 w) {f : Key → CompInfo} {k : Key} {c' : SlotMap CompInfo}
    (hins : w.comps.insertWith f = some (k, c')) : GRI w0 { w with comps := c' } := by
  refine ⟨RI.insert_comps h.1 hins, fun k' ci hk' => ?_, h.2.2.1, h.2.2.2⟩
  obtain ⟨-, -, -, hother, hnc⟩ := SlotMap.insertWith_usable h.1.wfc hins
  obtain ⟨ci1, h1, e1⟩ := h.2.1 k' ci hk'
  have : k' ≠ k := by
    rintro rfl
    simp [SlotMap.contains, h1] at hnc
  refine ⟨ci1, ?_, e1⟩
  show c'.get k' = some ci1
  rw [hother k' this]
  exact h1

theorem gri_set_comps {w : World} (h : GRI w0 w) {c : Nat} {ck : Key} {ci ci' : CompInfo}
    (hg : w.comps.getByIndex c = some (ck, ci)) (hty : ci'.ty = ci.ty) :
    GRI w0 { w with comps := w.comps.set ck ci' } := by
  have hg0 := (SlotMap.getByIndex_get hg).1
  refine ⟨RI.set_comps h.1 hg0 _, fun k' ci0 hk' => ?_, h.2.2.1, h.2.2.2⟩
  obtain ⟨ci1, h1, e1⟩ := h.2.1 k' ci0 hk'
  show ∃ ci2, (w.comps.set ck ci').get k' = some ci2 ∧ ci2.ty = ci0.ty
  rw [SlotMap.get_set hg0]
  by_cases hk : k' = ck
  · subst hk
    rw [if_pos rfl]
    rw [hg0] at h1
    cases h1
    exact ⟨ci', rfl, hty.trans e1⟩
  · rw [if_neg hk]
    exact ⟨ci1, h1, e1⟩

theorem gri_set_comps_ins {w : World} (h : GRI w0 w) {c : Nat} {ck : Key} {ci : CompInfo}
    (hg : w.comps.getByIndex c = some (ck, ci)) (l : List Key) :
    GRI w0 { w with comps := w.comps.set ck { ci with insEvents := l } } :=
  gri_set_comps h hg rfl

theorem gri_set_comps_rem {w : World} (h : GRI w0 w) {c : Nat} {ck : Key} {ci : CompInfo}
    (hg : w.comps.getByIndex c = some (ck, ci)) (l : List Key) :
    GRI w0 { w with comps := w.comps.set ck { ci with remEvents := l } } :=
  gri_set_comps h hg rfl

/-- closes the goals `keeps` leaves: a `set` that writes one of the registries -/
syntax "grifix" : tactic
macro_rules | `(tactic| grifix) => `(tactic| (refine Keeps.set ?_; first
      | exact gri_insert_gevs ‹_› ‹_› _
      | exact gri_insert_tevs ‹_› ‹_›
      | exact gri_insert_comps ‹_› ‹_›
      | exact gri_set_comps_ins ‹_› ‹_› _
      | exact gri_set_comps_rem ‹_› ‹_› _))

local macro_rules | `(tactic| keeps_leaf) => `(tactic| exact push_gri _)
local macro_rules | `(tactic| keeps_leaf) => `(tactic| exact dropEvent_gri _)
local macro_rules | `(tactic| keeps_leaf) => `(tactic| exact flush_gri _)

theorem ensureAddG_gri : Keeps (GRI w0) ensureAddG := by
  unfold ensureAddG; keeps
  all_goals grifix
local macro_rules | `(tactic| keeps_leaf) => `(tactic| exact ensureAddG_gri)
theorem addGlobalEvent_gri (ty : EvTy) : Keeps (GRI w0) (addGlobalEvent ty) := by
  unfold addGlobalEvent; keeps
  all_goals grifix
local macro_rules | `(tactic| keeps_leaf) => `(tactic| exact addGlobalEvent_gri _)
theorem sendGlobal_gri (ty : EvTy) (pay : Payload) : Keeps (GRI w0) (sendGlobal ty pay) := by
  unfold sendGlobal; keeps
local macro_rules | `(tactic| keeps_leaf) => `(tactic| exact sendGlobal_gri _ _)
theorem addComponent_gri (ty : Nat) : Keeps (GRI w0) (addComponent ty) := by
  unfold addComponent; keeps
  all_goals grifix
local macro_rules | `(tactic| keeps_leaf) => `(tactic| exact addComponent_gri _)
theorem addTargetedEvent_gri (ty : EvTy) : Keeps (GRI w0) (addTargetedEvent ty) := by
  unfold addTargetedEvent; keeps
  all_goals grifix
local macro_rules | `(tactic| keeps_leaf) => `(tactic| exact addTargetedEvent_gri _)
theorem addEvent_gri (ty : EvTy) : Keeps (GRI w0) (addEvent ty) := by
  unfold addEvent; keeps
local macro_rules | `(tactic| keeps_leaf) => `(tactic| exact addEvent_gri _)
theorem initQuery_gri (q : Query) (cfg : Config) : Keeps (GRI w0) (initQuery q cfg) := by
  unfold initQuery; keeps
local macro_rules | `(tactic| keeps_leaf) => `(tactic| exact initQuery_gri _ _)
theorem initParam_gri (ps : PSpec) (cfg : Config) : Keeps (GRI w0) (initParam ps cfg) := by
  unfold initParam; keeps

/-- **`Obl.initParam_grows`**, from a world with well-formed registries -/
theorem initParam_grows_of_regInv {ps : PSpec} {cfg : Config} {w : World} {r : Param × Config} {w' : World}
    (hri : RegInv [] w) (hr : (initParam ps cfg).run.run w = (.ok r, w')) : Grows w w' := by
  have := (initParam_gri (w0 := w) ps cfg).run w ⟨hri, grows_refl w⟩
  rw [hr] at this
  exact this.2

/-! ### the `add_*` functions return live keys of the requested type -/

theorem find?_toList_get {α : Type} {sm : SlotMap α} {p : Key × α → Bool} {k : Key} {v : α}
    (h : sm.toList.find? p = some (k, v)) : sm.get k = some v ∧ p (k, v) = true :=
  ⟨SlotMap.get_of_mem_toList (List.mem_of_find?_eq_some h), List.find?_some h⟩

/-- running from a known world -/
theorem hoareOk_set_eq (w1 : World) {P : World → Prop} :
    HoareOk P (set w1 : M PUnit) (fun _ w2 => w2 = w1) :=
  ⟨fun _ _ _ _ hr => by cases hr; rfl⟩

/-- whatever keeps `GRI w1`, run from `w1` -/
theorem hoareOk_grows_from {α : Type} {m : M α} {w1 : World} (hri : RegInv [] w1) (hm : Keeps (GRI w1) m) :
    HoareOk (fun w => w = w1) m (fun _ w2 => GRI w1 w2) :=
  HoareOk.pre (HoareOk.of_keeps hm) fun w hw => by subst hw; exact ⟨hri, grows_refl _⟩

theorem hoareOk_ret_and {α : Type} {P : World → Prop} {m : M α} {Q : α → World → Prop} {R : α → Prop}
    (h : HoareOk P m Q) (hr : Ret m R) : HoareOk P m (fun a w => Q a w ∧ R a) :=
  ⟨fun w hw a w' hrun => ⟨h.run w hw a w' hrun, hr w a w' hrun⟩⟩

theorem addComponent_live_run {ty : Nat} {w : World} {k : Key} {w' : World} (hri : RegInv [] w)
    (hr : (addComponent ty).run.run w = (.ok k, w')) : ∃ ci, w'.comps.get k = some ci ∧ ci.ty = ty := by
  unfold addComponent at hr
  rw [run_bind, run_get] at hr
  refine (?_ : HoareOk (fun w1 => w1 = w) _ (fun k w' => ∃ ci, w'.comps.get k = some ci ∧ ci.ty = ty)).run w rfl
    k w' hr
  split
  · next k0 ci0 hfind =>
    refine HoareOk.pure fun w1 h1 => ?_
    subst h1
    obtain ⟨h1, h2⟩ := find?_toList_get hfind
    exact ⟨ci0, h1, by simpa using h2⟩
  · split
    · exact HoareOk.throw _
    · next k0 comps hins =>
      refine HoareOk.bind (hoareOk_set_eq _) fun _ => ?_
      refine HoareOk.bind (hoareOk_grows_from (RI.insert_comps hri hins) (sendGlobal_gri _ _)) fun _ => ?_
      refine HoareOk.pure fun w2 h2 => ?_
      obtain ⟨ci', h1, h2⟩ := h2.2.1 k0 _ (SlotMap.get_insertWith_self hins)
      exact ⟨ci', h1, h2⟩

theorem ensureAddG_live_run {w : World} {k : Key} {w' : World} (hri : RegInv [] w)
    (hr : ensureAddG.run.run w = (.ok k, w')) : ∃ ei, w'.gevs.get k = some ei ∧ ei.ty = .addG := by
  unfold ensureAddG at hr
  rw [run_bind, run_get] at hr
  refine (?_ : HoareOk (fun w1 => w1 = w) _ (fun k w' => ∃ ei, w'.gevs.get k = some ei ∧ ei.ty = .addG)).run w rfl
    k w' hr
  split
  · next k0 ei0 hfind =>
    refine HoareOk.pure fun w1 h1 => ?_
    subst h1
    obtain ⟨h1, h2⟩ := find?_toList_get hfind
    exact ⟨ei0, h1, by simpa using h2⟩
  · split
    · exact HoareOk.throw _
    · next k0 gevs hins =>
      refine HoareOk.bind (hoareOk_set_eq _) fun _ => ?_
      refine HoareOk.bind (hoareOk_grows_from (RI.insert_gevs hri hins) (push_gri _)) fun _ => ?_
      refine HoareOk.bind_inv (HoareOk.of_keeps (flush_gri _)) fun _ => ?_
      refine HoareOk.pure fun w2 h2 => ?_
      exact ⟨_, h2.2.2.1 k0 _ (SlotMap.get_insertWith_self hins), rfl⟩

theorem addGlobalEvent_live_run {ty : EvTy} {w : World} {k : Key} {w' : World} (hri : RegInv [] w)
    (hr : (addGlobalEvent ty).run.run w = (.ok k, w')) : ∃ ei, w'.gevs.get k = some ei ∧ ei.ty = ty := by
  unfold addGlobalEvent at hr
  split at hr
  · next hty =>
    have : ty = .addG := by simpa using hty
    subst this
    exact ensureAddG_live_run hri hr
  · rw [run_bind, run_get] at hr
    refine (?_ : HoareOk (fun w1 => w1 = w) _ (fun k w' => ∃ ei, w'.gevs.get k = some ei ∧ ei.ty = ty)).run w rfl
      k w' hr
    split
    · next k0 ei0 hfind =>
      refine HoareOk.pure fun w1 h1 => ?_
      subst h1
      obtain ⟨h1, h2⟩ := find?_toList_get hfind
      exact ⟨ei0, h1, by simpa using h2⟩
    · split
      · exact HoareOk.throw _
      · next k0 gevs hins =>
        refine HoareOk.bind (hoareOk_set_eq _) fun _ => ?_
        refine HoareOk.bind (hoareOk_grows_from (RI.insert_gevs hri hins) ensureAddG_gri) fun _ => ?_
        refine HoareOk.bind_inv (HoareOk.of_keeps (push_gri _)) fun _ => ?_
        refine HoareOk.bind_inv (HoareOk.of_keeps (flush_gri _)) fun _ => ?_
        refine HoareOk.pure fun w2 h2 => ?_
        exact ⟨_, h2.2.2.1 k0 _ (SlotMap.get_insertWith_self hins), rfl⟩

theorem addTargetedEvent_live (ty : EvTy) :
    HoareOk (RegInv []) (addTargetedEvent ty) (fun k w' => ∃ ei, w'.tevs.get k = some ei ∧ ei.ty = ty) := by
  unfold addTargetedEvent
  refine HoareOk.bind_inv (HoareOk.of_keeps (by split <;> keeps)) fun kind => ?_
  refine ⟨fun w hri k w' hr => ?_⟩
  rw [run_bind, run_get] at hr
  refine (?_ : HoareOk (fun w1 => w1 = w) _ (fun k w' => ∃ ei, w'.tevs.get k = some ei ∧ ei.ty = ty)).run w rfl
    k w' hr
  split
  · next k0 ei0 hfind =>
    refine HoareOk.pure fun w1 h1 => ?_
    subst h1
    obtain ⟨h1, h2⟩ := find?_toList_get hfind
    exact ⟨ei0, h1, by simpa using h2⟩
  · dsimp only
    split
    · exact HoareOk.throw _
    · next k0 tevs hins =>
      refine HoareOk.bind (hoareOk_set_eq _) fun _ => ?_
      refine HoareOk.post (hoareOk_ret_and (Q := fun _ w2 => GRI { w with tevs := tevs } w2) (R := fun r => r = k0)
        (hoareOk_grows_from (RI.insert_tevs hri hins) ?_) ?_) fun r w2 h2 => ?_
      · keeps
        all_goals grifix
      · split
        · refine Ret.bind' fun _ => ?_
          split
          · exact Ret.bind' fun _ => Ret.bind' fun _ => Ret.pure rfl
          · exact Ret.bind' fun _ => Ret.pure rfl
        · refine Ret.bind' fun _ => ?_
          split
          · exact Ret.bind' fun _ => Ret.bind' fun _ => Ret.pure rfl
          · exact Ret.bind' fun _ => Ret.pure rfl
        · exact Ret.bind' fun _ => Ret.pure rfl
      · obtain ⟨h2, rfl⟩ := h2
        exact ⟨_, h2.2.2.2 r _ (SlotMap.get_insertWith_self hins), rfl⟩

end InvV3
end Evenio
