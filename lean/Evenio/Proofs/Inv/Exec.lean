import Evenio.Proofs.Inv.Lists
/-! # From the logical invariant to the executable one

`winv_implies_<conjunct>`: the Boolean conjuncts of `World.InvPlus` (Model/Inv.lean, Model/InvPlus.lean) that follow
from `WInv` (and `Quiescent` for `invPending`).  Proved here: `invEdges`, `invPending`, `invArch`, `invRegistry`,
`invMembers`, `invCache`, `invRefresh`, `invGlobal`, `invListeners`, `invHandlers`, the row/location part of
`invStore`.  `winv_implies_InvPlus` takes the conjuncts that are still open as the structure
`ExecLeft` (each field is one Boolean conjunct, with a note on what is missing). -/
namespace Evenio

variable {w : World}

/-! ### small list facts -/

/-- the first element satisfying `p` is the only one -/
theorem find?_eq_some_of_unique {α : Type} {l : List α} {p : α → Bool} {x : α} (hx : x ∈ l) (hp : p x = true)
    (hu : ∀ y ∈ l, p y = true → y = x) : l.find? p = some x := by
  induction l with
  | nil => cases hx
  | cons a l ih =>
    rw [List.find?_cons]
    cases ha : p a with
    | true => rw [hu a (List.mem_cons_self ..) ha]
    | false =>
      rcases List.mem_cons.1 hx with rfl | hx'
      · rw [hp] at ha; cases ha
      · exact ih hx' fun y hy => hu y (List.mem_cons_of_mem _ hy)

/-- `eraseDups` does nothing on a duplicate-free list (for any `BEq` that decides equality, e.g. the derived one of
    `Key`: `Slab.key_beq_iff`) -/
theorem eraseDups_of_nodup {α : Type} [BEq α] (hb : ∀ a b : α, (a == b) = true ↔ a = b) {l : List α}
    (h : l.Nodup) : l.eraseDups = l := by
  induction l with
  | nil => rfl
  | cons a l ih =>
    rw [List.eraseDups_cons]
    obtain ⟨ha, hl⟩ := List.nodup_cons.1 h
    have : (l.filter fun b => !b == a) = l := by
      refine List.filter_eq_self.2 fun b hb' => ?_
      cases hc : b == a with
      | false => rfl
      | true => exact absurd ((hb b a).1 hc ▸ hb') ha
    rw [this, ih hl]

theorem eraseDups_length_key {l : List Key} (h : l.Nodup) : (l.eraseDups.length == l.length) = true := by
  rw [eraseDups_of_nodup Slab.key_beq_iff h]; exact beq_self_eq_true _

theorem eraseDups_length_nat {l : List Nat} (h : l.Nodup) : (l.eraseDups.length == l.length) = true := by
  rw [eraseDups_of_nodup (fun a b => beq_iff_eq) h]; exact beq_self_eq_true _

/-! ### `invEdges`, `invPending` -/

theorem winv_implies_invEdges (h : WInv w) : w.invEdges = true := h.graph.graph.invEdges

theorem winv_implies_invPending (hq : Quiescent w) : w.invPending = true :=
  invPending_of_reserved_nil hq.2 hq.1

/-! ### `invArch` -/

theorem winv_implies_invArch (h : WInv w) : w.invArch = true := by
  rw [invArch_iff]
  refine ⟨h.graph.empty, fun i a hia => ⟨h.indexOK i a hia, h.graph.graph.sorted i a hia,
    h.graph.compsLive i a hia, ?_, fun j b hjb => ?_⟩⟩
  · -- retrievable by component set: it is the only archetype with these components
    rw [archByComps_eq_some_iff]
    have hm : (i, a) ∈ w.archs.toList := (Slab.mem_toList_iff _ _ _).2 hia
    refine ⟨a, hm, rfl, find?_eq_some_of_unique hm (by simp) ?_⟩
    rintro ⟨j, b⟩ hjb hc
    have hjb' := (Slab.mem_toList_iff _ _ _).1 hjb
    have hcs : b.comps = a.comps := by simpa using hc
    have : j = i := h.graph.graph.distinct j i b a hjb' hia hcs
    subst this
    rw [hia] at hjb'; cases hjb'; rfl
  · by_cases hc : a.comps = b.comps
    · exact .inl (h.graph.graph.distinct i j a b hia hjb hc)
    · exact .inr hc

/-! ### `invStore` (rows and locations; the count `entities.len = Σ rows` is open) -/

/-- every live entity is stored at the row its location says, and every row holds a live entity located there; the
    columns have the shape of the id list -/
theorem winv_implies_invStore_rows (h : WInv w) :
    (∀ k loc, (k, loc) ∈ w.entities.toList →
      ∃ a, w.archs.get loc.arch = some a ∧ a.ids[loc.row]? = some k) ∧
    (∀ i a, w.archs.get i = some a →
      a.cols.length = a.comps.length ∧ (∀ col ∈ a.cols, col.length = a.ids.length) ∧
      ∀ row id, a.ids[row]? = some id → w.entities.get id = some ⟨i, row⟩) := by
  have ok := h.storeOk
  refine ⟨fun k loc hm => ?_, fun i a hia => ?_⟩
  · have hr : (absStore w).rowId loc = some k := (ok.wf.bij k loc).1 hm
    unfold Store.rowId at hr
    cases hA : (absStore w).archs[loc.arch]? with
    | none => rw [hA] at hr; cases hr
    | some A =>
      rw [hA] at hr
      rcases absStore_arch_cases hA with ⟨a, ha, rfl⟩ | ⟨-, rfl⟩
      · exact ⟨a, ha, hr⟩
      · simp at hr
  · have hA := absStore_arch_of_get hia
    have hwf := ok.wf.arch _ (List.mem_of_getElem? hA)
    refine ⟨hwf.cols_len, hwf.col_len, fun row id hrow => ?_⟩
    have hr : (absStore w).rowId ⟨i, row⟩ = some id := by
      unfold Store.rowId
      rw [show (absStore w).archs[(⟨i, row⟩ : Loc).arch]? = some { a with cap := 0, epoch := 0 } from hA]
      exact hrow
    exact (SlotMap.mem_toList_iff ok.ents _ _).1 ((ok.wf.bij id ⟨i, row⟩).2 hr)

/-- `invStore`, given the counting fact -/
theorem winv_implies_invStore (h : WInv w)
    (hcount : w.entities.len = (w.archs.toList.map fun (_, a) => a.ids.length).sum) : w.invStore = true :=
  (invStore_iff w).2 ⟨(winv_implies_invStore_rows h).1, (winv_implies_invStore_rows h).2, hcount⟩

/-! ### `invRegistry` -/

theorem winv_implies_invRegistry (h : WInv w) : w.invRegistry = true := by
  have hr := h.registry
  unfold World.invRegistry
  simp only [Bool.and_eq_true, List.all_eq_true]
  refine ⟨⟨fun ⟨k, ci⟩ hm e he => ?_, fun ⟨k, ei⟩ hm => ?_⟩, fun ⟨k, hi⟩ hm => ?_⟩
  · obtain ⟨h1, h2⟩ := hr.compEvents k ci ((SlotMap.mem_toList_iff h.compsWF _ _).1 hm)
    rcases List.mem_append.1 he with he | he
    · obtain ⟨ei, hei, -⟩ := h1 e he; simp [SlotMap.contains, hei]
    · obtain ⟨ei, hei, -⟩ := h2 e he; simp [SlotMap.contains, hei]
  · have hg := (SlotMap.mem_toList_iff h.tevsWF _ _).1 hm
    have := hr.tevComp k ei hg
    dsimp only
    split
    · next c hk => obtain ⟨ck, ci, hc, -⟩ := (this c).1 hk; rw [hc]; rfl
    · next c hk => obtain ⟨ck, ci, hc, -⟩ := (this c).2 hk; rw [hc]; rfl
    · rfl
  · have hg := (SlotMap.mem_toList_iff h.handlersWF _ _).1 hm
    have rf := hr.handlerRefs k hi hg
    dsimp only
    refine ⟨⟨⟨fun c hc => rf.referenced c hc, ?_⟩, fun i hi' => rf.sentG i hi'⟩, fun i hi' => rf.sentT i hi'⟩
    cases ht : hi.recv.targeted with
    | true =>
      obtain ⟨info, hi', -⟩ := rf.recvT ht
      simp [SlotMap.contains, hi']
    | false =>
      obtain ⟨info, hi', -⟩ := rf.recvG ht
      simp [SlotMap.contains, hi']

/-! ### `invMembers`, `invCache`, `invRefresh` -/

theorem winv_implies_invMembers (h : WInv w) : w.invMembers = true := by
  unfold World.invMembers
  rw [List.all_eq_true]
  rintro ⟨k, ci⟩ hm
  obtain ⟨hnd, hex⟩ := h.graph.members k ci ((SlotMap.mem_toList_iff h.compsWF _ _).1 hm)
  have hexp : ∀ i, i ∈ (w.archs.toList.filter fun (x : Nat × Arch) => decide (k.idx ∈ x.2.comps)).map (·.1) ↔
      ∃ a, w.archs.get i = some a ∧ k.idx ∈ a.comps := fun i => by
    simp only [List.mem_map, List.mem_filter, Prod.exists, exists_and_right, exists_eq_right,
      decide_eq_true_eq]
    constructor
    · rintro ⟨a, hma, hc⟩; exact ⟨a, (Slab.mem_toList_iff _ _ _).1 hma, hc⟩
    · rintro ⟨a, ha, hc⟩; exact ⟨a, (Slab.mem_toList_iff _ _ _).2 ha, hc⟩
  simp only [Bool.and_eq_true, List.all_eq_true, List.contains_eq_mem, decide_eq_true_eq]
  refine ⟨⟨eraseDups_length_nat hnd, fun i hi => ?_⟩, fun i hi => ?_⟩
  · exact (hexp i).2 ((hex i).1 hi)
  · exact (hex i).2 ((hexp i).1 hi)

theorem winv_implies_invCache (h : WInv w) : w.invCache = true := by
  unfold World.invCache
  rw [List.all_eq_true]
  rintro ⟨k, hi⟩ hm
  have hg := (SlotMap.mem_toList_iff h.handlersWF _ _).1 hm
  rw [List.all_eq_true]
  intro p hp
  cases hq : p.hasQ with
  | false => rfl
  | true =>
    have hwf := (h.cache.caches.wf k hi hg p hp).1
    simp only [Bool.not_true, Bool.false_or, Bool.and_eq_true, List.all_eq_true, beq_iff_eq]
    refine ⟨⟨⟨fun ⟨i, a⟩ hma => ?_, fun i hik => h.cache.live k hi hg p hp hq i hik⟩, ?_⟩, ?_⟩
    · have hia := (Slab.mem_toList_iff _ _ _).1 hma
      have := h.cache.caches.exact k hi hg p hp hq i a hia
      unfold CacheExact at this
      rw [h.indexOK i a hia] at this
      exact this
    · have := eraseDups_length_nat (SparseMap.keys_nodup hwf)
      simpa using this
    · exact SparseMap.keys_length_eq_values_length hwf

theorem winv_implies_invRefresh (h : WInv w) : w.invRefresh = true := by
  unfold World.invRefresh
  rw [List.all_eq_true]
  rintro ⟨i, a⟩ hma
  have hl := h.lists.arch i a ((Slab.mem_toList_iff _ _ _).1 hma)
  have hmem : ∀ k, k ∈ (w.byInsertOrder.filter fun k =>
      match w.handlers.get k with
      | some h => h.archFilter.matches a.S
      | none => false) ↔ k ∈ a.refresh := fun k => by
    rw [hl.refresh, List.mem_filter]
    constructor
    · rintro ⟨hk, hm⟩
      cases hg : w.handlers.get k with
      | none => rw [hg] at hm; cases hm
      | some hi => rw [hg] at hm; exact ⟨hk, hi, rfl, hm⟩
    · rintro ⟨hk, hi, hg, hm⟩
      exact ⟨hk, by rw [hg]; exact hm⟩
  simp only [Bool.and_eq_true, sameSet, listSubset, List.all_eq_true, List.contains_eq_mem, decide_eq_true_eq]
  refine ⟨⟨fun k hk => (hmem k).2 hk, fun k hk => (hmem k).1 hk⟩, ?_⟩
  exact eraseDups_length_key hl.refreshNodup

/-! ### `invGlobal` -/

/-- an exact table lists `handlersWhere` -/
theorem TableExact.entries_eq {p : HInfo → Bool} {l : HandlerList Key}
    (h : TableExact w.byInsertOrder w.handlers p l) : l.entries = w.handlersWhere p := by
  rw [HandlerList.entries_eq_segments h.inv, h.hi, h.me, h.lo, handlersWhere_eq, sel_eq_selOf, sel_eq_selOf,
    sel_eq_selOf, List.append_assoc]

theorem winv_implies_invGlobal (h : WInv w) : w.invGlobal = true := by
  have hl := h.lists
  unfold World.invGlobal
  simp only [Bool.and_eq_true, List.all_eq_true, beq_iff_eq]
  refine ⟨⟨⟨fun ⟨gk, info⟩ hm => ?_, fun ⟨l, i⟩ hm => ?_⟩, hl.ordLen⟩, fun k hk => (hl.ordMem k).1 hk⟩
  · obtain ⟨l, hli, hex⟩ := hl.gExact gk info ((SlotMap.mem_toList_iff h.gevsWF _ _).1 hm)
    dsimp only
    rw [hli]
    simp only [beq_iff_eq]
    exact hex.entries_eq
  · have hi : w.byGlobal[i]? = some l := List.mem_zipIdx_iff_getElem?.1 hm
    dsimp only
    rcases hl.gDead i l hi with hs | he
    · rw [hs]; exact Bool.or_true _
    · rw [he]; rfl

/-! ### `invListeners` -/

theorem HandlerList.hi_length {l : HandlerList Key} (h : l.Inv) : l.hi.length = l.before := by
  unfold HandlerList.hi
  rw [List.length_take]
  exact Nat.min_eq_left (Nat.le_trans h.1 h.2)

theorem HandlerList.me_length {l : HandlerList Key} (h : l.Inv) : l.me.length = l.after - l.before := by
  unfold HandlerList.me
  rw [List.length_take, List.length_drop]
  have := h.1; have := h.2
  omega

/-- filtering a priority class by a predicate on the priority keeps all of it or nothing -/
theorem filter_selOf (ord : List Key) (H : SlotMap HInfo) (p : HInfo → Bool) (pr : Priority) (q : Priority → Bool) :
    (selOf ord H p pr).filter (fun k => (H.get k).any fun h => q h.prio) =
      if q pr = true then selOf ord H p pr else [] := by
  split
  · next hq =>
    refine List.filter_eq_self.2 fun k hk => ?_
    obtain ⟨-, h, hg, hpr, -⟩ := mem_selOf.1 hk
    rw [hg, Option.any_some, hpr]; exact hq
  · next hq =>
    refine List.filter_eq_nil_iff.2 fun k hk => ?_
    obtain ⟨-, h, hg, hpr, -⟩ := mem_selOf.1 hk
    rw [hg, Option.any_some, hpr]; exact hq

theorem TableExact.cursors {p : HInfo → Bool} {l : HandlerList Key}
    (h : TableExact w.byInsertOrder w.handlers p l) :
    l.before = ((w.handlersWhere p).filter fun k => (w.handlers.get k).any (·.prio == .high)).length ∧
    l.after = ((w.handlersWhere p).filter fun k => (w.handlers.get k).any (·.prio != .low)).length := by
  have e1 := filter_selOf w.byInsertOrder w.handlers p
  rw [handlersWhere_eq, sel_eq_selOf, sel_eq_selOf, sel_eq_selOf, List.filter_append, List.filter_append,
    List.filter_append, List.filter_append]
  rw [e1 .high (· == .high), e1 .medium (· == .high), e1 .low (· == .high), e1 .high (· != .low),
    e1 .medium (· != .low), e1 .low (· != .low)]
  have b1 := HandlerList.hi_length h.inv
  have b2 := HandlerList.me_length h.inv
  rw [h.hi] at b1
  rw [h.me] at b2
  have := h.inv.1
  refine ⟨?_, ?_⟩
  · simp [b1]
  · simp only [show ((Priority.high != Priority.low) = true) from rfl,
      show ((Priority.medium != Priority.low) = true) from rfl,
      show ((Priority.low != Priority.low) = true) = False from by simp, if_true, if_false, List.append_nil,
      List.length_append]
    omega

theorem winv_implies_invListeners (h : WInv w) : w.invListeners = true := by
  unfold World.invListeners
  rw [List.all_eq_true]
  rintro ⟨i, a⟩ hma
  have hl := h.lists.arch i a ((Slab.mem_toList_iff _ _ _).1 hma)
  simp only [Bool.and_eq_true, List.all_eq_true]
  refine ⟨fun ⟨tk, info⟩ hm => ?_, fun ⟨t, l⟩ hm => ?_⟩
  · have hex := hl.exact tk info ((SlotMap.mem_toList_iff h.tevsWF _ _).1 hm)
    dsimp only
    cases hg : a.listeners.get tk.idx with
    | none =>
      rw [hg] at hex
      have := hex.entries_eq
      dsimp only
      rw [List.isEmpty_iff]
      exact this.symm
    | some l =>
      rw [hg] at hex
      obtain ⟨c1, c2⟩ := hex.cursors
      dsimp only
      simp only [Bool.and_eq_true, beq_iff_eq]
      exact ⟨⟨hex.entries_eq, c1⟩, c2⟩
  · have hg := (SparseMap.keys_values_aligned hl.wf t l).2 hm
    dsimp only
    rcases hl.dead t l hg with hs | he
    · rw [hs]; exact Bool.or_true _
    · rw [he]; rfl

/-! ### executable `SparseMap.WF`, `invHandlers` -/

theorem sparseMap_wfCheck {ν : Type} {m : SparseMap ν} (h : SparseMap.WF m) : m.wfCheck = true := by
  unfold SparseMap.wfCheck
  simp only [Bool.and_eq_true, beq_iff_eq, decide_eq_true_eq, List.all_eq_true, Bool.or_eq_true]
  refine ⟨⟨⟨h.len, h.small⟩, fun ⟨k, i⟩ hm => ?_⟩, fun ⟨d, k⟩ hm => ?_⟩
  · exact h.fwd i k (List.mem_zipIdx_iff_getElem?.1 hm)
  · exact h.bwd k d (List.mem_zipIdx_iff_getElem?.1 hm)

theorem winv_implies_invHandlers (h : WInv w) : w.invHandlers = true := by
  have hl := h.lists
  unfold World.invHandlers
  simp only [Bool.and_eq_true, List.all_eq_true, beq_iff_eq, decide_eq_true_eq, List.contains_eq_mem]
  refine ⟨⟨by simpa using eraseDups_length_key hl.ordNodup, fun ⟨k, hi⟩ hm => ?_⟩, ?_, ?_⟩
  · have hg := (SlotMap.mem_toList_iff h.handlersWF _ _).1 hm
    have ok := hl.handler k hi hg
    refine ⟨⟨⟨⟨ok.key, ok.recvIdx⟩, (hl.ordMem k).2 (by simp [SlotMap.contains, hg])⟩, ok.archFilter, ok.compAccess⟩,
      fun p hp => sparseMap_wfCheck (h.cache.caches.wf k hi hg p hp).1⟩
  · exact (strictlySorted_iff _).2 hl.ordSorted
  · intro o ho
    obtain ⟨k, -, hk⟩ := List.mem_filterMap.1 ho
    cases hg : w.handlers.get k with
    | none => rw [hg] at hk; cases hk
    | some hi =>
      rw [hg] at hk
      cases hk
      exact (hl.handler k hi hg).order

/-! ### `invWF` (modulo the executable vacant-list / free-list walks) -/

theorem handlerList_invCheck {l : HandlerList Key} (h : l.Inv) (hn : l.entries.Nodup) : l.invCheck = true := by
  unfold HandlerList.invCheck
  simp only [Bool.and_eq_true, decide_eq_true_eq]
  exact ⟨⟨h.1, h.2⟩, eraseDups_length_key hn⟩

/-- every value of a well-formed sparse map is stored under some key -/
theorem SparseMap.get_of_mem_values {ν : Type} {m : SparseMap ν} (hw : SparseMap.WF m) {v : ν}
    (hv : v ∈ m.values) : ∃ k, m.get k = some v := by
  obtain ⟨i, hi⟩ := List.mem_iff_getElem?.1 hv
  have hlt : i < m.keys.length := by
    rw [SparseMap.keys_length_eq_values_length hw]
    exact (List.getElem?_eq_some_iff.1 hi).1
  refine ⟨m.keys[i], (SparseMap.keys_values_aligned hw _ _).2 (List.mem_iff_getElem?.2 ⟨i, ?_⟩)⟩
  rw [List.getElem?_zip_eq_some]
  exact ⟨List.getElem?_eq_getElem hlt, hi⟩

/-- `invWF`, given that the executable walks of the slab's vacant list and of a slot map's free list accept every
    well-formed structure (two data-structure lemmas that do not mention the world) -/
theorem winv_implies_invWF (h : WInv w) (hslab : ∀ s : Slab Arch, Slab.WF s → s.wfCheck = true)
    (hslot : ∀ {α : Type} (sm : SlotMap α), sm.WF → sm.wfCheck = true) : w.invWF = true := by
  unfold World.invWF
  simp only [Bool.and_eq_true, List.all_eq_true, decide_eq_true_eq]
  refine ⟨⟨⟨⟨⟨⟨⟨hslab _ h.slabWF, hslot _ h.entsWF⟩, hslot _ h.compsWF⟩, hslot _ h.gevsWF⟩, hslot _ h.tevsWF⟩,
    hslot _ h.handlersWF⟩, fun ⟨i, a⟩ hma => ?_⟩, fun l hl => ?_⟩
  · have hia := (Slab.mem_toList_iff _ _ _).1 hma
    have hl := h.lists.arch i a hia
    obtain ⟨e1, e2⟩ := h.graph.edgeKeys i a hia
    refine ⟨⟨⟨⟨⟨h.store.cap i a hia, ?_⟩, sparseMap_wfCheck hl.wf⟩, fun l hlv => ?_⟩,
      (strictlySorted_iff _).2 e1⟩, (strictlySorted_iff _).2 e2⟩
    · rw [h.indexOK i a hia]
      exact Nat.lt_trans (Slab.get_lt_length hia) h.small.1
    · obtain ⟨t, ht⟩ := SparseMap.get_of_mem_values hl.wf hlv
      obtain ⟨i1, i2⟩ := hl.inv t l ht
      exact handlerList_invCheck i1 i2
  · obtain ⟨i1, i2⟩ := h.lists.gInv l hl
    exact handlerList_invCheck i1 i2

/-! ### the whole -/

/-- what is not derived from `WInv` yet: one counting fact about the world, and two lemmas about the executable
    well-formedness checks of Model/InvPlus.lean that do not mention the world -/
structure ExecLeft (w : World) : Prop where
  /-- counting: `entities.len = Σ rows`; follows from the bijection of `StoreOk.wf` and `SlotMap.WF.lenEq` by a
      pigeonhole argument (both sides count the live entities) -/
  count : w.entities.len = (w.archs.toList.map fun (_, a) => a.ids.length).sum
  /-- `walkChain` from `next` through the `vacant` links reaches `entries.length`, is duplicate free and visits every
      vacant entry: the list `l` of `Slab.WF.ex` is what it computes -/
  slabCheck : ∀ s : Slab Arch, Slab.WF s → s.wfCheck = true
  /-- the same for the free list of a slot map (`SlotMap.WF.chain`), plus `genLt`, `valIff`, `lenEq`, `size` -/
  slotCheck : ∀ {α : Type} (sm : SlotMap α), sm.WF → sm.wfCheck = true

/-- **the logical invariant (at a quiescent point) implies the executable one**, modulo `ExecLeft` -/
theorem winv_implies_InvPlus (h : WInv w) (hq : Quiescent w) (hl : ExecLeft w) : w.InvPlus = true := by
  have h1 := winv_implies_invStore h hl.count
  have h2 := winv_implies_invArch h
  have h3 := winv_implies_invEdges h
  have h9 := winv_implies_invPending hq
  have h10 := winv_implies_invRegistry h
  have h11 := winv_implies_invWF h hl.slabCheck hl.slotCheck
  unfold World.InvPlus World.invPlusReport World.invReport
  simp [h1, h2, h3, winv_implies_invMembers h, winv_implies_invListeners h, winv_implies_invGlobal h,
    winv_implies_invRefresh h, winv_implies_invCache h, h9, h10, h11, winv_implies_invHandlers h]

end Evenio
