import Evenio.Proofs.Inv.Obligations
/-! # Registry entries of components know their own key

`CompIdInv w := ∀ k ci, w.comps.get k = some ci → ci.id = k` is NOT a conjunct of `WInv`, but `archsRemoveComponent info`
(`removeComponent`) removes the component `info.id.idx`.  It holds initially and is kept by EVERY model function on EVERY
exit (normal return, panic, `ub`, `assert`), with itself as the only precondition: `comps` is written by `addComponent`
(`insertWith fun k => { ty, id := k }`), by `removeComponent` (`remove`), and by per-entry updates of `memberOf` /
`insEvents` / `remEvents` which keep `id`.  No well-formedness of the slot map is needed.

One `Keeps CompIdInv f` lemma per model function (`f_cid`), as in `Inv/Mono.lean` / `Proofs/Frame.lean`; the run forms the
assembler asked for are at the end. -/
namespace Evenio

/-- every registered component knows its own key -/
def CompIdInv (w : World) : Prop := ∀ k ci, w.comps.get k = some ci → ci.id = k

namespace InvV1
variable {α : Type}

/-- without well-formedness: a key that is live after `insertWith` is the new key or was live with the same value -/
theorem get_insertWith_sub {sm sm' : SlotMap α} {f : Key → α} {k : Key} (h : sm.insertWith f = some (k, sm'))
    {k' : Key} {v : α} (hg : sm'.get k' = some v) : (k' = k ∧ v = f k) ∨ sm.get k' = some v := by
  unfold SlotMap.insertWith at h
  split at h
  · next s hs =>
    cases h
    unfold SlotMap.get at hg ⊢
    simp only [List.getElem?_set] at hg
    by_cases hi : sm.nextFree = k'.idx
    · have hlt : sm.nextFree < sm.slots.length := (List.getElem?_eq_some_iff.1 hs).1
      simp only [hi, if_true] at hg
      rw [← hi] at hg
      simp only [hlt, if_true] at hg
      split at hg
      · next hgen =>
        left
        cases hg
        have : k' = ⟨sm.nextFree, s.gen + 1⟩ := by
          obtain ⟨i', g'⟩ := k'
          simp only at hi hgen
          rw [hi, hgen]
        exact ⟨this, rfl⟩
      · cases hg
    · simp only [hi, if_false] at hg
      exact .inr hg
  · next hs =>
    dsimp only at h
    split at h
    · cases h
    · cases h
      unfold SlotMap.get at hg ⊢
      by_cases hlt : k'.idx < sm.slots.length
      · rw [List.getElem?_append_left hlt] at hg
        exact .inr hg
      · by_cases he : k'.idx = sm.slots.length
        · left
          rw [he] at hg
          simp only [List.getElem?_append_right (Nat.le_refl _), Nat.sub_self, List.getElem?_cons_zero] at hg
          split at hg
          · next hgen =>
            cases hg
            have : k' = ⟨sm.slots.length, 1⟩ := by
              obtain ⟨i', g'⟩ := k'
              simp only at he hgen
              rw [he, ← hgen]
            exact ⟨this, rfl⟩
          · cases hg
        · rw [List.getElem?_eq_none_iff.2 (by simp; omega)] at hg
          cases hg

/-- without well-formedness: a key that is live after `remove` was live with the same value -/
theorem get_remove_sub {sm sm' : SlotMap α} {k : Key} {v : α} (h : sm.remove k = some (v, sm')) {k' : Key} {x : α}
    (hg : sm'.get k' = some x) : sm.get k' = some x := by
  unfold SlotMap.remove at h
  split at h
  · cases h
  · next s hs =>
    split at h
    · cases h
    · split at h
      · cases h
      · next v0 hv =>
        have hlt : k.idx < sm.slots.length := (List.getElem?_eq_some_iff.1 hs).1
        have key : ∀ y : Slot α, y.val = none → ∀ nf ln,
            SlotMap.get { slots := sm.slots.set k.idx y, nextFree := nf, len := ln } k' = some x →
              sm.get k' = some x := by
          intro y hy nf ln hg
          unfold SlotMap.get at hg ⊢
          simp only [List.getElem?_set] at hg
          by_cases hi : k.idx = k'.idx
          · simp only [hi, if_true] at hg
            rw [← hi] at hg
            simp only [hlt, if_true, hy] at hg
            split at hg <;> cases hg
          · simp only [hi, if_false] at hg
            exact hg
        dsimp only at h
        split at h
        · cases h; exact key _ rfl _ _ hg
        · cases h; exact key _ rfl _ _ hg

end InvV1

/-! ### the three kinds of writes to `comps` -/

theorem compIdInv_init : CompIdInv {} := fun k ci h => by
  rw [show ({} : World).comps.get k = none from slotMap_empty_get k] at h; cases h

/-- an entry is rewritten, its `id` kept -/
theorem compId_set {w w' : World} (h : CompIdInv w) {i : Nat} {k : Key} {ci ci' : CompInfo}
    (hc : w'.comps = w.comps.set k ci') (hg : w.comps.getByIndex i = some (k, ci)) (hid : ci'.id = ci.id) :
    CompIdInv w' := by
  intro k' c' hk'
  have hg0 := (SlotMap.getByIndex_get hg).1
  rw [hc, SlotMap.get_set hg0] at hk'
  split at hk'
  · next e => subst e; cases hk'; rw [hid]; exact h _ _ hg0
  · exact h k' c' hk'

/-- `addComponent` -/
theorem compId_insert {w w' : World} (h : CompIdInv w) {f : Key → CompInfo} {k : Key} {comps' : SlotMap CompInfo}
    (hins : w.comps.insertWith f = some (k, comps')) (hf : ∀ k, (f k).id = k) (hc : w'.comps = comps') :
    CompIdInv w' := by
  intro k' c' hk'
  rw [hc] at hk'
  rcases InvV1.get_insertWith_sub hins hk' with ⟨rfl, rfl⟩ | hold
  · exact hf _
  · exact h k' c' hold

/-- `removeComponent` -/
theorem compId_remove {w w' : World} (h : CompIdInv w) {k : Key} {info : CompInfo} {comps' : SlotMap CompInfo}
    (hr : w.comps.remove k = some (info, comps')) (hc : w'.comps = comps') : CompIdInv w' := by
  intro k' c' hk'
  rw [hc] at hk'
  exact h k' c' (InvV1.get_remove_sub hr hk')

/-- closes the goals `keeps` leaves: a `set` that writes `comps` -/
syntax "cidfix" : tactic
macro_rules | `(tactic| cidfix) => `(tactic| first
  | (refine Keeps.modify fun w h => ?_; split <;> exact h)
  | (refine Keeps.set ?_; first
      | exact compId_set ‹_› rfl ‹_› (by rfl)
      | exact compId_insert ‹_› ‹_› (fun _ => rfl) rfl
      | exact compId_remove ‹_› ‹_› rfl))

/-! ### one lemma per model function -/

theorem cid_queueBlind : QueueBlind CompIdInv := fun _ _ _ h => h

theorem logT_cid (s : String) : Keeps CompIdInv (logT s) := by
  unfold logT; keeps
  all_goals cidfix
macro_rules | `(tactic| keeps_leaf) => `(tactic| exact logT_cid _)
theorem ubErr_cid {α : Type} (s : String) : Keeps CompIdInv (ubErr s : M α) := by
  unfold ubErr; keeps
  all_goals cidfix
macro_rules | `(tactic| keeps_leaf) => `(tactic| exact ubErr_cid _)
theorem dbgAssert_cid (c : Bool) (s : String) : Keeps CompIdInv (dbgAssert c s) := by
  unfold dbgAssert; keeps
  all_goals cidfix
macro_rules | `(tactic| keeps_leaf) => `(tactic| exact dbgAssert_cid _ _)
theorem dropCell_cid (ty : Nat) (c : Cell) : Keeps CompIdInv (dropCell ty c) := by
  unfold dropCell; keeps
  all_goals cidfix
macro_rules | `(tactic| keeps_leaf) => `(tactic| exact dropCell_cid _ _)
theorem dropCellIdx_cid (ty : Nat) (c : Cell) : Keeps CompIdInv (dropCellIdx ty c) := by
  unfold dropCellIdx; keeps
  all_goals cidfix
macro_rules | `(tactic| keeps_leaf) => `(tactic| exact dropCellIdx_cid _ _)
theorem dropEvent_cid (it : QItem) : Keeps CompIdInv (dropEvent it) := by
  unfold dropEvent; keeps
  all_goals cidfix
macro_rules | `(tactic| keeps_leaf) => `(tactic| exact dropEvent_cid _)
theorem handlerRefresh_cid (hk : Key) (a : Arch) : Keeps CompIdInv (handlerRefresh hk a) := by
  unfold handlerRefresh; keeps
  all_goals cidfix
macro_rules | `(tactic| keeps_leaf) => `(tactic| exact handlerRefresh_cid _ _)
theorem handlerRemoveArch_cid (hk : Key) (a : Arch) : Keeps CompIdInv (handlerRemoveArch hk a) := by
  unfold handlerRemoveArch; keeps
  all_goals cidfix
macro_rules | `(tactic| keeps_leaf) => `(tactic| exact handlerRemoveArch_cid _ _)
theorem getArch_cid (i : Nat) (s : String) : Keeps CompIdInv (getArch i s) := by
  unfold getArch; keeps
  all_goals cidfix
macro_rules | `(tactic| keeps_leaf) => `(tactic| exact getArch_cid _ _)
theorem setArch_cid (a : Arch) : Keeps CompIdInv (setArch a) := by
  unfold setArch; keeps
  all_goals cidfix
macro_rules | `(tactic| keeps_leaf) => `(tactic| exact setArch_cid _)
theorem freshEpoch_cid : Keeps CompIdInv freshEpoch := by
  unfold freshEpoch; keeps
  all_goals cidfix
macro_rules | `(tactic| keeps_leaf) => `(tactic| exact freshEpoch_cid)
theorem registerHandler_cid (a : Arch) (h : HInfo) : Keeps CompIdInv (a.registerHandler h) := by
  unfold Arch.registerHandler; keeps
  all_goals cidfix
macro_rules | `(tactic| keeps_leaf) => `(tactic| exact registerHandler_cid _ _)
theorem archSpawn_cid (id : Key) : Keeps CompIdInv (archSpawn id) := by
  unfold archSpawn; keeps
  all_goals cidfix
macro_rules | `(tactic| keeps_leaf) => `(tactic| exact archSpawn_cid _)
theorem reserve_cid : Keeps CompIdInv reserve := by
  unfold reserve; keeps
  all_goals cidfix
macro_rules | `(tactic| keeps_leaf) => `(tactic| exact reserve_cid)
theorem spawnAll_cid : Keeps CompIdInv spawnAll := by
  unfold spawnAll; keeps
  all_goals cidfix
macro_rules | `(tactic| keeps_leaf) => `(tactic| exact spawnAll_cid)
theorem resRefresh_cid : Keeps CompIdInv resRefresh := by
  unfold resRefresh; keeps
  all_goals cidfix
macro_rules | `(tactic| keeps_leaf) => `(tactic| exact resRefresh_cid)
theorem setLoc_cid (id : Key) (s : String) (f : Loc → Loc) : Keeps CompIdInv (setLoc id s f) := by
  unfold setLoc; keeps
  all_goals cidfix
macro_rules | `(tactic| keeps_leaf) => `(tactic| exact setLoc_cid _ _ _)
theorem newArch_cid (cs : List Nat) (a b : Option (Nat × Nat)) : Keeps CompIdInv (newArch cs a b) := by
  unfold newArch; keeps
  all_goals cidfix
macro_rules | `(tactic| keeps_leaf) => `(tactic| exact newArch_cid _ _ _)
theorem traverseInsert_cid (src c : Nat) : Keeps CompIdInv (traverseInsert src c) := by
  unfold traverseInsert; keeps
  all_goals cidfix
macro_rules | `(tactic| keeps_leaf) => `(tactic| exact traverseInsert_cid _ _)
theorem traverseRemove_cid (src c : Nat) : Keeps CompIdInv (traverseRemove src c) := by
  unfold traverseRemove; keeps
  all_goals cidfix
macro_rules | `(tactic| keeps_leaf) => `(tactic| exact traverseRemove_cid _ _)
theorem moveEntity_cid (src : Loc) (dst : Nat) (new : List (Nat × Cell)) : Keeps CompIdInv (moveEntity src dst new) := by
  unfold moveEntity; keeps
  all_goals cidfix
macro_rules | `(tactic| keeps_leaf) => `(tactic| exact moveEntity_cid _ _ _)
theorem removeEntity_cid (loc : Loc) : Keeps CompIdInv (removeEntity loc) := by
  unfold removeEntity; keeps
  all_goals cidfix
macro_rules | `(tactic| keeps_leaf) => `(tactic| exact removeEntity_cid _)
theorem push_cid (it : QItem) : Keeps CompIdInv (push it) := by
  unfold push; keeps
  all_goals cidfix
macro_rules | `(tactic| keeps_leaf) => `(tactic| exact push_cid _)
theorem takeBudget_cid : Keeps CompIdInv takeBudget := by
  unfold takeBudget; keeps
  all_goals cidfix
macro_rules | `(tactic| keeps_leaf) => `(tactic| exact takeBudget_cid)
theorem freshE_cid : Keeps CompIdInv freshE := by
  unfold freshE; keeps
  all_goals cidfix
macro_rules | `(tactic| keeps_leaf) => `(tactic| exact freshE_cid)
theorem freshC_cid : Keeps CompIdInv freshC := by
  unfold freshC; keeps
  all_goals cidfix
macro_rules | `(tactic| keeps_leaf) => `(tactic| exact freshC_cid)
theorem senderPush_cid (h : HInfo) (it : QItem) : Keeps CompIdInv (senderPush h it) := by
  unfold senderPush; keeps
  all_goals cidfix
macro_rules | `(tactic| keeps_leaf) => `(tactic| exact senderPush_cid _ _)
theorem paramRows_cid (p : Param) : Keeps CompIdInv (paramRows p) := by
  unfold paramRows; keeps
  all_goals cidfix
macro_rules | `(tactic| keeps_leaf) => `(tactic| exact paramRows_cid _)
theorem itemAt_cid (st : AS) (a : Arch) (row : Nat) : Keeps CompIdInv (itemAt st a row) := by
  unfold itemAt; keeps
  all_goals cidfix
macro_rules | `(tactic| keeps_leaf) => `(tactic| exact itemAt_cid _ _ _)
theorem paramGet_cid (p : Param) (id : Key) : Keeps CompIdInv (paramGet p id) := by
  unfold paramGet; keeps
  all_goals cidfix
macro_rules | `(tactic| keeps_leaf) => `(tactic| exact paramGet_cid _ _)
theorem bumpCell_cid (ai row c : Nat) : Keeps CompIdInv (bumpCell ai row c) := by
  unfold bumpCell; keeps
  all_goals cidfix
macro_rules | `(tactic| keeps_leaf) => `(tactic| exact bumpCell_cid _ _ _)
theorem getParam_cid (h : HInfo) (p : Nat) : Keeps CompIdInv (getParam h p) := by
  unfold getParam; keeps
  all_goals cidfix
macro_rules | `(tactic| keeps_leaf) => `(tactic| exact getParam_cid _ _)
theorem runAct_cid (hk : Key) (it : QItem) (loc : Loc) (act : Act) : Keeps CompIdInv (runAct hk it loc act) := by
  unfold runAct; keeps
  all_goals cidfix
macro_rules | `(tactic| keeps_leaf) => `(tactic| exact runAct_cid _ _ _ _)
theorem runHandler_cid (hk : Key) (it : QItem) (loc : Loc) : Keeps CompIdInv (runHandler hk it loc) := by
  unfold runHandler; keeps
  all_goals cidfix
macro_rules | `(tactic| keeps_leaf) => `(tactic| exact runHandler_cid _ _ _)
theorem deliverOne_cid (it : QItem) : Keeps CompIdInv (deliverOne it) := by
  unfold deliverOne; keeps
  all_goals cidfix
macro_rules | `(tactic| keeps_leaf) => `(tactic| exact deliverOne_cid _)
theorem dropQueued_cid : Keeps CompIdInv dropQueued := by
  unfold dropQueued; keeps
  all_goals cidfix
macro_rules | `(tactic| keeps_leaf) => `(tactic| exact dropQueued_cid)
theorem flush_cid (fuel : Nat) : Keeps CompIdInv (flush fuel) :=
  flushWith_keeps cid_queueBlind deliverOne_cid dropQueued_cid fuel
macro_rules | `(tactic| keeps_leaf) => `(tactic| exact flush_cid _)
theorem ensureAddG_cid : Keeps CompIdInv ensureAddG := by
  unfold ensureAddG; keeps
  all_goals cidfix
macro_rules | `(tactic| keeps_leaf) => `(tactic| exact ensureAddG_cid)
theorem addGlobalEvent_cid (ty : EvTy) : Keeps CompIdInv (addGlobalEvent ty) := by
  unfold addGlobalEvent; keeps
  all_goals cidfix
macro_rules | `(tactic| keeps_leaf) => `(tactic| exact addGlobalEvent_cid _)
theorem sendGlobal_cid (ty : EvTy) (pay : Payload) : Keeps CompIdInv (sendGlobal ty pay) := by
  unfold sendGlobal; keeps
  all_goals cidfix
macro_rules | `(tactic| keeps_leaf) => `(tactic| exact sendGlobal_cid _ _)
theorem addComponent_cid (ty : Nat) : Keeps CompIdInv (addComponent ty) := by
  unfold addComponent; keeps
  all_goals cidfix
macro_rules | `(tactic| keeps_leaf) => `(tactic| exact addComponent_cid _)
theorem addTargetedEvent_cid (ty : EvTy) : Keeps CompIdInv (addTargetedEvent ty) := by
  unfold addTargetedEvent; keeps
  all_goals cidfix
macro_rules | `(tactic| keeps_leaf) => `(tactic| exact addTargetedEvent_cid _)
theorem addEvent_cid (ty : EvTy) : Keeps CompIdInv (addEvent ty) := by
  unfold addEvent; keeps
  all_goals cidfix
macro_rules | `(tactic| keeps_leaf) => `(tactic| exact addEvent_cid _)
theorem sendTargeted_cid (ty : EvTy) (tg : Key) (pay : Payload) : Keeps CompIdInv (sendTargeted ty tg pay) := by
  unfold sendTargeted; keeps
  all_goals cidfix
macro_rules | `(tactic| keeps_leaf) => `(tactic| exact sendTargeted_cid _ _ _)
theorem initQuery_cid (q : Query) (cfg : Config) : Keeps CompIdInv (initQuery q cfg) := by
  unfold initQuery; keeps
  all_goals cidfix
macro_rules | `(tactic| keeps_leaf) => `(tactic| exact initQuery_cid _ _)
theorem initParam_cid (ps : PSpec) (cfg : Config) : Keeps CompIdInv (initParam ps cfg) := by
  unfold initParam; keeps
  all_goals cidfix
macro_rules | `(tactic| keeps_leaf) => `(tactic| exact initParam_cid _ _)
theorem registerAll_cid (k : Key) : Keeps CompIdInv (registerAll k) := by
  unfold registerAll; keeps
  all_goals cidfix
macro_rules | `(tactic| keeps_leaf) => `(tactic| exact registerAll_cid _)
theorem addHandler_cid (hs : HSpec) : Keeps CompIdInv (addHandler hs) := by
  unfold addHandler; keeps
  all_goals cidfix
macro_rules | `(tactic| keeps_leaf) => `(tactic| exact addHandler_cid _)
theorem removeHandler_cid (k : Key) : Keeps CompIdInv (removeHandler k) := by
  unfold removeHandler; keeps
  all_goals cidfix
macro_rules | `(tactic| keeps_leaf) => `(tactic| exact removeHandler_cid _)
theorem assertQueueEmpty_cid : Keeps CompIdInv assertQueueEmpty := by
  unfold assertQueueEmpty; keeps
  all_goals cidfix
macro_rules | `(tactic| keeps_leaf) => `(tactic| exact assertQueueEmpty_cid)
theorem removeAll_cid (l : List Key) : Keeps CompIdInv (removeAll l) := by
  unfold removeAll; keeps
  all_goals cidfix
macro_rules | `(tactic| keeps_leaf) => `(tactic| exact removeAll_cid _)
theorem removeEventFinish_cid (ty : EvTy) (k : Key) : Keeps CompIdInv (removeEventFinish ty k) := by
  unfold removeEventFinish; keeps
  all_goals cidfix
macro_rules | `(tactic| keeps_leaf) => `(tactic| exact removeEventFinish_cid _ _)
theorem removeEvent_cid (ty : EvTy) (k : Key) : Keeps CompIdInv (removeEvent ty k) := by
  unfold removeEvent; keeps
  all_goals cidfix
macro_rules | `(tactic| keeps_leaf) => `(tactic| exact removeEvent_cid _ _)
theorem archsRemoveComponent_cid (info : CompInfo) : Keeps CompIdInv (archsRemoveComponent info) := by
  unfold archsRemoveComponent; keeps
  all_goals cidfix
macro_rules | `(tactic| keeps_leaf) => `(tactic| exact archsRemoveComponent_cid _)
theorem dropCompTail_cid (info : CompInfo) : Keeps CompIdInv (dropCompTail info) := by
  unfold dropCompTail; keeps
  all_goals cidfix
macro_rules | `(tactic| keeps_leaf) => `(tactic| exact dropCompTail_cid _)
theorem removeComponent_cid (k : Key) : Keeps CompIdInv (removeComponent k) := by
  unfold removeComponent; keeps
  all_goals cidfix
macro_rules | `(tactic| keeps_leaf) => `(tactic| exact removeComponent_cid _)
theorem opSpawn_cid : Keeps CompIdInv opSpawn := by
  unfold opSpawn; keeps
  all_goals cidfix
macro_rules | `(tactic| keeps_leaf) => `(tactic| exact opSpawn_cid)
theorem execOp_cid (op : Op) : Keeps CompIdInv (execOp op) := by
  unfold execOp; keeps
  all_goals cidfix
macro_rules | `(tactic| keeps_leaf) => `(tactic| exact execOp_cid _)

/-! ### run forms (every exit: `r` is any result) -/

theorem Keeps.run_form_cid {α : Type} {I : World → Prop} {m : M α} (h : Keeps I m) {w : World} {r : Except Err α}
    {w' : World} (hw : I w) (hr : m.run.run w = (r, w')) : I w' := by
  have := h.run w hw
  rw [hr] at this
  exact this

/-- **every top-level operation keeps `CompIdInv`, on every exit** -/
theorem execOp_keeps_compId {op : Op} {w : World} {r : Except Err (List String)} {w' : World} (hw : CompIdInv w)
    (hr : (execOp op).run.run w = (r, w')) : CompIdInv w' :=
  (execOp_cid op).run_form_cid hw hr

theorem step_keeps_compId {w : World} (op : Op) (snap : Bool) (h : CompIdInv w) : CompIdInv (step w op snap).1 := by
  have := (execOp_cid op).run { w with out := #[], edrops := [], cdrops := [], budget := BUDGET } h
  unfold step
  exact this

/-- every world the driver reaches -/
theorem reach_compId {w : World} (h : Reach w) : CompIdInv w := by
  induction h with
  | init => exact compIdInv_init
  | step op _ _ _ ih => exact step_keeps_compId op false ih

theorem sendGlobal_keeps_compId {ty : EvTy} {pay : Payload} {w : World} {r : Except Err Unit} {w' : World}
    (hw : CompIdInv w) (hr : (sendGlobal ty pay).run.run w = (r, w')) : CompIdInv w' :=
  (sendGlobal_cid ty pay).run_form_cid hw hr

theorem sendTargeted_keeps_compId {ty : EvTy} {tg : Key} {pay : Payload} {w : World} {r : Except Err Unit}
    {w' : World} (hw : CompIdInv w) (hr : (sendTargeted ty tg pay).run.run w = (r, w')) : CompIdInv w' :=
  (sendTargeted_cid ty tg pay).run_form_cid hw hr

theorem addTargetedEvent_keeps_compId {ty : EvTy} {w : World} {r : Except Err Key} {w' : World}
    (hw : CompIdInv w) (hr : (addTargetedEvent ty).run.run w = (r, w')) : CompIdInv w' :=
  (addTargetedEvent_cid ty).run_form_cid hw hr

theorem addComponent_keeps_compId {ty : Nat} {w : World} {r : Except Err Key} {w' : World}
    (hw : CompIdInv w) (hr : (addComponent ty).run.run w = (r, w')) : CompIdInv w' :=
  (addComponent_cid ty).run_form_cid hw hr

theorem push_keeps_compId {it : QItem} {w : World} {r : Except Err Unit} {w' : World}
    (hw : CompIdInv w) (hr : (push it).run.run w = (r, w')) : CompIdInv w' :=
  (push_cid it).run_form_cid hw hr

theorem deliverOne_keeps_compId {it : QItem} {w : World} {r : Except Err Unit} {w' : World}
    (hw : CompIdInv w) (hr : (deliverOne it).run.run w = (r, w')) : CompIdInv w' :=
  (deliverOne_cid it).run_form_cid hw hr

theorem flush_keeps_compId {fuel : Nat} {w : World} {r : Except Err Unit} {w' : World}
    (hw : CompIdInv w) (hr : (flush fuel).run.run w = (r, w')) : CompIdInv w' :=
  (flush_cid fuel).run_form_cid hw hr

theorem removeHandler_keeps_compId {k : Key} {w : World} {r : Except Err Bool} {w' : World}
    (hw : CompIdInv w) (hr : (removeHandler k).run.run w = (r, w')) : CompIdInv w' :=
  (removeHandler_cid k).run_form_cid hw hr

theorem removeAll_keeps_compId {l : List Key} {w : World} {r : Except Err PUnit} {w' : World}
    (hw : CompIdInv w) (hr : (removeAll l).run.run w = (r, w')) : CompIdInv w' :=
  (removeAll_cid l).run_form_cid hw hr

theorem removeEvent_keeps_compId {ty : EvTy} {k : Key} {w : World} {r : Except Err Bool} {w' : World}
    (hw : CompIdInv w) (hr : (removeEvent ty k).run.run w = (r, w')) : CompIdInv w' :=
  (removeEvent_cid ty k).run_form_cid hw hr

theorem removeComponent_keeps_compId {k : Key} {w : World} {r : Except Err Bool} {w' : World}
    (hw : CompIdInv w) (hr : (removeComponent k).run.run w = (r, w')) : CompIdInv w' :=
  (removeComponent_cid k).run_form_cid hw hr

theorem dropCompTail_keeps_compId {info : CompInfo} {w : World} {r : Except Err Unit} {w' : World}
    (hw : CompIdInv w) (hr : (dropCompTail info).run.run w = (r, w')) : CompIdInv w' :=
  (dropCompTail_cid info).run_form_cid hw hr

/-! ### what it is for -/

/-- the entry `removeComponent` takes out of the registry knows its key -/
theorem CompIdInv.of_remove {w : World} (h : CompIdInv w) {k : Key} {info : CompInfo} {comps' : SlotMap CompInfo}
    (hr : w.comps.remove k = some (info, comps')) : info.id = k :=
  h k info (SlotMap.get_of_remove hr)

/-- the state `Step.dropComp` leaves -/
theorem CompIdInv.dropComp {w : World} (h : CompIdInv w) {k : Key} {info : CompInfo} {comps' : SlotMap CompInfo}
    (hr : w.comps.remove k = some (info, comps')) : CompIdInv (Step.dropComp w k comps') :=
  compId_remove h hr rfl

end Evenio
