import Evenio.Proofs.Inv.Glue
/-! # G5 — the registry group (seed)

Inside a flush nothing writes the registries except `memberOf` of components (`CC`, Proofs/Registry.lean) and the fetcher
caches of handlers (`HK`, Proofs/Listeners.lean); the event registries and `removedIds` are part of the frame (`FR`,
Proofs/Frame.lean); `RegInv` is kept by every model function (`*_ri`).  `RegistryInv` only reads what these four
families of `Keeps` lemmas fix, so every closed primitive of section A keeps it ON ITS OWN (`Keeps RegistryInv m`),
and `KeepsG.of_keeps_group` turns that into the obligation.  This file does that for all seven primitives; what is
left for the owner of G5 are the steps of section B and the functional facts of section E. -/
namespace Evenio

namespace SlotMap
variable {α β : Type}

theorem getByIndex_mapVal (g : α → β) (sm : SlotMap α) (i : Nat) :
    (sm.mapVal g).getByIndex i = (sm.getByIndex i).map fun p => (p.1, g p.2) := by
  simp only [getByIndex, mapVal, List.getElem?_map]
  cases sm.slots[i]? with
  | none => rfl
  | some s =>
    simp only [Option.map_some, Slot.mapVal]
    split
    · rfl
    · cases s.val <;> rfl

end SlotMap

/-- a registry entry with the same core refers to the same things -/
theorem HandlerRefs.of_core {C : SlotMap CompInfo} {G T : SlotMap EvInfo} {h h' : HInfo} (hc : h'.core = h.core)
    (hr : HandlerRefs C G T h) : HandlerRefs C G T h' := by
  have e1 : h'.referenced = h.referenced := (congrArg HInfo.referenced hc : h'.core.referenced = h.core.referenced)
  have e2 : h'.recv = h.recv := (congrArg HInfo.recv hc : h'.core.recv = h.core.recv)
  have e3 : h'.recvKey = h.recvKey := (congrArg HInfo.recvKey hc : h'.core.recvKey = h.core.recvKey)
  have e4 : h'.sentG = h.sentG := (congrArg HInfo.sentG hc : h'.core.sentG = h.core.sentG)
  have e5 : h'.sentT = h.sentT := (congrArg HInfo.sentT hc : h'.core.sentT = h.core.sentT)
  have e6 : h'.sends = h.sends := (congrArg HInfo.sends hc : h'.core.sends = h.core.sends)
  obtain ⟨r1, r2, r3, r4, r5, r6, r7⟩ := hr
  refine ⟨?_, ?_, ?_, ?_, ?_, ?_, ?_⟩
  · rw [e1]; exact r1
  · rw [e2, e3]; exact r2
  · rw [e2, e3]; exact r3
  · rw [e4]; exact r4
  · rw [e5]; exact r5
  · rw [e6, e4]; exact r6
  · rw [e6, e5]; exact r7

/-- **the frame rule for G5**: the event registries are the same, the component registry is the same up to
    `memberOf`, the handler registry the same up to caches, and `RegInv` holds again -/
theorem registryInv_of_frames {w w' : World} (h : RegistryInv w) (hc : w'.compsCore = w.compsCore)
    (hg : w'.gevs = w.gevs) (ht : w'.tevs = w.tevs)
    (hh : ∀ k, (w'.handlers.get k).map HInfo.core = (w.handlers.get k).map HInfo.core) (hri : RegInv [] w') :
    RegistryInv w' := by
  have hcget : ∀ k, (w'.comps.get k).map CompInfo.core = (w.comps.get k).map CompInfo.core := fun k => by
    have := congrArg (fun sm => SlotMap.get sm k) hc
    simpa only [World.compsCore, SlotMap.get_mapVal] using this
  have hcidx : ∀ i, (w'.comps.getByIndex i).map (fun p => (p.1, CompInfo.core p.2)) =
      (w.comps.getByIndex i).map (fun p => (p.1, CompInfo.core p.2)) := fun i => by
    have := congrArg (fun sm => SlotMap.getByIndex sm i) hc
    simpa only [World.compsCore, SlotMap.getByIndex_mapVal] using this
  have hcsome : ∀ i, (w'.comps.getByIndex i).isSome = (w.comps.getByIndex i).isSome := fun i => by
    have := congrArg Option.isSome (hcidx i)
    simpa using this
  refine ⟨hri, fun k ci' hk => ?_, fun k ei hk c => ?_, fun k ei hk => ?_, fun k h' hk => ?_⟩
  · -- components know live events
    have := hcget k
    rw [hk] at this
    cases hw : w.comps.get k with
    | none => rw [hw] at this; cases this
    | some ci =>
      rw [hw] at this
      simp only [Option.map_some, Option.some.injEq] at this
      have e1 : ci'.insEvents = ci.insEvents := (congrArg CompInfo.insEvents this : ci'.core.insEvents = ci.core.insEvents)
      have e2 : ci'.remEvents = ci.remEvents := (congrArg CompInfo.remEvents this : ci'.core.remEvents = ci.core.remEvents)
      rw [e1, e2, ht]
      exact h.compEvents k ci hw
  · -- events are known to their component
    rw [ht] at hk
    obtain ⟨h1, h2⟩ := h.tevComp k ei hk c
    have lift : ∀ {ck ci}, w.comps.getByIndex c = some (ck, ci) →
        ∃ ci', w'.comps.getByIndex c = some (ck, ci') ∧ ci'.core = ci.core := by
      intro ck ci hci
      have := hcidx c
      rw [hci] at this
      cases hw' : w'.comps.getByIndex c with
      | none => rw [hw'] at this; cases this
      | some p =>
        rw [hw'] at this
        simp only [Option.map_some, Option.some.injEq, Prod.mk.injEq] at this
        obtain ⟨ck', ci'⟩ := p
        exact ⟨ci', by rw [show ck' = ck from this.1], this.2⟩
    refine ⟨fun hkind => ?_, fun hkind => ?_⟩
    · obtain ⟨ck, ci, hci, hm⟩ := h1 hkind
      obtain ⟨ci', hci', hcore⟩ := lift hci
      exact ⟨ck, ci', hci', by rw [show ci'.insEvents = ci.insEvents from (congrArg CompInfo.insEvents hcore : ci'.core.insEvents = ci.core.insEvents)]; exact hm⟩
    · obtain ⟨ck, ci, hci, hm⟩ := h2 hkind
      obtain ⟨ci', hci', hcore⟩ := lift hci
      exact ⟨ck, ci', hci', by rw [show ci'.remEvents = ci.remEvents from (congrArg CompInfo.remEvents hcore : ci'.core.remEvents = ci.core.remEvents)]; exact hm⟩
  · rw [hg] at hk; exact h.gevKind k ei hk
  · -- handlers
    have := hh k
    rw [hk] at this
    cases hw : w.handlers.get k with
    | none => rw [hw] at this; cases this
    | some h0 =>
      rw [hw] at this
      simp only [Option.map_some, Option.some.injEq] at this
      have hr := (h.handlerRefs k h0 hw).of_core this
      obtain ⟨r1, r2, r3, r4, r5, r6, r7⟩ := hr
      refine ⟨fun c hc' => ?_, ?_, ?_, ?_, ?_, ?_, ?_⟩
      · rw [hcsome]; exact r1 c hc'
      · rw [hg]; exact r2
      · rw [ht]; exact r3
      · rw [hg]; exact r4
      · rw [ht]; exact r5
      · rw [hg]; exact r6
      · rw [ht]; exact r7

/-- … as a rule for `Keeps` -/
theorem keeps_registryInv {α : Type} {m : M α} (hfr : ∀ fr, Keeps (FR fr) m) (hcc : ∀ c, Keeps (CC c) m)
    (hhk : ∀ reg, Keeps (HK reg) m) (hri : Keeps (RegInv []) m) : Keeps RegistryInv m := by
  refine ⟨fun w hw => ?_⟩
  have h1 := (hfr w.frame).run w rfl
  have h2 := (hcc w.compsCore).run w rfl
  have h3 := (hhk fun k => (w.handlers.get k).map HInfo.core).run w fun _ => rfl
  have h4 := hri.run w hw.reg
  exact registryInv_of_frames hw h2 (congrArg Frame.gevs h1) (congrArg Frame.tevs h1) h3 h4

/-! ### section A for G5: all seven primitives -/

theorem reserve_keeps_registry : Obl.reserve_keeps .registry :=
  KeepsG.of_keeps_group (fun _ h => h.registry) (fun _ => reserve_sl)
    (keeps_registryInv (fun _ => reserve_fr) (fun _ => reserve_cc) (fun _ => reserve_hk) reserve_ri)

theorem bumpCell_keeps_registry : Obl.bumpCell_keeps .registry := fun ai row c =>
  KeepsG.of_keeps_group (fun _ h => h.registry) (fun _ => bumpCell_sl ai row c)
    (keeps_registryInv (fun _ => bumpCell_fr ..) (fun _ => bumpCell_cc ..) (fun _ => bumpCell_hk ..) (bumpCell_ri ..))

theorem spawnAll_keeps_registry : Obl.spawnAll_keeps .registry :=
  KeepsG.of_keeps_group (fun _ h => h.registry) (fun _ => spawnAll_sl)
    (keeps_registryInv (fun _ => spawnAll_fr) (fun _ => spawnAll_cc) (fun _ => spawnAll_hk) spawnAll_ri)

theorem traverseInsert_keeps_registry : Obl.traverseInsert_keeps .registry := fun src c =>
  KeepsG.of_keeps_group (fun _ h => h.registry) (fun _ => traverseInsert_sl src c)
    (keeps_registryInv (fun _ => traverseInsert_fr ..) (fun _ => traverseInsert_cc ..)
      (fun _ => traverseInsert_hk ..) (traverseInsert_ri ..))

theorem traverseRemove_keeps_registry : Obl.traverseRemove_keeps .registry := fun src c =>
  KeepsG.of_keeps_group (fun _ h => h.registry) (fun _ => traverseRemove_sl src c)
    (keeps_registryInv (fun _ => traverseRemove_fr ..) (fun _ => traverseRemove_cc ..)
      (fun _ => traverseRemove_hk ..) (traverseRemove_ri ..))

theorem moveEntity_keeps_registry : Obl.moveEntity_keeps .registry := fun src dst new =>
  KeepsG.of_keeps_group (fun _ h => h.registry) (fun _ => moveEntity_sl src dst new)
    (keeps_registryInv (fun _ => moveEntity_fr ..) (fun _ => moveEntity_cc ..) (fun _ => moveEntity_hk ..)
      (moveEntity_ri ..))

theorem removeEntity_keeps_registry : Obl.removeEntity_keeps .registry := fun loc =>
  KeepsG.of_keeps_group (fun _ h => h.registry) (fun _ => removeEntity_sl loc)
    (keeps_registryInv (fun _ => removeEntity_fr ..) (fun _ => removeEntity_cc ..) (fun _ => removeEntity_hk ..)
      (removeEntity_ri ..))

end Evenio
