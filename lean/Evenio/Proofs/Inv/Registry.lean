import Evenio.Proofs.Inv.Glue
/-! # G5 — the registry group (seed)

Inside a flush nothing writes the registries except `memberOf` of components (`CC`, Proofs/Registry.lean) and the fetcher
caches of handlers (`HK`, Proofs/Listeners.lean); the event registries and `removedIds` are part of the frame (`FR`,
Proofs/Frame.lean); `RegInv` is kept by every model function (`*_ri`).  `RegistryInv` only reads what these four
families of `Keeps` lemmas fix, so every closed primitive of section A keeps it ON ITS OWN (`Keeps RegistryInv m`),
and `KeepsG.of_keeps_group` turns that into the obligation.  This file does that for all seven primitives; what is
left for the owner of G5 are the steps of section B and the functional facts of section E. -/
namespace Evenio

namespace SlotMap
variable {α β : Type}

theorem getByIndex_mapVal (g : α → β) (sm : SlotMap α) (i : Nat) :
    (sm.mapVal g).getByIndex i = (sm.getByIndex i).map fun p => (p.1, g p.2) := by
  simp only [getByIndex, mapVal, List.getElem?_map]
  cases sm.slots[i]? with
  | none => rfl
  | some s =>
    simp only [Option.map_some, Slot.mapVal]
    split
    · rfl
    · cases s.val <;> rfl

end SlotMap

/-- a registry entry with the same core refers to the same things -/
theorem HandlerRefs.of_core {C : SlotMap CompInfo} {G T : SlotMap EvInfo} {h h' : HInfo} (hc : h'.core = h.core)
    (hr : HandlerRefs C G T h) : HandlerRefs C G T h' := by
  have e1 : h'.referenced = h.referenced := (congrArg HInfo.referenced hc : h'.core.referenced = h.core.referenced)
  have e2 : h'.recv = h.recv := (congrArg HInfo.recv hc : h'.core.recv = h.core.recv)
  have e3 : h'.recvKey = h.recvKey := (congrArg HInfo.recvKey hc : h'.core.recvKey = h.core.recvKey)
  have e4 : h'.sentG = h.sentG := (congrArg HInfo.sentG hc : h'.core.sentG = h.core.sentG)
  have e5 : h'.sentT = h.sentT := (congrArg HInfo.sentT hc : h'.core.sentT = h.core.sentT)
  have e6 : h'.sends = h.sends := (congrArg HInfo.sends hc : h'.core.sends = h.core.sends)
  obtain ⟨r1, r2, r3, r4, r5, r6, r7⟩ := hr
  refine ⟨?_, ?_, ?_, ?_, ?_, ?_, ?_⟩
  · rw [e1]; exact r1
  · rw [e2, e3]; exact r2
  · rw [e2, e3]; exact r3
  · rw [e4]; exact r4
  · rw [e5]; exact r5
  · rw [e6, e4]; exact r6
  · rw [e6, e5]; exact r7

/-- **the frame rule for G5**: the event registries are the same, the component registry is the same up to
    `memberOf`, the handler registry the same up to caches, and `RegInv` holds again -/
theorem registryInv_of_frames {w w' : World} (h : RegistryInv w) (hc : w'.compsCore = w.compsCore)
    (hg : w'.gevs = w.gevs) (ht : w'.tevs = w.tevs)
    (hh : ∀ k, (w'.handlers.get k).map HInfo.core = (w.handlers.get k).map HInfo.core) (hri : RegInv [] w') :
    RegistryInv w' := by
  have hcget : ∀ k, (w'.comps.get k).map CompInfo.core = (w.comps.get k).map CompInfo.core := fun k => by
    have := congrArg (fun sm => SlotMap.get sm k) hc
    simpa only [World.compsCore, SlotMap.get_mapVal] using this
  have hcidx : ∀ i, (w'.comps.getByIndex i).map (fun p => (p.1, CompInfo.core p.2)) =
      (w.comps.getByIndex i).map (fun p => (p.1, CompInfo.core p.2)) := fun i => by
    have := congrArg (fun sm => SlotMap.getByIndex sm i) hc
    simpa only [World.compsCore, SlotMap.getByIndex_mapVal] using this
  have hcsome : ∀ i, (w'.comps.getByIndex i).isSome = (w.comps.getByIndex i).isSome := fun i => by
    have := congrArg Option.isSome (hcidx i)
    simpa using this
  refine ⟨hri, fun k ci' hk => ?_, fun k ei hk c => ?_, fun k ei hk => ?_, fun k h' hk => ?_⟩
  · -- components know live events
    have := hcget k
    rw [hk] at this
    cases hw : w.comps.get k with
    | none => rw [hw] at this; cases this
    | some ci =>
      rw [hw] at this
      simp only [Option.map_some, Option.some.injEq] at this
      have e1 : ci'.insEvents = ci.insEvents := (congrArg CompInfo.insEvents this : ci'.core.insEvents = ci.core.insEvents)
      have e2 : ci'.remEvents = ci.remEvents := (congrArg CompInfo.remEvents this : ci'.core.remEvents = ci.core.remEvents)
      rw [e1, e2, ht]
      exact h.compEvents k ci hw
  · -- events are known to their component
    rw [ht] at hk
    obtain ⟨h1, h2⟩ := h.tevComp k ei hk c
    have lift : ∀ {ck ci}, w.comps.getByIndex c = some (ck, ci) →
        ∃ ci', w'.comps.getByIndex c = some (ck, ci') ∧ ci'.core = ci.core := by
      intro ck ci hci
      have := hcidx c
      rw [hci] at this
      cases hw' : w'.comps.getByIndex c with
      | none => rw [hw'] at this; cases this
      | some p =>
        rw [hw'] at this
        simp only [Option.map_some, Option.some.injEq, Prod.mk.injEq] at this
        obtain ⟨ck', ci'⟩ := p
        exact ⟨ci', by rw [show ck' = ck from this.1], this.2⟩
    refine ⟨fun hkind => ?_, fun hkind => ?_⟩
    · obtain ⟨ck, ci, hci, hm⟩ := h1 hkind
      obtain ⟨ci', hci', hcore⟩ := lift hci
      exact ⟨ck, ci', hci', by rw [show ci'.insEvents = ci.insEvents from (congrArg CompInfo.insEvents hcore : ci'.core.insEvents = ci.core.insEvents)]; exact hm⟩
    · obtain ⟨ck, ci, hci, hm⟩ := h2 hkind
      obtain ⟨ci', hci', hcore⟩ := lift hci
      exact ⟨ck, ci', hci', by rw [show ci'.remEvents = ci.remEvents from (congrArg CompInfo.remEvents hcore : ci'.core.remEvents = ci.core.remEvents)]; exact hm⟩
  · rw [hg] at hk; exact h.gevKind k ei hk
  · -- handlers
    have := hh k
    rw [hk] at this
    cases hw : w.handlers.get k with
    | none => rw [hw] at this; cases this
    | some h0 =>
      rw [hw] at this
      simp only [Option.map_some, Option.some.injEq] at this
      have hr := (h.handlerRefs k h0 hw).of_core this
      obtain ⟨r1, r2, r3, r4, r5, r6, r7⟩ := hr
      refine ⟨fun c hc' => ?_, ?_, ?_, ?_, ?_, ?_, ?_⟩
      · rw [hcsome]; exact r1 c hc'
      · rw [hg]; exact r2
      · rw [ht]; exact r3
      · rw [hg]; exact r4
      · rw [ht]; exact r5
      · rw [hg]; exact r6
      · rw [ht]; exact r7

/-- … as a rule for `Keeps` -/
theorem keeps_registryInv {α : Type} {m : M α} (hfr : ∀ fr, Keeps (FR fr) m) (hcc : ∀ c, Keeps (CC c) m)
    (hhk : ∀ reg, Keeps (HK reg) m) (hri : Keeps (RegInv []) m) : Keeps RegistryInv m := by
  refine ⟨fun w hw => ?_⟩
  have h1 := (hfr w.frame).run w rfl
  have h2 := (hcc w.compsCore).run w rfl
  have h3 := (hhk fun k => (w.handlers.get k).map HInfo.core).run w fun _ => rfl
  have h4 := hri.run w hw.reg
  exact registryInv_of_frames hw h2 (congrArg Frame.gevs h1) (congrArg Frame.tevs h1) h3 h4

/-! ### section A for G5: all seven primitives -/

theorem reserve_keeps_registry : Obl.reserve_keeps .registry :=
  KeepsG.of_keeps_group (fun _ h => h.registry) (fun _ => reserve_sl)
    (keeps_registryInv (fun _ => reserve_fr) (fun _ => reserve_cc) (fun _ => reserve_hk) reserve_ri)

theorem bumpCell_keeps_registry : Obl.bumpCell_keeps .registry := fun ai row c =>
  KeepsG.of_keeps_group (fun _ h => h.registry) (fun _ => bumpCell_sl ai row c)
    (keeps_registryInv (fun _ => bumpCell_fr ..) (fun _ => bumpCell_cc ..) (fun _ => bumpCell_hk ..) (bumpCell_ri ..))

theorem spawnAll_keeps_registry : Obl.spawnAll_keeps .registry :=
  KeepsG.of_keeps_group (fun _ h => h.registry) (fun _ => spawnAll_sl)
    (keeps_registryInv (fun _ => spawnAll_fr) (fun _ => spawnAll_cc) (fun _ => spawnAll_hk) spawnAll_ri)

theorem traverseInsert_keeps_registry : Obl.traverseInsert_keeps .registry := fun src c =>
  KeepsG.of_keeps_group (fun _ h => h.registry) (fun _ => traverseInsert_sl src c)
    (keeps_registryInv (fun _ => traverseInsert_fr ..) (fun _ => traverseInsert_cc ..)
      (fun _ => traverseInsert_hk ..) (traverseInsert_ri ..))

theorem traverseRemove_keeps_registry : Obl.traverseRemove_keeps .registry := fun src c =>
  KeepsG.of_keeps_group (fun _ h => h.registry) (fun _ => traverseRemove_sl src c)
    (keeps_registryInv (fun _ => traverseRemove_fr ..) (fun _ => traverseRemove_cc ..)
      (fun _ => traverseRemove_hk ..) (traverseRemove_ri ..))

theorem moveEntity_keeps_registry : Obl.moveEntity_keeps .registry := fun src dst new =>
  KeepsG.of_keeps_group (fun _ h => h.registry) (fun _ => moveEntity_sl src dst new)
    (keeps_registryInv (fun _ => moveEntity_fr ..) (fun _ => moveEntity_cc ..) (fun _ => moveEntity_hk ..)
      (moveEntity_ri ..))

theorem removeEntity_keeps_registry : Obl.removeEntity_keeps .registry := fun loc =>
  KeepsG.of_keeps_group (fun _ h => h.registry) (fun _ => removeEntity_sl loc)
    (keeps_registryInv (fun _ => removeEntity_fr ..) (fun _ => removeEntity_cc ..) (fun _ => removeEntity_hk ..)
      (removeEntity_ri ..))

/-! ## section B for G5: the raw registry writes -/

namespace InvV6

/-! ### slot maps: what survives an insertion / a removal / a rewrite -/

section slotmap
variable {α : Type}

theorem key_eq_of_idx {sm : SlotMap α} {k k' : Key} {v v' : α} (h : sm.get k = some v)
    (h' : sm.get k' = some v') (hi : k.idx = k'.idx) : k = k' := by
  unfold SlotMap.get at h h'
  rw [hi] at h
  cases hs : sm.slots[k'.idx]? with
  | none => rw [hs] at h; cases h
  | some s =>
    rw [hs] at h h'
    dsimp only at h h'
    by_cases e1 : s.gen = k.gen
    · by_cases e2 : s.gen = k'.gen
      · cases k; cases k'; simp_all
      · rw [if_neg e2] at h'; cases h'
    · rw [if_neg e1] at h; cases h

theorem get_insert_mono {sm sm' : SlotMap α} (wf : sm.WF) {f : Key → α} {k : Key}
    (hins : sm.insertWith f = some (k, sm')) {k0 : Key} {v : α} (h : sm.get k0 = some v) : sm'.get k0 = some v := by
  rw [SlotMap.get_insertWith wf hins k0, if_neg, h]
  rintro rfl
  have := SlotMap.insertWith_not_contains wf hins
  simp [SlotMap.contains, h] at this

theorem getByIndex_insert_mono {sm sm' : SlotMap α} (wf : sm.WF) {f : Key → α} {k : Key}
    (hins : sm.insertWith f = some (k, sm')) {i : Nat} {k0 : Key} {v : α} (h : sm.getByIndex i = some (k0, v)) :
    sm'.getByIndex i = some (k0, v) := by
  obtain ⟨h1, h2⟩ := SlotMap.getByIndex_get h
  rw [← h2]
  exact SlotMap.get_getByIndex (wf.insertWith hins) (get_insert_mono wf hins h1)

theorem getByIndex_insert_isSome {sm sm' : SlotMap α} (wf : sm.WF) {f : Key → α} {k : Key}
    (hins : sm.insertWith f = some (k, sm')) {i : Nat} (h : (sm.getByIndex i).isSome = true) :
    (sm'.getByIndex i).isSome = true := by
  cases hg : sm.getByIndex i with
  | none => rw [hg] at h; cases h
  | some p => obtain ⟨k0, v⟩ := p; rw [getByIndex_insert_mono wf hins hg]; rfl

/-- a removal only touches the slot of the removed key -/
theorem getByIndex_remove_ne {sm sm' : SlotMap α} (wf : sm.WF) {k : Key} {v : α}
    (h : sm.remove k = some (v, sm')) {i : Nat} (hi : i ≠ k.idx) : sm'.getByIndex i = sm.getByIndex i := by
  obtain ⟨s, -, -, -, -, -, hcase⟩ := wf.remove_cases h
  rcases hcase with ⟨-, rfl⟩ | ⟨-, rfl⟩ <;>
  · unfold SlotMap.getByIndex
    simp only [List.getElem?_set_ne (Ne.symm hi)]

theorem get_remove_ne {sm sm' : SlotMap α} (wf : sm.WF) {k : Key} {v : α}
    (h : sm.remove k = some (v, sm')) {k0 : Key} {v0 : α} (h0 : sm.get k0 = some v0) (hne : k0 ≠ k) :
    sm'.get k0 = some v0 := by
  rw [SlotMap.get_remove wf h k0, if_neg hne, h0]

theorem get_of_get_remove {sm sm' : SlotMap α} (wf : sm.WF) {k : Key} {v : α}
    (h : sm.remove k = some (v, sm')) {k0 : Key} {v0 : α} (h0 : sm'.get k0 = some v0) :
    k0 ≠ k ∧ sm.get k0 = some v0 := by
  rw [SlotMap.get_remove wf h k0] at h0
  split at h0
  · cases h0
  · exact ⟨‹_›, h0⟩

/-- the entry at an index after rewriting a live entry -/
theorem getByIndex_set {sm : SlotMap α} (wf : sm.WF) {k : Key} {v0 : α} (hg : sm.get k = some v0) (v : α)
    {i : Nat} {k0 : Key} {v1 : α} (h : sm.getByIndex i = some (k0, v1)) :
    (sm.set k v).getByIndex i = some (k0, if k0 = k then v else v1) := by
  obtain ⟨h1, h2⟩ := SlotMap.getByIndex_get h
  rw [← h2]
  refine SlotMap.get_getByIndex (wf.set hg v) ?_
  rw [SlotMap.get_set hg v k0]
  split
  · rfl
  · exact h1

theorem getByIndex_set_isSome {sm : SlotMap α} (wf : sm.WF) {k : Key} {v0 : α} (hg : sm.get k = some v0) (v : α)
    {i : Nat} (h : (sm.getByIndex i).isSome = true) : ((sm.set k v).getByIndex i).isSome = true := by
  cases hi : sm.getByIndex i with
  | none => rw [hi] at h; cases h
  | some p => obtain ⟨k0, v1⟩ := p; rw [getByIndex_set wf hg v hi]; rfl

end slotmap

/-! ### `HandlerRefs` only needs what it refers to to stay -/

theorem handlerRefs_mono {C C' : SlotMap CompInfo} {G G' T T' : SlotMap EvInfo} {h : HInfo}
    (hr : HandlerRefs C G T h)
    (hC : ∀ c ∈ h.referenced, (C.getByIndex c).isSome = true → (C'.getByIndex c).isSome = true)
    (hG : h.recv.targeted = false → ∀ info, G.get h.recvKey = some info → G'.get h.recvKey = some info)
    (hT : h.recv.targeted = true → ∀ info, T.get h.recvKey = some info → T'.get h.recvKey = some info)
    (hGi : ∀ i ∈ h.sentG, ∀ p, G.getByIndex i = some p → G'.getByIndex i = some p)
    (hTi : ∀ i ∈ h.sentT, ∀ p, T.getByIndex i = some p → T'.getByIndex i = some p) :
    HandlerRefs C' G' T' h := by
  obtain ⟨r1, r2, r3, r4, r5, r6, r7⟩ := hr
  have some_of : ∀ {S S' : SlotMap EvInfo} {i : Nat}, (∀ p, S.getByIndex i = some p → S'.getByIndex i = some p) →
      (S.getByIndex i).isSome = true → (S'.getByIndex i).isSome = true := by
    intro S S' i hm hs
    cases hg : S.getByIndex i with
    | none => rw [hg] at hs; cases hs
    | some p => rw [hm p hg]; rfl
  refine ⟨fun c hc => hC c hc (r1 c hc), fun ht => ?_, fun ht => ?_, fun i hi => some_of (hGi i hi) (r4 i hi),
    fun i hi => some_of (hTi i hi) (r5 i hi), fun ev i hm ht => ?_, fun ev i hm ht => ?_⟩
  · obtain ⟨info, h1, h2⟩ := r2 ht
    exact ⟨info, hG ht info h1, h2⟩
  · obtain ⟨info, h1, h2⟩ := r3 ht
    exact ⟨info, hT ht info h1, h2⟩
  · obtain ⟨h1, k, info, h2, h3⟩ := r6 ev i hm ht
    exact ⟨h1, k, info, hGi i h1 _ h2, h3⟩
  · obtain ⟨h1, k, info, h2, h3⟩ := r7 ev i hm ht
    exact ⟨h1, k, info, hTi i h1 _ h2, h3⟩

end InvV6

open InvV6

/-! ### `regGev`, `regComp` -/

theorem regGev_keeps_registry : Obl.regGev_keeps .registry := by
  intro w ty k gevs' hw hins
  have h := hw.registry
  have wfg := hw.winv.gevsWF
  show RegistryInv' w.comps gevs' w.tevs w.handlers w.removedIds
  refine ⟨h.reg.insert_gevs hins, h.compEvents, h.tevComp, fun k' ei hk' => ?_, fun k' h' hk' => ?_⟩
  · rw [SlotMap.get_insertWith wfg hins k'] at hk'
    split at hk'
    · cases hk'; rfl
    · exact h.gevKind k' ei hk'
  · exact handlerRefs_mono (h.handlerRefs k' h' hk') (fun _ _ hs => hs) (fun _ info hi => get_insert_mono wfg hins hi)
      (fun _ _ hi => hi) (fun i _ p hp => getByIndex_insert_mono wfg hins hp) (fun _ _ _ hp => hp)

theorem regComp_keeps_registry : Obl.regComp_keeps .registry := by
  intro w ty k comps' hw hins
  have h := hw.registry
  have wfc := hw.winv.compsWF
  show RegistryInv' comps' w.gevs w.tevs w.handlers w.removedIds
  refine ⟨h.reg.insert_comps hins, fun k' ci hk' => ?_, fun k' ei hk' c => ?_, h.gevKind, fun k' h' hk' => ?_⟩
  · rw [SlotMap.get_insertWith wfc hins k'] at hk'
    split at hk'
    · cases hk'
      exact ⟨fun e he => (by cases he), fun e he => (by cases he)⟩
    · exact h.compEvents k' ci hk'
  · obtain ⟨h1, h2⟩ := h.tevComp k' ei hk' c
    refine ⟨fun hk => ?_, fun hk => ?_⟩
    · obtain ⟨ck, ci, hci, hm⟩ := h1 hk
      exact ⟨ck, ci, getByIndex_insert_mono wfc hins hci, hm⟩
    · obtain ⟨ck, ci, hci, hm⟩ := h2 hk
      exact ⟨ck, ci, getByIndex_insert_mono wfc hins hci, hm⟩
  · exact handlerRefs_mono (h.handlerRefs k' h' hk') (fun _ _ hs => getByIndex_insert_isSome wfc hins hs) (fun _ _ hi => hi)
      (fun _ _ hi => hi) (fun _ _ _ hp => hp) (fun _ _ _ hp => hp)

/-! ### `regTev` -/

namespace InvV6

/-- a targeted event whose kind refers to no component is registered -/
theorem registryInv_insert_tev_plain {C : SlotMap CompInfo} {G T T' : SlotMap EvInfo} {H : SlotMap HInfo}
    {rem : List (Char × Key)} (h : RegistryInv' C G T H rem) {f : Key → EvInfo} {k : Key}
    (hins : T.insertWith f = some (k, T')) (hkind : ∀ c, (f k).kind ≠ .insert c ∧ (f k).kind ≠ .remove c) :
    RegistryInv' C G T' H rem := by
  have wft := h.reg.wft
  refine ⟨h.reg.insert_tevs hins, fun k' ci hk' => ?_, fun k' ei hk' c => ?_, h.gevKind, fun k' h' hk' => ?_⟩
  · obtain ⟨h1, h2⟩ := h.compEvents k' ci hk'
    refine ⟨fun e he => ?_, fun e he => ?_⟩
    · obtain ⟨ei, hei, hk⟩ := h1 e he
      exact ⟨ei, get_insert_mono wft hins hei, hk⟩
    · obtain ⟨ei, hei, hk⟩ := h2 e he
      exact ⟨ei, get_insert_mono wft hins hei, hk⟩
  · rw [SlotMap.get_insertWith wft hins k'] at hk'
    split at hk'
    · cases hk'
      exact ⟨fun hk => absurd hk (hkind c).1, fun hk => absurd hk (hkind c).2⟩
    · exact h.tevComp k' ei hk' c
  · exact handlerRefs_mono (h.handlerRefs k' h' hk') (fun _ _ hs => hs) (fun _ _ hi => hi)
      (fun _ info hi => get_insert_mono wft hins hi) (fun _ _ _ hp => hp)
      (fun i _ p hp => getByIndex_insert_mono wft hins hp)

/-- an `Insert<C>` / `Remove<C>` event is registered and noted on its (live) component -/
theorem registryInv_insert_tev_comp {C : SlotMap CompInfo} {G T T' : SlotMap EvInfo} {H : SlotMap HInfo}
    {rem : List (Char × Key)} (h : RegistryInv' C G T H rem) {f : Key → EvInfo} {k : Key}
    (hins : T.insertWith f = some (k, T')) {c : Nat} {ck : Key} {ci ci' : CompInfo}
    (hci : C.getByIndex c = some (ck, ci)) (hk : (f k).kind = .insert c ∨ (f k).kind = .remove c)
    (hI : ∀ e, e ∈ ci'.insEvents ↔ e ∈ ci.insEvents ∨ ((f k).kind = .insert c ∧ e = k))
    (hR : ∀ e, e ∈ ci'.remEvents ↔ e ∈ ci.remEvents ∨ ((f k).kind = .remove c ∧ e = k)) :
    RegistryInv' (C.set ck ci') G T' H rem := by
  have wft := h.reg.wft
  have wfc := h.reg.wfc
  obtain ⟨hcg, hcidx⟩ := SlotMap.getByIndex_get hci
  have hTk : T'.get k = some (f k) := SlotMap.get_insertWith_self hins
  refine ⟨(h.reg.insert_tevs hins).set_comps_byIndex hci ci', fun k' cj hk' => ?_, fun k' ei hk' c' => ?_,
    h.gevKind, fun k' h' hk' => ?_⟩
  · rw [SlotMap.get_set hcg ci' k'] at hk'
    split at hk'
    · next hkk =>
      cases hk'
      subst hkk
      obtain ⟨h1, h2⟩ := h.compEvents k' ci hcg
      refine ⟨fun e he => ?_, fun e he => ?_⟩
      · rcases (hI e).1 he with he | ⟨hkind, rfl⟩
        · obtain ⟨ei, hei, hk⟩ := h1 e he
          exact ⟨ei, get_insert_mono wft hins hei, hk⟩
        · exact ⟨_, hTk, by rw [hkind, hcidx]⟩
      · rcases (hR e).1 he with he | ⟨hkind, rfl⟩
        · obtain ⟨ei, hei, hk⟩ := h2 e he
          exact ⟨ei, get_insert_mono wft hins hei, hk⟩
        · exact ⟨_, hTk, by rw [hkind, hcidx]⟩
    · obtain ⟨h1, h2⟩ := h.compEvents k' cj hk'
      refine ⟨fun e he => ?_, fun e he => ?_⟩
      · obtain ⟨ei, hei, hk⟩ := h1 e he
        exact ⟨ei, get_insert_mono wft hins hei, hk⟩
      · obtain ⟨ei, hei, hk⟩ := h2 e he
        exact ⟨ei, get_insert_mono wft hins hei, hk⟩
  · rw [SlotMap.get_insertWith wft hins k'] at hk'
    split at hk'
    · next hkk =>
      cases hk'
      subst hkk
      have hnew : (C.set ck ci').getByIndex c = some (ck, ci') := by
        have := getByIndex_set wfc hcg ci' hci
        rwa [if_pos rfl] at this
      refine ⟨fun hkind => ?_, fun hkind => ?_⟩
      · have hcc : c' = c := by
          rcases hk with hk | hk <;> rw [hk] at hkind <;> cases hkind
          rfl
        subst hcc
        exact ⟨ck, ci', hnew, (hI k').2 (.inr ⟨hkind, rfl⟩)⟩
      · have hcc : c' = c := by
          rcases hk with hk | hk <;> rw [hk] at hkind <;> cases hkind
          rfl
        subst hcc
        exact ⟨ck, ci', hnew, (hR k').2 (.inr ⟨hkind, rfl⟩)⟩
    · obtain ⟨h1, h2⟩ := h.tevComp k' ei hk' c'
      refine ⟨fun hkind => ?_, fun hkind => ?_⟩
      · obtain ⟨ck', cj, hcj, hm⟩ := h1 hkind
        refine ⟨ck', _, getByIndex_set wfc hcg ci' hcj, ?_⟩
        split
        · next hkk =>
          subst hkk
          have : cj = ci := by
            have := (SlotMap.getByIndex_get hcj).1
            rw [hcg] at this; cases this; rfl
          subst this
          exact (hI k').2 (.inl hm)
        · exact hm
      · obtain ⟨ck', cj, hcj, hm⟩ := h2 hkind
        refine ⟨ck', _, getByIndex_set wfc hcg ci' hcj, ?_⟩
        split
        · next hkk =>
          subst hkk
          have : cj = ci := by
            have := (SlotMap.getByIndex_get hcj).1
            rw [hcg] at this; cases this; rfl
          subst this
          exact (hR k').2 (.inl hm)
        · exact hm
  · exact handlerRefs_mono (h.handlerRefs k' h' hk') (fun _ _ hs => getByIndex_set_isSome wfc hcg ci' hs)
      (fun _ _ hi => hi) (fun _ info hi => get_insert_mono wft hins hi) (fun _ _ _ hp => hp)
      (fun i _ p hp => getByIndex_insert_mono wft hins hp)

end InvV6

theorem regTev_keeps_registry : Obl.regTev_keeps .registry := by
  intro w ty kind nd k tevs' hw _ hlive hins
  have h := hw.registry
  have hkind : (Step.tevEntry ty kind nd k).kind = kind := rfl
  show RegistryInv (Step.noteEvent { w with tevs := tevs' } kind k)
  unfold Step.noteEvent
  cases kind with
  | insert c =>
    dsimp only
    cases hci : w.comps.getByIndex c with
    | none => have := hlive c (.inl rfl); rw [hci] at this; cases this
    | some p =>
      obtain ⟨ck, ci⟩ := p
      dsimp only
      refine registryInv_insert_tev_comp h hins hci (.inl hkind) (fun e => ?_) (fun e => ?_)
      · simp [hkind]
      · simp [hkind]
  | remove c =>
    dsimp only
    cases hci : w.comps.getByIndex c with
    | none => have := hlive c (.inr rfl); rw [hci] at this; cases this
    | some p =>
      obtain ⟨ck, ci⟩ := p
      dsimp only
      refine registryInv_insert_tev_comp h hins hci (.inr hkind) (fun e => ?_) (fun e => ?_)
      · simp [hkind]
      · simp [hkind]
  | normal => exact registryInv_insert_tev_plain h hins fun c => by rw [hkind]; exact ⟨nofun, nofun⟩
  | spawn => exact registryInv_insert_tev_plain h hins fun c => by rw [hkind]; exact ⟨nofun, nofun⟩
  | despawn => exact registryInv_insert_tev_plain h hins fun c => by rw [hkind]; exact ⟨nofun, nofun⟩

/-! ### `setGen` (frame), `removeHandlerPure` -/

theorem setGen_keeps_registry : Obl.setGen_keeps .registry := by
  intro w id gen loc s a hw _ _ _ _ _ _
  exact hw.registry

theorem removeHandlerPure_keeps_registry : Obl.removeHandlerPure_keeps .registry := by
  intro w k h hw hk
  have hr := hw.registry
  have wfh := hw.winv.handlersWF
  obtain ⟨-, -, -, -, e5, e6, e7, -⟩ := removeHandlerPure_frame w k h
  show RegistryInv' (removeHandlerPure w k h).comps (removeHandlerPure w k h).gevs (removeHandlerPure w k h).tevs
    (removeHandlerPure w k h).handlers (removeHandlerPure w k h).removedIds
  rw [e5, e6, e7, removeHandlerPure_handlers, removeHandlerPure_removedIds]
  cases hrm : w.handlers.remove k with
  | none =>
    have := SlotMap.remove_eq_none_iff.1 hrm
    rw [hk] at this; cases this
  | some p =>
    obtain ⟨v, hs⟩ := p
    dsimp only
    refine ⟨hr.reg.remove_handlers hrm, hr.compEvents, hr.tevComp, hr.gevKind, fun k' h' hk' => ?_⟩
    exact hr.handlerRefs k' h' (get_of_get_remove wfh hrm hk').2

/-! ### `registerAll` -/

namespace InvV6

section
local macro_rules | `(tactic| keeps_leaf) => `(tactic| exact getArch_hk _ _)
local macro_rules | `(tactic| keeps_leaf) => `(tactic| exact ubErr_hk _)
local macro_rules | `(tactic| keeps_leaf) => `(tactic| exact registerHandler_hk _ _)
local macro_rules | `(tactic| keeps_leaf) => `(tactic| exact setArch_hk _)
theorem registerAll_hk {reg : Key → Option HInfo} (k : Key) : Keeps (HK reg) (registerAll k) := by
  unfold registerAll; keeps
end

theorem registerAll_fr {fr : Frame} (k : Key) : Keeps (FR fr) (registerAll k) := by unfold registerAll; keeps
theorem registerAll_cc {c : SlotMap CompInfo} (k : Key) : Keeps (CC c) (registerAll k) := by
  unfold registerAll; keeps
theorem registerAll_ri {D : List (Char × Key)} (k : Key) : Keeps (RegInv D) (registerAll k) := by
  unfold registerAll; keeps

theorem registerAll_registryInv (k : Key) : Keeps RegistryInv (registerAll k) :=
  keeps_registryInv (fun _ => registerAll_fr k) (fun _ => registerAll_cc k) (fun _ => registerAll_hk k)
    (registerAll_ri k)

end InvV6

theorem registerAll_keeps_registry : Obl.registerAll_keeps .registry := by
  intro w k h handlers' hw hpre
  have hr := hw.registry
  obtain ⟨mk, hins, hmk⟩ := hpre.ins
  have wfh := hw.winv.handlersWF
  refine Hoare.pre (Hoare.of_keeps_panicOnly (registerAll_registryInv k)) ?_
  rintro _ rfl
  show RegistryInv' w.comps w.gevs w.tevs handlers' w.removedIds
  refine ⟨hr.reg.insert_handlers hins, hr.compEvents, hr.tevComp, hr.gevKind, fun k' h' hk' => ?_⟩
  rw [SlotMap.get_insertWith wfh hins k'] at hk'
  split at hk'
  · cases hk'
    rw [hmk]
    exact hpre.refs
  · exact hr.handlerRefs k' h' hk'

/-! ### `removeEventFinish` -/

namespace InvV6

/-- the bookkeeping on the component of a removed `Insert<C>` / `Remove<C>` event -/
def unnote (w : World) (kind : EvKind) (k : Key) : World :=
  match kind with
  | .insert c =>
    match w.comps.getByIndex c with
    | some (ck, ci) => { w with comps := w.comps.set ck { ci with insEvents := ci.insEvents.filter (· != k) } }
    | none => w
  | .remove c =>
    match w.comps.getByIndex c with
    | some (ck, ci) => { w with comps := w.comps.set ck { ci with remEvents := ci.remEvents.filter (· != k) } }
    | none => w
  | _ => w

/-- `removeEventFinish` in closed form, targeted events -/
theorem removeEventFinish_run_t {ty : EvTy} (k : Key) (w : World) (ht : ty.targeted = true) :
    (removeEventFinish ty k).run.run w =
      match w.tevs.remove k with
      | none => (.error (.panic "internal:unwrap on None (remove_targeted_event)"), w)
      | some (info, tevs') =>
        (.ok true, unnote { w with tevs := tevs', removedIds := ('t', k) :: w.removedIds } info.kind k) := by
  unfold removeEventFinish
  simp only [ht, if_true, run_bind, run_get]
  cases hr : w.tevs.remove k with
  | none => rfl
  | some p =>
    obtain ⟨info, tevs'⟩ := p
    simp only [run_bind, run_set]
    cases info.kind with
    | insert c =>
      simp only [run_bind, run_get, unnote]
      cases w.comps.getByIndex c with
      | none => simp only [run_pure]
      | some r => obtain ⟨ck, ci⟩ := r; simp only [run_bind, run_set, run_pure]
    | remove c =>
      simp only [run_bind, run_get, unnote]
      cases w.comps.getByIndex c with
      | none => simp only [run_pure]
      | some r => obtain ⟨ck, ci⟩ := r; simp only [run_bind, run_set, run_pure]
    | _ => simp only [run_pure, unnote]

/-- `removeEventFinish` in closed form, global events -/
theorem removeEventFinish_run_g {ty : EvTy} (k : Key) (w : World) (ht : ty.targeted = false) :
    (removeEventFinish ty k).run.run w =
      match w.gevs.remove k with
      | none => (.error (.panic "internal:unwrap on None (remove_global_event)"), w)
      | some (_, gevs') => (.ok true, { w with gevs := gevs', removedIds := ('g', k) :: w.removedIds }) := by
  unfold removeEventFinish
  simp only [ht, Bool.false_eq_true, if_false, run_bind, run_get]
  cases hr : w.gevs.remove k with
  | none => rfl
  | some p =>
    obtain ⟨info, gevs'⟩ := p
    simp only [run_bind, run_set, run_pure]

theorem registryInv_remove_gev {C : SlotMap CompInfo} {G G' T : SlotMap EvInfo} {H : SlotMap HInfo}
    {rem : List (Char × Key)} (h : RegistryInv' C G T H rem) {k : Key} {info : EvInfo}
    (hrm : G.remove k = some (info, G'))
    (hun : ∀ hk h', H.get hk = some h' → ¬ (h'.recv.targeted = false ∧ h'.recvKey = k) ∧ k.idx ∉ h'.sentG) :
    RegistryInv' C G' T H (('g', k) :: rem) := by
  have wfg := h.reg.wfg
  refine ⟨h.reg.remove_gevs hrm, h.compEvents, h.tevComp, fun k' ei hk' => ?_, fun k' h' hk' => ?_⟩
  · exact h.gevKind k' ei (get_of_get_remove wfg hrm hk').2
  · obtain ⟨u1, u2⟩ := hun k' h' hk'
    refine handlerRefs_mono (h.handlerRefs k' h' hk') (fun _ _ hs => hs) (fun ht info' hi => ?_)
      (fun _ _ hi => hi) (fun i hi p hp => ?_) (fun _ _ _ hp => hp)
    · exact get_remove_ne wfg hrm hi fun e => u1 ⟨ht, e⟩
    · rw [getByIndex_remove_ne wfg hrm (fun e => u2 (e ▸ hi))]; exact hp

theorem registryInv_remove_tev_plain {C : SlotMap CompInfo} {G T T' : SlotMap EvInfo} {H : SlotMap HInfo}
    {rem : List (Char × Key)} (h : RegistryInv' C G T H rem) {k : Key} {info : EvInfo}
    (hrm : T.remove k = some (info, T'))
    (hun : ∀ hk h', H.get hk = some h' → ¬ (h'.recv.targeted = true ∧ h'.recvKey = k) ∧ k.idx ∉ h'.sentT)
    (hkind : ∀ c, info.kind ≠ .insert c ∧ info.kind ≠ .remove c) :
    RegistryInv' C G T' H (('t', k) :: rem) := by
  have wft := h.reg.wft
  have hTk : T.get k = some info := SlotMap.get_of_remove hrm
  refine ⟨h.reg.remove_tevs hrm, fun k' cj hk' => ?_, fun k' ei hk' c => ?_, h.gevKind, fun k' h' hk' => ?_⟩
  · obtain ⟨h1, h2⟩ := h.compEvents k' cj hk'
    refine ⟨fun e he => ?_, fun e he => ?_⟩
    · obtain ⟨ei, hei, hk⟩ := h1 e he
      refine ⟨ei, get_remove_ne wft hrm hei ?_, hk⟩
      rintro rfl
      rw [hTk] at hei; cases hei
      exact (hkind _).1 hk
    · obtain ⟨ei, hei, hk⟩ := h2 e he
      refine ⟨ei, get_remove_ne wft hrm hei ?_, hk⟩
      rintro rfl
      rw [hTk] at hei; cases hei
      exact (hkind _).2 hk
  · exact h.tevComp k' ei (get_of_get_remove wft hrm hk').2 c
  · obtain ⟨u1, u2⟩ := hun k' h' hk'
    refine handlerRefs_mono (h.handlerRefs k' h' hk') (fun _ _ hs => hs) (fun _ _ hi => hi)
      (fun ht info' hi => ?_) (fun _ _ _ hp => hp) (fun i hi p hp => ?_)
    · exact get_remove_ne wft hrm hi fun e => u1 ⟨ht, e⟩
    · rw [getByIndex_remove_ne wft hrm (fun e => u2 (e ▸ hi))]; exact hp

theorem registryInv_remove_tev_comp {C : SlotMap CompInfo} {G T T' : SlotMap EvInfo} {H : SlotMap HInfo}
    {rem : List (Char × Key)} (h : RegistryInv' C G T H rem) {k : Key} {info : EvInfo}
    (hrm : T.remove k = some (info, T'))
    (hun : ∀ hk h', H.get hk = some h' → ¬ (h'.recv.targeted = true ∧ h'.recvKey = k) ∧ k.idx ∉ h'.sentT)
    {c : Nat} {ck : Key} {ci ci' : CompInfo} (hci : C.getByIndex c = some (ck, ci))
    (hk : info.kind = .insert c ∨ info.kind = .remove c)
    (hI1 : ∀ e ∈ ci'.insEvents, e ∈ ci.insEvents ∧ (info.kind = .insert c → e ≠ k))
    (hI2 : ∀ e ∈ ci.insEvents, e ≠ k → e ∈ ci'.insEvents)
    (hR1 : ∀ e ∈ ci'.remEvents, e ∈ ci.remEvents ∧ (info.kind = .remove c → e ≠ k))
    (hR2 : ∀ e ∈ ci.remEvents, e ≠ k → e ∈ ci'.remEvents) :
    RegistryInv' (C.set ck ci') G T' H (('t', k) :: rem) := by
  have wft := h.reg.wft
  have wfc := h.reg.wfc
  obtain ⟨hcg, hcidx⟩ := SlotMap.getByIndex_get hci
  have hTk : T.get k = some info := SlotMap.get_of_remove hrm
  refine ⟨(h.reg.remove_tevs hrm).set_comps_byIndex hci ci', fun k' cj hk' => ?_, fun k' ei hk' c' => ?_,
    h.gevKind, fun k' h' hk' => ?_⟩
  · rw [SlotMap.get_set hcg ci' k'] at hk'
    split at hk'
    · next hkk =>
      cases hk'
      subst hkk
      obtain ⟨h1, h2⟩ := h.compEvents k' ci hcg
      refine ⟨fun e he => ?_, fun e he => ?_⟩
      · obtain ⟨he1, he2⟩ := hI1 e he
        obtain ⟨ei, hei, hkd⟩ := h1 e he1
        refine ⟨ei, get_remove_ne wft hrm hei ?_, hkd⟩
        rintro rfl
        rw [hTk] at hei; cases hei
        exact he2 (by rw [hkd, hcidx]) rfl
      · obtain ⟨he1, he2⟩ := hR1 e he
        obtain ⟨ei, hei, hkd⟩ := h2 e he1
        refine ⟨ei, get_remove_ne wft hrm hei ?_, hkd⟩
        rintro rfl
        rw [hTk] at hei; cases hei
        exact he2 (by rw [hkd, hcidx]) rfl
    · next hkk =>
      obtain ⟨h1, h2⟩ := h.compEvents k' cj hk'
      refine ⟨fun e he => ?_, fun e he => ?_⟩
      · obtain ⟨ei, hei, hkd⟩ := h1 e he
        refine ⟨ei, get_remove_ne wft hrm hei ?_, hkd⟩
        rintro rfl
        rw [hTk] at hei; cases hei
        rcases hk with hk | hk <;> rw [hk] at hkd <;> cases hkd
        exact hkk (key_eq_of_idx hk' hcg hcidx.symm)
      · obtain ⟨ei, hei, hkd⟩ := h2 e he
        refine ⟨ei, get_remove_ne wft hrm hei ?_, hkd⟩
        rintro rfl
        rw [hTk] at hei; cases hei
        rcases hk with hk | hk <;> rw [hk] at hkd <;> cases hkd
        exact hkk (key_eq_of_idx hk' hcg hcidx.symm)
  · obtain ⟨hne, hk0⟩ := get_of_get_remove wft hrm hk'
    obtain ⟨h1, h2⟩ := h.tevComp k' ei hk0 c'
    refine ⟨fun hkind => ?_, fun hkind => ?_⟩
    · obtain ⟨ck', cj, hcj, hm⟩ := h1 hkind
      refine ⟨ck', _, getByIndex_set wfc hcg ci' hcj, ?_⟩
      split
      · next hkk =>
        subst hkk
        have : cj = ci := by
          have := (SlotMap.getByIndex_get hcj).1
          rw [hcg] at this; cases this; rfl
        subst this
        exact hI2 k' hm hne
      · exact hm
    · obtain ⟨ck', cj, hcj, hm⟩ := h2 hkind
      refine ⟨ck', _, getByIndex_set wfc hcg ci' hcj, ?_⟩
      split
      · next hkk =>
        subst hkk
        have : cj = ci := by
          have := (SlotMap.getByIndex_get hcj).1
          rw [hcg] at this; cases this; rfl
        subst this
        exact hR2 k' hm hne
      · exact hm
  · obtain ⟨u1, u2⟩ := hun k' h' hk'
    refine handlerRefs_mono (h.handlerRefs k' h' hk') (fun _ _ hs => getByIndex_set_isSome wfc hcg ci' hs)
      (fun _ _ hi => hi) (fun ht info' hi => ?_) (fun _ _ _ hp => hp) (fun i hi p hp => ?_)
    · exact get_remove_ne wft hrm hi fun e => u1 ⟨ht, e⟩
    · rw [getByIndex_remove_ne wft hrm (fun e => u2 (e ▸ hi))]; exact hp

end InvV6

theorem removeEventFinish_keeps_registry : Obl.removeEventFinish_keeps .registry := by
  intro ty k
  refine ⟨fun w hw => ?_⟩
  obtain ⟨hw, hun⟩ := hw
  have h := hw.registry
  cases ht : ty.targeted with
  | false =>
    have hun' : ∀ hk h', w.handlers.get hk = some h' →
        ¬ (h'.recv.targeted = false ∧ h'.recvKey = k) ∧ k.idx ∉ h'.sentG := fun hk h' hg => by
      have := hun hk h' hg
      rw [ht] at this
      exact this
    rw [removeEventFinish_run_g k w ht]
    cases hrm : w.gevs.remove k with
    | none => exact fun _ => h
    | some p =>
      obtain ⟨info, gevs'⟩ := p
      exact registryInv_remove_gev h hrm hun'
  | true =>
    have hun' : ∀ hk h', w.handlers.get hk = some h' →
        ¬ (h'.recv.targeted = true ∧ h'.recvKey = k) ∧ k.idx ∉ h'.sentT := fun hk h' hg => by
      have := hun hk h' hg
      rw [ht] at this
      exact this
    rw [removeEventFinish_run_t k w ht]
    cases hrm : w.tevs.remove k with
    | none => exact fun _ => h
    | some p =>
      obtain ⟨info, tevs'⟩ := p
      have hTk : w.tevs.get k = some info := SlotMap.get_of_remove hrm
      show RegistryInv (unnote { w with tevs := tevs', removedIds := ('t', k) :: w.removedIds } info.kind k)
      unfold unnote
      cases hkind : info.kind with
      | insert c =>
        dsimp only
        obtain ⟨ck, ci, hci, -⟩ := (h.tevComp k info hTk c).1 hkind
        rw [show ({ w with tevs := tevs', removedIds := ('t', k) :: w.removedIds } : World).comps.getByIndex c =
          some (ck, ci) from hci]
        dsimp only
        refine registryInv_remove_tev_comp h hrm hun' hci (.inl hkind) ?_ ?_ ?_ ?_
        · intro e he
          have : e ∈ ci.insEvents ∧ ¬ e = k := by simpa using he
          exact ⟨this.1, fun _ => this.2⟩
        · intro e he hne; simpa using ⟨he, hne⟩
        · intro e he; exact ⟨he, fun hk => by rw [hkind] at hk; cases hk⟩
        · intro e he _; exact he
      | remove c =>
        dsimp only
        obtain ⟨ck, ci, hci, -⟩ := (h.tevComp k info hTk c).2 hkind
        rw [show ({ w with tevs := tevs', removedIds := ('t', k) :: w.removedIds } : World).comps.getByIndex c =
          some (ck, ci) from hci]
        dsimp only
        refine registryInv_remove_tev_comp h hrm hun' hci (.inr hkind) ?_ ?_ ?_ ?_
        · intro e he; exact ⟨he, fun hk => by rw [hkind] at hk; cases hk⟩
        · intro e he _; exact he
        · intro e he
          have : e ∈ ci.remEvents ∧ ¬ e = k := by simpa using he
          exact ⟨this.1, fun _ => this.2⟩
        · intro e he hne; simpa using ⟨he, hne⟩
      | normal => exact registryInv_remove_tev_plain h hrm hun' fun c => by rw [hkind]; exact ⟨nofun, nofun⟩
      | spawn => exact registryInv_remove_tev_plain h hrm hun' fun c => by rw [hkind]; exact ⟨nofun, nofun⟩
      | despawn => exact registryInv_remove_tev_plain h hrm hun' fun c => by rw [hkind]; exact ⟨nofun, nofun⟩

/-! ### `dropComp` -/

namespace InvV6

theorem archsRemoveComponent_fr {fr : Frame} (info : CompInfo) : Keeps (FR fr) (archsRemoveComponent info) := by
  unfold archsRemoveComponent
  keeps
  all_goals (refine Keeps.modify fun w h => ?_; split <;> exact h)

section
local macro_rules | `(tactic| keeps_leaf) => `(tactic| exact getArch_hk _ _)
local macro_rules | `(tactic| keeps_leaf) => `(tactic| exact ubErr_hk _)
local macro_rules | `(tactic| keeps_leaf) => `(tactic| exact handlerRemoveArch_hk _ _)
local macro_rules | `(tactic| keeps_leaf) => `(tactic| exact setArch_hk _)
local macro_rules | `(tactic| keeps_leaf) => `(tactic| exact dropCell_hk _ _)
theorem archsRemoveComponent_hk {reg : Key → Option HInfo} (info : CompInfo) :
    Keeps (HK reg) (archsRemoveComponent info) := by
  unfold archsRemoveComponent
  keeps
  all_goals (refine Keeps.modify fun w h => ?_; split <;> exact h)
end

theorem dropCompTail_registryInv (info : CompInfo) : Keeps RegistryInv (dropCompTail info) := by
  unfold dropCompTail
  exact Keeps.bind
    (keeps_registryInv (fun _ => archsRemoveComponent_fr info) (fun _ => archsRemoveComponent_cc info)
      (fun _ => archsRemoveComponent_hk info) (archsRemoveComponent_ri info))
    fun _ => keeps_registryInv (fun _ => resRefresh_fr) (fun _ => resRefresh_cc) (fun _ => resRefresh_hk) resRefresh_ri

/-- the registry write of `removeComponent`: nothing refers to the component any more -/
theorem registryInv_remove_comp {C C' : SlotMap CompInfo} {G T : SlotMap EvInfo} {H : SlotMap HInfo}
    {rem : List (Char × Key)} (h : RegistryInv' C G T H rem) {k : Key} {info : CompInfo}
    (hrm : C.remove k = some (info, C')) (hun : ∀ hk h', H.get hk = some h' → k.idx ∉ h'.referenced)
    (hI : info.insEvents = []) (hR : info.remEvents = []) :
    RegistryInv' C' G T H (('c', k) :: rem) := by
  have wfc := h.reg.wfc
  have hCk : C.get k = some info := SlotMap.get_of_remove hrm
  have keep : ∀ {c : Nat} {ck : Key} {ci : CompInfo}, C.getByIndex c = some (ck, ci) → ck ≠ k →
      C'.getByIndex c = some (ck, ci) := by
    intro c ck ci hci hne
    obtain ⟨h1, h2⟩ := SlotMap.getByIndex_get hci
    rw [getByIndex_remove_ne wfc hrm]
    · exact hci
    · intro e
      exact hne (key_eq_of_idx h1 hCk (h2.trans e))
  refine ⟨h.reg.remove_comps hrm, fun k' ci hk' => ?_, fun k' ei hk' c => ?_, h.gevKind, fun k' h' hk' => ?_⟩
  · exact h.compEvents k' ci (get_of_get_remove wfc hrm hk').2
  · obtain ⟨h1, h2⟩ := h.tevComp k' ei hk' c
    refine ⟨fun hkind => ?_, fun hkind => ?_⟩
    · obtain ⟨ck, ci, hci, hm⟩ := h1 hkind
      refine ⟨ck, ci, keep hci ?_, hm⟩
      rintro rfl
      have := (SlotMap.getByIndex_get hci).1
      rw [hCk] at this; cases this
      rw [hI] at hm; cases hm
    · obtain ⟨ck, ci, hci, hm⟩ := h2 hkind
      refine ⟨ck, ci, keep hci ?_, hm⟩
      rintro rfl
      have := (SlotMap.getByIndex_get hci).1
      rw [hCk] at this; cases this
      rw [hR] at hm; cases hm
  · refine handlerRefs_mono (h.handlerRefs k' h' hk') (fun c hc hs => ?_) (fun _ _ hi => hi) (fun _ _ hi => hi)
      (fun _ _ _ hp => hp) (fun _ _ _ hp => hp)
    rw [getByIndex_remove_ne wfc hrm (fun e => hun k' h' hk' (e ▸ hc))]
    exact hs

end InvV6

theorem dropComp_keeps_registry : Obl.dropComp_keeps .registry := by
  intro w k info comps' hw hun hrm
  refine Hoare.pre (Hoare.of_keeps_panicOnly (dropCompTail_registryInv info)) ?_
  rintro _ rfl
  exact registryInv_remove_comp hw.registry hrm hun.handlers hun.insEvents hun.remEvents

/-- **section B for G5 is complete** -/
theorem registry_sectionB :
    Obl.regGev_keeps .registry ∧ Obl.regComp_keeps .registry ∧ Obl.regTev_keeps .registry ∧
    Obl.registerAll_keeps .registry ∧ Obl.removeHandlerPure_keeps .registry ∧
    Obl.removeEventFinish_keeps .registry ∧ Obl.dropComp_keeps .registry ∧ Obl.setGen_keeps .registry :=
  ⟨regGev_keeps_registry, regComp_keeps_registry, regTev_keeps_registry, registerAll_keeps_registry,
    removeHandlerPure_keeps_registry, removeEventFinish_keeps_registry, dropComp_keeps_registry,
    setGen_keeps_registry⟩

end Evenio
