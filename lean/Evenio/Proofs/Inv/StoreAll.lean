import Evenio.Proofs.Inv.Store
import Evenio.Proofs.Inv.Store2
import Evenio.Proofs.Inv.StoreSetGen
import Evenio.Proofs.Inv.StoreDropComp
import Evenio.Proofs.Inv.StoreCount
/-! # G2 — the storage group: every obligation of worker 2 in one environment

`lake build Evenio.Proofs.Inv.StoreAll`.  All fourteen obligations with `g = .store` (plus `moveEntity` from the seed)
and `ExecLeft.count`. -/
namespace Evenio

/-- section A for the storage group -/
theorem store_sectionA :
    Obl.reserve_keeps .store ∧ Obl.bumpCell_keeps .store ∧ Obl.spawnAll_keeps .store ∧
    Obl.traverseInsert_keeps .store ∧ Obl.traverseRemove_keeps .store ∧ Obl.moveEntity_keeps .store ∧
    Obl.removeEntity_keeps .store :=
  ⟨reserve_keeps_store, bumpCell_keeps_store, spawnAll_keeps_store, traverseInsert_keeps_store,
    traverseRemove_keeps_store, moveEntity_keeps_store, removeEntity_keeps_store⟩

/-- section B for the storage group -/
theorem store_sectionB :
    Obl.regGev_keeps .store ∧ Obl.regComp_keeps .store ∧ Obl.regTev_keeps .store ∧ Obl.registerAll_keeps .store ∧
    Obl.removeHandlerPure_keeps .store ∧ Obl.removeEventFinish_keeps .store ∧ Obl.dropComp_keeps .store ∧
    Obl.setGen_keeps .store :=
  ⟨regGev_keeps_store, regComp_keeps_store, regTev_keeps_store, registerAll_keeps_store,
    removeHandlerPure_keeps_store, removeEventFinish_keeps_store, dropComp_keeps_store, setGen_keeps_store⟩

/-- `ExecLeft.count` -/
example (w : World) (h : WInv w) (hslab : ∀ s : Slab Arch, Slab.WF s → s.wfCheck = true)
    (hslot : ∀ {α : Type} (sm : SlotMap α), sm.WF → sm.wfCheck = true) : ExecLeft w :=
  { count := winv_implies_count h, slabCheck := hslab, slotCheck := hslot }

end Evenio

#print axioms Evenio.store_sectionA
#print axioms Evenio.store_sectionB
#print axioms Evenio.winv_implies_count
